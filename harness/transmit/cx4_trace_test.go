//go:build verif

package transmit

// Coverage extension CX4: B2 driver for spec/TraceTransmission.tla.
//
// Each round builds a fresh, started DirectTransmission (fake clock, real
// net/http client, scripted httptest servers on loopback) and lets several
// producer goroutines call EnqueueEvent for 2-4 destinations while another
// goroutine moves the clock (one unit at a time; the stale-batch dispatcher is
// handed its ticks and finishes its pass before the clock moves again), the
// servers answer by a seeded script (200 JSON/msgpack, per-event statuses,
// short and undecodable bodies, 400/401/500, 429/503 with various Retry-After
// values, timeouts) and finally Stop() is called while batches are pending,
// requests are in flight and sendBatch goroutines are asleep on Retry-After.
//
// Every hook event of the transmission (transmit/verif_on.go: emitted while the
// lock protecting the reported state is held), every request the servers
// receive and the driver's own steps are written, in the order of one mutex, as
// NDJSON lines; TLC then checks that the log is a behaviour of the
// per-critical-section model (TraceTransmission.tla) and evaluates the
// invariants of Transmission.tla after every line. Event ids in the log are the
// positions of the enqueue lines (assigned under batch.mutex by the hook).
//
// Schedules are the Go scheduler's, widened only where the transmission calls a
// collaborator (the clock's Now(), the metrics) and steered by the driver: some
// enqueues are released when the clock is about to move, so that they overlap
// the stale pass; in a third of the rounds the producers are released together
// (spin barrier) for their i-th event to destination i, so that batch creation
// collides. Environment: CX4_MAXBATCH / CX4_SUB (must equal the constants of the
// cfg the log is validated with), CX4_MODE (mix | split), CX4_MAXROUNDS,
// CX4_MAXLINES, and CX4_CORRUPT (start | outcome: falsifies one logged field, to
// show that the log is really compared).
//
// No wall-clock waits: the only timers are watchdogs that turn a hang of the
// code into a failed run.

import (
	"bytes"
	"context"
	"fmt"
	"io"
	"math/rand"
	"net/http"
	"net/http/httptest"
	"net/url"
	"os"
	"runtime"
	"sort"
	"strconv"
	"strings"
	"sync"
	"sync/atomic"
	"testing"
	"time"

	"github.com/jonboulle/clockwork"
	"github.com/tinylib/msgp/msgp"
	"github.com/vmihailenco/msgpack/v5"

	"github.com/honeycombio/refinery/config"
	"github.com/honeycombio/refinery/internal/verifkit"
	"github.com/honeycombio/refinery/logger"
	"github.com/honeycombio/refinery/metrics"
	"github.com/honeycombio/refinery/types"
)

const cx4Unit = time.Second

var (
	cx4T0    = time.Date(2031, 3, 1, 0, 0, 0, 0, time.UTC)
	cx4Stamp = time.Date(2030, 6, 1, 12, 0, 0, 0, time.UTC)
	cx4Cfg   = &config.MockConfig{AdditionalErrorFields: []string{"id"}}
)

// the destinations of Transmission.tla (Triples): each differs from A in one component
var cx4Dests = []struct{ letter, host, key, ds string }{
	{"A", "h1", "k1", "d1"},
	{"B", "h1", "k1", "d 2/x%"},
	{"C", "h1", "k2", "d1"},
	{"D", "h2", "k1", "d1"},
}

// ---------------------------------------------------------------------------
// metrics and logger handed to the transmission

type cx4Metrics struct {
	mu   sync.Mutex
	ctr  map[string]int64
	ups  map[string]int64
	down map[string]int64
}

func cx4NewMetrics() *cx4Metrics {
	return &cx4Metrics{ctr: map[string]int64{}, ups: map[string]int64{}, down: map[string]int64{}}
}

func (m *cx4Metrics) add(mm map[string]int64, name string, n int64) {
	m.mu.Lock()
	mm[name] += n
	m.mu.Unlock()
}
func (m *cx4Metrics) read(mm map[string]int64, name string) int {
	m.mu.Lock()
	defer m.mu.Unlock()
	return int(mm[name])
}
func (m *cx4Metrics) Register(metrics.Metadata)  {}
func (m *cx4Metrics) Increment(name string)      { m.add(m.ctr, name, 1) }
func (m *cx4Metrics) Count(name string, n int64) { m.add(m.ctr, name, n) }
func (m *cx4Metrics) Gauge(string, float64)      {}
func (m *cx4Metrics) Histogram(string, float64)  { runtime.Gosched() }
func (m *cx4Metrics) Up(name string)             { runtime.Gosched(); m.add(m.ups, name, 1) }
func (m *cx4Metrics) Down(name string)           { runtime.Gosched(); m.add(m.down, name, 1) }
func (m *cx4Metrics) Store(string, float64)      {}
func (m *cx4Metrics) Get(string) (float64, bool) { return 0, false }

var _ metrics.Metrics = (*cx4Metrics)(nil)

type cx4Logger struct {
	mu     sync.Mutex
	errIDs map[int]bool // real ids named in error log lines
	odd    []string
}

type cx4NullEntry struct{}

func (cx4NullEntry) WithField(string, interface{}) logger.Entry     { return cx4NullEntry{} }
func (cx4NullEntry) WithString(string, string) logger.Entry         { return cx4NullEntry{} }
func (cx4NullEntry) WithFields(map[string]interface{}) logger.Entry { return cx4NullEntry{} }
func (cx4NullEntry) Logf(string, ...interface{})                    {}

type cx4ErrEntry struct {
	l  *cx4Logger
	id interface{}
}

func (e cx4ErrEntry) WithField(k string, v interface{}) logger.Entry {
	if k == "id" {
		e.id = v
	}
	return e
}
func (e cx4ErrEntry) WithString(k string, v string) logger.Entry { return e.WithField(k, v) }
func (e cx4ErrEntry) WithFields(f map[string]interface{}) logger.Entry {
	if v, ok := f["id"]; ok {
		e.id = v
	}
	return e
}
func (e cx4ErrEntry) Logf(string, ...interface{}) {
	if e.id == nil {
		return
	}
	e.l.mu.Lock()
	defer e.l.mu.Unlock()
	if s, ok := e.id.(string); ok {
		if n, err := strconv.Atoi(strings.TrimPrefix(s, "e")); err == nil {
			e.l.errIDs[n] = true
			return
		}
	}
	e.l.odd = append(e.l.odd, fmt.Sprint(e.id))
}

func (l *cx4Logger) Debug() logger.Entry   { return cx4NullEntry{} }
func (l *cx4Logger) Info() logger.Entry    { return cx4NullEntry{} }
func (l *cx4Logger) Warn() logger.Entry    { return cx4NullEntry{} }
func (l *cx4Logger) Error() logger.Entry   { return cx4ErrEntry{l: l} }
func (l *cx4Logger) SetLevel(string) error { return nil }

// ---------------------------------------------------------------------------
// the fake clock
//
// "advance" is logged before the clock moves and no reading can be taken in
// between (amu), so a reading the code logs later is never ahead of the
// model's clock, and a sleeper registered after an advance line is registered
// at the advanced instant. Tickers are driven by the harness: a due tick is
// handed over with a blocking send, and one more tick (of another ticker if
// there is one) is the fence that tells that the consumer is back at its
// select, i.e. that the stale pass is over, before the clock moves again.

type cx4Ticker struct {
	c       *cx4Clock
	ch      chan time.Time
	period  time.Duration
	next    time.Time
	stopped bool
}

func (t *cx4Ticker) Chan() <-chan time.Time { return t.ch }
func (t *cx4Ticker) Reset(d time.Duration) {
	t.c.mu.Lock()
	t.period, t.next, t.stopped = d, t.c.FakeClock.Now().Add(d), false
	t.c.mu.Unlock()
}
func (t *cx4Ticker) Stop() {
	t.c.mu.Lock()
	t.stopped = true
	t.c.mu.Unlock()
}

type cx4Clock struct {
	*clockwork.FakeClock
	amu      sync.RWMutex
	mu       sync.Mutex
	tickers  []*cx4Ticker
	sleeping int
	quit     chan struct{} // closed when Stop is about to be called: no more ticks are handed out
	slept    chan struct{} // pinged when a goroutine has registered its Sleep
	tight    bool          // no yields in Now(): callers released together stay together
	stuck    atomic.Value  // string
}

func (c *cx4Clock) Now() time.Time {
	if !c.tight {
		runtime.Gosched()
	}
	c.amu.RLock()
	t := c.FakeClock.Now()
	c.amu.RUnlock()
	if !c.tight {
		runtime.Gosched()
	}
	return t
}
func (c *cx4Clock) Since(t time.Time) time.Duration { return c.Now().Sub(t) }
func (c *cx4Clock) Until(t time.Time) time.Duration { return t.Sub(c.Now()) }

func (c *cx4Clock) NewTicker(d time.Duration) clockwork.Ticker {
	if d <= 0 {
		panic("non-positive interval for NewTicker")
	}
	t := &cx4Ticker{c: c, ch: make(chan time.Time), period: d}
	c.mu.Lock()
	t.next = c.FakeClock.Now().Add(d)
	c.tickers = append(c.tickers, t)
	c.mu.Unlock()
	return t
}

func (c *cx4Clock) Sleep(d time.Duration) {
	c.amu.RLock()
	tm := c.FakeClock.NewTimer(d)
	c.mu.Lock()
	c.sleeping++
	c.mu.Unlock()
	c.amu.RUnlock()
	select {
	case c.slept <- struct{}{}:
	default:
	}
	<-tm.Chan()
	c.mu.Lock()
	c.sleeping--
	c.mu.Unlock()
}

func (c *cx4Clock) sleepers() int {
	c.mu.Lock()
	defer c.mu.Unlock()
	return c.sleeping
}

func (c *cx4Clock) nTickers() int {
	c.mu.Lock()
	defer c.mu.Unlock()
	return len(c.tickers)
}

func (c *cx4Clock) send(t *cx4Ticker, now time.Time) bool {
	wd := time.NewTimer(60 * time.Second)
	defer wd.Stop()
	select {
	case t.ch <- now:
		return true
	case <-c.quit:
		return false
	case <-wd.C:
		c.stuck.Store(fmt.Sprintf("nobody took the tick of the %v ticker for 60 s", t.period))
		return false
	}
}

// move advances the clock by one unit; logAdvance writes the advance line.
func (c *cx4Clock) move(logAdvance func(now int)) time.Time {
	c.amu.Lock()
	now := c.FakeClock.Now().Add(cx4Unit)
	logAdvance(int(now.Sub(cx4T0) / cx4Unit))
	c.FakeClock.Advance(cx4Unit) // fires Sleep timers
	c.amu.Unlock()
	return now
}

// step moves the clock and hands out the ticks that came due.
func (c *cx4Clock) step(logAdvance func(now int)) {
	now := c.move(logAdvance)
	type due struct {
		t *cx4Ticker
		n int
	}
	var dues []due
	c.mu.Lock()
	for _, t := range c.tickers {
		if t.stopped {
			continue
		}
		n := 0
		for !t.next.After(now) {
			t.next = t.next.Add(t.period)
			n++
		}
		if n > 0 {
			dues = append(dues, due{t, n})
		}
	}
	c.mu.Unlock()
	var fence *cx4Ticker
	for _, x := range dues {
		if !c.send(x.t, now) {
			return
		}
		if fence == nil || x.n > 1 {
			fence = x.t
		}
	}
	if fence != nil {
		c.send(fence, now)
	}
}

// ---------------------------------------------------------------------------
// scripted servers (one per API host, shared by all rounds)

var (
	cx4Once    sync.Once
	cx4Servers map[string]*httptest.Server
	cx4Tr      *http.Transport
	cx4Cur     atomic.Pointer[cx4Round]
)

type cx4TimeoutErr struct{}

func (cx4TimeoutErr) Error() string   { return "cx4: scripted timeout awaiting response" }
func (cx4TimeoutErr) Timeout() bool   { return true }
func (cx4TimeoutErr) Temporary() bool { return true }

// cx4RT is registered on the transmission's http.Transport for "http": the
// request travels over a real loopback connection; the server's scripted
// timeout marker becomes the error net/http reports for a timed-out exchange.
type cx4RT struct{ inner *http.Transport }

func (r *cx4RT) RoundTrip(req *http.Request) (*http.Response, error) {
	resp, err := r.inner.RoundTrip(req)
	if err == nil && resp.Header.Get("X-CX4-Timeout") != "" {
		io.Copy(io.Discard, resp.Body)
		resp.Body.Close()
		return nil, cx4TimeoutErr{}
	}
	return resp, err
}

func cx4Setup() {
	cx4Once.Do(func() {
		cx4Servers = map[string]*httptest.Server{}
		for _, h := range []string{"h1", "h2"} {
			cx4Servers[h] = httptest.NewServer(cx4Handler(h))
		}
		cx4Tr = &http.Transport{}
		cx4Tr.RegisterProtocol("http", &cx4RT{inner: &http.Transport{MaxIdleConnsPerHost: 32}})
	})
}

// cx4ScanIDs is the cheap path for bodies of megabytes (walking them with msgp
// costs seconds per event under the race detector): the array header is read
// and the id fields ("id" followed by the 6-character id string; the padding
// is all 'x') are located by pattern; their number must equal the array length.
func cx4ScanIDs(b []byte) ([]int, error) {
	n, rest, err := msgp.ReadArrayHeaderBytes(b)
	if err != nil {
		return nil, err
	}
	ids := []int{}
	pat := []byte("\xa2id\xa6e")
	for {
		i := bytes.Index(rest, pat)
		if i < 0 || len(rest) < i+len(pat)+5 {
			break
		}
		id, err := strconv.Atoi(string(rest[i+len(pat) : i+len(pat)+5]))
		if err != nil {
			return nil, err
		}
		ids = append(ids, id)
		rest = rest[i+len(pat)+5:]
	}
	if uint32(len(ids)) != n {
		return ids, fmt.Errorf("array of %d events, %d ids found", n, len(ids))
	}
	return ids, nil
}

func cx4DecodeIDs(b []byte) ([]int, error) {
	if len(b) > 100000 {
		return cx4ScanIDs(b)
	}
	ids := []int{}
	n, b, err := msgp.ReadArrayHeaderBytes(b)
	if err != nil {
		return nil, err
	}
	for i := uint32(0); i < n; i++ {
		var m uint32
		if m, b, err = msgp.ReadMapHeaderBytes(b); err != nil {
			return nil, err
		}
		id := -1
		for f := uint32(0); f < m; f++ {
			var k []byte
			if k, b, err = msgp.ReadMapKeyZC(b); err != nil {
				return nil, err
			}
			if string(k) != "data" {
				if b, err = msgp.Skip(b); err != nil {
					return nil, err
				}
				continue
			}
			var dm uint32
			if dm, b, err = msgp.ReadMapHeaderBytes(b); err != nil {
				return nil, err
			}
			for g := uint32(0); g < dm; g++ {
				var dk []byte
				if dk, b, err = msgp.ReadMapKeyZC(b); err != nil {
					return nil, err
				}
				if string(dk) == "id" {
					var sv []byte
					if sv, b, err = msgp.ReadStringZC(b); err != nil {
						return nil, err
					}
					if id, err = strconv.Atoi(strings.TrimPrefix(string(sv), "e")); err != nil {
						return nil, err
					}
				} else if b, err = msgp.Skip(b); err != nil {
					return nil, err
				}
			}
		}
		ids = append(ids, id)
	}
	if len(b) != 0 {
		return nil, fmt.Errorf("%d trailing bytes", len(b))
	}
	return ids, nil
}

func cx4Handler(host string) http.HandlerFunc {
	return func(w http.ResponseWriter, q *http.Request) {
		var body []byte
		var rerr error
		if q.ContentLength > 0 {
			body = make([]byte, q.ContentLength)
			_, rerr = io.ReadFull(q.Body, body)
		} else {
			body, rerr = io.ReadAll(q.Body)
		}
		r := cx4Cur.Load()
		if r == nil || q.Header.Get("X-CX4-Round") != r.tag {
			http.Error(w, "no such round", http.StatusInternalServerError)
			return
		}
		note := ""
		ds := ""
		ep := q.URL.EscapedPath()
		if strings.HasPrefix(ep, "/1/batch/") {
			if u, err := url.PathUnescape(strings.TrimPrefix(ep, "/1/batch/")); err == nil {
				ds = u
			} else {
				note = "path " + ep
			}
		} else {
			note = "path " + ep
		}
		if rerr != nil {
			note += " read: " + rerr.Error()
		}
		if q.Header.Get("Content-Encoding") != "" {
			note += " encoding " + q.Header.Get("Content-Encoding")
		}
		if ct := q.Header.Get("Content-Type"); ct != "application/msgpack" {
			note += " content-type " + ct
		}
		real, err := cx4DecodeIDs(body)
		if err != nil {
			note += " decode: " + err.Error()
		}
		key := q.Header.Get("X-Honeycomb-Team")
		b := r.received(host, key, ds, real, len(body), note)
		cx4Reply(w, b, len(real))
	}
}

func cx4Statuses(b string, n int) []map[string]int {
	out := []map[string]int{}
	for i := 0; i < n; i++ {
		st := http.StatusAccepted
		if strings.HasPrefix(b, "evErr") && i == 0 {
			st = http.StatusBadRequest
		}
		out = append(out, map[string]int{"status": st})
	}
	if strings.HasPrefix(b, "short") && n > 0 {
		out = out[:n-1]
	}
	return out
}

func cx4Reply(w http.ResponseWriter, b string, n int) {
	switch {
	case b == "timeout":
		w.Header().Set("X-CX4-Timeout", "1")
		w.WriteHeader(599)
	case strings.HasPrefix(b, "r429") || strings.HasPrefix(b, "r503"):
		switch ra := b[strings.Index(b, "_")+1:]; ra {
		case "none":
		case "junk":
			w.Header().Set("Retry-After", "soon")
		default:
			w.Header().Set("Retry-After", ra)
		}
		st, _ := strconv.Atoi(b[1:4])
		w.WriteHeader(st)
		w.Write([]byte(`{"error":"throttled"}`))
	case b == "e400" || b == "e401" || b == "e500":
		st, _ := strconv.Atoi(b[1:])
		w.Header().Set("Content-Type", "application/json")
		w.WriteHeader(st)
		w.Write([]byte(`{"error":"scripted"}`))
	case b == "undec":
		w.Header().Set("Content-Type", "application/json")
		w.WriteHeader(http.StatusOK)
		w.Write([]byte(`{not json`))
	case b == "undec_m":
		w.Header().Set("Content-Type", "application/msgpack")
		w.WriteHeader(http.StatusOK)
		w.Write([]byte{0xa3, 'a', 'b', 'c'})
	case strings.HasSuffix(b, "_m"):
		raw, _ := msgpack.Marshal(cx4Statuses(b, n))
		w.Header().Set("Content-Type", "application/msgpack")
		w.WriteHeader(http.StatusOK)
		w.Write(raw)
	default: // ok, evErr, short as JSON
		var sb strings.Builder
		sb.WriteByte('[')
		for i, s := range cx4Statuses(b, n) {
			if i > 0 {
				sb.WriteByte(',')
			}
			fmt.Fprintf(&sb, `{"status":%d}`, s["status"])
		}
		sb.WriteByte(']')
		w.Header().Set("Content-Type", "application/json")
		w.WriteHeader(http.StatusOK)
		w.Write([]byte(sb.String()))
	}
}

// ---------------------------------------------------------------------------
// really-sized events

var (
	cx4PadMu  sync.Mutex
	cx4PadLen = map[int]int{}
	cx4Pads   = map[int]string{}
)

func cx4Event(id int, dest int, padLen int) *types.Event {
	p, ok := cx4Pads[padLen]
	if !ok {
		p = strings.Repeat("x", padLen)
		cx4Pads[padLen] = p
	}
	d := cx4Dests[dest]
	return &types.Event{
		Context:    context.Background(),
		APIHost:    cx4Servers[d.host].URL,
		APIKey:     d.key,
		Dataset:    d.ds,
		SampleRate: 1,
		Timestamp:  cx4Stamp,
		Data:       types.NewPayload(cx4Cfg, map[string]any{"id": fmt.Sprintf("e%05d", id), "pad": p}),
	}
}

// cx4Measure is the quantity sendBatch compares with apiMaxEventSize.
func cx4Measure(ev *types.Event) (int, error) {
	be := batchedEvent{time: ev.Timestamp, sampleRate: int64(ev.SampleRate), data: ev.Data}
	out, err := be.MarshalMsg(nil)
	return len(out), err
}

// cx4Sized builds event id for destination dest that serializes to exactly size bytes.
func cx4Sized(id int, dest int, size int) (*types.Event, error) {
	cx4PadMu.Lock()
	defer cx4PadMu.Unlock()
	if l, ok := cx4PadLen[size]; ok {
		return cx4Event(id, dest, l), nil
	}
	base, err := cx4Measure(cx4Event(id, dest, 0))
	if err != nil {
		return nil, err
	}
	l := size - base
	for i := 0; i < 8 && l >= 0; i++ {
		m, err := cx4Measure(cx4Event(id, dest, l))
		if err != nil {
			return nil, err
		}
		if m == size {
			cx4PadLen[size] = l
			return cx4Event(id, dest, l), nil
		}
		l -= m - size
	}
	return nil, fmt.Errorf("cannot build an event of %d bytes (empty event is %d)", size, base)
}

// cx4Barrier releases n goroutines at (as nearly as possible) the same instant.
type cx4Barrier struct {
	n       int32
	arrived atomic.Int32
	gen     atomic.Int32
}

func (b *cx4Barrier) wait() {
	g := b.gen.Load()
	if b.arrived.Add(1) == b.n {
		b.arrived.Store(0)
		b.gen.Add(1)
		return
	}
	for spins := 0; b.gen.Load() == g; spins++ {
		if spins%2000 == 1999 {
			runtime.Gosched()
		}
	}
}

// ---------------------------------------------------------------------------
// one round

type cx4Plan struct {
	ev   *types.Event
	real int // id carried in the payload
	dest int
	size int
	prod int
}

type cx4Round struct {
	tag   string
	tw    *verifkit.TraceWriter
	dt    *DirectTransmission
	clock *cx4Clock
	met   *cx4Metrics
	lg    *cx4Logger

	mu      sync.Mutex // orders the log; protects idx, seen, rng
	idx     map[int]int
	nIdx    int
	seen    map[string]int
	srng    *rand.Rand
	fault   int
	menu    []string
	byEv    map[*types.Event]*cx4Plan
	keyOf   map[transmitKey]string
	corrupt string // mutation of the binding itself (CX4_CORRUPT), for showing that the log is really compared
}

func (r *cx4Round) emit(event string, f map[string]any) {
	r.mu.Lock()
	r.tw.Emit(event, f)
	r.mu.Unlock()
}

// ids translates events into log ids; r.mu must be held.
func (r *cx4Round) ids(evs []*types.Event) []int {
	out := make([]int, 0, len(evs))
	for _, ev := range evs {
		out = append(out, r.id(ev))
	}
	return out
}

func (r *cx4Round) id(ev *types.Event) int {
	if p := r.byEv[ev]; p != nil {
		if i, ok := r.idx[p.real]; ok {
			return i
		}
	}
	return -1
}

func cx4Units(t time.Time) int {
	if t.IsZero() {
		return -1
	}
	return int(t.Sub(cx4T0) / cx4Unit)
}

func cx4KV(kv []any, k string) any {
	for i := 0; i+1 < len(kv); i += 2 {
		if kv[i] == k {
			return kv[i+1]
		}
	}
	return nil
}

// hook receives the transmission's linearization points (the caller holds the
// lock that protects what it reports).
func (r *cx4Round) hook(d *DirectTransmission, event string, kv ...any) {
	if d != r.dt {
		return
	}
	evs := func(k string) []*types.Event { v, _ := cx4KV(kv, k).([]*types.Event); return v }
	r.mu.Lock()
	defer r.mu.Unlock()
	f := map[string]any{}
	switch event {
	case "enqueue":
		ev, _ := cx4KV(kv, "ev").(*types.Event)
		p := r.byEv[ev]
		if p == nil {
			f["id"] = -1
			break
		}
		r.nIdx++
		r.idx[p.real] = r.nIdx
		start, _ := cx4KV(kv, "start").(time.Time)
		f["id"], f["p"], f["k"], f["sz"] = r.nIdx, p.prod, cx4Dests[p.dest].letter, p.size
		f["n"], f["start"], f["dispatch"] = cx4KV(kv, "n"), cx4Units(start), cx4KV(kv, "dispatch")
		if r.corrupt == "start" && r.nIdx == 3 {
			f["start"] = cx4Units(start) - 1
		}
	case "stale_begin":
		now, _ := cx4KV(kv, "now").(time.Time)
		f["now"] = cx4Units(now)
	case "stale_cut":
		key, _ := cx4KV(kv, "key").(transmitKey)
		start, _ := cx4KV(kv, "start").(time.Time)
		f["k"], f["ids"], f["start"] = r.letter(key), r.ids(evs("events")), cx4Units(start)
	case "stale_skip":
		key, _ := cx4KV(kv, "key").(transmitKey)
		start, _ := cx4KV(kv, "start").(time.Time)
		f["k"], f["n"], f["start"] = r.letter(key), cx4KV(kv, "n"), cx4Units(start)
	case "stale_end", "stop_end":
	case "send_begin", "sub_done", "batch_fail":
		f["ids"] = r.ids(evs("events"))
	case "pack":
		whole := evs("whole")
		f["whole"], f["sub"], f["next"], f["bytes"] = r.ids(whole), r.ids(evs("sub")), cx4KV(kv, "next"), cx4KV(kv, "bytes")
	case "retry":
		f["ids"], f["try"] = r.ids(evs("events")), cx4KV(kv, "try")
	case "sleep":
		dur, _ := cx4KV(kv, "dur").(time.Duration)
		f["ids"] = r.ids(evs("events"))
		if dur%cx4Unit == 0 {
			f["dur"] = int(dur / cx4Unit)
		} else {
			f["dur"] = -1
			f["dur_ns"] = int64(dur)
		}
	case "event_ok", "event_err":
		ev, _ := cx4KV(kv, "ev").(*types.Event)
		f["id"] = r.id(ev)
		if event == "event_err" {
			f["status"] = cx4KV(kv, "status")
		}
		if r.corrupt == "outcome" && event == "event_err" {
			event = "event_ok"
			r.corrupt = ""
		}
	case "stop_flush":
		pend := map[string]any{}
		for _, dd := range cx4Dests {
			pend[dd.letter] = []int{}
		}
		bs, _ := cx4KV(kv, "batches").(map[transmitKey]*eventBatch)
		for key, b := range bs {
			pend[r.letter(key)] = r.ids(b.events)
		}
		f["pend"] = pend
	default:
		f["unknown_hook"] = true
	}
	r.tw.Emit(event, f)
}

func (r *cx4Round) letter(k transmitKey) string {
	if l, ok := r.keyOf[k]; ok {
		return l
	}
	return "?" + k.apiHost + "|" + k.apiKey + "|" + k.dataset
}

// received is called by the server that got a request: logs it and chooses the answer.
func (r *cx4Round) received(host, key, ds string, real []int, body int, note string) string {
	r.mu.Lock()
	defer r.mu.Unlock()
	ids := make([]int, 0, len(real))
	for _, x := range real {
		if i, ok := r.idx[x]; ok {
			ids = append(ids, i)
		} else {
			ids = append(ids, -1)
		}
	}
	k := fmt.Sprint(host, "|", key, "|", ds, "|", real)
	r.seen[k]++
	b := "ok"
	switch {
	case r.seen[k] > 1 && r.fault > 0 && r.srng.Intn(2) == 0:
		// a second attempt meets another retryable answer half of the time (the retry budget is the point)
		b = []string{"timeout", "timeout", "r429_1", "r503_1", "r503_2", "r429_none"}[r.srng.Intn(6)]
	case r.srng.Intn(100) < r.fault:
		b = r.menu[r.srng.Intn(len(r.menu))]
	case r.srng.Intn(4) == 0:
		b = "ok_m"
	}
	r.tw.Emit("req", map[string]any{"host": host, "key": key, "ds": ds, "ids": ids, "body": body, "try": r.seen[k], "b": b, "note": note})
	return b
}

var cx4Menu = []string{"evErr", "evErr_m", "short", "short_m", "undec", "undec_m", "e400", "e401", "e500",
	"r429_1", "r429_1", "r503_1", "r503_2", "r429_none", "r429_junk", "r429_0", "r429_60", "timeout", "timeout", "timeout"}

type cx4Params struct {
	maxBatch, sub int
	mode          string // "mix": 200-byte events, now and then one over 1 MB; "split": events around 1 MB so that bodies split at 5 MB
}

var cx4Seq int

func cx4RunRound(tw *verifkit.TraceWriter, rng *rand.Rand, pr cx4Params, nextReal *int) error {
	cx4Setup()
	nDest := 2 + rng.Intn(3)
	nProd := 2 + rng.Intn(3)
	perProd := 2 + rng.Intn(6)
	fault := []int{0, 15, 30, 50}[rng.Intn(4)]
	if pr.mode == "split" {
		// two producers feed destination A 6-8 events around 1 MB (a full batch of MaxBatchSize = 6 has to be split at
		// 5 MB) and destination B a few small ones; events of a megabyte are slow under the race detector
		nDest, nProd, perProd, fault = 2, 2, 4+rng.Intn(2), []int{0, 30}[rng.Intn(2)]
	}
	cx4Seq++
	r := &cx4Round{tag: "r" + strconv.Itoa(cx4Seq), tw: tw, met: cx4NewMetrics(), lg: &cx4Logger{errIDs: map[int]bool{}},
		idx: map[int]int{}, seen: map[string]int{}, srng: rand.New(rand.NewSource(rng.Int63())), fault: fault, menu: cx4Menu,
		byEv: map[*types.Event]*cx4Plan{}, keyOf: map[transmitKey]string{}, corrupt: os.Getenv("CX4_CORRUPT")}
	for _, d := range cx4Dests {
		r.keyOf[transmitKey{apiHost: cx4Servers[d.host].URL, apiKey: d.key, dataset: d.ds}] = d.letter
	}
	r.clock = &cx4Clock{FakeClock: clockwork.NewFakeClockAt(cx4T0), quit: make(chan struct{}), slept: make(chan struct{}, 1)}

	// stampede rounds: the i-th event of every producer goes to destination i and the producers are released
	// together for it, so that the first enqueues for a fresh destination really collide (batch creation)
	stampedePlan := pr.mode == "mix" && rng.Intn(3) == 0

	// the events are built before the race starts
	plans := make([][]*cx4Plan, nProd)
	total := 0
	for p := range plans {
		for i := 0; i < perProd; i++ {
			*nextReal++
			size := 200
			switch {
			case pr.mode == "split" && i > 0:
				size = []int{999999, 999999, 999999, 1000000, 1000000, 1000001}[rng.Intn(6)]
			case rng.Intn(40) == 0:
				size = 1000001
			case rng.Intn(6) == 0:
				size = 300
			}
			d := rng.Intn(nDest)
			if pr.mode == "mix" && i < nDest && stampedePlan {
				d, size = i, 200
			}
			if pr.mode == "split" {
				d = 0
				if size < 1000 {
					d = 1
				}
			}
			ev, err := cx4Sized(*nextReal, d, size)
			if err != nil {
				return err
			}
			pl := &cx4Plan{ev: ev, real: *nextReal, dest: d, size: size, prod: p + 1}
			plans[p] = append(plans[p], pl)
			r.byEv[ev] = pl
			total++
		}
	}

	if pr.mode == "split" {
		for p := range plans {
			rng.Shuffle(len(plans[p]), func(i, j int) { plans[p][i], plans[p][j] = plans[p][j], plans[p][i] })
		}
	}
	stampede := 0
	if stampedePlan {
		stampede = nDest
		if perProd < stampede {
			stampede = perProd
		}
	}
	r.clock.tight = stampedePlan
	dt := NewDirectTransmission(types.TransmitTypeUpstream, cx4Tr, pr.maxBatch, time.Duration(4*pr.sub)*cx4Unit, time.Hour, false,
		map[string]string{"X-CX4-Round": r.tag})
	dt.Clock = r.clock
	dt.Logger = r.lg
	dt.Metrics = r.met
	dt.Config = cx4Cfg
	dt.Version = "verif"
	r.dt = dt
	cx4Cur.Store(r)
	SetVerifHooks(&VerifHooks{Emit: r.hook})
	defer SetVerifHooks(nil)
	tw.Reset(map[string]any{"maxBatch": pr.maxBatch, "sub": pr.sub, "dests": nDest, "producers": nProd, "events": total, "faultPct": fault, "mode": pr.mode})
	if err := dt.Start(); err != nil {
		return err
	}
	// the dispatcher creates its tickers right after Start; a ticker created later merely starts its period later
	for spins := 0; r.clock.nTickers() < 2 && spins < 2000000; spins++ {
		runtime.Gosched()
	}

	var stepMu sync.Mutex
	stepCond := sync.NewCond(&stepMu)
	steps, advs, capped := 0, 0, false
	logAdvance := func(now int) {
		r.emit("advance", map[string]any{"now": now})
		stepMu.Lock()
		advs++
		stepMu.Unlock()
		stepCond.Broadcast()
	}
	maxSteps := 4*pr.sub + 2 + rng.Intn(4*pr.sub+4)
	stopClock := make(chan struct{})
	clockDone := make(chan struct{})
	crng := rand.New(rand.NewSource(rng.Int63()))
	go func() {
		defer close(clockDone)
		for n := 0; n < maxSteps; n++ {
			select {
			case <-r.clock.quit:
				n = maxSteps
				continue
			default:
			}
			r.clock.step(logAdvance)
			stepMu.Lock()
			steps++
			stepMu.Unlock()
			stepCond.Broadcast()
			for y := crng.Intn(30); y > 0; y-- {
				runtime.Gosched()
			}
		}
		stepMu.Lock()
		capped = true
		stepMu.Unlock()
		stepCond.Broadcast()
		<-r.clock.quit
		dt.stopWG.Wait() // the dispatcher has exited: no pass can be in progress when the clock moves on
		for {
			for r.clock.sleepers() > 0 {
				r.clock.move(logAdvance) // wakes Retry-After sleepers so that Stop can finish
				runtime.Gosched()
			}
			select {
			case <-stopClock:
				return
			case <-r.clock.slept:
			}
		}
	}()
	awaitStep := func(k int) { // k more steps are complete (clock moved, stale pass over)
		stepMu.Lock()
		for target := steps + k; steps < target && !capped; {
			stepCond.Wait()
		}
		stepMu.Unlock()
	}
	awaitAdvance := func() { // the clock is about to move: what the caller does next overlaps the stale pass
		stepMu.Lock()
		for target := advs + 1; advs < target && !capped; {
			stepCond.Wait()
		}
		stepMu.Unlock()
	}

	var wg sync.WaitGroup
	gate := make(chan struct{}) // the producers start together
	bar := &cx4Barrier{n: int32(nProd)}
	for p := range plans {
		wg.Add(1)
		go func(mine []*cx4Plan, prng *rand.Rand) {
			defer wg.Done()
			<-gate
			for i, pl := range mine {
				r.emit("enq_call", map[string]any{"p": pl.prod})
				if i < stampede {
					bar.wait()
				}
				dt.EnqueueEvent(pl.ev)
				switch prng.Intn(7) {
				case 0:
					awaitStep(1)
				case 1, 2:
					awaitAdvance()
				case 3, 4:
					runtime.Gosched()
				}
			}
		}(plans[p], rand.New(rand.NewSource(rng.Int63())))
	}
	close(gate)
	wg.Wait()
	awaitStep([]int{0, 0, 1, 2, 4 * pr.sub, 5 * pr.sub}[rng.Intn(6)])

	close(r.clock.quit)
	r.emit("stop_call", nil)
	stopped := make(chan struct{})
	go func() { dt.Stop(); close(stopped) }()
	select {
	case <-stopped:
	case <-time.After(120 * time.Second):
		close(stopClock)
		return fmt.Errorf("Stop did not return within 120 s")
	}
	close(stopClock)
	<-clockDone
	if s, _ := r.clock.stuck.Load().(string); s != "" {
		return fmt.Errorf("clock: %s", s)
	}

	k := dt.metricKeys
	errs := []int{}
	r.lg.mu.Lock()
	r.mu.Lock()
	for real := range r.lg.errIDs {
		if i, ok := r.idx[real]; ok {
			errs = append(errs, i)
		} else {
			errs = append(errs, -real)
		}
	}
	odd := len(r.lg.odd)
	r.mu.Unlock()
	r.lg.mu.Unlock()
	sort.Ints(errs)
	ups, downs := r.met.read(r.met.ups, k.updownQueuedItems), r.met.read(r.met.down, k.updownQueuedItems)
	r.emit("stopped", map[string]any{
		"r20x": r.met.read(r.met.ctr, k.counterResponse20x), "respErr": r.met.read(r.met.ctr, k.counterResponseErrors) + r.met.read(r.met.ctr, k.counterEnqueueErrors),
		"sendErr": r.met.read(r.met.ctr, k.counterSendErrors), "retries": r.met.read(r.met.ctr, k.counterSendRetries),
		"ups": ups, "downs": downs, "gauge": ups - downs, "errs": errs, "oddLogs": odd})
	return nil
}

func TestVerifCX4Trace(t *testing.T) {
	tw, err := verifkit.NewTraceWriter(os.Getenv("VERIF_TRACE_OUT"))
	if err != nil {
		t.Fatal(err)
	}
	seed, _ := strconv.ParseInt(os.Getenv("VERIF_SEED"), 10, 64)
	budget, _ := strconv.ParseFloat(os.Getenv("VERIF_BUDGET_S"), 64)
	if budget == 0 {
		budget = 10
	}
	pr := cx4Params{maxBatch: 2, sub: 1, mode: "mix"}
	if v, err := strconv.Atoi(os.Getenv("CX4_MAXBATCH")); err == nil && v > 0 {
		pr.maxBatch = v
	}
	if v, err := strconv.Atoi(os.Getenv("CX4_SUB")); err == nil && v > 0 {
		pr.sub = v
	}
	if m := os.Getenv("CX4_MODE"); m != "" {
		pr.mode = m
	}
	maxRounds, maxLines := 400, 12000
	if v, err := strconv.Atoi(os.Getenv("CX4_MAXROUNDS")); err == nil && v > 0 {
		maxRounds = v
	}
	if v, err := strconv.Atoi(os.Getenv("CX4_MAXLINES")); err == nil && v > 0 {
		maxLines = v
	}
	deadline := time.Now().Add(time.Duration(budget * float64(time.Second)))
	rng := rand.New(rand.NewSource(seed*7919 + int64(pr.maxBatch)*31 + int64(pr.sub)))
	rounds, nextReal := 0, 0
	for time.Now().Before(deadline) && rounds < maxRounds && tw.Events < maxLines {
		if err := cx4RunRound(tw, rand.New(rand.NewSource(rng.Int63())), pr, &nextReal); err != nil {
			tw.Close()
			t.Fatalf("round %d: %v", rounds, err)
		}
		rounds++
	}
	cx4Cur.Store(nil)
	if err := tw.Close(); err != nil {
		t.Fatal(err)
	}
	verifkit.WriteJSON(os.Getenv("VERIF_OUT"), map[string]any{"traces": tw.Traces, "events": tw.Events})
}
