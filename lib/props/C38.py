"""C38 The config converter preserves valid v1 settings."""

PROP = dict(
    level="exploration",
    technique="TLA+ spec Convert.tla (function-vector binding B3): Init enumerates classes of valid v1 documents - a settings table transcribed from the v1 "
              "reference files shipped in the repo (config_complete.1.x.toml, rules_complete.1.x.toml: name, section, type, unit, documented default) and the "
              "release notes, NOT from the converter's template or the v1group/v1name columns it is generated from - and the actions Convert / Load compute what "
              "a faithful conversion must yield: a file the v2 loader accepts and, for every non-default v1 setting that still exists, the effective value "
              "(durations in ms, sizes in bytes, key lists by what AccessKeyConfig.IsAccepted answers). TLC checks ValidOutput and Preserved on the ideal model and, "
              "with the known deviations switched on, that every property-breaking run is one of the listed deviations and every listed deviation breaks the property. "
              "Every enumerated document is rendered as TOML/YAML/JSON, converted by the REAL converter (the test binary re-executes itself and the child calls "
              "tools/convert's own main() with `config|rules|helm --input --output`), loaded by the REAL v2 loader (config.NewConfig, validation on) and observed "
              "through the public Config getters (GetSamplerConfigForDestName for rules); the projection must equal a successor of the specification.",
    design_ref="DESIGN.md §5 C38 (was §6 not applicable)",
    level_text="Bounded enumeration of valid v1 inputs, both clauses checked on every enumerated input. CONFIG: 93 rows = 69 v1 settings of "
               "config_complete.1.x.toml (top level, PeerManagement, InMemCollector, HoneycombLogger, HoneycombMetrics, PrometheusMetrics, GRPCServerParameters, "
               "SampleCacheConfig, StressRelief, AdditionalAttributes) with 1-3 values each (bool, int, duration string, seconds, byte count, string, URL, list, map; "
               "default and non-default; renamed / moved / unit-changed / removed settings; APIKeys with and without the '*' wildcard; Metrics/Logger selectors); quick: every "
               "row alone as TOML, every third row also as YAML and JSON, 1 pair of settings in 80 as TOML and YAML; thorough: every row alone in all three formats, 1 pair "
               "in 5 (852) and 173 triples from three different sections, each as TOML and YAML. RULES: the default destination and one named destination (plain, with a space, with a dot) over "
               "DeterministicSampler, a section naming no sampler, DynamicSampler / EMADynamicSampler / TotalThroughputSampler with 0-1 (thorough 0-2) optional parameters "
               "(UseTraceLength, ClearFrequencySec and ClearFrequency, AdjustmentInterval in seconds, Weight, MaxKeys, AgeOutValue, BurstMultiple, BurstDetectionDelay, the "
               "removed AddSampleRateKeyToTrace*), RulesBasedSampler with every sequence of 1 (thorough: 1-2 and a slice of 3) rules out of 11 templates (drop rule, "
               "int/float/bool/string values, datatype, scope span, no-condition default rule, exists without value, =, !=, <, >, >=, starts-with, nested EMADynamic / "
               "Dynamic / TotalThroughput samplers, lower/mixed-case keys), CheckNestedFields, DryRun/DryRunFieldName present. HELM: `convert helm` on a values file "
               "holding a config and a rules section (11 settings x 3 rules files). Rules files are written as TOML and as YAML. Quick 416 documents (245 config, 138 rules, 33 helm), thorough 3426 (2329 config, "
               "1064 rules, 33 helm); the ideal model is checked by TLC on 7378 documents (22134 states). "
               "Effective values are read with the public getters after config.NewConfig accepted the file together with a minimal companion rules/config file.",
    level_note="Partial coverage by design. Clause (2) is only demanded where the v1 meaning could be established independently of the converter: rows whose v1 default is not "
               "documented (LoggingLevel debug/info, AddHostMetadataToTrace, LoggerSamplerEnabled, CompressPeerCommunication=true, Logger=logrus, APIKeys=['*'], values equal to "
               "the documented v1 default) take part in clause (1) only. Out of scope: v1 values that v2 validation rejects on purpose (SendDelay 0, MaxBatchSize < 100, "
               "placeholder API keys such as the sample's 'abcd1234'), DryRun (a v1 rules-file setting whose v2 home is the config file - no single-file conversion can carry it), "
               "settings removed from v3 (HoneycombMetrics/LegacyMetrics, CacheCapacity, BufferSizes, RedisPrefix/Database, Strategy, CacheOverrunStrategy, SampleCache Type, "
               "MinimumStartupDuration: only 'the output stays valid' is checked for them), keys spelled in another case in the CONFIG file, comments, --type overrides, stdout "
               "output (the rules converter prints its warning to stdout too). One or two values per setting, not all values. The walk is time-boxed: on a loaded machine "
               "the quick tier may cover only part of its graph (reported as exhaustive=false); the worker pool converts ahead of the walker in the walker's own order. "
               "Known deviations of the unchanged tree are reported as KNOWN-FINDING (11, see known_findings.json); proposed repairs in pending_fixes/C38-*.diff.",
    assumptions=["config_complete.1.x.toml / rules_complete.1.x.toml / RELEASE_NOTES.md describe v1 (names, sections, units, defaults)",
                 "go-toml/v2, yaml.v3 and encoding/json render a v1 document the way a v1 author would have written it",
                 "a file accepted by config.NewConfig next to a minimal companion file is a file Refinery accepts",
                 "bounded: 1-3 values per setting, <= 3 settings per config file, <= 3 rules per sampler, 2 destinations per rules file"],
    rule="a case is one v1 document (one TLC-enumerated initial state) converted by the real converter and loaded by the real loader; documents are distinct by construction; "
         "non-trivial = the converter child was executed for it",
    stages=[
        dict(kind="walk", name="Convert", module="Convert", pkg="tools/convert", test="TestVerifConvert", harness=["tools/convert/c38_test.go"],
             maxwalk=2, dump_workers=1,
             cfg={"quick": "MC_Convert_q.cfg", "thorough": "MC_Convert_t.cfg"},
             budget={"quick": 70, "thorough": 420}),
        dict(kind="tlc", name="ConvertIdeal", module="Convert", cfg={"quick": None, "thorough": "MC_Convert_ideal.cfg"}, workers=4),
    ],
)
