"""C07 Memory-pressure ejection decides traces rather than discarding them."""

PROP = dict(
    level="model_checking",
    technique="TLA+ spec Collector.tla model-checked by TLC (exhaustive, small bounds); every generated transition replayed into a real InMemCollector under a fake clock with hook-event barriers (transition tour)",
    design_ref="DESIGN.md section 5 C07, Appendix A",
    level_text="Action property EjectDecides and the Eject action (heaviest first, ties free, until the released size EXCEEDS the share or the buffer is empty; ejected traces decided once, forwarded/dropped with the memsize send reason and removed) over buffers of different sizes on 2 workers and shares {0,1,3}; replayed through the real worker's sendEarly channel.",
    level_note="Bounded (1-2 workers, 1-3 traces, <=3 spans, horizon of a few SendTicker ticks; one model tick = one SendTicker period). Worker steps are atomic in the transition-tour binding (hook-event barrier after each step; sender drained), so only sequential schedules are forced here; really concurrent schedules are covered by the recorded-trace stage where present. Decision memory is sized so nothing is evicted (eviction is C31's subject). Sampler = real DeterministicSampler with trace IDs chosen by hash to realise the model's verdicts. Trusted: clockwork fake clock, the harness's recording Transmission, the guarded hooks (collect/verif_on.go).",
    assumptions=["stable membership, no stress toggling while buffered (as the property states)", "decision memory large enough that nothing is evicted", "bounded model: see level_note"],
    stages=[dict(kind="walk", name="eject", module="MCCollectorEject", pkg="collect", test="TestVerifCollector", harness=["collect/collector_test.go"], cfg={"quick": "MC_Collector_eject_q.cfg", "thorough": "MC_Collector_eject.cfg"}, budget={"quick": 45, "thorough": 600}, maxwalk=40)],
)
