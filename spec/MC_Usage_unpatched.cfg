SPECIFICATION Spec
CONSTANTS
  Signals = {"traces"}
  MaxCum = 3
  Steps = {1, 2}
  Overwrite = TRUE
  ZeroReports = "keys"
INVARIANTS TypeOK Conservation NonNegative NoDoubleCount InFlightIsPending
PROPERTY DeliveredMonotone OnlyAckDelivers
VIEW View
