SPECIFICATION FairSpec
CONSTANTS
  Addr <- Addr2
  Gaps <- GapsJitter2
  T = 10
  D = 2
  MaxEvents = 6
  MaxFails = 0
  Extra = "none"
  Backoff = FALSE
  Closed = TRUE
  ObserveCb = TRUE
  TrackQuiet = FALSE
  UnitMs = 1000
  Boot <- NoNodes
  CrashSet <- AllNodes
  StopSet <- AllNodes
  Sync = FALSE
  TrackAge = FALSE
INVARIANTS TypeOK
PROPERTIES EventuallyAgreed HashCatchesUp
