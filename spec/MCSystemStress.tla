--------------------------- MODULE MCSystemStress ---------------------------
(* CX3, second family: stress relief switching on and off at the non-owner and at the owner. *)
(* Traces named <owner>_<sampler verdict><stress verdict>                                    *)
EXTENDS System
mc_Nodes2   == {"a", "b"}
mc_TracesS  == {"b_kd", "b_dk", "a_kk"}
mc_OwnerS   == ("b_kd" :> "b" @@ "b_dk" :> "b" @@ "a_kk" :> "a")
mc_KeepS    == {"b_kd", "a_kk"}
mc_SKeepS   == {"b_dk", "a_kk"}
mc_Nodes3   == {"a", "b", "c"}
mc_TracesM  == {"b_kd", "b_dk", "c_kk"}
mc_OwnerM   == ("b_kd" :> "b" @@ "b_dk" :> "b" @@ "c_kk" :> "c")
mc_KeepM    == {"b_kd", "c_kk"}
mc_SKeepM   == {"b_dk", "c_kk"}
mc_TracesS2 == {"b_kd", "b_dk"}
mc_OwnerS2  == ("b_kd" :> "b" @@ "b_dk" :> "b")
mc_KeepS2   == {"b_kd"}
mc_SKeepS2  == {"b_dk"}
=============================================================================
