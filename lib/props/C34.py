"""C34 Usage reports neither lose nor double-count usage."""

PROP = dict(
    level="model_checking",
    technique="TLA+ spec Usage.tla model-checked by TLC; every generated transition replayed into the real agent.usageTracker and Agent.sendUsageReport behind a scripted OpAMP client, report payloads parsed back (spec->code transition tour)",
    design_ref="DESIGN.md §5 C34",
    level_text="TLC explores every order of counter growth, sampling (usageTracker.Add), report generation and client outcomes (accepted then acknowledged; pending, previous message sent, retry accepted / failed / pending again (the report is abandoned and its usage stays unconfirmed); failed) for two usage signals within the horizon, including any number of consecutive failed sends, and checks Conservation (acknowledged usage + unconfirmed + unreported + unsampled = counter growth), NonNegative, NoDoubleCount, InFlightIsPending, DeliveredMonotone, OnlyAckDelivers, OnlyAckClearsPending and PendingTwiceKeeps; every generated transition is executed on the real usageTracker and Agent.sendUsageReport (running in its own goroutine, stepped through a scripted OpAMP client, with Add calls interleaved between its critical sections) and the usage per signal parsed from every OTLP-JSON payload, the acknowledged totals and sendUsageReport's result must equal the model's. Thorough adds a 3-signal model-checking run.",
    level_note="Exhaustive only within the bound (2 signals, counters <= 2 in quick / 3 in thorough, growth steps 1-2; 3 signals <= 3 for the pure TLC run). The healthCheck loop that reads the metrics store is replaced by direct usageTracker.Add calls with the harness's cumulative values; counters are assumed monotone (a counter that goes backwards - e.g. through the C33 defect - is outside the statement); shutdown (context cancelled while a send is in flight) is not modelled. Whether an all-zero report is sent is left open: the code's convention (a report iff either map has a key) and 'never' are both accepted; so is one retry or two after a 'pending' answer. The harness runs in a testing/synctest bubble and derives phase/attempt/result from what the real goroutine is observed to do (called the client, returned, waits), so an unexpected path is a divergence, not a hang.",
    assumptions=["the sampled counters never decrease", "one sendUsageReport at a time (reportUsagePeriodically is the only caller)", "bounded: 2 signals, horizon 2-3"],
    stages=[dict(kind="walk", module="Usage", pkg="agent", test="TestVerifC34Usage", harness=["agent/c34_usage_test.go"],
                 alternatives=[dict(name="keys", cfg={"quick": "MC_Usage_keys.cfg", "thorough": "MC_Usage_keys_big.cfg"}),
                               dict(name="never", cfg={"quick": "MC_Usage_never.cfg", "thorough": "MC_Usage_never_big.cfg"}),
                               dict(name="keys-3tries", cfg={"quick": "MC_Usage_keys_3tries.cfg", "thorough": "MC_Usage_keys_big_3tries.cfg"}),
                               dict(name="never-3tries", cfg={"quick": "MC_Usage_never_3tries.cfg", "thorough": "MC_Usage_never_big_3tries.cfg"})],
                 budget={"quick": 40, "thorough": 300}),
            dict(kind="tlc", name="UsageDeep", module="Usage", cfg={"quick": None, "thorough": "MC_Usage_deep.cfg"}, workers=8)],
)

import os, sys  # noqa: E402
sys.path.insert(0, os.path.dirname(os.path.dirname(os.path.abspath(__file__))))
import extstages  # noqa: E402
# coverage extension CX5 (lib/ext/CX5.py, spec/ind/): UNBOUNDED safety of Usage.tla - an inductive invariant for a typed companion module, discharged
# by TLAPS (arbitrary constants) and Apalache (symbolic integers), with a TLC check on the bounded models that the companion's transition relation
# and properties are this module's. A proof obligation that fails or times out is a weak invariant or a tool limit, never an observation of the
# code: the stages are advisory (logged, kept in the evidence, never decide).
PROP["stages"] += extstages.pick("CX5", ["Usage-ref", "Usage-tlaps", "Usage-apalache"], advisory=True, tiers=("thorough",))
# coverage extension CX6 (lib/ext/CX6.py, spec/OpAMP.tla): the usage tracker driven by the real agent (sampled counters -> reports -> acks,
# RecordUsage off, six counters). Advisory (thorough): C34's own stages decide the tracker; these replay it inside the agent's loops.
PROP["stages"] += extstages.pick("CX6", ["usage", "record-usage", "usage-six", "ideal-never-zero"], advisory=True, tiers=("thorough",))
