"""C12 Sampler state is shared across workers and isolated between definitions."""


def _alts(fam):
    # The property leaves open whether identical downstream samplers of different rules share
    # (ideal-key) or not (ideal-key-per-rule).  observed-key is the registry key of the tree this was
    # written against (sample.makeDynsamplerKey: prefix, type, rate/goal, fields); the code may only
    # follow it while known_findings.json lists the deviation "key-collision" as open.  Once
    # pending_fixes/C12-dynsampler-key-full-config.diff is applied the code conforms to ideal-key.
    return [
        dict(name="ideal-key", cfg={"quick": f"MC_Samplers_{fam}_ideal.cfg", "thorough": f"MC_Samplers_{fam}_ideal_big.cfg"}),
        dict(name="ideal-key-per-rule", cfg={"quick": f"MC_Samplers_{fam}_noshare.cfg", "thorough": f"MC_Samplers_{fam}_noshare_big.cfg"}),
        dict(name="observed-key", cfg={"quick": f"MC_Samplers_{fam}_obs.cfg", "thorough": f"MC_Samplers_{fam}_obs_big.cfg"}),
    ]


PROP = dict(
    level="model_checking",
    technique="TLA+ spec Samplers.tla (registry, per-worker caches, reload path, peer callback) model-checked by TLC; every generated transition replayed into the real sample.SamplerFactory and, at reload-atomic grain, into a real InMemCollector with its worker and monitor goroutines (spec->code transition tour)",
    design_ref="DESIGN.md §5 C12",
    level_text="TLC enumerates rules files (two destinations; a top-level sampler or a rules-based sampler with two downstream samplers of every dynsampler-backed type that differ in nothing, a tuning parameter, UseClusterSize, the field list or the rate, including 'awkward' tuning values (a windowed lookback that is not a multiple of the update period, one-key tables, sub-second intervals); a destination named like another one's downstream prefix; deterministic and undefined destinations), 2-3 workers, every order of lazy sampler creation, configuration change, ClearDynsamplers, per-worker reload signals and worker cache clears, and checks on the model: at quiescence all workers hold the same live instances built from the file in force (WorkersShare), instances are never shared between destinations (DestsIsolated) nor between non-identical definitions (DefsIsolated), caches only change on the worker's own reload (CacheStable), the registry only shrinks in ClearDynsamplers. Every generated transition is then executed on the real SamplerFactory over rules files loaded and validated by the real config package, and (with ConfigChange+reloadConfigs as one step) on a real InMemCollector whose parked worker goroutines take one step at a time; after every step the dynsampler pointer behind every cached sampler of every worker (read in package sample) must be the instance the model predicts.",
    level_note="Walk stages exhaustive only within the bound; the concurrent stage (real goroutines released by a barrier into GetSamplerImplementationForKey/GetDownstreamSampler on a fresh factory and after ClearDynsamplers, instance identity compared when all have returned) samples schedules. Bound (2 destinations, <=2 downstream samplers each, 2 workers in the replay / 3 in TLC, <=2 configuration changes; three concrete tuning variants per sampler type). Since /repo commit 871b085 (pending_fixes/C12-dynsampler-key-full-config.diff) the code conforms to the ideal key; the alternative observed-key (the old short key) is kept last only to name a regression to it (its deviation is no longer an open finding, so following it is a VIOLATION). All workers request their samplers from the same loaded Config object, as in production, so a sampler that mutates the shared config struct is seen by the next worker. The sample-level replay emulates the collector's three-line reload plumbing (real in the collect-level replay, where the monitor goroutine cannot be held between ClearDynsamplers and the worker signals). Rules files are validated once per scenario; the replay's Config object skips re-validation on reload. dynsampler-go's internal rate state is not compared, only instance identity.",
    assumptions=["concurrent stage: 2-8 goroutines per wave, randomised (seeded) choice of rules file/caller count/destinations; interleavings inside createSampler are sampled, not enumerated (gate in metrics.Register makes all callers overlap whenever the code lets them)",
                 "bounded: 2 destinations, <=2 downstream samplers per rules-based sampler, 2-3 workers, <=2 configuration changes",
                 "field-list order is not part of a definition (newTraceKey sorts it; the repo's own tests pin order-insensitive sharing)",
                 "collect-level replay: workers are scheduled one step at a time through their pause channel; a pending reload signal is held back while a worker decides a trace"],
    stages=[
        dict(kind="tlc", name="Samplers-c12-mc", module="Samplers", cfg={"quick": None, "thorough": "MC_Samplers_c12_mc_big.cfg"}, workers=8, timeout=900),
        dict(kind="tlc", name="Samplers-c12-mc3", module="Samplers", cfg={"quick": None, "thorough": "MC_Samplers_c12_mc3.cfg"}, workers=8, timeout=900),
        dict(kind="walk", name="Samplers-c12", module="Samplers", pkg="sample", test="TestVerifSamplers",
             harness=["sample/c12_export.go", "sample/c12_samplers_test.go"], alternatives=_alts("c12"),
             budget={"quick": 60, "thorough": 360}, dump_workers=8),
        # concurrent callers inside createSampler (the walks bind one Decide at a time): oracle = the model's
        # WorkersShare / DestsIsolated / DefsIsolated at quiescence; race windows widened only through the
        # injected metrics collaborator (parks in Register until all callers are there or a timeout RELEASES)
        dict(kind="gotest", name="Samplers-concurrent", pkg="sample", test="TestVerifSamplersConcurrent",
             harness=["sample/c12_export.go", "sample/c12_concurrent_test.go"], race=True,
             budget={"quick": 40, "thorough": 200}),
        dict(kind="walk", name="Samplers-collect", module="Samplers", pkg="collect", test="TestVerifSamplersCollect",
             harness=["sample/c12_export.go", "collect/c12_collect_test.go"], alternatives=_alts("collect"),
             budget={"quick": 60, "thorough": 300}, dump_workers=8),
    ],
)
