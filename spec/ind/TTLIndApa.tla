----------------------------- MODULE TTLIndApa -----------------------------
(* Apalache front end of TTLInd: symbolic constants and the unconstrained  *)
(* pre-state of the induction step.                                        *)
(*   apalache-mc check --cinit=ConstInit --init=Init    --inv=IndInv --length=0 TTLIndApa.tla *)
(*   apalache-mc check --cinit=ConstInit --init=IndInit --inv=IndInv --length=1 TTLIndApa.tla *)
(*   apalache-mc check --cinit=ConstInit --init=IndInit --inv=Safety --length=0 TTLIndApa.tla *)
(*   apalache-mc check --cinit=ConstInit --init=IndInit --inv=NoResurrectionStep --length=1 TTLIndApa.tla *)
EXTENDS TTLInd, Apalache

\* TTL, MaxNow: any integers >= 0; Closed: either; Items: any set of up to 4
\* items of an uninterpreted sort; Vals, Steps: any sets of up to 3 positive integers
ConstInit == /\ TTL \in Int /\ MaxNow \in Int /\ Closed \in BOOLEAN
             /\ Items = Gen(4) /\ Vals = Gen(3) /\ Steps = Gen(3)
             /\ ConstOK

IndInit == /\ exp \in [Items -> Int] /\ val \in [Items -> Int] /\ lastAdd \in [Items -> Int]
           /\ now \in Int
           /\ IndInv

\* non-vacuity probes (a counterexample is expected): the hypotheses admit 4 items, both conventions, large times
ProbeClosed == ~(Closed /\ Cardinality(Items) = 4 /\ TTL > 1000 /\ \E i \in Items : Present(i) /\ now > 1000)
ProbeOpen == ~(~Closed /\ Cardinality(Items) = 4 /\ TTL > 1000 /\ \E i \in Items : Present(i) /\ now > 1000)
=============================================================================
