//go:build verif

package config

import (
	"fmt"
	"math/rand"
	"os"
	"runtime"
	"strconv"
	"sync"
	"sync/atomic"
	"testing"

	"github.com/honeycombio/refinery/internal/verifkit"
)

// TestVerifC27Trace is the B2 driver for spec/TraceReload.tla: Reload is called
// from two goroutines while the driver replaces the files; only what is visible
// from outside Reload is logged (call/ret, file replacement begin/end, listener
// invocations with the hashes they were given, GetHashes at quiet moments). TLC
// then looks for an interleaving of the step model that explains the log.
func TestVerifC27Trace(t *testing.T) {
	if err := c27CheckClasses(); err != nil {
		t.Fatal(err)
	}
	tw, err := verifkit.NewTraceWriter(os.Getenv("VERIF_TRACE_OUT"))
	if err != nil {
		t.Fatal(err)
	}
	seed, _ := strconv.ParseInt(os.Getenv("VERIF_SEED"), 10, 64)
	rng := rand.New(rand.NewSource(seed))
	ntraces := 12
	if os.Getenv("VERIF_TIER") == "thorough" {
		ntraces = 120
	}
	cc, rc := c27ConfigContents(), c27RulesContents()
	nameC, nameR := map[string]string{}, map[string]string{}
	for n, vs := range cc {
		for _, b := range vs {
			nameC[c27Hash(b)] = n
		}
	}
	for n, vs := range rc {
		for _, b := range vs {
			nameR[c27Hash(b)] = n
		}
	}
	pick := func(m map[string][][]byte, name string) []byte {
		if name == "U" {
			return nil
		}
		return m[name][rng.Intn(len(m[name]))]
	}
	cNames := []string{"A", "B", "Bw", "Br", "Brw", "X", "U", "A", "B"}
	rNames := []string{"A", "B", "X", "U", "A", "B"}
	procs := []string{"p1", "p2"}

	for n := 0; n < ntraces; n++ {
		files, err := c27NewFiles()
		if err != nil {
			t.Fatal(err)
		}
		curC, curR := []string{"A", "B", "Bw"}[rng.Intn(3)], []string{"A", "B"}[rng.Intn(2)]
		if err := files.put(files.cpath, pick(cc, curC)); err != nil {
			t.Fatal(err)
		}
		if err := files.put(files.rpath, pick(rc, curR)); err != nil {
			t.Fatal(err)
		}
		cfg, nerr := NewConfig(files.opts(), c27Version)
		if cfg == nil {
			t.Fatalf("startup rejected (%s,%s): %v", curC, curR, nerr)
		}
		tw.Reset(map[string]any{"c": curC, "r": curR})
		for _, l := range []string{"l1", "l2"} {
			cfg.RegisterReloadCallback(func(hc, hr string) {
				c, okc := nameC[hc]
				r, okr := nameR[hr]
				if !okc {
					c = "?" + hc
				}
				if !okr {
					r = "?" + hr
				}
				tw.Emit("notify", map[string]any{"l": l, "c": c, "r": r})
			})
		}
		var werr error
		write := func() {
			if rng.Intn(3) == 0 {
				to := rNames[rng.Intn(len(rNames))]
				if to == curR {
					return
				}
				tw.Emit("wbegin", map[string]any{"file": "r", "to": to})
				if e := files.put(files.rpath, pick(rc, to)); e != nil {
					werr = e
				}
				curR = to
				tw.Emit("wend", map[string]any{"file": "r"})
				return
			}
			to := cNames[rng.Intn(len(cNames))]
			if to == curC {
				return
			}
			tw.Emit("wbegin", map[string]any{"file": "c", "to": to})
			if e := files.put(files.cpath, pick(cc, to)); e != nil {
				werr = e
			}
			curC = to
			tw.Emit("wend", map[string]any{"file": "c"})
		}
		observe := func() {
			hc, hr := cfg.GetHashes()
			c, okc := nameC[hc]
			r, okr := nameR[hr]
			if !okc || !okr {
				c, r = "?"+hc, "?"+hr
			}
			tw.Emit("obs", map[string]any{"c": c, "r": r})
		}
		rounds := 2 + rng.Intn(3)
		for round := 0; round < rounds; round++ {
			if rng.Intn(4) != 0 {
				write()
			}
			var started, finished atomic.Int32
			var wg sync.WaitGroup
			gate := make(chan struct{})
			for _, p := range procs {
				k := 1 + rng.Intn(2)
				wg.Add(1)
				go func() {
					defer wg.Done()
					defer finished.Add(1)
					<-gate
					for i := 0; i < k; i++ {
						tw.Emit("call", map[string]any{"p": p})
						started.Add(1)
						err := cfg.Reload()
						tw.Emit("ret", map[string]any{"p": p, "err": err != nil})
					}
				}()
			}
			close(gate)
			for w := rng.Intn(3); w > 0; w-- {
				for started.Load() == 0 && finished.Load() < 2 {
					runtime.Gosched()
				}
				for i := rng.Intn(200); i > 0; i-- {
					runtime.Gosched()
				}
				write()
			}
			wg.Wait()
			observe()
		}
		// one quiet reload, observed
		tw.Emit("call", map[string]any{"p": "p1"})
		qerr := cfg.Reload()
		tw.Emit("ret", map[string]any{"p": "p1", "err": qerr != nil})
		observe()
		files.cleanup()
		if werr != nil {
			t.Fatal(fmt.Errorf("file replacement failed: %w", werr))
		}
	}
	if err := tw.Close(); err != nil {
		t.Fatal(err)
	}
	verifkit.WriteJSON(os.Getenv("VERIF_OUT"), map[string]any{"traces": tw.Traces, "events": tw.Events})
}
