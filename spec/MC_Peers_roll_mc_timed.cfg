SPECIFICATION Spec
CONSTANTS
  Addr <- AddrRoll
  Gaps <- GapsRoll
  T = 10
  D = 0
  MaxEvents = 4
  MaxFails = 0
  Extra = "none"
  Backoff = FALSE
  Closed = TRUE
  ObserveCb = TRUE
  TrackQuiet = TRUE
  UnitMs = 1000
  Boot <- BootABC
  CrashSet <- OnlyC
  StopSet <- SetB
  Sync = TRUE
  TrackAge = TRUE
INVARIANTS TypeOK Converged LearnsLive ForgetsDead PeerForgotten PeerLearnt SelfListed PeriodRestored NoDuplicateAddr ChannelSane
PROPERTIES CallbackIffChange NoResurrection
VIEW View
