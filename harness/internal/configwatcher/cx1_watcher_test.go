//go:build verif

package configwatcher

import (
	"context"
	"fmt"
	"runtime"
	"sync"
	"testing"
	"testing/synctest"
	"time"

	"github.com/honeycombio/refinery/config"
	"github.com/honeycombio/refinery/internal/cx1kit"
	"github.com/honeycombio/refinery/internal/verifkit"
	"github.com/honeycombio/refinery/logger"
	"github.com/honeycombio/refinery/metrics"
	"github.com/honeycombio/refinery/pubsub"
)

// The reload interval the watcher is configured with; the model's unit of time.
const cx1Interval = 10 * time.Second

// cx1Config is the configuration the watcher sees. Reload() plays the part of
// fileConfig.Reload: it notices a pending change of the files ("changed") and
// then calls the registered callbacks synchronously, as the real one does.
type cx1Config struct {
	*config.MockConfig
	mu        sync.Mutex
	interval  time.Duration
	opamp     bool
	changed   bool
	reloads   int
	callbacks []config.ConfigReloadCallback
	abandon   bool // end of a walk: a goroutine that still reloads is told to go away
	version   int
}

func (c *cx1Config) Reload(opts ...config.ReloadedConfigDataOption) error {
	c.mu.Lock()
	if c.abandon {
		c.mu.Unlock()
		runtime.Goexit()
	}
	c.reloads++
	fire := c.changed
	c.changed = false
	var cbs []config.ConfigReloadCallback
	if fire {
		c.version++
		cbs = append(cbs, c.callbacks...)
	}
	h := fmt.Sprintf("hash%d", c.version)
	c.mu.Unlock()
	for _, cb := range cbs {
		cb(h, h)
	}
	return nil
}

func (c *cx1Config) RegisterReloadCallback(cb config.ConfigReloadCallback) {
	c.mu.Lock()
	c.callbacks = append(c.callbacks, cb)
	c.mu.Unlock()
}

func (c *cx1Config) GetGeneralConfig() config.GeneralConfig {
	return config.GeneralConfig{ConfigReloadInterval: config.Duration(c.interval)}
}

func (c *cx1Config) GetOpAMPConfig() config.OpAMPConfig {
	return config.OpAMPConfig{Enabled: c.opamp}
}

// cx1Bus is what the watcher is given as its PubSub: the real LocalPubSub, with
// every Publish numbered (the model's message ids) and the watcher's callback
// parked on entry until the model runs it.
type cx1Bus struct {
	*pubsub.LocalPubSub
	h *cx1Harness
}

func (b *cx1Bus) Publish(ctx context.Context, topic, message string) error {
	return b.LocalPubSub.Publish(cx1kit.WithID(ctx, b.h.core.NextID()), topic, message)
}

func (b *cx1Bus) Subscribe(ctx context.Context, topic string, cb pubsub.SubscriptionCallback) pubsub.Subscription {
	return b.LocalPubSub.Subscribe(ctx, topic, b.h.core.Rec.Callback("w", cb))
}

// cx1Harness replays the per-call graph of spec/PubSub.tla with Watcher = TRUE:
// a real ConfigWatcher on a real LocalPubSub inside a synctest bubble. The
// bubble's clock is virtual, so time.Now and the monitor's time.NewTicker are
// driven by the model's Advance; the model instant n is epoch + I/2 + n*I.
type cx1Harness struct {
	t       *testing.T
	bubble  *cx1kit.Bubble
	ps      *pubsub.LocalPubSub
	met     *metrics.MockMetrics
	cfg     *cx1Config
	cw      *ConfigWatcher
	core    *cx1kit.Core
	epoch   time.Time
	started bool
	stopped bool
	metrics bool
}

// cx1Stamp maps a message text to the model's half-unit time stamps
// (2n+1: the model instant n, 2j: the j-th tick of the jittered ticker, -2: not a time).
func (h *cx1Harness) stamp(text string) int {
	t, err := time.Parse(time.RFC3339, text)
	if err != nil {
		return -2
	}
	sec := int(t.Sub(h.epoch) / time.Second)
	unit := int(cx1Interval / time.Second)
	if sec%unit == unit/2 {
		return (sec-unit/2)/unit*2 + 1
	}
	return (sec + unit/2) / unit * 2
}

func (h *cx1Harness) text(id, pay int) string {
	if pay < 0 {
		return "not-a-timestamp"
	}
	if pay%2 == 1 { // the model instant (pay-1)/2
		return h.epoch.Add(cx1Interval/2 + time.Duration((pay-1)/2)*cx1Interval).Format(time.RFC3339)
	}
	return fmt.Sprintf("m%d", id)
}

func (h *cx1Harness) end() {
	if h.bubble == nil {
		return
	}
	h.bubble.Do(func() {
		if h.started && !h.stopped {
			cx1kit.Call(func() { h.cw.Stop() })
		}
		h.cfg.mu.Lock()
		h.cfg.abandon = true
		h.cfg.mu.Unlock()
		h.core.Rec.Abandon()
		// a monitor that Stop did not reach gets its next ticks and leaves through Reload
		for i := 0; i < 3; i++ {
			time.Sleep(2 * cx1Interval)
			synctest.Wait()
			h.core.Rec.Abandon()
		}
	})
	h.bubble.Close()
	h.bubble = nil
}

func (h *cx1Harness) Reset(init map[string]any) error {
	h.end()
	got, _ := init["got"].(map[string]any)
	subs := cx1kit.SortedKeys(got)
	mode, _ := init["cwMode"].(string)
	params, _ := init["params"].(map[string]any)
	h.metrics, _ = params["metrics"].(bool)
	parkPlain, _ := params["parkPlain"].(bool)
	h.started, h.stopped = false, false
	h.bubble = cx1kit.NewBubble(h.t)
	var err error
	p := h.bubble.Do(func() {
		h.epoch = time.Now()
		h.met = &metrics.MockMetrics{}
		h.met.Start()
		h.ps = &pubsub.LocalPubSub{Metrics: h.met}
		if e := h.ps.Start(); e != nil {
			err = e
			return
		}
		h.cfg = &cx1Config{MockConfig: &config.MockConfig{}, interval: cx1Interval}
		switch mode {
		case "noint":
			h.cfg.interval = 0
		case "opamp":
			h.cfg.opamp = true
		}
		rec := cx1kit.NewRec(subs, func(s string) bool { return parkPlain || s == "w" })
		ops := cx1kit.BusOps{
			Subscribe: func(topic string, cb func(context.Context, string)) func() {
				return h.ps.Subscribe(context.Background(), topic, cb).Close
			},
			Publish: h.ps.Publish,
			Close:   h.ps.Close,
			Stop:    h.ps.Stop,
		}
		h.core = cx1kit.NewCore(rec, ops, h.text)
		h.cw = &ConfigWatcher{Config: h.cfg, Logger: &logger.NullLogger{}, PubSub: &cx1Bus{LocalPubSub: h.ps, h: h}}
	})
	if p != nil {
		return fmt.Errorf("reset panicked: %v", p)
	}
	return err
}

func (h *cx1Harness) Apply(act map[string]any) error {
	var err error
	p := h.bubble.Do(func() {
		name := verifkit.Str(act, "name")
		switch name {
		case "FileChange":
			h.cfg.mu.Lock()
			h.cfg.changed = true
			h.cfg.mu.Unlock()
		case "CwStart":
			h.started = true
			err = h.core.Must("ConfigWatcher.Start", func() {
				if e := h.cw.Start(); e != nil {
					panic("Start returned " + e.Error())
				}
			})
			time.Sleep(cx1Interval / 2) // the monitor (if any) now waits on its ticker; move to the model instant 0
		case "CwStartStop":
			// Stop right after Start, before the monitor goroutine had a chance to run: with a single P
			// the goroutine `go cw.monitor()` created cannot be scheduled until this one blocks
			h.started, h.stopped = true, true
			prev := runtime.GOMAXPROCS(1)
			func() {
				defer func() {
					if r := recover(); r != nil && h.core.Panic == "" {
						h.core.Panic = fmt.Sprint(r)
					}
				}()
				h.cw.Start()
				h.cw.Stop()
			}()
			runtime.GOMAXPROCS(prev)
			synctest.Wait()
			time.Sleep(cx1Interval / 2)
		case "CwStop":
			h.stopped = true
			err = h.core.Must("ConfigWatcher.Stop", func() { h.cw.Stop() })
		case "Advance":
			time.Sleep(cx1Interval)
		default:
			var ok bool
			ok, err = h.core.Apply(name, act,
				func(k string) string { return verifkit.Str(act, k) }, func(k string) int { return verifkit.Int(act, k) })
			if !ok {
				err = fmt.Errorf("unknown action %v", act)
			}
		}
		synctest.Wait()
	})
	if p != nil {
		return fmt.Errorf("harness panicked: %v", p)
	}
	return err
}

func (h *cx1Harness) Project() (any, error) {
	var out map[string]any
	h.bubble.Do(func() {
		pub, _ := h.met.Get("local_pubsub_published")
		recv, _ := h.met.Get("local_pubsub_received")
		if !h.metrics {
			recv = 0
		}
		now := 0
		if d := time.Since(h.epoch); d >= cx1Interval/2 {
			now = int((d - cx1Interval/2) / cx1Interval)
		}
		h.cfg.mu.Lock()
		reloads := h.cfg.reloads
		h.cfg.mu.Unlock()
		out = map[string]any{
			"pendingSet": h.core.Rec.Pending(h.stamp),
			"got":        h.core.Rec.Got(),
			"mPub":       int(pub),
			"mRecv":      int(recv),
			"blocked":    h.core.Blocked,
			"reloads":    reloads,
			"now":        now,
		}
		if h.core.Panic != "" {
			out["panic"] = h.core.Panic
		}
	})
	return out, nil
}

func TestVerifCX1Watcher(t *testing.T) {
	h := &cx1Harness{t: t}
	err := verifkit.Main(h)
	h.end()
	if err != nil {
		t.Fatal(err)
	}
}
