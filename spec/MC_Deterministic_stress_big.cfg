SPECIFICATION Spec
CONSTANTS
  Kind = "stress"
  H = 31
  Rates = {0, 1, 2, 3, 4, 5, 8, 16}
  Insts = {"A", "B"}
  Tables = {"small", "large", "extreme"}
  ExtremeFrom = 8
INVARIANTS TypeOK BoundIsThreshold KeepIsThreshold RateLE1KeepsAll InstancesAgree NestedAnswers
PROPERTIES AskingIsPure ConfigureIsLocal
ACTION_CONSTRAINT Dump
VIEW View
