SPECIFICATION Spec
CONSTANTS
  DataFields = {"a", "b"}
  Vals = {"s:x", "i:7"}
  DelimVals = {}
  MaxSpans = 3
  CfgNames = {"ab", "a_rb", "ab_ra"}
  Samplers = {"dynamic", "emadynamic", "emathroughput", "windowedthroughput", "totalthroughput"}
INVARIANTS TypeOK NFSound PermutationInvariant DuplicationInvariant IrrelevantCellsInvariant PairsDistinct OutConsistent
CHECK_DEADLOCK FALSE
ACTION_CONSTRAINT Dump
VIEW View
