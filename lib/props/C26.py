"""C26 Transmission delivers each event once to its own destination within limits."""

def _walk(name, cfg, budget):
    return dict(kind="walk", name=name, module="Transmission", pkg="transmit", test="TestVerifC26Transmission",
                harness=["transmit/c26_transmission_test.go"], cfg=cfg, budget=budget, dump_workers=1)

PROP = dict(
    level="model_checking",
    technique="TLA+ spec Transmission.tla",
    design_ref="DESIGN.md §5 C26",
    level_text="",
    level_note="",
    assumptions=[],
    stages=[_walk("dest", {"quick": "MC_Transmission_dest_q.cfg", "thorough": "MC_Transmission_dest.cfg"}, {"quick": 20, "thorough": 200}),
            _walk("retry", {"quick": "MC_Transmission_retry_q.cfg", "thorough": "MC_Transmission_retry.cfg"}, {"quick": 20, "thorough": 200}),
            _walk("split", {"quick": "MC_Transmission_split_q.cfg", "thorough": "MC_Transmission_split.cfg"}, {"quick": 20, "thorough": 200})],
)
