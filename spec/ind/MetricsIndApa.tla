---------------------------- MODULE MetricsIndApa ----------------------------
(* Apalache front end of MetricsInd.  Next is the union of both grains.     *)
EXTENDS MetricsInd, Apalache

\* MaxCount, MaxNet, MaxOps >= 0: any integers; up to 2 names per family (any strings, families disjoint);
\* up to 3 threads of an uninterpreted sort; up to 2 values; one cell per name (MaxGen = 1: the domain of
\* heap[n] must be a constant interval for Apalache; TLAPS has any MaxGen >= 1)
ConstInit == /\ MaxCount \in Int /\ MaxNet \in Int /\ MaxOps \in Int
             /\ Counters = Gen(2) /\ Gauges = Gen(2) /\ UpDowns = Gen(2) /\ Hists = Gen(2) /\ Stores = Gen(2)
             /\ Vals = Gen(2) /\ Threads = Gen(3)
             /\ MaxGen = 1 /\ RegisterReplaces = FALSE
             /\ ConstOK

IndInit == /\ reg \in [Names -> BOOLEAN] /\ gen \in [Names -> Int] /\ ideal \in [Names -> Int]
           /\ \E hv \in [Names -> Int] : heap = [n \in Names |-> [g \in 1 .. MaxGen |-> hv[n]]]   \* any heap (MaxGen = 1)
           /\ pc \in [Threads -> PCs] /\ tn \in [Threads -> Names \cup {""}] /\ top \in [Threads -> {"", "add", "set", "reg", "get"}]
           /\ tk \in [Threads -> Int] /\ tp \in [Threads -> Int] /\ gotOK \in [Threads -> BOOLEAN]
           /\ ops \in Int
           /\ IndInv

\* one induction step covers both grains
Next == AtomicNext \/ FineNext

\* TypeOK of Metrics.tla with `ideal[n] \in Int` and the interval-valued conjuncts as predicates
TypeOKPred == /\ \A n \in Names : 0 <= gen[n] /\ gen[n] <= MaxGen /\ DOMAIN heap[n] = 1 .. MaxGen
              /\ \A t \in Threads : pc[t] \in PCs
              /\ 0 <= ops /\ ops <= MaxOps
              /\ \A n \in Hists : gen[n] = 0
SafetyPred == TypeOKPred /\ ReadBack /\ SingleCell /\ GetLinearizable

\* non-vacuity probes (a counterexample is expected)
ProbeFine == ~(\E t \in Threads : pc[t] = "apply" /\ tn[t] \in Counters /\ ideal[tn[t]] > 1000 /\ Cardinality(Threads) = 3 /\ ops > 100)
ProbeAtomic == ~(\E n \in UpDowns : gen[n] = 1 /\ ideal[n] < 0 - 1000 /\ MaxNet > 5000 /\ \E m \in Hists : reg[m])
=============================================================================
