------------------------------ MODULE AuthLive ------------------------------
(***************************************************************************)
(* Ingest authorization and key replacement under LIVE RELOADS of the      *)
(* access-key configuration (property C24, second family).                 *)
(*                                                                         *)
(* Auth.tla evaluates the documented function once per (configuration,     *)
(* client key) on a router that was STARTED with that configuration.  Here *)
(* one router lives through a history: its configuration is a real         *)
(* file-backed one (config.NewConfig over a config file and a rules file), *)
(* the file is edited (Write) and re-read (Reload, fileConfig.Reload)      *)
(* between requests, and every request (Round: one client key sent to      *)
(* every ingestion endpoint) must be authorised and re-keyed by the        *)
(* configuration IN FORCE when it is received:                             *)
(*   - the configuration in force is the one of the last successful        *)
(*     Reload (the startup one before that); editing the file changes      *)
(*     nothing until a Reload, a refused Reload changes nothing at all;    *)
(*   - C24's statement, unchanged, is then read against `run`: accepted    *)
(*     exactly when authorised, upstream key as the SendKeyMode table      *)
(*     prescribes, never blank, all endpoints alike.                       *)
(* The documented function itself is NOT restated: Authorized, TableKey    *)
(* and CheckThenReplace are the operators of Auth.tla (INSTANCE).          *)
(*                                                                         *)
(* A configuration is                                                      *)
(*   [mode, aol, sendKey, posA]                                            *)
(*     sendKey  "unset" or the name of a SendKey value ("s1", "s2")        *)
(*     posA     where the movable client key "a" is listed: "keys" (in     *)
(*              ReceiveKeys), "ids" (its key ID in ReceiveKeyIDs), "none"  *)
(* (ReceiveKeys always also holds filler keys nobody sends, so lists have  *)
(* several entries and the movable key is in the middle).  Edits change    *)
(* one field at a time (Nbrs): SendKeyMode, AcceptOnlyListedKeys, SendKey  *)
(* set / unset / replaced, key added / revoked / moved between ReceiveKeys *)
(* and ReceiveKeyIDs.  A refused reload is provoked by a file that holds   *)
(* the configuration differing in EVERY field (Opp) plus something the     *)
(* loader rejects, so that a partial application could not go unnoticed.   *)
(*                                                                         *)
(* Client keys: "blank", "a", and every SendKey value (a SendKey value     *)
(* that is not the configured one is just an unlisted key).                *)
(*                                                                         *)
(* Ghost `fresh` (hidden) remembers, until the next Write, the             *)
(* configuration that was in force before the last applied Reload: it      *)
(* makes (previous, current) part of the state identity, so the transition *)
(* tour sends every client key to every endpoint right after EVERY kind of *)
(* edit in every context, not merely once per configuration.  Every state  *)
(* but the initial one lies behind at least one live reload.               *)
(*                                                                         *)
(* Bookkeeping steps without code counterpart: Clear (the driver has read  *)
(* the result of Reload / the outcomes of a Round) and Forget (drops the   *)
(* ghost); Write, Reload and Round start from a cleared state only, which  *)
(* keeps the graph linear in the number of configurations.                 *)
(***************************************************************************)
EXTENDS Integers, Sequences, FiniteSets, TLC, Json

CONSTANTS UnlistedBlank,   \* "reject" | "inject" (see Auth.tla)
          ModeRing,        \* sequence of the SendKeyModes visited
          ModeSteps,       \* an edit moves the mode this many places along the ring (set of offsets)
          SendKeyVals,     \* names of SendKey values, e.g. {"s1"} or {"s1", "s2"}
          AllEncodings,    \* FALSE: one body encoding per endpoint; TRUE: all of them
          PendingRounds    \* TRUE: requests are also sent while an edited file awaits its Reload

VARIABLES run,    \* configuration in force
          file,   \* what the configuration file holds: [cfg, ok]; ok = FALSE: the loader refuses it
          fresh,  \* ghost: configuration replaced by the last applied Reload (NoCfg once forgotten)
          res,    \* result of the last Reload: "none" | "nil" | "err"
          req,    \* client key of the last Round, "none" when cleared
          out,    \* outcomes of the last Round, one per endpoint
          act

vars == <<run, file, fresh, res, req, out, act>>

\* the documented function: Auth.tla, ideal pipeline, no deviation
A == INSTANCE Auth WITH Faithful <- FALSE, UseKeysChoices <- {TRUE},
                        vec <- [mode |-> "none", aol |-> FALSE, sendKeySet |-> FALSE, useKeys |-> TRUE, useKeyIDs |-> TRUE, key |-> "blank"],
                        outs <- <<>>, devs <- {}

Modes     == {ModeRing[i] : i \in 1 .. Len(ModeRing)}
SendKeys  == {"unset"} \cup SendKeyVals
Positions == {"none", "keys", "ids"}
Configs   == [mode : Modes, aol : BOOLEAN, sendKey : SendKeys, posA : Positions]
NoCfg     == [mode |-> "-", aol |-> FALSE, sendKey |-> "-", posA |-> "-"]
ClientKeys == {"blank", "a"} \cup SendKeyVals
Targets   == A!Targets

ASSUME /\ Modes \subseteq A!Modes /\ Len(ModeRing) = Cardinality(Modes)
       /\ "unset" \notin SendKeyVals /\ SendKeyVals \cap {"blank", "a", "none", "-"} = {}
       /\ ModeSteps \subseteq 1 .. (Len(ModeRing) - 1)

\* the harness is told which endpoints a Round visits
ASSUME PrintT(ToJson([params |-> [targets |-> Targets]]))

\* mode rings for the cfgs (a cfg file cannot spell a sequence)
RingQuick == <<"listedonly", "none", "unlisted">>
RingFull  == <<"listedonly", "none", "unlisted", "all", "nonblank", "missingonly">>

---------------------------------------------------------------------------
(* edits *)

ModeIdx(m)  == CHOOSE i \in 1 .. Len(ModeRing) : ModeRing[i] = m
ModeAt(m, d) == ModeRing[((ModeIdx(m) - 1 + d) % Len(ModeRing)) + 1]
NextPos(p)  == CASE p = "none" -> "keys" [] p = "keys" -> "ids" [] OTHER -> "none"
OtherSend(s) == IF s = "unset" THEN CHOOSE v \in SendKeyVals : TRUE ELSE "unset"

\* configurations one edit away
Nbrs(c) == {[c EXCEPT !.mode = ModeAt(c.mode, d)] : d \in ModeSteps}
           \cup {[c EXCEPT !.aol = ~c.aol]}
           \cup {[c EXCEPT !.sendKey = s] : s \in SendKeys \ {c.sendKey}}
           \cup {[c EXCEPT !.posA = p] : p \in Positions \ {c.posA}}

\* the configuration that differs from c in every field
Opp(c) == [mode |-> ModeAt(c.mode, 1), aol |-> ~c.aol, sendKey |-> OtherSend(c.sendKey), posA |-> NextPos(c.posA)]

Good(c) == [cfg |-> c, ok |-> TRUE]
Bad(c)  == [cfg |-> c, ok |-> FALSE]

---------------------------------------------------------------------------
(* a request, answered by the configuration in force *)

\* the key class of Auth.tla a client key falls into under configuration c
Class(c, k) == IF k = "blank" THEN "blank"
               ELSE IF k = c.sendKey THEN "send"
               ELSE IF k = "a" /\ c.posA = "keys" THEN "listed"
               ELSE IF k = "a" /\ c.posA = "ids" THEN "byid"
               ELSE "unlisted"

Vec(c, k) == [mode |-> c.mode, aol |-> c.aol, sendKeySet |-> (c.sendKey # "unset"), useKeys |-> TRUE, useKeyIDs |-> TRUE, key |-> Class(c, k)]

\* the concrete key a key class of the answer stands for
Concrete(c, k, cls) == IF cls = "send" THEN c.sendKey ELSE k

Outcome(c, k) == LET o == A!CheckThenReplace(Vec(c, k)) IN
                 [accepted |-> o.accepted, keysSet |-> {Concrete(c, k, x) : x \in o.keysSet}]

Entry(t, o) == [ep |-> t.ep, enc |-> t.enc, accepted |-> o.accepted, keysSet |-> o.keysSet]

---------------------------------------------------------------------------
Start == [mode |-> ModeRing[1], aol |-> TRUE, sendKey |-> CHOOSE v \in SendKeyVals : TRUE, posA |-> "keys"]

Init == /\ run = Start
        /\ file = Good(Start)
        /\ fresh = NoCfg
        /\ res = "none" /\ req = "none" /\ out = <<>>
        /\ act = [name |-> "Init"]

Cleared == res = "none" /\ req = "none"

\* the configuration file (and the rules file) is replaced
Write == /\ Cleared /\ fresh = NoCfg
         /\ (file = Good(run) \/ ~file.ok)
         /\ \E f \in {Good(c) : c \in Nbrs(run)} \cup {Bad(Opp(run))} \cup {Good(run)} :
              /\ f # file
              /\ file' = f
              /\ act' = [name |-> "Write", cfg |-> f.cfg, ok |-> f.ok]
         /\ UNCHANGED <<run, fresh, res, req, out>>

\* fileConfig.Reload: an acceptable file becomes the configuration in force,
\* a refused one changes nothing and is reported
Reload == /\ Cleared /\ fresh = NoCfg
          /\ file # Good(run)
          /\ IF file.ok THEN /\ run' = file.cfg
                             /\ fresh' = run
                             /\ res' = "nil"
                        ELSE /\ res' = "err"
                             /\ UNCHANGED <<run, fresh>>
          /\ act' = [name |-> "Reload"]
          /\ UNCHANGED <<file, req, out>>

\* one request per endpoint with client key k
Round == /\ Cleared
         /\ (file = Good(run) \/ ~file.ok \/ PendingRounds)
         /\ \E k \in ClientKeys :
              /\ req' = k
              /\ out' = [i \in 1 .. Len(Targets) |-> Entry(Targets[i], Outcome(run, k))]
              /\ act' = [name |-> "Round", key |-> k]
         /\ UNCHANGED <<run, file, fresh, res>>

Clear == /\ ~Cleared
         /\ res' = "none" /\ req' = "none" /\ out' = <<>>
         /\ act' = [name |-> "Clear"]
         /\ UNCHANGED <<run, file, fresh>>

Forget == /\ Cleared /\ fresh # NoCfg
          /\ fresh' = NoCfg
          /\ act' = [name |-> "Forget"]
          /\ UNCHANGED <<run, file, res, req, out>>

Next == Write \/ Reload \/ Round \/ Clear \/ Forget

Spec == Init /\ [][Next]_vars

---------------------------------------------------------------------------
N == Len(out)

TypeOK == /\ run \in Configs
          /\ file \in [cfg : Configs, ok : BOOLEAN]
          /\ fresh \in Configs \cup {NoCfg}
          /\ res \in {"none", "nil", "err"}
          /\ req \in ClientKeys \cup {"none"}
          /\ (req = "none") = (out = <<>>)
          /\ N \in {0, Len(Targets)}
          /\ \A i \in 1 .. N : /\ out[i].ep = Targets[i].ep /\ out[i].enc = Targets[i].enc
                               /\ out[i].accepted \in BOOLEAN
                               /\ out[i].keysSet \subseteq ClientKeys

\* C24: all endpoints (and encodings) answer the same request the same way
LiveUniform == \A i, j \in 1 .. N : out[i].accepted = out[j].accepted /\ out[i].keysSet = out[j].keysSet

\* C24, read against the configuration in force: accepted only when
\* AcceptOnlyListedKeys is off, or the key the client sent (or its key ID) is
\* listed NOW, or it equals the SendKey configured NOW
LiveAcceptedOnlyIfAuthorized ==
  \A i \in 1 .. N : out[i].accepted =>
      \/ ~run.aol
      \/ (req = "a" /\ run.posA \in {"keys", "ids"})
      \/ (run.sendKey # "unset" /\ req = run.sendKey)

\* an authorized request is refused only because it would have to leave with a blank key
LiveRefusedOnlyIfUnauthorizedOrBlank ==
  \A i \in 1 .. N : ~out[i].accepted =>
      (~A!Authorized(Vec(run, req), Class(run, req)) \/ A!TableKey(Vec(run, req), Class(run, req)) = "blank")

\* no event ever leaves with a blank key; nothing leaves from a refused request
LiveNeverBlank == \A i \in 1 .. N : /\ "blank" \notin out[i].keysSet
                                    /\ (~out[i].accepted => out[i].keysSet = {})

\* accepted data carries exactly the key the SendKeyMode table prescribes under the configuration in force
LiveKeyPerTable ==
  \A i \in 1 .. N : out[i].accepted =>
      out[i].keysSet = {Concrete(run, req, A!TableKey(Vec(run, req), Class(run, req)))}

\* a key revoked by the configuration in force is not re-keyed with the SendKey when only listed keys are accepted
LiveSendKeyOnlyForListed ==
  \A i \in 1 .. N : (run.aol /\ run.sendKey # "unset" /\ run.sendKey \in out[i].keysSet) =>
      ((req = "a" /\ run.posA # "none") \/ req = run.sendKey)

\* what is in force is what the last applied Reload read; nothing else moves it
\* (action properties, checked by TLC on every transition)
OnlyReloadChangesRun == [][run' # run => (act'.name = "Reload" /\ res' = "nil" /\ file.ok /\ run' = file.cfg)]_vars
RefusedChangesNothing == [][res' = "err" => (run' = run /\ ~file.ok)]_vars
AppliedIsFile == [][res' = "nil" => (run' = file.cfg /\ fresh' = run)]_vars

\* the ghost holds a configuration one edit away (or nothing)
FreshIsNeighbour == fresh # NoCfg => run \in Nbrs(fresh)

---------------------------------------------------------------------------
\* the projection both sides compare: the configuration in force as the
\* getters show it, the result of Reload, and the answers of the endpoints
Abs == [cfg |-> run, res |-> res, req |-> req, out |-> out]
Hid == [file |-> file, fresh |-> fresh]
Dump == PrintT(ToJson([fa |-> act.name, act |-> act', fabs |-> Abs, fhid |-> Hid, tabs |-> Abs', thid |-> Hid']))
View == <<run, file, fresh, res, req, out>>
=============================================================================
