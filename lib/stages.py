"""Stage runners for vcheck: walk (B1/B3), tlc (pure model checking), trace (B2)."""
import json
import os
import shutil
import time

import vlib
from vlib import CannotDecide, log


class Ctx:
    def __init__(self, prop, tier, seed, replay=None):
        self.prop, self.tier, self.seed, self.replay = prop, tier, seed, replay
        self.violations = []      # replay file paths
        self.known = []           # strings for KNOWN-FINDING lines
        self.states = 0
        self.transitions = 0
        self.tlc_generated = 0
        self.traces = 0
        self.steps = 0
        self.samples = []
        self.extra = {}
        self.exhaustive = True
        self.nrep = 0

    def new_replay_path(self, stage_name):
        d = os.path.join(vlib.BUILD, "replay")
        os.makedirs(d, exist_ok=True)
        self.nrep += 1
        return os.path.join(d, f"{self.prop}-{stage_name}-{self.tier}-{self.seed}-{self.nrep}.json")

    def coverage(self, spec):
        cov = dict(states=self.states, transitions=self.transitions,
                   traces_validated_against_impl=self.traces,
                   samples=self.samples[:4] or ["(no samples)"],
                   evaluations=max(self.steps, 1), tlc_states_generated=self.tlc_generated,
                   exhaustive=self.exhaustive)
        cov["distinct_nontrivial"] = self.traces   # independent walks / recorded traces / concurrent runs replayed on the real code
        cov["rule"] = spec.get("rule", "a case is one walk from Init (transition tour), one recorded trace, or one concurrent run; walks are distinct by construction "
                               "(each starts from a fresh object and is steered to edges not yet covered); non-trivial = it executed at least one action on the real code")
        cov.update(self.extra)
        return cov


def _ract(step):
    """action of a recorded step for a replay file; a blind step (applied without observing) is replayed blind"""
    a = dict(step["act"])
    if step.get("blind"):
        a["_blind"] = True
    return a


def tier_val(v, tier):
    if isinstance(v, dict) and ("quick" in v or "thorough" in v):
        return v.get(tier, v.get("quick"))
    return v


def replay_applies(stage, replay_path):
    try:
        with open(replay_path) as fh:
            rf = json.load(fh)
    except Exception as e:  # noqa: BLE001
        raise CannotDecide(f"cannot read replay file {replay_path}: {e}")
    return rf.get("stage") == stage.get("name", stage.get("module"))


def run_stage(ctx, st):
    kind = st["kind"]
    if kind == "walk":
        return stage_walk(ctx, st)
    if kind == "tlc":
        return stage_tlc(ctx, st)
    if kind == "trace":
        import tracestage
        return tracestage.stage_trace(ctx, st)
    if kind == "gotest":
        import tracestage
        return tracestage.stage_gotest(ctx, st)
    if kind == "ind":   # inductive-invariant obligations (Apalache / TLAPS) and their TLC tie to the original module: lib/indstage.py
        import indstage
        return indstage.stage_ind(ctx, st)
    raise CannotDecide(f"unknown stage kind {kind}")


# ---------------------------------------------------------------------------

def tlc_or_die(module, cfg, wd, workers, timeout, what, extra=None):
    r = vlib.run_tlc(module, cfg, wd, workers=workers, timeout=timeout, extra=extra)
    if not r["ok"]:
        tail = "\n".join(r["tail"][-40:])
        raise CannotDecide(f"TLC did not accept {module}/{cfg} ({what}): rc={r['rc']}\n{tail}")
    return r


def stage_tlc(ctx, st):
    """Pure model checking of a (usually larger or liveness) configuration."""
    name = st.get("name", st["module"])
    cfg = tier_val(st["cfg"], ctx.tier)
    if not cfg:
        return
    wd = vlib.scratch(f"{ctx.prop}-{name}-tlc")
    vlib.stage_specs(wd)
    r = tlc_or_die(st["module"], cfg, wd, workers=st.get("workers", 8), timeout=tier_val(st.get("timeout", 600), ctx.tier), what="model checking")
    log(f"[{ctx.prop}] TLC {st['module']}/{cfg}: {r['generated']} generated, {r['distinct']} distinct, {r['wall_s']:.1f}s")
    ctx.states += r["distinct"] or 0
    ctx.tlc_generated += r["generated"] or 0
    ctx.transitions += r["generated"] or 0
    ctx.extra.setdefault("tlc_runs", []).append(dict(module=st["module"], cfg=cfg, generated=r["generated"], distinct=r["distinct"], wall_s=round(r["wall_s"], 2)))
    shutil.rmtree(wd, ignore_errors=True)


def stage_walk(ctx, st):
    """B1/B3: TLC exhaustive run with edge dump, then replay through the Go walker.

    `alternatives`: several cfgs for conventions the property leaves open; the
    stage passes if the real code conforms to at least one of them.
    """
    name = st.get("name", st["module"])
    alts = st.get("alternatives") or [dict(name="main", cfg=st["cfg"])]
    budget = tier_val(st.get("budget", {"quick": 30, "thorough": 300}), ctx.tier)
    results = []
    for alt in alts:
        cfg = tier_val(alt["cfg"], ctx.tier)
        wd = vlib.scratch(f"{ctx.prop}-{name}-{alt['name']}")
        vlib.stage_specs(wd)
        graph = os.path.join(wd, "graph.json")
        cache = getattr(ctx, "_graph_cache", None)
        if cache is None:
            cache = ctx._graph_cache = {}
        if (st["module"], cfg) in cache:   # an earlier stage of this run dumped the same configuration
            cpath, r, gi = cache[(st["module"], cfg)]
            os.link(cpath, graph)
            log(f"[{ctx.prop}] graph of {st['module']}/{cfg} reused ({gi['states']} states {gi['edges']} edges)")
        else:
            r = tlc_or_die(st["module"], cfg, wd, workers=st.get("dump_workers", 4), timeout=tier_val(st.get("tlc_timeout", 900), ctx.tier), what="exhaustive + edge dump")
            gi = vlib.build_graph(r["out"], st["module"], graph)
            os.unlink(r["out"])
            log(f"[{ctx.prop}] TLC {st['module']}/{cfg}: {r['generated']} generated, {r['distinct']} distinct; graph {gi['states']} states {gi['edges']} edges {gi['init']} init; {r['wall_s']:.1f}s")
            if st.get("share_graph"):
                cdir = vlib.scratch(f"{ctx.prop}-graphcache-{len(cache)}")
                cpath = os.path.join(cdir, "graph.json")
                os.link(graph, cpath)
                cache[(st["module"], cfg)] = (cpath, r, gi)
        out = os.path.join(wd, "walk_result.json")
        env = dict(VERIF_GRAPH=graph, VERIF_OUT=out, VERIF_SEED=ctx.seed, VERIF_BUDGET_S=budget,
                   VERIF_MAXWALK=st.get("maxwalk", 64), VERIF_TIER=ctx.tier, VERIF_ALT=alt["name"],
                   VERIF_RANDOM_S=tier_val(st.get("random", 0), ctx.tier), VERIF_BLIND_P=st.get("blind", 0))
        if ctx.replay:
            env["VERIF_REPLAY"] = ctx.replay
        env.update(st.get("env", {}))
        g = vlib.run_go_test(st["pkg"], "^" + st["test"] + "$", env, timeout=budget + 600, harness_files=st["harness"], race=st.get("race", False))
        if not os.path.exists(out):
            raise CannotDecide(f"harness {st['pkg']}/{st['test']} produced no result (rc={g['rc']}):\n{g['out'][-4000:]}")
        with open(out) as fh:
            res = json.load(fh)
        res["_alt"] = alt["name"]
        res["_tlc"] = r
        res["_gi"] = gi
        res["_gotest_rc"] = g["rc"]
        res["_wd"] = wd
        results.append(res)
        errs = [d for d in (res.get("divergences") or []) if d["kind"] == "error"]
        if errs:
            raise CannotDecide(f"harness error in {st['test']}: {errs[0].get('error')}\n{g['out'][-2000:]}")
        if res["steps"] == 0 and not res.get("divergences"):
            raise CannotDecide(f"dead driver: {st['test']} replayed no step ({res.get('note')})")
        log(f"[{ctx.prop}] walk {name}/{alt['name']}: {res['walks']} walks, {res['steps']} steps, groups {res['groups_covered']}/{res['groups_total']}, divergences {len(res.get('divergences') or [])}, devs {res.get('dev_counts')}, timed_out={res['timed_out']}" + (f", random phase {res.get('random_walks')} walks {res.get('random_steps')} steps" if res.get('random_steps') else ""))
        if not (res.get("divergences") or []):
            break  # conforms to this alternative; no need to try the others
    good = [r for r in results if not (r.get("divergences") or [])]
    chosen = good[0] if good else results[0]
    # evidence accounting (from the alternative that decided)
    ctx.states += chosen["_gi"]["states"]
    ctx.transitions += chosen["_gi"]["edges"]
    ctx.tlc_generated += chosen["_tlc"]["generated"] or 0
    ctx.traces += chosen["walks"]
    ctx.steps += chosen["steps"]
    if chosen["timed_out"] or chosen["groups_covered"] < chosen["groups_total"]:
        ctx.exhaustive = False
    for s in (chosen.get("samples") or [])[:2]:
        ctx.samples.append(dict(stage=name, walk=vlib.trunc([dict(act=x["act"], observed=x.get("observed")) for x in (s or [])], 8)))
    ctx.extra.setdefault("walk_stages", []).append(dict(
        stage=name, alternative=chosen["_alt"], module=st["module"], cfg=tier_val([a for a in alts if a["name"] == chosen["_alt"]][0]["cfg"], ctx.tier),
        graph_states=chosen["_gi"]["states"], graph_edges=chosen["_gi"]["edges"],
        edge_groups_total=chosen["groups_total"], edge_groups_replayed=chosen["groups_covered"],
        edges_matched=chosen["edges_covered"], walks=chosen["walks"], steps=chosen["steps"],
        timed_out=chosen["timed_out"], random_walks=chosen.get("random_walks", 0), random_steps=chosen.get("random_steps", 0), dev_counts=chosen.get("dev_counts"), tlc_wall_s=round(chosen["_tlc"]["wall_s"], 2), walk_wall_s=round(chosen["wall_s"], 2)))
    # deviations followed by the real code
    for dev, n in (chosen.get("dev_counts") or {}).items():
        k = vlib.open_finding(ctx.prop, dev)
        if k:
            ctx.known.append(f"{k['id']} deviation={dev} hits={n}: {k['what']}")
        else:
            hits = [h for h in (chosen.get("dev_hits") or []) if h["dev"] == dev]
            hit = hits[0] if hits else dict(init=None, prefix=[], act=dict(name="(deviation followed; example not retained)"), observed=None)
            p = ctx.new_replay_path(name)
            with open(p, "w") as fh:
                json.dump(dict(property=ctx.prop, stage=name, module=st["module"], alternative=chosen["_alt"], kind="unlisted-deviation", deviation=dev,
                               init=hit["init"], actions=[_ract(s) for s in (hit.get("prefix") or [])] + [hit["act"]], observed=hit.get("observed")), fh, indent=1)
            ctx.violations.append(p)
    if not good:
        for d in results[0]["divergences"]:
            p = ctx.new_replay_path(name)
            with open(p, "w") as fh:
                json.dump(dict(property=ctx.prop, stage=name, module=st["module"], alternative=results[0]["_alt"], kind=d["kind"],
                               init=d["init"], actions=[_ract(s) for s in (d.get("prefix") or [])] + ([d["act"]] if d.get("act") else []),
                               divergence=d, other_alternatives=[dict(alt=r["_alt"], first=(r["divergences"][0] if r["divergences"] else None)) for r in results[1:]]), fh, indent=1)
            log(f"[{ctx.prop}] DIVERGENCE at {json.dumps(d.get('act'))}: differing fields {d.get('diff_fields')} observed={json.dumps(d.get('observed'))[:400]}")
            ctx.violations.append(p)
    for r in results:
        shutil.rmtree(r["_wd"], ignore_errors=True)
