SPECIFICATION Spec
CONSTANTS
  Subs = {"a", "b"}
  Timeouts = {3, 5}
  Tick = 2
  UnitMs = 250
  Exact = FALSE
INVARIANTS TypeOK C30Alive C30Ready CodeMatchesGhosts CodeWithinStatement
PROPERTY DeadUntilReport
ACTION_CONSTRAINT Dump
VIEW View
