\* C15 walk stage cluster, quick bound; convention HoldStrict=False ExpiryClosed=True; hold by stored deadline (the code), its deviation edges included (Faithful)
SPECIFICATION Spec
CONSTANTS
  Peers = {"p1", "p2"}
  LocalLevels = {0, 100}
  PeerLevels = {0, 40, 100}
  Sources = {"incoming"}
  ModeNames = {"monitor"}
  Thresholds <- ThOne
  MinDurs = {0}
  Timeout = 1
  AdvSteps = {1, 2}
  HoldStrict = FALSE
  ExpiryClosed = TRUE
  HoldBy = "deadline"
  Faithful = TRUE
INVARIANTS TypeOK LevelBounded
PROPERTIES LevelFormula OnlyRecalcSwitches OnOnlyIfReached OnWhenReached OffOnlyAfterHold ModePins
ACTION_CONSTRAINT Dump
VIEW View
