SPECIFICATION Spec
CONSTANTS
  Workers = {1, 2}
  Order = "queueFirst"
  MaxTicks = 2
INVARIANTS TypeOK NoUseAfterStop CachesOutliveLoops QueueOutlivesLoops
PROPERTY StopReturns
CHECK_DEADLOCK FALSE
