------------------------------ MODULE Admission ------------------------------
(***************************************************************************)
(* Queue admission and peer-first processing of one collector worker       *)
(* (collect/collector_worker.go addSpan / addSpanFromPeer / collect loop). *)
(* Extends the Collector model below the grain Collector.tla uses (there   *)
(* Arrive+Process is one step): here a span is first ADMITTED to the       *)
(* worker's bounded incoming or peer queue - or refused with ErrWouldBlock *)
(* when that queue is full, which the batch endpoint reports as 429 (C23)  *)
(* - and later processed; the worker always drains its peer queue before   *)
(* taking incoming spans.  Supports C02 ("every accepted span ...") and    *)
(* C23 (429 exactly for spans refused because the queue was full).         *)
(***************************************************************************)
EXTENDS Integers, Sequences, FiniteSets, TLC, Json

CONSTANTS Cap,       \* capacity of each queue
          MaxSpans

VARIABLES paused,     \* the worker is held (it cannot take anything from its queues)
          inq, peerq, \* sequences of admitted span ids
          processed,  \* ids in the order the worker processed them
          refused,    \* ids refused with ErrWouldBlock
          nextId, act

vars == <<paused, inq, peerq, processed, refused, nextId, act>>

Init == /\ paused = FALSE /\ inq = <<>> /\ peerq = <<>> /\ processed = <<>> /\ refused = {}
        /\ nextId = 1 /\ act = [name |-> "Init"]

\* with the worker running, an admitted span is processed at once (queues stay empty)
Add(src) ==
  /\ nextId <= MaxSpans
  /\ nextId' = nextId + 1
  /\ act' = [name |-> "Add", src |-> src, id |-> nextId]
  /\ IF ~paused
     THEN /\ processed' = Append(processed, nextId) /\ UNCHANGED <<inq, peerq, refused>>
     ELSE LET q == IF src = "peer" THEN peerq ELSE inq IN
          IF Len(q) >= Cap
          THEN /\ refused' = refused \cup {nextId} /\ UNCHANGED <<inq, peerq, processed>>
          ELSE /\ IF src = "peer" THEN peerq' = Append(peerq, nextId) /\ inq' = inq
                                  ELSE inq' = Append(inq, nextId) /\ peerq' = peerq
               /\ UNCHANGED <<processed, refused>>
  /\ UNCHANGED paused

Pause == /\ ~paused /\ paused' = TRUE /\ act' = [name |-> "Pause"]
         /\ UNCHANGED <<inq, peerq, processed, refused, nextId>>

\* the worker resumes: peer queue first, then incoming, each in FIFO order
Resume == /\ paused /\ paused' = FALSE
          /\ processed' = processed \o peerq \o inq
          /\ inq' = <<>> /\ peerq' = <<>>
          /\ act' = [name |-> "Resume"]
          /\ UNCHANGED <<refused, nextId>>

Next == (\E s \in {"incoming", "peer"} : Add(s)) \/ Pause \/ Resume
Spec == Init /\ [][Next]_vars

Range(s) == {s[i] : i \in DOMAIN s}
TypeOK == Len(inq) <= Cap /\ Len(peerq) <= Cap
\* every admitted span is queued or processed exactly once; refused ones never are
Conservation ==
  /\ Range(processed) \cap refused = {} /\ Range(inq) \cap Range(peerq) = {}
  /\ Cardinality(Range(processed)) = Len(processed)
  /\ Range(processed) \cup Range(inq) \cup Range(peerq) \cup refused = 1 .. (nextId - 1)
\* refusal only when the queue was full
RefusedOnlyWhenFull == [][\A i \in refused' \ refused : paused /\ (Len(inq) = Cap \/ Len(peerq) = Cap)]_vars

Abs == [paused |-> paused, inLen |-> Len(inq), peerLen |-> Len(peerq), processed |-> processed, refusedSet |-> refused]
St == [paused |-> paused, inq |-> inq, peerq |-> peerq, processed |-> processed, refusedSet |-> refused, nextId |-> nextId]
Dump == PrintT(ToJson([fs |-> St, fa |-> act.name, act |-> act', ts |-> St', fabs |-> Abs, tabs |-> Abs']))
View == <<paused, inq, peerq, processed, refused, nextId>>
=============================================================================
