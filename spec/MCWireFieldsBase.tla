-------------------------- MODULE MCWireFieldsBase --------------------------
(* Constants shared by the WireFields configurations (property C20, decision pipeline).                      *)
(* The sampler records mirror the REAL sampler configurations of harness/collect/c20_wire_test.go            *)
(* (c20wSampler); the harness refuses to run if Sampler.GetKeyFields() of the real sampler differs from      *)
(* all / nonroot below.                                                                                      *)
EXTENDS WireFields
mc_ClientNames == {"svc", "http", "http.response.status", "tags", "dur"}
mc_PathNames == {"http.response.status", "http.method", "tags.0", "http.request.id"}
mc_Under == ("http.response.status" :> "http") @@ ("http.method" :> "http") @@ ("tags.0" :> "tags") @@ ("http.request.id" :> "http")
S(id, all, nonroot, nested, paths) == [id |-> id, all |-> all, nonroot |-> nonroot, nested |-> nested, paths |-> paths]
\* rules, CheckNestedFields on: 4 rules naming http.request.id (never resolves) and http.response.status (three times)
mc_RulesNested == S("rules-nested", {"http.request.id", "http.response.status"}, {"http.request.id", "http.response.status"}, TRUE, {"http.request.id", "http.response.status"})
\* the same rules, CheckNestedFields off
mc_RulesFlat == S("rules-flat", {"http.request.id", "http.response.status"}, {"http.request.id", "http.response.status"}, FALSE, {"http.request.id", "http.response.status"})
\* Fields lists mixing root.-prefixed and plain names, nested on
mc_RulesRootList == S("rules-rootlist", {"http.response.status", "http.method", "tags.0", "svc"}, {"http.method", "svc"}, TRUE, {"http.response.status", "http.method", "tags.0", "svc"})
\* Scope: span, two conditions per rule, nested on
mc_RulesSpanScope == S("rules-spanscope", {"svc", "http.method"}, {"svc", "http.method"}, TRUE, {"svc", "http.method"})
\* rules with downstream Dynamic / EMADynamic samplers (key fields incl. a nested map and a root. field), nested on
mc_RulesDownstream == S("rules-downstream", {"tags.0", "svc", "http.response.status", "dur", "http"}, {"tags.0", "svc", "http.response.status", "http"}, TRUE, {"tags.0"})
\* DynamicSampler keyed on a scalar, a nested map, and root.-only scalar and array
mc_Dynamic == S("dynamic", {"svc", "http", "dur", "tags"}, {"svc", "http"}, FALSE, {})
mc_Throughput == S("throughput", {"http.response.status", "dur"}, {"http.response.status", "dur"}, FALSE, {})
mc_Deterministic == S("deterministic", {}, {}, FALSE, {})
mc_AllSamplers == {mc_RulesNested, mc_RulesFlat, mc_RulesRootList, mc_RulesSpanScope, mc_RulesDownstream, mc_Dynamic, mc_Throughput, mc_Deterministic}
P(dry, reason, counts, spancount, host, attrs) == [dryRun |-> dry, addReason |-> reason, addCounts |-> counts, addSpanCount |-> spancount, addHost |-> host, attrs |-> attrs]
mc_AllProfiles == {P(d, r, c, sc, h, a) : d \in BOOLEAN, r \in BOOLEAN, c \in BOOLEAN, sc \in BOOLEAN, h \in BOOLEAN, a \in {{}, {"env"}}}
=============================================================================
