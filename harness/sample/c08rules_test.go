//go:build verif

package sample

// Conformance harness for property C08 (spec/Rules.tla): every (rule list,
// trace) vector that TLC enumerated is concretised through the real machinery:
//
//   - all rule lists of the graph are written into ONE rules file (one sampler
//     per rule list, keyed by an environment name) which is loaded with
//     config.NewConfig, i.e. through the production validation and YAML path;
//   - the sampler is obtained from a real SamplerFactory
//     (GetSamplerImplementationForKey), so RulesBasedSampler.Start and
//     RulesBasedSamplerCondition.Init run exactly as in production;
//   - spans carry real msgpack payloads (types.Payload.UnmarshalMsgpack) and
//     are added to a real types.Trace the way the collector does it;
//   - the observation is GetSampleRate's (rate, keep, reason, key); the trace ID
//     is one whose hash lies in the bucket the vector names (c08TraceIDs), so
//     that the decision of a deterministic downstream sampler is predicted.

import (
	"crypto/sha1"
	"encoding/binary"
	"encoding/json"
	"fmt"
	"math"
	"math/rand"
	"os"
	"path/filepath"
	"regexp"
	"sort"
	"strconv"
	"strings"
	"testing"
	"time"

	"github.com/honeycombio/refinery/config"
	"github.com/honeycombio/refinery/internal/verifkit"
	"github.com/honeycombio/refinery/logger"
	"github.com/honeycombio/refinery/metrics"
	"github.com/honeycombio/refinery/types"
	"github.com/vmihailenco/msgpack/v5"
)

// c08Val is an abstract typed value; the specification dumps it as a label:
// "abs", "none", "list", "s:<text>", "i:<tenths>", "f:<tenths>", "b:true|false".
type c08Val struct {
	K string
	S string
	N int // tenths
	B bool
}

func (v *c08Val) UnmarshalJSON(raw []byte) error {
	var lab string
	if err := json.Unmarshal(raw, &lab); err != nil {
		return err
	}
	k, rest, has := strings.Cut(lab, ":")
	*v = c08Val{K: k}
	switch k {
	case "abs", "none", "list":
		if has {
			return fmt.Errorf("bad value label %q", lab)
		}
	case "s":
		v.S = rest
	case "i", "f":
		n, err := strconv.Atoi(rest)
		if err != nil {
			return fmt.Errorf("bad value label %q", lab)
		}
		v.N = n
	case "b":
		v.B = rest == "true"
	default:
		return fmt.Errorf("bad value label %q", lab)
	}
	return nil
}

type c08Cond struct {
	Fields []string `json:"fields"` // names as written in the rules file ("f", "root.f", "?.NUM_DESCENDANTS")
	Fk     string   `json:"fk"`
	Op     string   `json:"op"`
	Dt     string   `json:"dt"`
	Val    c08Val   `json:"val"`
	List   []c08Val `json:"list"`
}

// c08Down is the rule's own downstream sampler (its Sampler key): kind "none",
// "det", "dyn", "ema", "total", "emat", "win"; Rate is that sampler's SampleRate /
// GoalSampleRate / GoalThroughputPerSec, Fl its FieldList.
type c08Down struct {
	Kind string   `json:"kind"`
	Rate int      `json:"rate"`
	Fl   []string `json:"fl"`
}

type c08Rule struct {
	Scope string    `json:"scope"`
	Conds []c08Cond `json:"conds"`
	Drop  bool      `json:"drop"`
	Rate  int       `json:"rate"`
	Name  string    `json:"name"` // "": no Name key; "#": named by position (r1, r2, ...); else literal
	Down  c08Down   `json:"down"`
}

func (r c08Rule) hasDown() bool { return r.Down.Kind != "" && r.Down.Kind != "none" }

type c08Trace struct {
	Spans []map[string]c08Val `json:"spans"`
	Root  int                 `json:"root"`
	Hb    int                 `json:"hb"` // hash bucket of the trace ID (0 .. c08HK-1)
}

// c08HK is HK of spec/Rules.tla: the range of the deterministic sampler's hash
// (0 .. MaxUint32) is cut into c08HK equal parts and the specification says in
// which part the trace ID of a vector hashes. The hash is the documented one of
// the deterministic sampler (as in the C10 harness): the first four bytes, big
// endian, of sha1(traceID ‖ salt).
const c08HK = 6

func c08Bucket(id string) int {
	sum := sha1.Sum([]byte(id + "5VQ8l2jE5aJLPVqk"))
	return int(uint64(binary.BigEndian.Uint32(sum[:4])) * c08HK >> 32)
}

// c08TraceIDs[b] is a trace ID whose hash lies in bucket b.
var c08TraceIDs = func() [c08HK]string {
	var ids [c08HK]string
	for n, found := 0, 0; found < c08HK; n++ {
		id := fmt.Sprintf("c08trace%d", n)
		if b := c08Bucket(id); ids[b] == "" {
			ids[b] = id
			found++
		}
	}
	return ids
}()

var c08DownYAMLKind = map[string][2]string{
	"det":   {"DeterministicSampler", "SampleRate"},
	"dyn":   {"DynamicSampler", "SampleRate"},
	"ema":   {"EMADynamicSampler", "GoalSampleRate"},
	"total": {"TotalThroughputSampler", "GoalThroughputPerSec"},
	"emat":  {"EMAThroughputSampler", "GoalThroughputPerSec"},
	"win":   {"WindowedThroughputSampler", "GoalThroughputPerSec"},
}

func c08DownYAML(d c08Down) (string, error) {
	k, ok := c08DownYAMLKind[d.Kind]
	if !ok {
		return "", fmt.Errorf("unknown downstream sampler kind %q", d.Kind)
	}
	parts := []string{fmt.Sprintf(`%q: %d`, k[1], d.Rate)}
	if d.Kind != "det" {
		var fs []string
		for _, f := range d.Fl {
			fs = append(fs, strconv.Quote(f))
		}
		parts = append(parts, `"FieldList": [`+strings.Join(fs, ", ")+`]`)
	}
	return fmt.Sprintf(`{%q: {%s}}`, k[0], strings.Join(parts, ", ")), nil
}

func c08RuleName(r c08Rule, i int) string {
	if r.Name == "#" {
		return fmt.Sprintf("r%d", i+1)
	}
	return r.Name
}

type c08Vec struct {
	Rules []c08Rule `json:"rules"`
	Trace c08Trace  `json:"trace"`
}

// c08YAMLValue renders an abstract value as YAML flow text (JSON is YAML):
// strings always quoted (so "10" and "true" stay strings), floats always with a
// decimal point (so 2.0 stays a float).
func c08YAMLValue(v c08Val) (string, error) {
	switch v.K {
	case "s":
		b, _ := json.Marshal(v.S)
		return string(b), nil
	case "i":
		if v.N%10 != 0 {
			return "", fmt.Errorf("integer value with tenths %d", v.N)
		}
		return strconv.Itoa(v.N / 10), nil
	case "f":
		return strconv.FormatFloat(float64(v.N)/10, 'f', 1, 64), nil
	case "b":
		return strconv.FormatBool(v.B), nil
	}
	return "", fmt.Errorf("cannot render value kind %q", v.K)
}

func c08GoValue(v c08Val) (any, error) {
	switch v.K {
	case "s":
		return v.S, nil
	case "i":
		return int64(v.N / 10), nil
	case "f":
		return float64(v.N) / 10, nil
	case "b":
		return v.B, nil
	}
	return nil, fmt.Errorf("cannot concretise value kind %q", v.K)
}

func c08CondYAML(c c08Cond) (string, error) {
	var parts []string
	q := func(s string) string { b, _ := json.Marshal(s); return string(b) }
	switch c.Fk {
	case "Field":
		if len(c.Fields) != 1 {
			return "", fmt.Errorf("Field with %d names", len(c.Fields))
		}
		parts = append(parts, `"Field": `+q(c.Fields[0]))
	case "Fields":
		var ns []string
		for _, f := range c.Fields {
			ns = append(ns, q(f))
		}
		parts = append(parts, `"Fields": [`+strings.Join(ns, ", ")+`]`)
	case "":
		if len(c.Fields) != 0 {
			return "", fmt.Errorf("field names without Field/Fields")
		}
	default:
		return "", fmt.Errorf("unknown field key %q", c.Fk)
	}
	parts = append(parts, `"Operator": `+q(c.Op))
	switch c.Val.K {
	case "none":
	case "list":
		var es []string
		for _, e := range c.List {
			t, err := c08YAMLValue(e)
			if err != nil {
				return "", err
			}
			es = append(es, t)
		}
		parts = append(parts, `"Value": [`+strings.Join(es, ", ")+`]`)
	default:
		t, err := c08YAMLValue(c.Val)
		if err != nil {
			return "", err
		}
		parts = append(parts, `"Value": `+t)
	}
	if c.Dt != "none" {
		parts = append(parts, `"Datatype": `+q(c.Dt))
	}
	return "{" + strings.Join(parts, ", ") + "}", nil
}

func c08RulesYAML(rules []c08Rule) (string, error) {
	var rs []string
	for i, r := range rules {
		var parts []string
		if n := c08RuleName(r, i); n != "" {
			parts = append(parts, fmt.Sprintf(`"Name": %q`, n))
		}
		if r.Scope != "" {
			parts = append(parts, fmt.Sprintf(`"Scope": %q`, r.Scope))
		}
		if r.Drop {
			parts = append(parts, `"Drop": true`)
		}
		if r.Rate != 0 {
			parts = append(parts, fmt.Sprintf(`"SampleRate": %d`, r.Rate))
		}
		if r.hasDown() {
			y, err := c08DownYAML(r.Down)
			if err != nil {
				return "", err
			}
			parts = append(parts, `"Sampler": `+y)
		}
		if len(r.Conds) > 0 {
			var cs []string
			for _, c := range r.Conds {
				t, err := c08CondYAML(c)
				if err != nil {
					return "", err
				}
				cs = append(cs, t)
			}
			parts = append(parts, `"Conditions": [`+strings.Join(cs, ", ")+`]`)
		}
		rs = append(rs, "{"+strings.Join(parts, ", ")+"}")
	}
	return `{"RulesBasedSampler": {"Rules": [` + strings.Join(rs, ",\n    ") + `]}}`, nil
}

// c08Loader owns the real configuration and sampler factory.
type c08Loader struct {
	dir         string
	cfg         config.Config
	factory     *SamplerFactory
	envOf       map[string]string // canonical rule list -> environment name
	samplers    map[string]Sampler
	unvalidated *c08Loader // the rule lists the validator does not accept (see c08Load)
}

// c08Load writes all rule lists into one rules file and loads it through the
// production loader (validation included). The rules metadata does not list
// DeterministicSampler among the downstream samplers of a rule although the
// configuration types, the YAML decoder and the sampler factory support it;
// rule lists that use one go into a second rules file that the same loader reads
// the way `refinery --no-validate` does.
func c08Load(dir string, ruleLists map[string][]c08Rule) (*c08Loader, error) {
	val, unval := map[string][]c08Rule{}, map[string][]c08Rule{}
	for k, rules := range ruleLists {
		dst := val
		for _, r := range rules {
			if r.Down.Kind == "det" {
				dst = unval
			}
		}
		dst[k] = rules
	}
	l, err := c08LoadFile(dir, "c08", val, false)
	if err != nil {
		return nil, err
	}
	if len(unval) > 0 {
		if l.unvalidated, err = c08LoadFile(dir, "c08nv", unval, true); err != nil {
			l.stop()
			return nil, err
		}
	}
	return l, nil
}

func (l *c08Loader) stop() {
	if l == nil {
		return
	}
	if l.factory != nil {
		l.factory.Stop()
	}
	l.unvalidated.stop()
}

func c08LoadFile(dir, stem string, ruleLists map[string][]c08Rule, noValidate bool) (*c08Loader, error) {
	l := &c08Loader{dir: dir, envOf: map[string]string{}, samplers: map[string]Sampler{}}
	keys := make([]string, 0, len(ruleLists))
	for k := range ruleLists {
		keys = append(keys, k)
	}
	sort.Strings(keys)
	var b strings.Builder
	b.WriteString("{\"RulesVersion\": 2,\n \"Samplers\": {\n  \"__default__\": {\"DeterministicSampler\": {\"SampleRate\": 1}}")
	for i, k := range keys {
		env := fmt.Sprintf("%senv%d", stem, i+1)
		l.envOf[k] = env
		y, err := c08RulesYAML(ruleLists[k])
		if err != nil {
			return nil, err
		}
		fmt.Fprintf(&b, ",\n  %q: %s", env, y)
	}
	b.WriteString("\n }\n}\n")
	cfgFile := filepath.Join(dir, stem+"_config.yaml")
	rulesFile := filepath.Join(dir, stem+"_rules.yaml")
	if err := os.WriteFile(cfgFile, []byte("General:\n  ConfigurationVersion: 2\n"), 0o644); err != nil {
		return nil, err
	}
	if err := os.WriteFile(rulesFile, []byte(b.String()), 0o644); err != nil {
		return nil, err
	}
	c, err := config.NewConfig(&config.CmdEnv{ConfigLocations: []string{cfgFile}, RulesLocations: []string{rulesFile}, NoValidate: noValidate})
	if c == nil {
		return nil, fmt.Errorf("the real loader rejected the generated rules file: %v", err)
	}
	l.cfg = c
	l.factory = &SamplerFactory{Config: c, Logger: &logger.NullLogger{}, Metrics: &metrics.NullMetrics{}}
	if err := l.factory.Start(); err != nil {
		return nil, err
	}
	return l, nil
}

func (l *c08Loader) sampler(key string) (Sampler, error) {
	env, ok := l.envOf[key]
	if !ok && l.unvalidated != nil {
		return l.unvalidated.sampler(key)
	}
	if !ok {
		return nil, fmt.Errorf("rule list not in the loaded rules file: %s", key)
	}
	if s, ok := l.samplers[env]; ok {
		return s, nil
	}
	if _, name := l.cfg.GetSamplerConfigForDestName(env); name != "RulesBasedSampler" {
		return nil, fmt.Errorf("environment %s resolved to sampler %q", env, name)
	}
	s := l.factory.GetSamplerImplementationForKey(env)
	if s == nil {
		return nil, fmt.Errorf("sampler factory returned nil for %s", env)
	}
	if _, ok := s.(*RulesBasedSampler); !ok {
		return nil, fmt.Errorf("sampler for %s is %T", env, s)
	}
	l.samplers[env] = s
	return s, nil
}

func (l *c08Loader) trace(t c08Trace) (*types.Trace, error) {
	if t.Hb < 0 || t.Hb >= c08HK {
		return nil, fmt.Errorf("hash bucket %d", t.Hb)
	}
	id := c08TraceIDs[t.Hb]
	tr := &types.Trace{TraceID: id, APIKey: "c08key", Dataset: "c08"}
	for i, sp := range t.Spans {
		m := map[string]any{"name": fmt.Sprintf("span%d", i+1), "trace.trace_id": id}
		for name, v := range sp {
			if v.K == "abs" {
				continue
			}
			gv, err := c08GoValue(v)
			if err != nil {
				return nil, err
			}
			m[name] = gv
		}
		raw, err := msgpack.Marshal(m)
		if err != nil {
			return nil, err
		}
		p := types.NewPayload(l.cfg, nil)
		if err := p.UnmarshalMsgpack(raw); err != nil {
			return nil, err
		}
		span := &types.Span{
			Event:   &types.Event{APIKey: "c08key", Dataset: "c08", Data: p},
			TraceID: id,
			IsRoot:  i+1 == t.Root,
		}
		tr.AddSpan(span)
		if span.IsRoot { // as collect.(*InMemCollector) does
			tr.RootSpan = span
		}
	}
	return tr, nil
}

var c08ReasonRE = regexp.MustCompile(`^rules/(trace|span)/([^:]*)(?::(.*))?$`)

// c08Via names who decided from the part of the reason after the rule's name:
// nothing (the rule's own Drop / SampleRate) or the reason of a downstream sampler.
func c08Via(samplerReason string, has bool) string {
	if !has {
		return "rule"
	}
	switch samplerReason {
	case "deterministic/always", "deterministic/chance":
		return "det"
	case "dynamic":
		return "dyn"
	case "emadynamic":
		return "ema"
	case "totalthroughput":
		return "total"
	case "emathroughput":
		return "emat"
	case "windowedthroughput":
		return "win"
	}
	return "?" + samplerReason
}

// c08Compared is Compared of the specification: how much of a rule's answer is
// compared ("exact": keep and rate; "key": neither - keep is random and the rate
// depends on traffic; "norate": a drop rule has no documented rate; "nokeep": the
// keep flag of SampleRate N > 1 is random, see TestVerifC08Prob).
func c08Compared(r c08Rule) string {
	switch {
	case r.Down.Kind == "det" || r.Down.Kind == "dyn":
		return "exact"
	case r.hasDown():
		return "key"
	case r.Drop:
		return "norate"
	case r.Rate == 1:
		return "exact"
	}
	return "nokeep"
}

// c08KeySet is the set of values a sample key is made of.
func c08KeySet(key string) []string {
	set := map[string]bool{}
	for _, tok := range strings.FieldsFunc(key, func(r rune) bool { return r == '•' || r == ',' }) {
		set[tok] = true
	}
	out := make([]string, 0, len(set))
	for k := range set {
		out = append(out, k)
	}
	sort.Strings(out)
	return out
}

// c08Observe turns GetSampleRate's answer into the outcome record of the
// specification. Which rule decided is read from the reason (scope word, rule
// name, reason of the downstream sampler): the FIRST rule of the list with that
// scope word, name and kind of downstream sampler (ObsRule of the specification;
// with unique names that is the rule itself). What is compared of keep and rate
// is Compared of that rule (the specification only enumerates rule lists in which
// rules that look the same in the reason are compared the same way).
func c08Observe(rules []c08Rule, rate uint, keep bool, reason, key string) map[string]any {
	class := "drop"
	if keep {
		class = "keep"
	}
	ks := c08KeySet(key)
	if reason == "no rule matched" {
		return map[string]any{"rule": 0, "class": class, "rate": int(rate), "via": "none", "keySet": ks}
	}
	m := c08ReasonRE.FindStringSubmatch(reason)
	if m == nil {
		return map[string]any{"rule": -2, "class": class, "rate": int(rate), "via": "?", "keySet": ks, "reason": reason}
	}
	via := c08Via(m[3], strings.Contains(reason[len("rules/"+m[1]+"/"):], ":"))
	idx, compared := 0, ""
	for i, r := range rules {
		word, kind := "trace", r.Down.Kind
		if r.Scope == "span" {
			word = "span"
		}
		if !r.hasDown() {
			kind = "rule"
		}
		if word != m[1] || c08RuleName(r, i) != m[2] || kind != via {
			continue
		}
		if idx == 0 {
			idx, compared = i+1, c08Compared(r)
		} else if c08Compared(r) != compared {
			return map[string]any{"rule": -4, "class": class, "rate": int(rate), "via": via, "keySet": ks, "reason": reason,
				"error": "rules that look the same in the reason are compared differently"}
		}
	}
	if idx == 0 {
		return map[string]any{"rule": -2, "class": class, "rate": int(rate), "via": via, "keySet": ks, "reason": reason}
	}
	out := map[string]any{"rule": idx, "class": class, "rate": int(rate), "via": via, "keySet": ks}
	switch compared {
	case "key":
		out["class"], out["rate"] = "sampled", -1
	case "norate":
		out["rate"] = -1
	case "nokeep":
		out["class"] = "sampled"
	}
	return out
}

type c08Harness struct {
	t       *testing.T
	loader  *c08Loader
	vec     c08Vec
	sampler Sampler
	trace   *types.Trace
	out     map[string]any
}

func c08RulesKey(rules any) string { return verifkit.Canon(rules) }

// c08GraphFile is the graph file vcheck writes (lib/vlib.py build_graph).
type c08GraphFile struct {
	Module string            `json:"module"`
	States []json.RawMessage `json:"states"`
	Abs    []json.RawMessage `json:"abs"`
	Init   []int             `json:"init"`
	Edges  []struct {
		F int            `json:"f"`
		T int            `json:"t"`
		A map[string]any `json:"a"`
	} `json:"edges"`
}

func c08ReadGraph() (*c08GraphFile, error) {
	raw, err := os.ReadFile(os.Getenv("VERIF_GRAPH"))
	if err != nil {
		return nil, err
	}
	g := &c08GraphFile{}
	if err := json.Unmarshal(raw, g); err != nil {
		return nil, err
	}
	return g, nil
}

// preload collects every rule list of the TLC graph and loads them all.
func (h *c08Harness) preload(g *c08GraphFile) error {
	lists := map[string][]c08Rule{}
	seen := map[string]bool{}
	for _, st := range g.States {
		var s struct {
			Vec struct {
				Rules json.RawMessage `json:"rules"`
			} `json:"vec"`
		}
		if err := json.Unmarshal(st, &s); err != nil {
			return err
		}
		if seen[string(s.Vec.Rules)] {
			continue
		}
		seen[string(s.Vec.Rules)] = true
		var generic any
		if err := json.Unmarshal(s.Vec.Rules, &generic); err != nil {
			return err
		}
		var rules []c08Rule
		if err := json.Unmarshal(s.Vec.Rules, &rules); err != nil {
			return err
		}
		lists[c08RulesKey(generic)] = rules
	}
	l, err := c08Load(h.t.TempDir(), lists)
	if err != nil {
		return err
	}
	h.loader = l
	return nil
}

func (h *c08Harness) Reset(init map[string]any) error {
	if h.loader == nil {
		g, err := c08ReadGraph()
		if err != nil {
			return err
		}
		if err := h.preload(g); err != nil {
			return err
		}
	}
	vecAny, ok := init["vec"].(map[string]any)
	if !ok {
		return fmt.Errorf("initial state without vec")
	}
	raw, err := json.Marshal(vecAny)
	if err != nil {
		return err
	}
	h.vec = c08Vec{}
	if err := json.Unmarshal(raw, &h.vec); err != nil {
		return err
	}
	if h.sampler, err = h.loader.sampler(c08RulesKey(vecAny["rules"])); err != nil {
		return err
	}
	if h.trace, err = h.loader.trace(h.vec.Trace); err != nil {
		return err
	}
	h.out = map[string]any{"rule": -1, "class": "none", "rate": -1, "via": "", "keySet": []string{}}
	return nil
}

func (h *c08Harness) Apply(a map[string]any) (err error) {
	tr := h.trace
	switch verifkit.Str(a, "name") {
	case "Eval":
	case "EvalRev": // the same spans in the opposite arrival order
		rev := c08Trace{Root: h.vec.Trace.Root}
		n := len(h.vec.Trace.Spans)
		for i := n - 1; i >= 0; i-- {
			rev.Spans = append(rev.Spans, h.vec.Trace.Spans[i])
		}
		if rev.Root > 0 {
			rev.Root = n + 1 - rev.Root
		}
		if tr, err = h.loader.trace(rev); err != nil {
			return err
		}
	default:
		return fmt.Errorf("unknown action %v", a)
	}
	defer func() {
		if r := recover(); r != nil {
			h.out = map[string]any{"rule": -3, "class": "none", "rate": -1, "via": "", "keySet": []string{}, "panic": fmt.Sprint(r)}
		}
	}()
	rate, keep, reason, key := h.sampler.GetSampleRate(tr)
	h.out = c08Observe(h.vec.Rules, rate, keep, reason, key)
	return nil
}

func (h *c08Harness) Project() (any, error) {
	return map[string]any{"out": h.out}, nil
}

// c08Drive replays a ONE-STEP graph (every edge leaves an initial state and
// ends in a state without successors: the shape of a function-vector module)
// in time linear in the number of vectors. It applies the acceptance rule of
// verifkit.Walk (the observed projection must equal a successor the
// specification allows under the same action label; a deviation edge counts
// only when no ideal edge explains the step) and writes the same result
// record; verifkit.Walk itself recomputes a whole-graph distance table after
// every covered edge group, which is quadratic on 10^5 one-edge walks.
// With VERIF_REPLAY only the vector of the replay file is run. Graphs of any
// other shape go to verifkit.Main.
func c08Drive(h *c08Harness) error {
	start := time.Now()
	g, err := c08ReadGraph()
	if err != nil {
		return err
	}
	replay := os.Getenv("VERIF_REPLAY")
	isInit := make([]bool, len(g.States))
	for _, s := range g.Init {
		isInit[s] = true
	}
	out := make([][]int, len(g.States))
	for i, e := range g.Edges {
		if !isInit[e.F] || isInit[e.T] {
			return verifkit.Main(h)
		}
		out[e.F] = append(out[e.F], i)
	}
	for _, e := range g.Edges {
		if len(out[e.T]) != 0 {
			return verifkit.Main(h)
		}
	}
	if len(g.Abs) != len(g.States) {
		return fmt.Errorf("graph without projections")
	}
	if err := h.preload(g); err != nil {
		return err
	}
	seed, _ := strconv.ParseInt(os.Getenv("VERIF_SEED"), 10, 64)
	budget, _ := strconv.ParseFloat(os.Getenv("VERIF_BUDGET_S"), 64)
	if budget == 0 {
		budget = 60
	}
	deadline := start.Add(time.Duration(budget * float64(time.Second)))
	res := &verifkit.Result{Module: g.Module, Seed: seed, States: len(g.States), Edges: len(g.Edges), DevCounts: map[string]int{},
		Divergences: []verifkit.Divergence{}, DevHits: []verifkit.DevHit{}}
	label := func(a map[string]any) (map[string]any, string, string) {
		lab := map[string]any{}
		for k, v := range a {
			if k != "dev" {
				lab[k] = v
			}
		}
		dev, _ := a["dev"].(string)
		return lab, verifkit.Canon(lab), dev
	}
	canonOf := func(raw json.RawMessage) (any, string, error) {
		var v any
		if err := json.Unmarshal(raw, &v); err != nil {
			return nil, "", err
		}
		return v, verifkit.Canon(v), nil
	}
	// every (initial state, action label) pair is one edge group
	for _, s := range g.Init {
		seen := map[string]bool{}
		for _, ei := range out[s] {
			_, l, _ := label(g.Edges[ei].A)
			if !seen[l] {
				seen[l] = true
				res.Groups++
			}
		}
	}
	order := append([]int(nil), g.Init...)
	rng := rand.New(rand.NewSource(seed))
	rng.Shuffle(len(order), func(i, j int) { order[i], order[j] = order[j], order[i] })
	if replay != "" {
		// re-run exactly the vector of a replay file (its initial state)
		raw, err := os.ReadFile(replay)
		if err != nil {
			return err
		}
		var rf verifkit.ReplayFile
		if err := json.Unmarshal(raw, &rf); err != nil {
			return err
		}
		want := verifkit.Canon(rf.Init)
		order = nil
		for _, s := range g.Init {
			var st any
			if err := json.Unmarshal(g.States[s], &st); err != nil {
				return err
			}
			if verifkit.Canon(st) == want {
				order = []int{s}
				break
			}
		}
		if order == nil {
			res.Note = "replay init state not in graph"
		}
		deadline = start.Add(24 * time.Hour)
	}
	diffOut := func(obs map[string]any, allowed []any) []string {
		var best []string
		o, _ := obs["out"].(map[string]any)
		for i, a := range allowed {
			am, _ := a.(map[string]any)
			ao, _ := am["out"].(map[string]any)
			var d []string
			keys := map[string]bool{}
			for k := range o {
				keys[k] = true
			}
			for k := range ao {
				keys[k] = true
			}
			for k := range keys {
				if verifkit.Canon(map[string]any{k: o[k]}) != verifkit.Canon(map[string]any{k: ao[k]}) {
					d = append(d, "out."+k)
				}
			}
			sort.Strings(d)
			if i == 0 || len(d) < len(best) {
				best = d
			}
		}
		return best
	}
	for _, s := range order {
		if len(res.Divergences) >= 5 {
			break
		}
		if time.Now().After(deadline) {
			res.TimedOut = true
			break
		}
		var init map[string]any
		if err := json.Unmarshal(g.States[s], &init); err != nil {
			return err
		}
		absS, canonS, err := canonOf(g.Abs[s])
		if err != nil {
			return err
		}
		// group the out-edges by label, in a fixed order
		type grp struct {
			act   map[string]any
			edges []int
		}
		groups := map[string]*grp{}
		var labels []string
		for _, ei := range out[s] {
			lab, l, _ := label(g.Edges[ei].A)
			if groups[l] == nil {
				groups[l] = &grp{act: lab}
				labels = append(labels, l)
			}
			groups[l].edges = append(groups[l].edges, ei)
		}
		sort.Strings(labels)
		for _, l := range labels {
			gr := groups[l]
			if err := h.Reset(init); err != nil {
				res.Divergences = append(res.Divergences, verifkit.Divergence{Kind: "error", Init: init, Prefix: []verifkit.Step{}, Err: "reset: " + err.Error()})
				break
			}
			obs0, _ := h.Project()
			if verifkit.Canon(obs0) != canonS {
				res.Divergences = append(res.Divergences, verifkit.Divergence{Kind: "init", Init: init, Prefix: []verifkit.Step{}, State: absS, Observed: obs0, Allowed: []any{absS}})
				res.GroupsCovered++
				continue
			}
			res.Walks++
			err := h.Apply(gr.act)
			var obs any
			if err == nil {
				obs, err = h.Project()
			}
			res.Steps++
			res.GroupsCovered++
			oc := ""
			if err == nil {
				oc = verifkit.Canon(obs)
			}
			var allowed []any
			ideal, devEdge := -1, -1
			for _, ei := range gr.edges {
				e := g.Edges[ei]
				absT, canonT, cerr := canonOf(g.Abs[e.T])
				if cerr != nil {
					return cerr
				}
				allowed = append(allowed, absT)
				if err == nil && canonT == oc {
					if _, _, dev := label(e.A); dev == "" {
						ideal = ei
					} else {
						devEdge = ei
					}
				}
			}
			switch {
			case ideal >= 0:
				res.EdgesCovered++
				if len(res.Samples) < 3 {
					res.Samples = append(res.Samples, []verifkit.Step{{Act: gr.act, Observed: obs}})
				}
			case devEdge >= 0:
				res.EdgesCovered++
				_, _, dev := label(g.Edges[devEdge].A)
				res.DevCounts[dev]++
				if len(res.DevHits) < 20 {
					res.DevHits = append(res.DevHits, verifkit.DevHit{Dev: dev, Init: init, Prefix: []verifkit.Step{}, Act: gr.act, State: absS, Obs: obs})
				}
			default:
				d := verifkit.Divergence{Kind: "mismatch", Init: init, Prefix: []verifkit.Step{}, State: absS, Act: gr.act, Allowed: allowed}
				if err != nil {
					d.Kind, d.Err = "error", err.Error()
				} else {
					d.Observed = obs
					if om, ok := obs.(map[string]any); ok {
						d.Diff = diffOut(om, allowed)
					}
				}
				res.Divergences = append(res.Divergences, d)
			}
		}
	}
	res.WallS = time.Since(start).Seconds()
	if res.Note == "" {
		res.Note = "one-step graph replayed by the linear driver of harness/sample/c08rules_test.go"
	}
	if res.Samples == nil {
		res.Samples = [][]verifkit.Step{}
	}
	raw, err := json.Marshal(res)
	if err != nil {
		return err
	}
	return os.WriteFile(os.Getenv("VERIF_OUT"), raw, 0o644)
}

func TestVerifC08Rules(t *testing.T) {
	h := &c08Harness{t: t}
	err := c08Drive(h)
	h.loader.stop()
	if err != nil {
		t.Fatal(err)
	}
}

// TestVerifC08Prob is the statistical clause of C08: "a rule with SampleRate N
// keeps with probability 1/N at rate N". The oracle is a binomial band of
// c08Sigmas standard deviations around M/N over M independent decisions of the
// real sampler (false-alarm probability below 1e-8 per rate), plus the exact
// clauses rate == N, drop rule never keeps, SampleRate 1 always keeps.
const c08Sigmas = 6.5

func TestVerifC08Prob(t *testing.T) {
	res := map[string]any{}
	finish := func() {
		raw, _ := json.Marshal(res)
		if err := os.WriteFile(os.Getenv("VERIF_OUT"), raw, 0o644); err != nil {
			t.Fatal(err)
		}
	}
	m := 200000
	if os.Getenv("VERIF_TIER") == "thorough" {
		m = 2000000
	}
	cond := c08Cond{Fields: []string{"f"}, Fk: "Field", Op: "=", Dt: "none", Val: c08Val{K: "s", S: "a"}}
	rates := []int{2, 3, 10, 100}
	lists := map[string][]c08Rule{}
	key := func(n int) string { return fmt.Sprintf("rate%04d", n) }
	for _, n := range rates {
		lists[key(n)] = []c08Rule{{Name: "#", Conds: []c08Cond{cond}, Rate: n}, {Name: "#", Drop: true}}
	}
	lists["rate0001"] = []c08Rule{{Name: "#", Conds: []c08Cond{cond}, Rate: 1}, {Name: "#", Drop: true}}
	lists["drop"] = []c08Rule{{Name: "#", Conds: []c08Cond{cond}, Drop: true, Rate: 7}}
	l, err := c08Load(t.TempDir(), lists)
	if err != nil {
		res["error"] = err.Error()
		finish()
		return
	}
	defer l.stop()
	tr, err := l.trace(c08Trace{Spans: []map[string]c08Val{{"f": {K: "s", S: "a"}}}, Root: 1})
	if err != nil {
		res["error"] = err.Error()
		finish()
		return
	}
	var violations, samples []map[string]any
	evals := 0
	run := func(k string, n int, wantReason string) (keeps int, bad map[string]any) {
		s, err := l.sampler(k)
		if err != nil {
			return 0, map[string]any{"case": k, "error": err.Error()}
		}
		for i := 0; i < m; i++ {
			rate, keep, reason, _ := s.GetSampleRate(tr)
			evals++
			if keep {
				keeps++
			}
			if reason != wantReason || (n > 0 && int(rate) != n) {
				return keeps, map[string]any{"case": k, "call": i, "rate": rate, "keep": keep, "reason": reason, "expected_rate": n, "expected_reason": wantReason}
			}
		}
		return keeps, nil
	}
	for _, n := range rates {
		keeps, bad := run(key(n), n, "rules/trace/r1")
		if bad != nil {
			violations = append(violations, bad)
			continue
		}
		p := 1 / float64(n)
		mean := float64(m) * p
		sigma := math.Sqrt(float64(m) * p * (1 - p))
		lo, hi := mean-c08Sigmas*sigma, mean+c08Sigmas*sigma
		s := map[string]any{"SampleRate": n, "decisions": m, "kept": keeps, "band": []float64{math.Floor(lo), math.Ceil(hi)}}
		samples = append(samples, s)
		if float64(keeps) < lo || float64(keeps) > hi {
			s["clause"] = "a rule with SampleRate N keeps with probability 1/N"
			violations = append(violations, s)
		}
	}
	if keeps, bad := run("rate0001", 1, "rules/trace/r1"); bad != nil {
		violations = append(violations, bad)
	} else if keeps != m {
		violations = append(violations, map[string]any{"case": "SampleRate 1", "decisions": m, "kept": keeps, "clause": "rate 1 keeps every trace"})
	}
	if keeps, bad := run("drop", 0, "rules/trace/r1"); bad != nil {
		violations = append(violations, bad)
	} else if keeps != 0 {
		violations = append(violations, map[string]any{"case": "Drop", "decisions": m, "kept": keeps, "clause": "a matching drop rule drops the trace"})
	}
	res["evaluations"] = evals
	res["distinct"] = len(lists)
	res["violations"] = violations
	res["samples"] = samples
	res["note"] = fmt.Sprintf("binomial band of %.1f sigma over %d decisions per SampleRate in %v", c08Sigmas, m, rates)
	finish()
}
