SPECIFICATION Spec
CONSTANTS
  T1 = "trace.trace_id"
  T2 = "traceId"
  P1 = "trace.parent_id"
  P2 = "parentId"
  MapOrder <- MapOrderDef
  TraceOrders <- TraceOrdersBig
  ParentOrders <- ParentOrdersTwo
  Orders <- OrdersQuick
  SeqPaths = {"msgp"}
  MapPaths = {"map"}
  KeySets <- KeySetsBig
  KeyPaths = {"msgp"}
  PTypings = {"absent", "str", "empty", "nonstr"}
  STypings = {"absent", "log", "trace", "empty", "nonstr"}
  Faithful = FALSE
CHECK_DEADLOCK FALSE
INVARIANTS TypeOK C21Belongs C21ConfiguredOrder C21Root C21OrderIndependent C21SamplerIndependent OnlyIdeal
