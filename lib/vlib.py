"""Shared machinery for /verif/bin/vcheck.

Three bindings between the TLA+ specifications under /verif/spec and the Go
code under /repo (see DESIGN.md section 2.2):

  B1/B3  run TLC exhaustively with an ACTION_CONSTRAINT that dumps every
         generated transition, rebuild the labelled graph, and let the Go
         walker (harness/verifkit/walker.go, injected with `go test -overlay`)
         replay an edge-covering set of walks into the real objects;
  B2     let a Go driver record NDJSON traces from the real (hooked) code and
         have TLC validate them against a Trace*.tla specification.

Verdict rules: only behaviour observed in the real code can produce a
VIOLATION; specification errors, build failures, time-outs and dead drivers
are exit 2.
"""
import json
import os
import re
import shutil
import subprocess
import sys
import time

VERIF = os.path.dirname(os.path.dirname(os.path.abspath(__file__)))
REPO = os.environ.get("VERIF_REPO", "/repo")
SPEC = os.path.join(VERIF, "spec")
HARNESS = os.path.join(VERIF, "harness")
BUILD = os.path.join(VERIF, "build")
EVID = os.path.join(VERIF, "evidence")
TLA_CP = "/opt/veriftools/tla/tla2tools.jar:/opt/veriftools/tla/CommunityModules-deps.jar"


class CannotDecide(Exception):
    """Raised for anything that is not a verdict about the real code (exit 2)."""


def log(*a):
    print(*a, flush=True)


def go_env():
    env = dict(os.environ)
    env["GOFLAGS"] = "-mod=mod"
    env["GOPROXY"] = "off"
    env.pop("GOSUMDB", None)
    env["GOTOOLCHAIN"] = "auto"
    env.setdefault("GOCACHE", "/root/.cache/go-build")
    return env


# ---------------------------------------------------------------------------
# TLC
# ---------------------------------------------------------------------------

def scratch(name):
    d = os.path.join(BUILD, f"{name}-{os.getpid()}")   # per process: concurrent runs of one property must not collide
    shutil.rmtree(d, ignore_errors=True)
    os.makedirs(d, exist_ok=True)
    return d


def stage_specs(d):
    for f in os.listdir(SPEC):
        if f.endswith((".tla", ".cfg")):
            shutil.copy(os.path.join(SPEC, f), d)


TLC_SUMMARY = re.compile(r"(\d+) states generated, (\d+) distinct states found, (\d+) states left on queue")


def run_tlc(module, cfg, workdir, workers=1, timeout=600, extra=None, heap="8g", deque=False):
    """Run TLC in workdir (already staged). Returns dict(rc, out, generated, distinct, ok, wall_s)."""
    out_path = os.path.join(workdir, f"{os.path.splitext(cfg)[0]}.out")
    meta = os.path.join(workdir, "meta_" + os.path.splitext(cfg)[0])
    cmd = ["timeout", str(timeout), "java", "-XX:+UseParallelGC", f"-Xmx{heap}", "-Xss64m"]
    if deque:
        cmd.append("-Dtlc2.tool.queue.IStateQueue=StateDeque")
    cmd += ["-cp", TLA_CP, "tlc2.TLC", "-workers", str(workers), "-metadir", meta,
            "-config", cfg] + (extra or []) + [module + ".tla"]
    t0 = time.time()
    with open(out_path, "w") as fh:
        p = subprocess.run(cmd, cwd=workdir, stdout=fh, stderr=subprocess.STDOUT)
    wall = time.time() - t0
    shutil.rmtree(meta, ignore_errors=True)
    gen = dist = None
    ok = False
    tail = []
    with open(out_path, errors="replace") as fh:
        for line in fh:
            if line.startswith('"{'):
                continue
            tail.append(line.rstrip("\n"))
            if len(tail) > 60:
                tail.pop(0)
            m = TLC_SUMMARY.search(line)
            if m:
                gen, dist = int(m.group(1)), int(m.group(2))
            if "Model checking completed. No error has been found." in line:
                ok = True
    return dict(rc=p.returncode, out=out_path, generated=gen, distinct=dist, ok=ok and p.returncode == 0,
                wall_s=wall, tail=tail, cmd=" ".join(cmd))


def build_graph(tlc_out, module, graph_path):
    """Turn the dumped transitions into the graph file the Go walker loads."""
    states = {}
    full = []
    absl = []
    init = set()
    edges = set()
    nlines = 0
    params = None

    def sid(fs, ab):
        k = json.dumps(fs, sort_keys=True)
        i = states.get(k)
        if i is None:
            i = len(full)
            states[k] = i
            full.append(fs)
            absl.append(ab)
        return i

    with open(tlc_out, errors="replace") as fh:
        for line in fh:
            if not line.startswith('"{'):
                continue
            nlines += 1
            rec = json.loads(json.loads(line))
            if "params" in rec and "act" not in rec:
                params = rec["params"]
                continue
            if "fhid" in rec:   # compact form: full state = projection + hidden part
                f = sid(dict(rec["fabs"], **rec["fhid"]), rec["fabs"])
                t = sid(dict(rec["tabs"], **rec["thid"]), rec["tabs"])
            elif "fs" in rec:
                f = sid(rec["fs"], rec["fabs"])
                t = sid(rec["ts"], rec["tabs"])
            else:
                f = sid(rec["from"], rec["from"])
                t = sid(rec["to"], rec["to"])
            if rec.get("fa") == "Init":
                init.add(f)
            edges.add((f, t, json.dumps(rec["act"], sort_keys=True)))
    if not edges:
        raise CannotDecide(f"TLC dumped no transitions for {module}")
    g = dict(module=module, params=params, states=full, abs=absl, init=sorted(init),
             edges=[dict(f=f, t=t, a=json.loads(a)) for (f, t, a) in sorted(edges)])
    with open(graph_path, "w") as fh:
        json.dump(g, fh)
    return dict(states=len(full), edges=len(edges), init=len(init), dumped=nlines)


# ---------------------------------------------------------------------------
# Go harness
# ---------------------------------------------------------------------------

def write_overlay(path, harness_files):
    """Map verifkit and the listed harness files (paths relative to
    /verif/harness, e.g. "generics/ttl_test.go") into /repo without touching it."""
    repl = {}
    for root, _dirs, files in os.walk(os.path.join(HARNESS, "verifkit")):
        rel = os.path.relpath(root, HARNESS)
        for f in files:
            if f.endswith(".go"):
                repl[os.path.join(REPO, "internal", rel, f)] = os.path.join(root, f)
    for hf in harness_files:
        src = os.path.join(HARNESS, hf)
        if not os.path.exists(src):
            raise CannotDecide(f"harness file {src} missing")
        d, f = os.path.split(hf)
        repl[os.path.join(REPO, d, "zzverif_" + f)] = src
    with open(path, "w") as fh:
        json.dump({"Replace": repl}, fh)
    return path


def run_go_test(pkg, run_regex, env_extra, timeout, harness_files, race=False, tags="verif", extra=None):
    os.makedirs(BUILD, exist_ok=True)
    ov = write_overlay(os.path.join(BUILD, f"overlay_{os.getpid()}.json"), harness_files)
    env = go_env()
    env.update({k: str(v) for k, v in env_extra.items()})
    cmd = ["go", "test", "-vet=off", "-tags", tags, "-overlay", ov, "-count=1",
           "-run", run_regex, "-timeout", f"{int(timeout)}s"]
    if race:
        cmd.append("-race")
    cmd += (extra or []) + ["./" + pkg + "/"]
    t0 = time.time()
    p = subprocess.run(cmd, cwd=REPO, env=env, stdout=subprocess.PIPE, stderr=subprocess.STDOUT, text=True,
                       timeout=timeout + 600)
    try:
        os.unlink(ov)
    except OSError:
        pass
    return dict(rc=p.returncode, out=p.stdout, wall_s=time.time() - t0, cmd=" ".join(cmd))


# ---------------------------------------------------------------------------
# Known findings and evidence
# ---------------------------------------------------------------------------

def known_findings():
    p = os.path.join(VERIF, "known_findings.json")
    if not os.path.exists(p):
        return []
    with open(p) as fh:
        return json.load(fh)


def open_finding(prop, dev):
    for k in known_findings():
        # an extension's finding (property "CXn") is the same finding in whatever host its stage is spliced into
        if (k.get("property") == prop or str(k.get("property", "")).startswith("CX")) and k.get("status") == "open" and k.get("deviation") == dev:
            return k
    return None


def trunc(v, n=12):
    """Shorten samples for the evidence file."""
    if isinstance(v, list) and len(v) > n:
        return v[:n] + [f"... {len(v) - n} more"]
    return v


def write_evidence(prop, tier, seed, level, coverage, wall_s, violations, assumptions):
    os.makedirs(EVID, exist_ok=True)
    ev = dict(property_id=prop, tier=tier, seed=int(seed), level=level, coverage=coverage,
              assumptions=assumptions, wall_s=round(wall_s, 3), violations=int(violations))
    tmp = os.path.join(EVID, f".{prop}.json.{os.getpid()}.tmp")
    with open(tmp, "w") as fh:
        json.dump(ev, fh, indent=1, sort_keys=True)
    os.replace(tmp, os.path.join(EVID, f"{prop}.json"))
    return ev
