SPECIFICATION Spec
CONSTANTS
  Faithful = FALSE
  UnlistedBlank = "inject"
  AllEncodings = TRUE
  UseKeysChoices = {TRUE, FALSE}
INVARIANTS TypeOK Uniform AcceptedOnlyIfAuthorized RefusedOnlyIfUnauthorizedOrBlank NeverBlank KeyPerTable SendKeyOnlyForListed TableSane DevShape UniformEvenWithDeviations
CHECK_DEADLOCK FALSE
