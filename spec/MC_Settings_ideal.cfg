SPECIFICATION Spec
CONSTANTS
  Classes = {"string", "hostport", "stringlist", "stringmap", "int", "duration", "memsize", "bool"}
  Uniform = FALSE
  Faithful = FALSE
INVARIANTS TypeOK LosersDoNotShow WinnerShows DefaultWhenUndefined SetVarsExpanded UnsetLeftAlone DollarLiteralsVerbatim OtherKindsVerbatim ValidatedIsApplied DeviationsDiffer MapMergePerKey
PROPERTY InputsUntouched
CHECK_DEADLOCK FALSE
