SPECIFICATION Spec
CONSTANTS
  Items = {"a", "b"}
  Vals = {1, 2}
  TTL = 2
  MaxNow = 5
  Closed = FALSE
INVARIANTS TypeOK PresentForTTL ObserversAgree
PROPERTY NoResurrection
ACTION_CONSTRAINT Dump
VIEW View
