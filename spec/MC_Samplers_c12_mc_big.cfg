SPECIFICATION Spec
CONSTANTS
  NW = 2
  Family = "c12-quick"
  PeerCounts = {1, 2}
  MaxChanges = 2
  Faithful = FALSE
  ShareIdentical = TRUE
  CachedDecide = TRUE
  AtomicReload = FALSE
INVARIANTS TypeOK WorkersShare DestsIsolated DefsIsolated RegistryGoals WorkerGoals PeerCountCurrent 
PROPERTIES CacheStable RegistryMonotone
CHECK_DEADLOCK FALSE
VIEW View
