----------------------------- MODULE HealthIndApa -----------------------------
(* Apalache front end of HealthInd. *)
EXTENDS HealthInd, Apalache

\* Tick >= 1, MaxTimeout: any integers; Exact: either; up to 2 + 1 subsystems of an
\* uninterpreted sort; up to 2 + 2 positive timeouts (any values).  (2 + 2 subsystems were also
\* proved, 510 s for the step on a loaded machine; HealthIndProofs.tla has any number.)
ConstInit == /\ Tick \in Int /\ MaxTimeout \in Int /\ Exact \in BOOLEAN
             /\ Subs1 = Gen(2) /\ Subs2 = Gen(1) /\ Timeouts1 = Gen(2) /\ Timeouts2 = Gen(2)
             /\ ConstOK

IndInit == /\ status \in [Subs -> {"never", "reg", "unreg"}] /\ timeout \in [Subs -> Int] /\ timeLeft \in [Subs -> Int]
           /\ readyFlag \in [Subs -> BOOLEAN] /\ sil \in [Subs -> Int] /\ decl \in [Subs -> {"none", "ready", "notready"}]
           /\ phase \in Int /\ pending \in BOOLEAN /\ obsAlive \in BOOLEAN /\ obsReady \in BOOLEAN
           /\ IndInv

\* TypeOK of Health.tla with the interval-valued conjuncts as predicates
TypeOKPred ==
  /\ \A s \in Subs : /\ status[s] \in {"never", "reg", "unreg"} /\ decl[s] \in {"none", "ready", "notready"}
                     /\ (timeout[s] = 0 \/ timeout[s] \in Timeouts)
                     /\ -1 <= timeLeft[s] /\ timeLeft[s] <= MaxTimeout
                     /\ 0 <= sil[s] /\ sil[s] <= MaxTimeout + Tick + 1
  /\ 0 <= phase /\ phase <= Tick - 1 /\ (pending => phase = 0)
SafetyPred == TypeOKPred /\ C30

\* non-vacuity probes (a counterexample is expected)
ProbeExact == ~(Exact /\ \E s \in Registered : timeLeft[s] = 0 /\ sil[s] > 1000)
ProbeLoose == ~(~Exact /\ pending /\ \E s \in Registered : timeLeft[s] > 0 /\ decl[s] = "ready" /\ Tick > 100)
=============================================================================
