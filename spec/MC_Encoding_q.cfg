SPECIFICATION Spec
CONSTANTS
  Families = {"wire", "frac", "mix2", "ns"}
  Big = FALSE
  Faithful = TRUE
INVARIANTS TypeOK CarriesSame RefIsEncoding SlotSound NonScalarAgree ViewDiffLocal DevOnlyWhereViewsDiffer DeviationsConfined DecoderFacts
CHECK_DEADLOCK FALSE
ACTION_CONSTRAINT Dump
VIEW View
