SPECIFICATION Spec
CONSTANTS
  DataFields = {"a"}
  Vals = {"s:x", "i:7", "b:true"}
  DelimVals = {}
  MaxSpans = 3
  CfgNames = {"a", "a_ra", "ra"}
  Samplers = {"dynamic", "emadynamic", "emathroughput", "windowedthroughput", "totalthroughput"}
INVARIANTS TypeOK NFSound PermutationInvariant DuplicationInvariant IrrelevantCellsInvariant PairsDistinct OutConsistent
CHECK_DEADLOCK FALSE
ACTION_CONSTRAINT Dump
VIEW View
