SPECIFICATION Spec
CONSTANTS
  Faithful = TRUE
  UnlistedBlank = "reject"
  AllEncodings = TRUE
  UseKeysChoices = {TRUE, FALSE}
INVARIANTS TypeOK UniformEvenWithDeviations
CHECK_DEADLOCK FALSE
