------------------------------- MODULE Peers -------------------------------
(***************************************************************************)
(* Redis peer membership: internal/peer/pubsub_redis.go on top of          *)
(* generics.MapWithTTL and a pubsub channel (property C18).                *)
(*                                                                         *)
(* A node is one refinery process: an instance id (random per process, the *)
(* key of every peer map) plus the public address it announces (the value; *)
(* a restarted process has a new id and the old address).  Addr maps ids   *)
(* to address tokens; two ids with the same address are never up at the    *)
(* same time.                                                              *)
(*                                                                         *)
(* Code state of node n (RedisPubsubPeers):                                *)
(*   status[n]   "new" | "up" (Start+Ready done, goroutine publishing) |   *)
(*               "stopped" (Done closed: unregister published, goroutine   *)
(*               gone) | "crashed" (process vanished silently)             *)
(*   ent[n][m]   p.peers entry for id m as REMAINING lifetime in ticks:    *)
(*               Set puts T; every tick takes one off; Gone = not stored   *)
(*               or expired (MapWithTTL removes expired items lazily in    *)
(*               cleanup(), which every reader calls first, so expiry is   *)
(*               simply "the counter ran out" - the Expire step of the     *)
(*               design is part of Advance)                                *)
(*   hashed[n], hashIds[n]   p.hash: the id list checkHash() last hashed   *)
(*               (hashed = FALSE: still the zero value, which is the hash  *)
(*               of no list, so the first message always notifies)         *)
(*   sincePub[n] ticks since the publish ticker last fired (or since       *)
(*               Ready created it)                                         *)
(* Ghost:                                                                  *)
(*   quiet       ticks since the last membership event anywhere            *)
(*   age[n]      ticks since n started, left or last failed to publish     *)
(*               (per-peer deadlines, see PeerForgotten / PeerLearnt)      *)
(* Channel:                                                                *)
(*   fl[r][m][k] age of the message of kind k ("R" register, "U"           *)
(*               unregister) from m still in flight to subscriber r, or -1 *)
(* Time is relative (ages and remaining lifetimes), so the state space is  *)
(* finite without a horizon and liveness is meaningful.                    *)
(*                                                                         *)
(* Environment assumptions (constants):                                    *)
(*   - the publish ticker of n fires with a gap in Gaps[n] ticks after the *)
(*     previous firing.  The code asks for refreshCacheInterval + rand     *)
(*     [0, 20%) = [3 s, 3.6 s); with 1 s ticks {3,4} covers it (Rhi = 4)   *)
(*   - a message is delivered to every node subscribed when it was         *)
(*     published, exactly once, in ANY order, at most D ticks later        *)
(*     (Advance is blocked while a message of age D is undelivered);       *)
(*     nothing is delivered to a stopped or crashed node                   *)
(*   - Rhi + D <= T (closed expiry) resp. < T (open): a live entry is      *)
(*     refreshed before it runs out                                        *)
(*   - at most MaxEvents Start/GracefulStop/Crash events                   *)
(*   - environment fault: a Publish call fails (transient Redis error): the  *)
(*     call returns an error and the message reaches nobody; at most        *)
(*     MaxFails such failures, afterwards the pubsub works again.  While a   *)
(*     node's publishes fail its entries may run out everywhere (its own    *)
(*     list included), so the settle time of the convergence invariants is  *)
(*     counted from the last Start/Stop/Crash/failed publish.               *)
(*   - Boot: the history may start from a running cluster (the nodes of Boot  *)
(*     up and mutually known, see Init) so that the bounded number of        *)
(*     membership events is spent on MIXED histories: a silent crash, clean  *)
(*     unregisters (several in a row: a rolling restart), joins and restarts *)
(*     of DIFFERENT peers inside one timeout window.  CrashSet / StopSet     *)
(*     restrict who may crash / stop gracefully (roles: the state space of   *)
(*     three or four nodes is otherwise too large to replay).                *)
(*   - Sync = TRUE (the replayed booted scenarios): a node publishes only    *)
(*     when nothing is in flight, i.e. the handling of one heartbeat by all  *)
(*     receivers - in any order, and in any order with an unregister that    *)
(*     is published meanwhile - is not interleaved with the next heartbeat.  *)
(*     A sub-environment of D = 0.                                           *)
(*   Extra: C18 only needs a live node to publish OFTEN ENOUGH.  "none": a    *)
(*     register is published exactly when the refresh ticker fires (what the *)
(*     code does).  "start": Start may also publish one at once (an eager    *)
(*     announcement).  "any": additionally a node may publish one whenever   *)
(*     it handles a message.  A register published while an earlier one of   *)
(*     the same sender is still in flight to a receiver travels with it      *)
(*     (they are handed over together, by the earlier one's deadline).  The  *)
(*     convergence invariants are checked for all three.                     *)
(*   Backoff = FALSE: the node keeps the refresh period it asked the clock   *)
(*     for (what the code does).  Backoff = TRUE: an implementation may      *)
(*     stretch its period while publishing fails (slow[n]: the period it     *)
(*     currently asks for is LONGER than the envelope Rlo..Rhi; the ticker then  *)
(*     fires at any time >= Rlo after the previous firing), but the first    *)
(*     successful publish must bring the period back into the envelope; the  *)
(*     settle time then counts from that publish.                            *)
(*                                                                         *)
(* Closed: boundary convention at the expiry instant (C18 does not fix it; *)
(* MapWithTTL keeps the item at now = expiry, Closed = TRUE).              *)
(***************************************************************************)
EXTENDS Integers, FiniteSets, TLC, Json

CONSTANTS Addr,       \* record: instance id -> address token
          Gaps,       \* record: instance id -> set of possible publish gaps (ticks)
          T,          \* PeerEntryTimeout in ticks
          D,          \* maximal delivery delay in ticks
          MaxEvents,  \* bound on membership events
          MaxFails,   \* bound on failed Publish calls
          Extra,      \* "none" | "start" | "any": register publishes beyond the ticker's (see above)
          Backoff,    \* TRUE: the refresh period may be stretched while publishes fail
          Closed,     \* TRUE: entry still listed at now = expiry
          ObserveCb,  \* TRUE: the projection carries the callback firings
          TrackQuiet, \* TRUE: count the ticks since the last membership event (needed by the
                      \*   timed invariants; FALSE in the replayed graphs, where it would only
                      \*   multiply the states: the same bounds are model-checked with TRUE)
          UnitMs,     \* milliseconds per tick (passed to the harness)
          Boot,       \* nodes that are up and mutually known when the history starts (see Init)
          CrashSet,   \* nodes that may crash
          StopSet,    \* nodes that may stop gracefully
          Sync,       \* TRUE: a node publishes only when nothing is in flight (see above)
          TrackAge    \* TRUE: count the ticks per node as well (age; needed by the per-peer timed
                      \*   invariants, multiplies the states of a timed configuration by 2-3)

VARIABLES status, ent, hashed, hashIds, sincePub, fl, quiet, age, events, fails, slow, fired, act

vars == <<status, ent, hashed, hashIds, sincePub, fl, quiet, age, events, fails, slow, fired, act>>

Nodes == DOMAIN Addr
Kinds == {"R", "U"}
SetMax(S) == CHOOSE x \in S : \A y \in S : y <= x
SetMin(S) == CHOOSE x \in S : \A y \in S : x <= y
Rlo == SetMin(UNION {Gaps[n] : n \in Nodes})
Rhi == SetMax(UNION {Gaps[n] : n \in Nodes})
Gone == IF Closed THEN -1 ELSE 0           \* "no visible entry"
Bound == T + Rhi + D                       \* the C18 convergence bound
AgeCap == T + D + 1                        \* the per-node clocks stop counting here

ASSUME /\ DOMAIN Gaps = Nodes
       /\ \A n \in Nodes : Gaps[n] # {} /\ Gaps[n] \subseteq 1 .. T
       /\ D >= 0 /\ D < Rlo                \* at most one R per (sender, receiver) in flight
       /\ IF Closed THEN Rhi + D <= T ELSE Rhi + D < T
       /\ Boot \subseteq Nodes /\ CrashSet \subseteq Nodes /\ StopSet \subseteq Nodes
       /\ \A n, m \in Boot : Addr[n] = Addr[m] => n = m

Up == {n \in Nodes : status[n] = "up"}
Vis(n) == {m \in Nodes : ent[n][m] > Gone}  \* ids p.peers lists at node n now
\* GetPeers(): the addresses in id order; never empty (falls back to the own address)
PeerAddrs(n) == IF Vis(n) = {} THEN {Addr[n]} ELSE {Addr[m] : m \in Vis(n)}
PeerCount(n) == IF Vis(n) = {} THEN 1 ELSE Cardinality(Vis(n))
InFlight == {x \in Nodes \X Nodes \X Kinds : fl[x[1]][x[2]][x[3]] >= 0}

\* what the harness can observe on the real objects
Abs == [ status     |-> status,
         peers      |-> [n \in Nodes |-> IF status[n] = "up"
                                          THEN [addrSet |-> PeerAddrs(n), len |-> PeerCount(n)]
                                          ELSE [addrSet |-> {}, len |-> 0]],
         pendingSet |-> {[to |-> x[1], from |-> x[2], kind |-> x[3]] : x \in InFlight},
         offSet     |-> {n \in Nodes : slow[n]},   \* nodes whose requested refresh period is longer than Rhi
         cbSet      |-> IF ObserveCb THEN fired ELSE {} ]
Hid == [ ent |-> ent, hashed |-> hashed, hashIds |-> hashIds, sincePub |-> sincePub,
         fl |-> fl, quiet |-> quiet, age |-> age, events |-> events, fails |-> fails, slow |-> slow, fired |-> fired ]

\* node n publishes a register to the subscribers in S, on top of the channel content f
SendR(f, n, S) == [r \in Nodes |-> IF r \in S /\ f[r][n]["R"] < 0 THEN [f[r] EXCEPT ![n]["R"] = 0] ELSE f[r]]
NoEnt == [m \in Nodes |-> Gone]
NoMsg == [m \in Nodes |-> [k \in Kinds |-> -1]]

\* The history starts with the nodes of Boot running and knowing each other: they were
\* started one after the other, then each one's ticker fired once and its register was
\* handled by everybody, all at the same instant (the harness performs exactly this
\* sequence on the real objects).  Boot = {} is the empty cluster.
Init == /\ status = [n \in Nodes |-> IF n \in Boot THEN "up" ELSE "new"]
        /\ ent = [n \in Nodes |-> IF n \in Boot THEN [m \in Nodes |-> IF m \in Boot THEN T ELSE Gone] ELSE NoEnt]
        /\ hashed = [n \in Nodes |-> n \in Boot]
        /\ hashIds = [n \in Nodes |-> IF n \in Boot THEN Boot ELSE {}]
        /\ sincePub = [n \in Nodes |-> 0]
        /\ fl = [n \in Nodes |-> NoMsg]
        /\ quiet = 0
        /\ age = [n \in Nodes |-> 0]
        /\ events = 0
        /\ fails = 0
        /\ slow = [n \in Nodes |-> FALSE]
        /\ fired = {}
        /\ act = [name |-> "Init"]

\* Start() + RegisterUpdatedPeersCallback + Ready(): subscribe, list yourself,
\* create the publish ticker.  Nothing is published yet.
Start(n) ==
  /\ status[n] = "new"
  /\ events < MaxEvents
  /\ \A m \in Up : Addr[m] # Addr[n]
  /\ status' = [status EXCEPT ![n] = "up"]
  /\ ent' = [ent EXCEPT ![n] = [NoEnt EXCEPT ![n] = T]]
  /\ sincePub' = [sincePub EXCEPT ![n] = 0]
  /\ quiet' = 0
  /\ age' = [age EXCEPT ![n] = 0]
  /\ events' = events + 1
  /\ fired' = {}
  /\ \E eager \in (IF Extra = "none" THEN {FALSE} ELSE BOOLEAN) :
        fl' = IF eager THEN SendR(fl, n, Up \cup {n}) ELSE fl
  /\ UNCHANGED <<hashed, hashIds, fails, slow>>
  /\ act' = [name |-> "Start", n |-> n]

TickerMayFire(n) == /\ status[n] = "up"
                    /\ Sync => InFlight = {}
                    /\ \/ sincePub[n] \in Gaps[n]
                       \/ slow[n] /\ sincePub[n] >= Rlo

\* the ticker case of the Ready goroutine: publish R<address>,<id> to every subscriber (incl. itself)
PublishTick(n) ==
  /\ TickerMayFire(n)
  /\ fl' = SendR(fl, n, Up)
  /\ sincePub' = [sincePub EXCEPT ![n] = 0]
  /\ slow' = [slow EXCEPT ![n] = FALSE]           \* recovered: the period is back in the envelope
  /\ quiet' = IF slow[n] THEN 0 ELSE quiet
  /\ age' = IF slow[n] THEN [age EXCEPT ![n] = 0] ELSE age
  /\ fired' = {}
  /\ UNCHANGED <<status, ent, hashed, hashIds, events, fails>>
  /\ act' = [name |-> "PublishTick", n |-> n]

\* the same ticker case, but Publish returns an error: nobody receives anything
PublishFail(n) ==
  /\ TickerMayFire(n)
  /\ fails < MaxFails
  /\ fails' = fails + 1
  /\ sincePub' = [sincePub EXCEPT ![n] = 0]
  /\ \E b \in (IF Backoff THEN BOOLEAN ELSE {FALSE}) : slow' = [slow EXCEPT ![n] = slow[n] \/ b]
  /\ quiet' = 0
  /\ age' = [age EXCEPT ![n] = 0]
  /\ fired' = {}
  /\ UNCHANGED <<status, ent, hashed, hashIds, fl, events>>
  /\ act' = [name |-> "PublishFail", n |-> n]

\* listen(): one message handled by subscriber r; then checkHash()
Deliver(r, m, k) ==
  /\ fl[r][m][k] >= 0
  /\ \E extra \in (IF Extra = "any" THEN BOOLEAN ELSE {FALSE}) :
        fl' = IF extra THEN SendR([fl EXCEPT ![r][m][k] = -1], r, Up) ELSE [fl EXCEPT ![r][m][k] = -1]
  /\ ent' = [ent EXCEPT ![r][m] = IF k = "R" THEN T ELSE Gone]
  /\ LET ids == {i \in Nodes : ent'[r][i] > Gone}
         changed == ~hashed[r] \/ ids # hashIds[r]
     IN /\ hashed' = [hashed EXCEPT ![r] = TRUE]
        /\ hashIds' = [hashIds EXCEPT ![r] = ids]
        /\ fired' = IF changed THEN {r} ELSE {}
  /\ UNCHANGED <<status, sincePub, quiet, age, events, fails, slow>>
  /\ act' = [name |-> "Deliver", to |-> r, from |-> m, kind |-> k]

\* the process is gone: its state is no longer observed, nothing reaches it any more
Leave(n, how) ==
  /\ status' = [status EXCEPT ![n] = how]
  /\ ent' = [ent EXCEPT ![n] = NoEnt]
  /\ hashed' = [hashed EXCEPT ![n] = FALSE]
  /\ hashIds' = [hashIds EXCEPT ![n] = {}]
  /\ sincePub' = [sincePub EXCEPT ![n] = 0]
  /\ slow' = [slow EXCEPT ![n] = FALSE]
  /\ quiet' = 0
  /\ age' = [age EXCEPT ![n] = 0]
  /\ events' = events + 1
  /\ fired' = {}

\* close(Done): the goroutine publishes U<address>,<id> and returns
GracefulStop(n) ==
  /\ status[n] = "up" /\ n \in StopSet
  /\ events < MaxEvents
  /\ Leave(n, "stopped")
  /\ fl' = [r \in Nodes |-> IF r = n THEN NoMsg
                            ELSE IF status[r] = "up" THEN [fl[r] EXCEPT ![n]["U"] = 0] ELSE fl[r]]
  /\ UNCHANGED fails
  /\ act' = [name |-> "GracefulStop", n |-> n]

\* the same, but the Publish of the unregister fails: the others only forget n by expiry
GracefulStopFail(n) ==
  /\ status[n] = "up" /\ n \in StopSet
  /\ events < MaxEvents
  /\ fails < MaxFails
  /\ Leave(n, "stopped")
  /\ fl' = [fl EXCEPT ![n] = NoMsg]
  /\ fails' = fails + 1
  /\ act' = [name |-> "GracefulStopFail", n |-> n]

\* the process dies: no unregister; what it published before is still delivered to the others
Crash(n) ==
  /\ status[n] = "up" /\ n \in CrashSet
  /\ events < MaxEvents
  /\ Leave(n, "crashed")
  /\ fl' = [fl EXCEPT ![n] = NoMsg]
  /\ UNCHANGED fails
  /\ act' = [name |-> "Crash", n |-> n]

Dec(x) == IF x <= Gone THEN Gone ELSE x - 1
\* one tick of the shared clock; blocked while a delivery or a ticker firing is overdue
Advance ==
  /\ \A x \in InFlight : fl[x[1]][x[2]][x[3]] < D
  /\ \A n \in Up : slow[n] \/ sincePub[n] < SetMax(Gaps[n])
  /\ ent' = [n \in Nodes |-> [m \in Nodes |-> Dec(ent[n][m])]]
  /\ fl' = [r \in Nodes |-> [m \in Nodes |-> [k \in Kinds |-> IF fl[r][m][k] >= 0 THEN fl[r][m][k] + 1 ELSE -1]]]
  /\ sincePub' = [n \in Nodes |-> IF status[n] = "up" THEN (IF sincePub[n] < Rhi THEN sincePub[n] + 1 ELSE Rhi) ELSE 0]
  /\ quiet' = IF TrackQuiet /\ quiet < Bound /\ (\A n \in Up : ~slow[n]) THEN quiet + 1 ELSE quiet  \* settling starts at recovery
  /\ age' = [n \in Nodes |-> IF TrackAge /\ status[n] # "new" /\ age[n] < AgeCap /\ ~slow[n] THEN age[n] + 1 ELSE age[n]]
  /\ fired' = {}
  /\ UNCHANGED <<status, hashed, hashIds, events, fails, slow>>
  /\ act' = [name |-> "Advance"]

Next == \/ \E n \in Nodes : Start(n) \/ PublishTick(n) \/ PublishFail(n) \/ GracefulStop(n) \/ GracefulStopFail(n) \/ Crash(n)
        \/ \E r \in Nodes, m \in Nodes, k \in Kinds : Deliver(r, m, k)
        \/ Advance

Spec == Init /\ [][Next]_vars

\* fairness for the liveness configuration: time passes, tickers fire, messages arrive
FairSpec == /\ Spec
            /\ WF_vars(Advance)
            /\ \A n \in Nodes : WF_vars(PublishTick(n))
            /\ \A r \in Nodes, m \in Nodes, k \in Kinds : WF_vars(Deliver(r, m, k))

TypeOK == /\ status \in [Nodes -> {"new", "up", "stopped", "crashed"}]
          /\ ent \in [Nodes -> [Nodes -> Gone .. T]]
          /\ hashed \in [Nodes -> BOOLEAN]
          /\ hashIds \in [Nodes -> SUBSET Nodes]
          /\ sincePub \in [Nodes -> 0 .. Rhi]
          /\ fl \in [Nodes -> [Nodes -> [Kinds -> -1 .. D]]]
          /\ quiet \in 0 .. Bound
          /\ age \in [Nodes -> 0 .. AgeCap]
          /\ events \in 0 .. MaxEvents
          /\ fails \in 0 .. MaxFails
          /\ slow \in [Nodes -> BOOLEAN]
          /\ fired \subseteq Nodes

Agreed == \A n \in Up : Vis(n) = Up

\* C18, timed: membership quiet for timeout + one refresh interval + delivery delay
\* => every running node lists exactly the alive, publishing nodes
Converged == quiet >= Bound => Agreed
\* the two halves, with the tighter bounds the protocol actually gives
LearnsLive == quiet >= Rhi + D + 1 => \A n \in Up : Up \subseteq Vis(n)
ForgetsDead == quiet >= T + D + 1 => \A n \in Up : Vis(n) \subseteq Up
\* The same PER PEER, whatever else goes on in the cluster meanwhile (other nodes joining,
\* stopping, crashing, restarting - a rolling restart never lets `quiet' reach a bound):
\* age[m] counts the ticks since m started, left or last failed to publish.
\* A peer that left - with or without an unregister - is listed by nobody from the instant
\* timeout + delay after it left; a peer that is up and publishing is listed by every node
\* that has been up for a refresh interval + delay.
PeerForgotten == \A m \in Nodes : (status[m] \in {"stopped", "crashed"} /\ age[m] >= T + D + 1) => \A n \in Up : m \notin Vis(n)
PeerLearnt == \A n \in Up, m \in Up : (age[n] >= Rhi + D + 1 /\ age[m] >= Rhi + D + 1) => m \in Vis(n)
\* a running node always lists itself, so GetPeers never needs its fallback
SelfListed == fails = 0 => \A n \in Up : n \in Vis(n)
\* after recovery nobody is left with a stretched refresh period
PeriodRestored == quiet >= 1 => \A n \in Up : ~slow[n]
\* no duplicate address once the dead are forgotten
NoDuplicateAddr == quiet >= T + D + 1 => \A n \in Up : \A a, b \in Vis(n) : Addr[a] = Addr[b] => a = b
\* nothing in flight to or from a node that never started, nothing to a node that left
ChannelSane == \A x \in InFlight : status[x[1]] = "up" /\ status[x[2]] # "new"

\* callbacks fire exactly when the listed id set differs from the one last hashed
CallbackIffChange ==
  [][\A r \in Nodes : r \in fired' <=> /\ act'.name = "Deliver" /\ act'.to = r
                                      /\ (~hashed[r] \/ Vis(r)' # hashIds[r])]_vars
\* an entry comes back only through a register message
NoResurrection ==
  [][\A r \in Nodes, m \in Nodes : (m \notin Vis(r) /\ m \in Vis(r)') =>
        \/ act'.name = "Deliver" /\ act'.to = r /\ act'.from = m /\ act'.kind = "R"
        \/ act'.name = "Start" /\ act'.n = r /\ m = r]_vars

\* liveness (FairSpec): membership eventually agrees for good, and a change of the
\* listed set that happened by expiry (no message) is eventually notified
EventuallyAgreed == <>[]Agreed
HashCatchesUp == \A n \in Nodes : [](status[n] = "up" => <>(status[n] # "up" \/ (hashed[n] /\ hashIds[n] = Vis(n))))

Params == [addr |-> Addr, gaps |-> Gaps, T |-> T, D |-> D, rlo |-> Rlo, rhi |-> Rhi, unitMs |-> UnitMs,
           closed |-> Closed, observeCb |-> ObserveCb, backoff |-> Backoff, extra |-> Extra, bootSet |-> Boot]
ASSUME PrintT(ToJson([params |-> Params]))
Dump == PrintT(ToJson([fa |-> act.name, act |-> act', fabs |-> Abs, fhid |-> Hid, tabs |-> Abs', thid |-> Hid']))
View == <<status, ent, hashed, hashIds, sincePub, fl, quiet, age, events, fails, slow, fired>>

\* constant values for the configurations
Addr1 == [a1 |-> "A"]
GapsJitter1 == [a1 |-> {3, 4}]
Addr2 == [a1 |-> "A", b1 |-> "B"]
Addr3 == [a1 |-> "A", b1 |-> "B", c1 |-> "C"]
AddrRestart == [a1 |-> "A", a2 |-> "A", b1 |-> "B"]
GapsFixed2 == [a1 |-> {3}, b1 |-> {4}]
GapsJitter2 == [a1 |-> {3, 4}, b1 |-> {3, 4}]
GapsFixed3 == [a1 |-> {3}, b1 |-> {4}, c1 |-> {3}]
GapsJitter3 == [a1 |-> {3, 4}, b1 |-> {3, 4}, c1 |-> {3, 4}]
GapsRestart == [a1 |-> {3}, a2 |-> {4}, b1 |-> {3, 4}]
GapsRestartF == [a1 |-> {3}, a2 |-> {3}, b1 |-> {4}]
AddrRoll == [a1 |-> "A", b1 |-> "B", b2 |-> "B", c1 |-> "C"]
GapsRoll == [a1 |-> {3}, b1 |-> {4}, b2 |-> {4}, c1 |-> {4}]
GapsRoll4 == [a1 |-> {4}, b1 |-> {4}, b2 |-> {4}, c1 |-> {4}]
NoNodes == {}
AllNodes == Nodes
OnlyB == {"b1"}
OnlyC == {"c1"}
BootABC == {"a1", "b1", "c1"}
SetB == {"b1", "b2"}
SetBC == {"b1", "c1"}
=============================================================================
