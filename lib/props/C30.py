"""C30 Liveness and readiness follow subsystem reports within one tick."""

def _walk(name, suffix, budget, quick=False, quick_suffix=None):
    """One exhaustive TLC run + transition tour. Alternative 'exact' = the answers of the code model;
    'loose' = any answers the C30 statement allows (tried only when the code departs from 'exact')."""
    cfg = lambda alt: {"quick": f"MC_Health_{alt}{suffix if quick_suffix is None else quick_suffix}.cfg", "thorough": f"MC_Health_{alt}{suffix}.cfg"}
    return dict(kind="walk", name=name, module="Health", pkg="internal/health", test="TestVerifC30Health",
                harness=["internal/health/c30_health_test.go"], tiers=(("quick", "thorough") if quick else ("thorough",)),
                alternatives=[dict(name="exact", cfg=cfg("exact")), dict(name="loose", cfg=cfg("loose"))],
                budget=budget)


PROP = dict(
    level="model_checking",
    technique="TLA+ spec Health.tla (code state of internal/health.Health + ghost report history) model-checked by TLC; every generated transition replayed into a real started Health (real ticker goroutine, clockwork fake clock, deterministic tick barrier) and IsAlive/IsReady compared (spec->code transition tour); concurrent callers (-race build) recorded as call/return histories and checked by TLC for linearizability against the same spec (TraceHealth.tla)",
    design_ref="DESIGN.md §5 C30",
    level_text="TLC explores every order of Register/Unregister/Ready(true|false)/clock advance/tick processing, including calls racing with the tick at a tick boundary, for 2 subsystems with timeouts that are not multiples of the 500 ms tick: quick on a 250 ms grid (a 750|1250 ms, b 1250 ms; thorough both 750|1250 ms; re-registration may change the timeout); thorough additionally on a 100 ms grid (600 ms + 1200 ms; 300 ms + 1700 ms) and, model only, 300|1000|1700 ms for 2 and 600/600/1200 ms for 3 subsystems. It checks on the model that the answers the code computes satisfy C30: alive whenever every registered subsystem was heard from less than timeout-tick ago, dead whenever one that reported has been silent for more than timeout+tick and until it reports again, ready only if something is registered, every registered subsystem reported ready and nothing is unregistered (re-registration counts as registered). Each generated transition of the 2-subsystem graphs is then executed on a real started Health and IsAlive()/IsReady() must equal the model's answers. Concurrency: 250 (quick) / 1500 (thorough) short rounds on a fresh Health, 2-4 goroutines released together calling Register/Unregister/Ready on the same and different subsystems, then quiescence, 4 processed ticks, a follow-up Ready per subsystem and one more tick; TLC accepts the recorded history only if every concurrent call can take effect atomically at one instant between its call and its return such that all observations (IsAlive/IsReady at quiescence and after each later step) are the model's.",
    level_note="The walk first demands the exact answers of the code model (alternative 'exact'); only if the code departs from it is it compared with the alternative 'loose', in which IsAlive/IsReady may be anything the C30 statement allows (+-1 tick slack; readiness open while a subsystem is dead) - VIOLATION only if neither fits. Readings: an unreported subsystem must not be reported dead within timeout-tick of its registration; ready must be TRUE when all the listed conditions hold and every subsystem is punctual. Exhaustive only within the bound (2 subsystems, the listed timeouts, saturating silence counters); /alive and /ready HTTP/gRPC endpoints of route.go are not driven (they call the same Reporter methods); the barrier relies on Health.ticker re-evaluating tick.Chan() per loop iteration (otherwise the check reports cannot-decide, not a violation); clockwork's fake ticker is trusted. The concurrent stage is sampling, not exhaustive: interleavings are whatever the Go scheduler produces in the -race build, helped only by a Logger stub that yields inside Health's own log calls (as a logger doing I/O would); a data race reported by the detector makes the stage cannot-decide, not a C30 violation.",
    assumptions=["clockwork.FakeClock/fake ticker is faithful", "bounded: 2 subsystems, timeouts from a small set, time on a 100/250 ms grid",
                 "a tick is processed by the ticker goroutine before the clock moves on (calls at the same instant may come before or after it)"],
    stages=[_walk("Health", "_g250", {"quick": 60, "thorough": 120}, quick=True, quick_suffix=""),   # 250 ms grid, a 750|1250 ms, b 1250 ms (thorough: both 750|1250 ms)
            _walk("Health100a", "_g100a", 150),   # thorough only: 100 ms grid, a 600 ms, b 1200 ms
            _walk("Health100b", "_g100b", 150),   # thorough only: 100 ms grid, a 300 ms (< tick), b 1700 ms
            # concurrent callers, -race build; oracle = linearizability against Health.tla (TLC validates the call/return history)
            dict(kind="trace", name="HealthConc", module="TraceHealth", cfg=["TraceHealth.cfg", "TraceHealth_loose.cfg"], pkg="internal/health",
                 test="TestVerifC30HealthConc", harness=["internal/health/c30_health_test.go", "internal/health/c30_healthconc_test.go"], race=True),
            dict(kind="tlc", name="HealthMC", module="Health", cfg={"quick": None, "thorough": "MC_Health_mc.cfg"}, workers=8),
            dict(kind="tlc", name="HealthMC3", module="Health", cfg={"quick": None, "thorough": "MC_Health_mc3.cfg"}, workers=8)],
)

import os, sys  # noqa: E402
sys.path.insert(0, os.path.dirname(os.path.dirname(os.path.abspath(__file__))))
import extstages  # noqa: E402
# coverage extension CX5 (lib/ext/CX5.py, spec/ind/): UNBOUNDED safety of Health.tla - an inductive invariant for a typed companion module, discharged
# by TLAPS (arbitrary constants) and Apalache (symbolic integers), with a TLC check on the bounded models that the companion's transition relation
# and properties are this module's. A proof obligation that fails or times out is a weak invariant or a tool limit, never an observation of the
# code: the stages are advisory (logged, kept in the evidence, never decide).
PROP["stages"] += extstages.pick("CX5", ["Health-ref", "Health-tlaps", "Health-apalache"], advisory=True, tiers=("thorough",))
