SPECIFICATION Spec
CONSTANTS
  Catalogue <- CatOne
  DiskC = "A"
  DiskR = "A"
  Feat = {"msg", "health", "stop"}
  Feeds <- FeedsOne
  MaxCum = 0
  Steps = {1}
  Outcomes = {}
  ZeroReports = "keys"
  RetryFailed = TRUE
  Faithful = TRUE
INVARIANTS TypeOK AppliedIsInForce FailedIsRefused EffectiveInForce Conservation NoDoubleCount StopUnhealthy StopEnds
PROPERTIES RefusedKeepsOld StatusProtocol OnlyMessagesApply NoReapply NewHashHandled HealthFollows ReportCarriesAll OnlySentDelivers
CHECK_DEADLOCK FALSE
