----------------------------- MODULE MetricsInd -----------------------------
(***************************************************************************)
(* Typed companion of spec/Metrics.tla (property C33) for unbounded proofs *)
(* of BOTH grains: the atomic one the Go walker replays (Spec) and the     *)
(* interleaved sync.Map / atomic-cell sub-steps (SpecFine) - for ANY       *)
(* number of public calls (TLC: MaxOps 3 | 6), any counter horizon, any    *)
(* values, any number of names and threads.                                *)
(*                                                                         *)
(* The text between the two rulers below is spec/Metrics.tla from          *)
(* `store ==` to the properties with every `act` conjunct and Abs removed  *)
(* (generated, not retyped; one @type comment added).  MetricsIndRef.tla has *)
(* TLC check on                                                            *)
(* the bounded models of MC_Metrics{,_sampler,_fine}.cfg that AtomicNext / *)
(* FineNext of both modules are the same relations on the reachable        *)
(* states.                                                                 *)
(***************************************************************************)
EXTENDS Integers, FiniteSets

CONSTANTS
  \* @type: Set(Str);
  Counters,
  \* @type: Set(Str);
  Gauges,
  \* @type: Set(Str);
  UpDowns,
  \* @type: Set(Str);
  Hists,
  \* @type: Set(Str);
  Stores,
  \* @type: Int;
  MaxCount,
  \* @type: Int;
  MaxNet,
  \* @type: Set(Int);
  Vals,
  \* @type: Int;
  MaxGen,
  \* @type: Set(THR);
  Threads,
  \* @type: Int;
  MaxOps,
  \* @type: Bool;
  RegisterReplaces

VARIABLES
  \* @type: Str -> Bool;
  reg,
  \* @type: Str -> Int;
  gen,
  \* @type: Str -> (Int -> Int);
  heap,
  \* @type: Str -> Int;
  ideal,
  \* @type: THR -> Str;
  pc,
  \* @type: THR -> Str;
  tn,
  \* @type: THR -> Str;
  top,
  \* @type: THR -> Int;
  tk,
  \* @type: THR -> Int;
  tp,
  \* @type: THR -> Bool;
  gotOK,
  \* @type: Int;
  ops

(* ======================= spec/Metrics.tla, verbatim ===================== *)
store == <<reg, gen, heap, ideal>>
thr   == <<pc, tn, top, tk, tp, gotOK, ops>>
vars  == <<store, thr>>

Registrable == Counters \cup Gauges \cup UpDowns \cup Hists
Names       == Registrable \cup Stores
Stored      == Names \ Hists            \* names that have a value map

\* what Get(n) answers: 0 if there is no cell (never registered, never used), else the cell
CurVal(n) == IF gen[n] = 0 THEN 0 ELSE heap[n][gen[n]]

Init == /\ reg = [n \in Names |-> FALSE]
        /\ gen = [n \in Names |-> 0]
        /\ heap = [n \in Names |-> [g \in 1 .. MaxGen |-> 0]]
        /\ ideal = [n \in Names |-> 0]
        /\ pc = [t \in Threads |-> "idle"]
        /\ tn = [t \in Threads |-> ""]
        /\ top = [t \in Threads |-> ""]
        /\ tk = [t \in Threads |-> 0]
        /\ tp = [t \in Threads |-> 0]
        /\ gotOK = [t \in Threads |-> TRUE]
        /\ ops = 0

-----------------------------------------------------------------------------
(* effects on the value map *)

\* sync.Map.LoadOrStore(n, fresh cell): keeps an existing cell
EnsuredGen(n) == IF gen[n] = 0 THEN 1 ELSE gen[n]

\* what Register does to the value map of a stored name
RegGen(n) == IF RegisterReplaces THEN gen[n] + 1 ELSE EnsuredGen(n)
\* @type: (Str -> (Int -> Int), Str) => (Str -> (Int -> Int));
RegHeap(h, n) == IF RegisterReplaces THEN [h EXCEPT ![n][gen[n] + 1] = 0] ELSE h
CanRegister(n) == RegisterReplaces /\ n \in Stored => gen[n] < MaxGen

\* the new value of a cell under an operation
NewVal(op, old, k) == IF op = "add" THEN old + k ELSE k

InRange(n, v) == /\ n \in Counters => v <= MaxCount
                 /\ n \in UpDowns => (v <= MaxNet /\ v >= 0 - MaxNet)

-----------------------------------------------------------------------------
(* atomic grain: one action per public call *)

Write(n, op, k) ==
  LET g == EnsuredGen(n) IN
  /\ gen' = [gen EXCEPT ![n] = g]
  /\ heap' = [heap EXCEPT ![n][g] = NewVal(op, heap[n][g], k)]
  /\ ideal' = [ideal EXCEPT ![n] = NewVal(op, ideal[n], k)]
  /\ UNCHANGED <<reg, thr>>

Register(n) ==
  /\ CanRegister(n)
  /\ reg' = [reg EXCEPT ![n] = TRUE]
  /\ IF n \in Hists THEN UNCHANGED <<gen, heap>>
     ELSE /\ gen' = [gen EXCEPT ![n] = RegGen(n)]
          /\ heap' = RegHeap(heap, n)
  /\ UNCHANGED <<ideal, thr>>

\* one component registering its whole block of metrics (SamplerFactory.Start,
\* sample.newSamplerMetricNames, ...): Register(n) for every registrable name
RegisterAll ==
  /\ \A n \in Registrable : CanRegister(n)
  /\ reg' = [n \in Names |-> IF n \in Registrable THEN TRUE ELSE reg[n]]
  /\ gen' = [n \in Names |-> IF n \in Registrable \ Hists THEN RegGen(n) ELSE gen[n]]
  /\ heap' = [n \in Names |-> IF n \in Registrable \ Hists /\ RegisterReplaces
                                THEN [heap[n] EXCEPT ![gen[n] + 1] = 0] ELSE heap[n]]
  /\ UNCHANGED <<ideal, thr>>

Increment(n) == /\ InRange(n, ideal[n] + 1) /\ Write(n, "add", 1)
Count(n, k)  == /\ InRange(n, ideal[n] + k) /\ Write(n, "add", k)
Up(n)        == /\ InRange(n, ideal[n] + 1) /\ Write(n, "add", 1)
Down(n)      == /\ InRange(n, ideal[n] - 1) /\ Write(n, "add", 0 - 1)
Gauge(n, v)  == /\ Write(n, "set", v)
StoreVal(n, v) == /\ Write(n, "set", v)
\* histograms are forwarded to the children only; nothing is kept
Histogram(n, v) == /\ UNCHANGED <<store, thr>>

AtomicNext ==
  \/ \E n \in Registrable : Register(n)
  \/ RegisterAll
  \/ \E n \in Counters : Increment(n) \/ Count(n, 2)
  \/ \E n \in UpDowns : Up(n) \/ Down(n)
  \/ \E n \in Gauges, v \in Vals \cup {0} : Gauge(n, v)
  \/ \E n \in Stores, v \in Vals : StoreVal(n, v)
  \/ \E n \in Hists, v \in Vals : Histogram(n, v)

-----------------------------------------------------------------------------
(* fine grain: the shared-memory sub-steps of each call, interleaved *)

Idle(t) == pc[t] = "idle"
Goto(t, l) == pc' = [pc EXCEPT ![t] = l]

\* a thread enters Increment/Count/Up/Down (op "add"), Gauge/Store (op "set"),
\* Register (op "reg") or Get (op "get")
Begin(t, op, n, k) ==
  /\ Idle(t) /\ ops < MaxOps
  /\ ops' = ops + 1
  /\ tn' = [tn EXCEPT ![t] = n] /\ top' = [top EXCEPT ![t] = op] /\ tk' = [tk EXCEPT ![t] = k]
  /\ Goto(t, CASE op = "reg" -> "regtype" [] op = "get" -> "getload" [] OTHER -> "load")
  /\ UNCHANGED <<store, tp, gotOK>>

\* fast path: m.<map>.Load(name)
FLoad(t) ==
  /\ pc[t] = "load"
  /\ IF gen[tn[t]] # 0 THEN tp' = [tp EXCEPT ![t] = gen[tn[t]]] /\ Goto(t, "apply")
                       ELSE UNCHANGED tp /\ Goto(t, "los")
  /\ UNCHANGED <<store, tn, top, tk, gotOK, ops>>

\* slow path: m.<map>.LoadOrStore(name, fresh)
FLoadOrStore(t) ==
  /\ pc[t] = "los"
  /\ gen' = [gen EXCEPT ![tn[t]] = EnsuredGen(tn[t])]
  /\ tp' = [tp EXCEPT ![t] = EnsuredGen(tn[t])]
  /\ Goto(t, "apply")
  /\ UNCHANGED <<reg, heap, ideal, tn, top, tk, gotOK, ops>>

\* the atomic Add / Store on the cell the thread holds a pointer to; this is
\* the linearization point of the recording, so the ghost moves here
FApply(t) ==
  /\ pc[t] = "apply"
  /\ heap' = [heap EXCEPT ![tn[t]][tp[t]] = NewVal(top[t], @, tk[t])]
  /\ ideal' = [ideal EXCEPT ![tn[t]] = NewVal(top[t], @, tk[t])]
  /\ Goto(t, "idle")
  /\ UNCHANGED <<reg, gen, tn, top, tk, tp, gotOK, ops>>

\* Register: m.metricTypes.Store(name, type) ...
FRegType(t) ==
  /\ pc[t] = "regtype"
  /\ reg' = [reg EXCEPT ![tn[t]] = TRUE]
  /\ Goto(t, IF tn[t] \in Hists THEN "idle" ELSE "regstore")
  /\ UNCHANGED <<gen, heap, ideal, tn, top, tk, tp, gotOK, ops>>

\* ... then the value map: LoadOrStore (property) or Store of a fresh cell (unpatched)
FRegStore(t) ==
  /\ pc[t] = "regstore" /\ CanRegister(tn[t])
  /\ gen' = [gen EXCEPT ![tn[t]] = RegGen(tn[t])]
  /\ heap' = RegHeap(heap, tn[t])
  /\ Goto(t, "idle")
  /\ UNCHANGED <<reg, ideal, tn, top, tk, tp, gotOK, ops>>

\* Get: <map>.Load(name) ...
FGetLoad(t) ==
  /\ pc[t] = "getload"
  /\ IF gen[tn[t]] = 0
       THEN /\ gotOK' = [gotOK EXCEPT ![t] = (ideal[tn[t]] = 0)]   \* answers 0 / not found
            /\ UNCHANGED tp /\ Goto(t, "idle")
       ELSE /\ tp' = [tp EXCEPT ![t] = gen[tn[t]]] /\ UNCHANGED gotOK /\ Goto(t, "getread")
  /\ UNCHANGED <<store, tn, top, tk, ops>>

\* ... then the atomic Load of the cell: the value returned must be the recorded one
FGetRead(t) ==
  /\ pc[t] = "getread"
  /\ gotOK' = [gotOK EXCEPT ![t] = (heap[tn[t]][tp[t]] = ideal[tn[t]])]
  /\ Goto(t, "idle")
  /\ UNCHANGED <<store, tn, top, tk, tp, ops>>

FineNext ==
  \E t \in Threads :
    \/ \E n \in Counters, k \in {1, 2} : Begin(t, "add", n, k)
    \/ \E n \in UpDowns, k \in {1, 0 - 1} : Begin(t, "add", n, k)
    \/ \E n \in Gauges \cup Stores, v \in Vals : Begin(t, "set", n, v)
    \/ \E n \in Registrable : Begin(t, "reg", n, 0)
    \/ \E n \in Stored : Begin(t, "get", n, 0)
    \/ FLoad(t) \/ FLoadOrStore(t) \/ FApply(t)
    \/ FRegType(t) \/ FRegStore(t) \/ FGetLoad(t) \/ FGetRead(t)

-----------------------------------------------------------------------------

\* two specifications over the same state (choose one in the .cfg)
Spec     == Init /\ [][AtomicNext]_vars
SpecFine == Init /\ [][FineNext]_vars

TypeOK == /\ reg \in [Names -> BOOLEAN]
          /\ gen \in [Names -> 0 .. MaxGen]
          /\ \A n \in Names : DOMAIN heap[n] = 1 .. MaxGen
          /\ \A n \in Names : ideal[n] \in Int
          /\ \A t \in Threads : pc[t] \in {"idle", "load", "los", "apply", "regtype", "regstore", "getload", "getread"}
          /\ ops \in 0 .. MaxOps
          /\ \A n \in Hists : gen[n] = 0

\* C33: what Get returns is what was recorded, whatever Register calls happened
ReadBack == \A n \in Names : CurVal(n) = ideal[n]

\* C33: a counter never decreases
CounterMonotone == [][\A n \in Counters : CurVal(n)' >= CurVal(n)]_vars

\* C33 (fine grain): every concurrent Get returns the recorded value of the instant it reads
GetLinearizable == \A t \in Threads : gotOK[t]

\* there is only ever one cell per name (what makes the fast path's stale pointer harmless)
SingleCell == \A n \in Names : gen[n] <= 1

(* ================================ end =================================== *)

\* what Metrics.tla assumes silently: the five families are disjoint, the property side of
\* the switch (LoadOrStore), one cell per name
Disjoint(A, B) == A \cap B = {}
ConstOK == /\ Disjoint(Counters, Gauges) /\ Disjoint(Counters, UpDowns) /\ Disjoint(Counters, Hists) /\ Disjoint(Counters, Stores)
           /\ Disjoint(Gauges, UpDowns) /\ Disjoint(Gauges, Hists) /\ Disjoint(Gauges, Stores)
           /\ Disjoint(UpDowns, Hists) /\ Disjoint(UpDowns, Stores) /\ Disjoint(Hists, Stores)
           /\ MaxCount \in Int /\ MaxNet \in Int /\ MaxOps \in Int /\ MaxOps >= 0
           /\ \A v \in Vals : v \in Int
           /\ MaxGen \in Int /\ MaxGen >= 1
           /\ RegisterReplaces \in {FALSE}

Safety == TypeOK /\ ReadBack /\ SingleCell /\ GetLinearizable
CounterMonotoneStep == \A n \in Counters : CurVal(n)' >= CurVal(n)

----------------------------------------------------------------------------
(* The inductive invariant.                                                *)
(*  store:  a name has no cell (gen 0: the future cell and the ghost are 0) *)
(*          or exactly one, cell 1, which holds the ghost value            *)
(*  thread: what each program counter knows - the name it works on is of   *)
(*          the right family, a counter only ever adds k >= 1, and a held  *)
(*          pointer (apply, getread) is THE cell of its name: once a cell  *)
(*          exists it is never replaced (LoadOrStore), which is what makes *)
(*          the fast path's pointer safe                                   *)
PCs == {"idle", "load", "los", "apply", "regtype", "regstore", "getload", "getread"}

ThreadInv(t) ==
  /\ pc[t] \in PCs /\ gotOK[t]
  /\ pc[t] \in {"load", "los", "apply"} =>
        /\ tn[t] \in Stored /\ top[t] \in {"add", "set"} /\ tk[t] \in Int
        /\ tn[t] \in Counters => (top[t] = "add" /\ tk[t] >= 1)
  /\ pc[t] \in {"apply", "getread"} => (tp[t] = 1 /\ gen[tn[t]] = 1)
  /\ pc[t] = "regtype" => tn[t] \in Registrable
  /\ pc[t] = "regstore" => tn[t] \in Registrable \ Hists
  /\ pc[t] \in {"getload", "getread"} => tn[t] \in Stored

IndInv ==
  /\ reg \in [Names -> BOOLEAN] /\ gen \in [Names -> Int] /\ ideal \in [Names -> Int]
  /\ DOMAIN heap = Names /\ \A n \in Names : heap[n] \in [1 .. MaxGen -> Int]
  /\ pc \in [Threads -> PCs] /\ tn \in [Threads -> Names \cup {""}] /\ top \in [Threads -> {"", "add", "set", "reg", "get"}]
  /\ tk \in [Threads -> Int] /\ tp \in [Threads -> Int] /\ gotOK \in [Threads -> BOOLEAN]
  /\ ops \in Int /\ 0 <= ops /\ ops <= MaxOps
  /\ \A n \in Names :
       /\ gen[n] = 0 \/ gen[n] = 1
       /\ n \in Hists => gen[n] = 0
       /\ gen[n] = 0 => (heap[n][1] = 0 /\ ideal[n] = 0)
       /\ gen[n] = 1 => heap[n][1] = ideal[n]
  /\ \A t \in Threads : ThreadInv(t)
=============================================================================
