"""CX6 (coverage extension) the OpAMP agent reports a remote configuration as APPLIED exactly when it is in force and as FAILED (with the error) when it was refused, keeps upstream's copy of the effective configuration, the health and the usage faithful, and Stop ends its goroutines."""

_H = ["agent/cx6_opamp_test.go"]


def _walk(name, q, t, budget, open_=None, **kw):
    st = dict(kind="walk", name=name, module="OpAMP", pkg="agent", test="TestVerifCX6OpAMP", harness=_H, budget=budget, maxwalk=48, **kw)

    def cfg(sfx):
        return {"quick": f"MC_OpAMP_{q}{sfx}.cfg" if q else None, "thorough": f"MC_OpAMP_{t}{sfx}.cfg"}
    if open_ == "retry":
        # what a message repeating the hash of a FAILED configuration does is left open: handled again (the code) or skipped
        st["alternatives"] = [dict(name="retry-failed", cfg=cfg("")), dict(name="skip-failed", cfg=cfg("_noretry"))]
    elif open_ == "zero":
        # whether a usage report of zeros is sent is left open: iff the tracker has an entry (the code) or never
        st["alternatives"] = [dict(name="keys", cfg=cfg("")), dict(name="never", cfg=cfg("_never"))]
    else:
        st["cfg"] = cfg("")
    return st


def _tlc(name, cfg, workers=8):
    return dict(kind="tlc", name=name, module="OpAMP", cfg={"quick": None, "thorough": cfg}, workers=workers, tiers=("thorough",), timeout=600)


PROP = dict(
    level="model_checking",
    technique="TLA+ spec OpAMP.tla (agent.Agent between the OpAMP client, Config.Reload, health.Reporter, the metrics store and the usage tracker: one action per callback / loop round - OnMessage per "
              "remote configuration, OnMessage without one, GetEffectiveConfig poll, health tick, usage tick per client answer, Ack of a held message, Stop - plus the environment) model-checked by TLC; "
              "every generated transition replayed into a real Agent wired, as connect() wires it, to a fake OpAMP client that keeps what the server would know, a REAL fileConfig over temp files "
              "(config.NewConfig, running version v3.0.0; the delivered bodies go through the real WithConfigData / WithRulesData Reload), health.MockHealthReporter, a map-backed metrics store and "
              "hand-fired tickers, inside a testing/synctest bubble (spec->code transition tour)",
    design_ref="DESIGN.md §0.5 coverage extensions (CX6); spec/OpAMP.tla header",
    level_text="TLC explores every order of remote configurations from a catalogue (config body valid / valid with a warning / refused / RecordUsage off; rules body valid / refused; config only, rules only, both, "
               "a config map without a Refinery document, no config map, the same bodies under a new hash, the same hash again after APPLIED and after FAILED), effective-config polls, health reporter changes, "
               "health ticks, counter growth, usage ticks answered ok / error / pending-then-ok / accepted-but-held, Ack, and Stop, and checks: AppliedIsInForce (upstream sees APPLIED for hash h only while "
               "exactly what h delivered is in force, never with an error text), FailedIsRefused (FAILED only for a refused delivery, with the error), RefusedKeepsOld, StatusProtocol (a handled message is "
               "announced APPLYING then closed APPLIED/FAILED for its own hash; APPLIED iff Reload applied it, warnings-only and unchanged included), NoReapply (the hash already APPLIED is not handled again), "
               "NewHashHandled, OnlyMessagesApply, EffectiveInForce (upstream's copy of the effective configuration always equals the configuration in force), HealthFollows (after a health tick upstream's "
               "health is alive AND ready), Conservation / NoDoubleCount / ReportCarriesAll / OnlySentDelivers (acknowledged + unconfirmed + unreported + unsampled usage = growth of the counters feeding the "
               "signal, across failed and held sends; sampling only while OpAMP.RecordUsage is on), StopUnhealthy and StopEnds (ideal design; the code model MC_OpAMP_code_cex.cfg fails it). Every generated "
               "transition is executed on the real Agent and these observations must equal the model's: the statuses handed to the client during the step and the one it holds (hash, status, error text present and "
               "containing Reload's error), what Config.Reload did (not called / applied / warn / unchanged / refused, judged by its result and the reload callbacks), the values in force read through the "
               "configuration's getters, composeEffectiveConfig() decoded, the effective configuration the client holds, the health the client holds, the usage per signal parsed from every offered OTLP-JSON "
               "payload and from the payloads the client sent, whether a message is held, the agent goroutines that exist, client stopped.",
    level_note="Exhaustive only within the bounds (<= 11 remote configurations over files A/A; counters <= 1-2; 3 or 6 counters feeding 2 or 4 signals; one usage send at a time). connect()/NewAgent are not executed "
               "(they build a websocket client): the harness repeats connect()'s calls on the fake client, registers the same callbacks and starts the same two loops, so capabilities, start settings and the "
               "real opamp-go client (its dedup of equal statuses, reconnects) are outside the check. Readings: what is in force is identified by the delivered layers (fileConfig.reload re-reads the files and "
               "appends the delivered bodies; a message with only a rules body therefore reverts a config body delivered earlier - modelled as the code does, not judged); the same hash is compared with the "
               "last REPORTED status as the code does (after a config map without a Refinery document, which is remembered but not reported, an earlier APPLIED hash is still skipped); a message repeating a "
               "FAILED hash may be handled again (code) or skipped, a usage report of zeros may be sent iff the tracker has an entry (code) or never (alternatives); a remote configuration without a hash is "
               "outside the statement (the real client refuses its status) and not driven. Health is compared after whole ticks only (a tick between Stop's SetHealth and the cancellation is not explored); "
               "the fine-grained interleavings of sendUsageReport with sampling are C34's (Usage.tla), here a usage tick is atomic. On the unchanged tree one departure is reproduced and reported as "
               "KNOWN-FINDING: health-loop-survives-stop (healthCheck has no return on ctx.Done(): after Stop the goroutine spins; pending_fixes/CX6-health-loop-survives-stop.diff). To observe it without hanging, "
               "the agent's context is a harness type that counts Done() requests after the cancellation (> 1000 from one loop without blocking = alive and spinning, then ended with runtime.Goexit); a loop that "
               "spins without consulting its context would hang the harness (cannot-decide, not a violation). Nothing is modelled after Stop. testing/synctest (Go 1.25) is trusted for quiescence.",
    assumptions=["testing/synctest quiescence (Wait) is faithful", "the fake OpAMP client stands for the server's view (last status / effective config / health handed over, custom messages accepted and sent)",
                 "content classes are validated against the real Reload at harness start (running version v3.0.0: Collection.CacheCapacity only warns)",
                 "one OnMessage at a time (the client calls it from its receive goroutine)", "the sampled counters never decrease",
                 "bounded: <= 11 remote configurations, counters <= 2, <= 6 counters / 4 signals"],
    stages=[
        _walk("config", "config_q", "config_t", {"quick": 25, "thorough": 60}, open_="retry"),
        _walk("health", "health_q", "health_t", {"quick": 20, "thorough": 75}),
        _walk("usage", "usage_q", "usage_t", {"quick": 20, "thorough": 90}, open_="zero"),
        _walk("record-usage", "record_q", "record_t", {"quick": 15, "thorough": 60}, open_="zero"),
        _walk("usage-six", None, "usage6_t", {"thorough": 45}, open_="zero", tiers=("thorough",)),
        _tlc("ideal", "MC_OpAMP_ideal.cfg"),                  # everything together, Stop ends every loop
        _tlc("ideal-skip-failed", "MC_OpAMP_ideal_noretry.cfg", workers=4),
        _tlc("ideal-never-zero", "MC_OpAMP_ideal_never.cfg", workers=4),
    ],
)
