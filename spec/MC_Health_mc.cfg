SPECIFICATION Spec
CONSTANTS
  Subs1 = {"a", "b"}
  Timeouts1 = {3, 10, 17}
  Subs2 = {}
  Timeouts2 = {}
  Tick = 5
  UnitMs = 100
  Exact = TRUE
INVARIANTS TypeOK C30Alive C30Ready CodeMatchesGhosts CodeWithinStatement
PROPERTY DeadUntilReport
VIEW View
