"""C08 The rules sampler follows the documented rule semantics."""

import os
import sys

_H = ["sample/c08rules_test.go"]


def _walk(name, cfg, budget):
    return dict(kind="walk", name=name, module="Rules", pkg="sample", test="TestVerifC08Rules", harness=_H,
                cfg=cfg, budget=budget, maxwalk=4)


def _mode():
    """The stage list depends on the tier (the quick tier is ONE TLC run + ONE go test over the union of
    the families at the small bound; the thorough tier has one stage per family at the large bound).
    lib/stages.py needs a cfg for every stage in every tier, hence this look at the command line.
    With --replay every stage is listed (vcheck picks the one named in the replay file)."""
    argv = sys.argv
    if "--replay" in argv or any(a.startswith("--replay=") for a in argv):
        return "replay"
    for i, a in enumerate(argv):
        if a == "--tier" and i + 1 < len(argv):
            return argv[i + 1]
        if a.startswith("--tier="):
            return a.split("=", 1)[1]
    return os.environ.get("VERIF_TIER", "quick")


_QUICK = [_walk("quick_all", "MC_Rules_quick.cfg", 60)]
_THOROUGH = [_walk("single", "MC_Rules_single_big.cfg", 150),
             _walk("pair_trace", "MC_Rules_pair_trace_big.cfg", 200),
             _walk("pair_span", "MC_Rules_pair_span_big.cfg", 200),
             _walk("list", "MC_Rules_list_big.cfg", 150),
             _walk("mix", "MC_Rules_mix_big.cfg", 150)]
_PROB = [dict(kind="gotest", name="prob", pkg="sample", test="TestVerifC08Prob", harness=_H, budget={"quick": 30, "thorough": 120})]
_STAGES = {"quick": _QUICK + _PROB, "thorough": _THOROUGH + _PROB, "replay": _QUICK + _THOROUGH + _PROB}[_mode() if _mode() in ("quick", "thorough", "replay") else "quick"]

PROP = dict(
    level="model_checking",
    technique="TLA+ spec Rules.tla (the documented rule semantics transcribed from rules_conditions.md / rules.md as operators over an abstract typed value domain) enumerated exhaustively by TLC; every (rule list, trace) vector is replayed into the real RulesBasedSampler obtained from the real config loader and SamplerFactory (function-vector replay, B3); statistical clause by a 6.5-sigma binomial band",
    design_ref="DESIGN.md §5 C08",
    level_text="TLC enumerates every single condition (15 operators x 5 datatypes x typed condition values x typed span values incl. absent), every two-condition rule over two-span traces (Field/Fields, root. prefix, ?.NUM_DESCENDANTS, has-root-span, scope trace/span, with and without root span), every Fields list mixing a plain and a root.-prefixed name (both orders) over three-span traces with the field absent / matching / non-matching on each span independently (both scopes, root arriving first, in the middle or last) and every rule list of length <= 2 (drop / SampleRate / downstream sampler / default) within the bound, computes the documented outcome and checks FirstMatch / Decision / AbsentNeverMatches on the model; each vector is then built as a real rules file loaded by config.NewConfig, a real types.Trace with msgpack payloads, and the matched rule, keep/drop and rate returned by GetSampleRate must equal the model's outcome (also with the spans of the trace in the opposite arrival order). The known deviation (string-coerced matchers match an absent field read as \"<nil>\") is a named second successor per (operator, datatype); any other mismatch is a violation.",
    level_note="Bounded-exhaustive over the abstract value domain (7-12 strings, 5 ints, 2 floats, booleans), not over all strings/numbers; combinations the documents leave open (untyped comparison across kinds, ordering of booleans, string form of integral floats, not-exists on root.-prefixed fields without root span, conversion of float-looking strings to int) are not enumerated; regular expressions are three fixed patterns; CheckNestedFields is off; the one-step graph is replayed by a linear driver in the harness with verifkit.Walk's acceptance rule (verifkit.Walk is quadratic on one-step graphs); 'probability 1/N' is a statistical band (gotest stage), keep/drop is compared exactly only for drop rules, rate 1 and the rate-1 downstream sampler.",
    assumptions=["dynsampler-go with SampleRate 1 keeps every trace at rate 1", "Go's math/rand draws are independent and uniform",
                 "bounded abstract value domain"],
    stages=_STAGES,
)
