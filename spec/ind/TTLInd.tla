------------------------------ MODULE TTLInd ------------------------------
(***************************************************************************)
(* Typed companion of spec/TTL.tla (property C32) for unbounded proofs.    *)
(*                                                                         *)
(* Same state (exp, val, lastAdd, now) and the same actions as TTL.tla,    *)
(* restated without the conformance plumbing (act, Abs/St/Dump, Json) that *)
(* Apalache cannot type.  Two generalisations, both supersets of TTL!Next: *)
(*   Steps   the clock advances by any d in Steps (TTL.tla: {1, 2})        *)
(*   Queries TTL.tla's Query(q) only changes `act`, so it is a stuttering  *)
(*           step here                                                     *)
(* spec/ind/TTLIndRef.tla has TLC check, on the bounded models of          *)
(* MC_TTL_*.cfg, that TTL!Next and Next (Steps <- {1,2}) are the same      *)
(* relation on the reachable states, and that the restated properties are  *)
(* the original ones.                                                      *)
(*                                                                         *)
(* Proof obligations (TTLIndApa.tla: Apalache, TTLIndProofs.tla: TLAPS):   *)
(*   Init => IndInv,  IndInv /\ Next => IndInv',  IndInv => Safety,        *)
(*   IndInv /\ Next => NoResurrectionStep                                  *)
(* for EVERY TTL >= 0, EVERY horizon MaxNow >= 0, both boundary            *)
(* conventions, every set of positive values and step sizes.               *)
(***************************************************************************)
EXTENDS Integers, FiniteSets

CONSTANTS
  \* @type: Set(ITEM);
  Items,
  \* @type: Set(Int);
  Vals,
  \* @type: Set(Int);
  Steps,
  \* @type: Int;
  TTL,
  \* @type: Int;
  MaxNow,
  \* @type: Bool;
  Closed

\* what TTL.tla assumes silently (its cfgs: TTL = 2, MaxNow = 5 | 8, Vals = {1, 2}, steps {1, 2})
ConstOK == /\ TTL \in Int /\ TTL >= 0
           /\ MaxNow \in Int /\ MaxNow >= 0
           /\ Closed \in BOOLEAN
           /\ \A v \in Vals : v \in Int /\ v >= 1
           /\ \A d \in Steps : d \in Int /\ d >= 1

VARIABLES
  \* @type: ITEM -> Int;
  exp,
  \* @type: ITEM -> Int;
  val,
  \* @type: ITEM -> Int;
  lastAdd,
  \* @type: Int;
  now

vars == <<exp, val, lastAdd, now>>

Present(i) == exp[i] >= 0 /\ (IF Closed THEN now <= exp[i] ELSE now < exp[i])

Init == /\ exp = [i \in Items |-> -1]
        /\ val = [i \in Items |-> 0]
        /\ lastAdd = [i \in Items |-> -1]
        /\ now = 0

Add(i, v) == /\ exp' = [exp EXCEPT ![i] = now + TTL]
             /\ val' = [val EXCEPT ![i] = v]
             /\ lastAdd' = [lastAdd EXCEPT ![i] = now]
             /\ now' = now

Remove(i) == /\ exp' = [exp EXCEPT ![i] = -1]
             /\ lastAdd' = [lastAdd EXCEPT ![i] = -1]
             /\ UNCHANGED <<val, now>>

Advance(d) == /\ now + d <= MaxNow
              /\ now' = now + d
              /\ UNCHANGED <<exp, val, lastAdd>>

Query == UNCHANGED <<exp, val, lastAdd, now>>

Next == \/ \E i \in Items, v \in Vals : Add(i, v)
        \/ \E i \in Items : Remove(i)
        \/ \E d \in Steps : Advance(d)
        \/ Query

Spec == Init /\ [][Next]_vars

----------------------------------------------------------------------------
(* the invariants of MC_TTL_*.cfg, verbatim (Abs unfolded) *)

TypeOK == /\ exp \in [Items -> -1 .. (MaxNow + TTL)]
          /\ val \in [Items -> Vals \cup {0}]
          /\ now \in 0 .. MaxNow

PresentForTTL ==
  \A i \in Items :
    Present(i) <=> /\ lastAdd[i] >= 0
                   /\ IF Closed THEN now <= lastAdd[i] + TTL ELSE now < lastAdd[i] + TTL

PresentSet == {i \in Items : Present(i)}
AbsVal(i) == IF Present(i) THEN val[i] ELSE 0

\* TTL!ObserversAgree with Abs unfolded; its first conjunct (length = Cardinality(presentSet))
\* holds by definition of Abs.length and is left to the binding
ObserversAgree == \A i \in Items : (AbsVal(i) # 0) <=> (i \in PresentSet)

Safety == TypeOK /\ PresentForTTL /\ ObserversAgree

\* TTL!NoResurrection says `act'.name = "Add" /\ act'.i = i`; in TTL!Next that
\* label is carried by exactly the Add(i, v) steps
NoResurrectionStep ==
  \A i \in Items : (~Present(i) /\ Present(i)') => \E v \in Vals : Add(i, v)

----------------------------------------------------------------------------
(* the inductive invariant: an item is either absent (-1, -1) or was added *)
(* at lastAdd <= now, expires exactly TTL later and holds a real value     *)

IndInv ==
  /\ exp \in [Items -> Int] /\ val \in [Items -> Int] /\ lastAdd \in [Items -> Int]
  /\ now \in Int /\ 0 <= now /\ now <= MaxNow
  /\ \A i \in Items :
       /\ val[i] = 0 \/ val[i] \in Vals
       /\ \/ exp[i] = -1 /\ lastAdd[i] = -1
          \/ /\ 0 <= lastAdd[i] /\ lastAdd[i] <= now
             /\ exp[i] = lastAdd[i] + TTL
             /\ val[i] \in Vals
=============================================================================
