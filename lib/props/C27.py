"""C27 Config reloads apply exactly the acceptable changes."""

_H = ["config/c27_reload_test.go", "config/c27_concurrent_test.go", "config/c27_trace_test.go"]

PROP = dict(
    level="model_checking",
    technique="TLA+ spec Reload.tla (fileConfig.Reload as Start/ReadC/ReadR/Validate/Compare/Apply/BeginCallbacks/Callback/Return per reloader, file writes, RegisterReloadCallback) model-checked by TLC: atomic per-call graph replayed transition by transition into a real fileConfig over temp files with the real NewConfig as acceptance oracle (spec->code tour); the interleavings of two reloaders checked exhaustively (safety, and liveness under fairness) on the model and bound to the code (a) by TLC validating logs recorded from two goroutines calling the real Reload over changing files against the step model (TraceReload.tla, silent internal steps) and (b) by a two-goroutine Reload driver under the race detector that checks the externally visible guarantees",
    design_ref="DESIGN.md §5 C27",
    level_text="TLC enumerates every sequence of config-file contents {valid A/B, warning-only Bw, removed-key Br/Brw, invalid X, unreadable U}, rules-file contents {A, B, X, U}, listener registrations and Reload() calls (ReloadCorrect: applied <=> content changed and startup accepts the pair, otherwise the running config is untouched; an applied change notifies every registered listener exactly once, anything else nobody); every generated transition is executed on a real fileConfig over temp files and SendDelay/MaxBatchSize (GetTracesConfig), the sampler rate (GetSamplerConfigForDestName), GetHashes, the per-listener callback counts and the nil/non-nil result of Reload must equal the model's; the content classes are validated against the real startup path NewConfig(opts, \"v3.0.0\") on the same bytes. For overlapping triggers TLC explores all interleavings of the steps of two reloaders with file writes and registrations (NoDoubleApply, NotifiedOncePerChange, NoRegress, FreshAtReturn, AcceptedRunning, LockOK; SeqEquivalent ties the step model to the atomic graph; thorough: Converges/Quiesces under weak fairness - if triggers keep firing the last acceptable content is eventually running). Logs of real concurrent runs (call/return of Reload per goroutine, begin/end of each file replacement, each listener invocation with the hashes it was given, GetHashes at quiet moments) are validated by TLC against the step model: an interleaving of Start/ReadC/ReadR/Validate/Compare/CompareR/Apply/BeginCallbacks/Callback/Return steps that explains every line must exist (first against the ideal design, then against the model of the code as is). A second driver calls Reload from two goroutines while files change (unique contents; every fourth history serves the documents over loopback HTTP and holds the first Reload between its config read and its rules read while the config changes and a second Reload runs - the stale-read interleaving, staged from outside Reload) under -race and checks the externally visible consequences: no listener sees the same hash pair twice, all listeners see the same notifications, nothing startup rejects is notified or visible through GetTracesConfig, after a final quiescent Reload the getters answer from the last on-disk pair if the real NewConfig accepts it, and what is running has been notified.",
    level_note="On the unchanged tree three departures are reproduced and reported as KNOWN-FINDING (modelled as named deviations; the ideal design passes TLC, the code model MC_Reload_code_cex.cfg fails it): warn-not-applied (Reload returns on warnings), reload-ignores-version (Reload validates without the running version, a removed key is applied), unserialized-reload (two overlapping Reloads both apply one change: duplicate notifications; also a data race on f.mainHash which -race reports but which is left to C35). pending_fixes/C27-reload-warnings-version-serialize.diff removes all three (then no deviation edge is taken). Readings: 'changed' is relative to the running content (hash of the bytes), the pair (config, rules) is accepted or rejected as a whole as at startup, one notification per listener per applied Reload; the result value is only demanded to be non-nil for rejected/unreadable content and nil for unchanged or applied warning-free content (for warning-only content both are accepted). The interleaving model is bound to the code only from outside Reload (no hooks/gates inside it): schedules are whatever the Go scheduler produces (plus the one interleaving that can be staged from outside by holding an HTTP read), a particular TLC interleaving cannot be forced, and the trace stage accepts a log if either the ideal or the as-is step model explains it (so it does not by itself flag the known double apply - the gotest stage does); https locations, OpAMP-supplied data (WithConfigData/WithRulesData), multiple locations per file and configwatcher's pubsub storm-avoidance are not driven; exhaustive only within the bounds (2 reloaders, 2 listeners, <= 3 writes in step mode). The quick walk is time-boxed (a seed-chosen part of the 1.4k edge groups if the machine is slow).",
    assumptions=["startup oracle uses running version v3.0.0 (Collection.CacheCapacity warns; RedisPeerManagement.Database/Prefix removed)",
                 "config/rules files are replaced atomically (rename), one location per file",
                 "bounded: 2 reloaders, 2 listeners, <= 3 file writes in the interleaving model"],
    stages=[
        dict(kind="walk", name="ReloadSeq", module="Reload", pkg="config", test="TestVerifC27Reload", harness=_H,
             cfg={"quick": "MC_Reload_seq.cfg", "thorough": "MC_Reload_seq_big.cfg"},
             budget={"quick": 25, "thorough": 150}),
        dict(kind="tlc", name="ReloadIdeal", module="Reload", cfg={"quick": None, "thorough": "MC_Reload_ideal.cfg"}, workers=4),
        dict(kind="tlc", name="ReloadSteps", module="Reload", cfg={"quick": "MC_Reload_steps.cfg", "thorough": "MC_Reload_steps_big.cfg"}, workers=8),
        dict(kind="tlc", name="ReloadExclIdeal", module="Reload", cfg={"quick": None, "thorough": "MC_Reload_excl_ideal.cfg"}, workers=8),
        dict(kind="tlc", name="ReloadExclCode", module="Reload", cfg={"quick": None, "thorough": "MC_Reload_excl_code.cfg"}, workers=8),
        dict(kind="tlc", name="ReloadLive", module="Reload", cfg={"quick": None, "thorough": "MC_Reload_live.cfg"}, workers=8),
        dict(kind="trace", name="TraceReload", module="TraceReload", pkg="config", test="TestVerifC27Trace", harness=_H,
             cfg=["TraceReload_ideal.cfg", "TraceReload_code.cfg", "TraceReload_lock_code.cfg", "TraceReload_nolock_ideal.cfg"]),
        dict(kind="gotest", name="ReloadConcurrent", pkg="config", test="TestVerifC27Concurrent", harness=_H, race=True,
             budget={"quick": 8, "thorough": 90}),
    ],
)

# coverage extension CX1 (lib/ext/CX1.py, DESIGN.md section 0.5): the reload TRIGGERS - ConfigWatcher (monitor ticker, ReloadCallback,
# SubscriptionListener) on a real LocalPubSub, modelled in PubSub.tla and replayed transition by transition. Advisory here: the statement
# speaks of what a reload applies, not of the announcement schedule (StormAvoidance, ChangeAnnounced are the watcher's own promises).
import os, sys  # noqa: E402
sys.path.insert(0, os.path.dirname(os.path.dirname(os.path.abspath(__file__))))
import extstages  # noqa: E402
PROP["stages"] += extstages.pick("CX1", ["watcher"], advisory=True)
PROP["stages"] += extstages.pick("CX1", ["watcher-stop", "bus", "watcher-mc", "watcher-ideal-mc", "bus-mc", "bus-ideal-mc", "step-code-2pub", "step-ideal-2pub", "step-code", "step-ideal", "step-live"], advisory=True, tiers=("thorough",))
# coverage extension CX6 (lib/ext/CX6.py, spec/OpAMP.tla): the THIRD reload trigger - a remote configuration delivered over OpAMP (APPLYING ->
# Reload with the delivered bodies -> APPLIED / FAILED, effective configuration reported upstream). Advisory: the status protocol is the agent's
# own promise; what the reload applies is decided by the stages above.
PROP["stages"] += extstages.pick("CX6", ["config"], advisory=True)
PROP["stages"] += extstages.pick("CX6", ["ideal", "ideal-skip-failed"], advisory=True, tiers=("thorough",))
