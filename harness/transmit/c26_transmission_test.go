//go:build verif

package transmit

// Conformance harness for property C26 (spec/Transmission.tla, Coarse = TRUE).
//
// A real, started DirectTransmission (clockwork fake clock, real net/http
// client) sends to real httptest servers on loopback, one per API host. The
// servers hold every request until the walker's Respond action chooses the
// answer, so that after every environment action (Enqueue, Tick, Respond,
// Stop) the component is quiescent: each sendBatch goroutine is blocked on a
// held request, asleep on the fake clock, or finished. The specification puts
// what identifies that quiescent point (events still pending, requests on the
// wire so far, gauge Downs, sleepers, Stop returned) into the action label
// (`wait`), which is the barrier the harness waits for - there is no sleep and
// no wall-clock dependency except a generous deadline that only expires when
// the code has already diverged from the specification.
//
// Observed (Project): what each held request looked like to the server that
// received it (which server, X-Honeycomb-Team, dataset path, decoded event ids,
// body length, how many times this batch has been seen), the events still
// pending in batches, the goroutines asleep on the clock, the metrics the
// transmission maintains, the events named in error logs and whether Stop has
// returned.

import (
	"context"
	"errors"
	"fmt"
	"io"
	"net/http"
	"net/http/httptest"
	"net/url"
	"sort"
	"strconv"
	"strings"
	"sync"
	"sync/atomic"
	"testing"
	"time"

	"github.com/jonboulle/clockwork"
	"github.com/tinylib/msgp/msgp"
	"github.com/vmihailenco/msgpack/v5"

	"github.com/honeycombio/refinery/config"
	"github.com/honeycombio/refinery/internal/verifkit"
	"github.com/honeycombio/refinery/logger"
	"github.com/honeycombio/refinery/metrics"
	"github.com/honeycombio/refinery/types"
)

const c26Unit = time.Second

var c26WalkSeq int

var c26T0 = time.Date(2030, 1, 1, 0, 0, 0, 0, time.UTC)

// ---------------------------------------------------------------------------
// signalling

type c26Signal chan struct{}

func (s c26Signal) ping() {
	select {
	case s <- struct{}{}:
	default:
	}
}

// ---------------------------------------------------------------------------
// metrics and logger given to the transmission

type c26Metrics struct {
	mu   sync.Mutex
	ctr  map[string]int64
	upd  map[string]int64
	down map[string]int64
	hist map[string]int64
	sig  c26Signal
}

func c26NewMetrics(sig c26Signal) *c26Metrics {
	return &c26Metrics{ctr: map[string]int64{}, upd: map[string]int64{}, down: map[string]int64{}, hist: map[string]int64{}, sig: sig}
}

func (m *c26Metrics) Register(metrics.Metadata) {}
func (m *c26Metrics) Increment(name string)     { m.add(m.ctr, name, 1) }
func (m *c26Metrics) Count(name string, n int64) {
	m.add(m.ctr, name, n)
}
func (m *c26Metrics) Gauge(string, float64)       {}
func (m *c26Metrics) Histogram(name string, _ float64) { m.add(m.hist, name, 1) }
func (m *c26Metrics) Up(name string)              { m.add(m.upd, name, 1) }
func (m *c26Metrics) Down(name string) {
	m.mu.Lock()
	m.upd[name]--
	m.down[name]++
	m.mu.Unlock()
	m.sig.ping()
}
func (m *c26Metrics) Store(string, float64) {}
func (m *c26Metrics) Get(name string) (float64, bool) {
	m.mu.Lock()
	defer m.mu.Unlock()
	if v, ok := m.ctr[name]; ok {
		return float64(v), true
	}
	if v, ok := m.upd[name]; ok {
		return float64(v), true
	}
	return 0, false
}
func (m *c26Metrics) add(mm map[string]int64, name string, n int64) {
	m.mu.Lock()
	mm[name] += n
	m.mu.Unlock()
	m.sig.ping()
}
func (m *c26Metrics) read(mm map[string]int64, name string) int {
	m.mu.Lock()
	defer m.mu.Unlock()
	return int(mm[name])
}

type c26Logger struct {
	mu     sync.Mutex
	errIDs map[int]bool
	odd    []string
}

type c26NullEntry struct{}

func (c26NullEntry) WithField(string, interface{}) logger.Entry    { return c26NullEntry{} }
func (c26NullEntry) WithString(string, string) logger.Entry        { return c26NullEntry{} }
func (c26NullEntry) WithFields(map[string]interface{}) logger.Entry { return c26NullEntry{} }
func (c26NullEntry) Logf(string, ...interface{})                   {}

type c26ErrEntry struct {
	l  *c26Logger
	id interface{}
}

func (e c26ErrEntry) WithField(k string, v interface{}) logger.Entry {
	if k == "id" {
		e.id = v
	}
	return e
}
func (e c26ErrEntry) WithString(k string, v string) logger.Entry { return e.WithField(k, v) }
func (e c26ErrEntry) WithFields(f map[string]interface{}) logger.Entry {
	if v, ok := f["id"]; ok {
		e.id = v
	}
	return e
}
func (e c26ErrEntry) Logf(string, ...interface{}) {
	if e.id == nil {
		return
	}
	e.l.mu.Lock()
	defer e.l.mu.Unlock()
	if s, ok := e.id.(string); ok {
		if n, err := strconv.Atoi(strings.TrimPrefix(s, "e")); err == nil {
			e.l.errIDs[n] = true
			return
		}
	}
	e.l.odd = append(e.l.odd, fmt.Sprint(e.id))
}

func (l *c26Logger) Debug() logger.Entry    { return c26NullEntry{} }
func (l *c26Logger) Info() logger.Entry     { return c26NullEntry{} }
func (l *c26Logger) Warn() logger.Entry     { return c26NullEntry{} }
func (l *c26Logger) Error() logger.Entry    { return c26ErrEntry{l: l} }
func (l *c26Logger) SetLevel(string) error  { return nil }

// ---------------------------------------------------------------------------
// the scripted servers (one per API host, shared by all walks)

type c26Req struct {
	host, key, ds string
	ids           []int
	body          int
	try           int
	note          string
	answer        string // scripted auto mode: the behaviour chosen for this request
	reply         chan string
}

// c26World is the per-walk state the servers report to.
type c26World struct {
	mu      sync.Mutex
	held    []*c26Req
	arrived int
	seen    map[string]int
	auto    bool
	script  func(*c26Req) string // auto mode: chooses the answer (nil: always "ok") and makes the world keep a log
	log     []*c26Req
	id      string
	sig     c26Signal
	clock   *clockwork.FakeClock
}

var (
	c26Cur     atomic.Pointer[c26World]
	c26Once    sync.Once
	c26Servers map[string]*httptest.Server
	c26Tr      *http.Transport
)

type c26TimeoutErr struct{}

func (c26TimeoutErr) Error() string   { return "c26: scripted timeout awaiting response" }
func (c26TimeoutErr) Timeout() bool   { return true }
func (c26TimeoutErr) Temporary() bool { return true }

// c26RT is registered on the transmission's http.Transport for the "http"
// scheme (public API: Transport.RegisterProtocol). It forwards every request
// over a real loopback connection and turns the server's scripted "timeout"
// marker into the error net/http reports for a timed-out exchange, so that
// timeouts need no wall-clock wait.
type c26RT struct{ inner *http.Transport }

func (r *c26RT) RoundTrip(req *http.Request) (*http.Response, error) {
	resp, err := r.inner.RoundTrip(req)
	if err == nil && resp.Header.Get("X-C26-Timeout") != "" {
		io.Copy(io.Discard, resp.Body)
		resp.Body.Close()
		return nil, c26TimeoutErr{}
	}
	return resp, err
}

func c26Setup() {
	c26Once.Do(func() {
		c26Servers = map[string]*httptest.Server{}
		for _, h := range []string{"h1", "h2"} {
			c26Servers[h] = httptest.NewServer(c26Handler(h))
		}
		c26Tr = &http.Transport{}
		c26Tr.RegisterProtocol("http", &c26RT{inner: &http.Transport{MaxIdleConnsPerHost: 16}})
	})
}

func c26DecodeIDs(b []byte) ([]int, error) {
	var ids []int
	n, b, err := msgp.ReadArrayHeaderBytes(b)
	if err != nil {
		return nil, err
	}
	for i := uint32(0); i < n; i++ {
		var m uint32
		if m, b, err = msgp.ReadMapHeaderBytes(b); err != nil {
			return nil, err
		}
		id := -1
		for f := uint32(0); f < m; f++ {
			var k []byte
			if k, b, err = msgp.ReadMapKeyZC(b); err != nil {
				return nil, err
			}
			if string(k) != "data" {
				if b, err = msgp.Skip(b); err != nil {
					return nil, err
				}
				continue
			}
			var dm uint32
			if dm, b, err = msgp.ReadMapHeaderBytes(b); err != nil {
				return nil, err
			}
			for g := uint32(0); g < dm; g++ {
				var dk []byte
				if dk, b, err = msgp.ReadMapKeyZC(b); err != nil {
					return nil, err
				}
				if string(dk) == "id" {
					var sv []byte
					if sv, b, err = msgp.ReadStringZC(b); err != nil {
						return nil, err
					}
					if id, err = strconv.Atoi(strings.TrimPrefix(string(sv), "e")); err != nil {
						return nil, err
					}
				} else if b, err = msgp.Skip(b); err != nil {
					return nil, err
				}
			}
		}
		ids = append(ids, id)
	}
	if len(b) != 0 {
		return nil, fmt.Errorf("%d trailing bytes", len(b))
	}
	return ids, nil
}

func c26Handler(host string) http.HandlerFunc {
	return func(w http.ResponseWriter, r *http.Request) {
		body, rerr := io.ReadAll(r.Body)
		wd := c26Cur.Load()
		if wd == nil || r.Header.Get("X-C26-Walk") != wd.id {
			// a straggler of an abandoned earlier walk: not this walk's business
			http.Error(w, "no such walk", http.StatusInternalServerError)
			return
		}
		req := &c26Req{host: host, key: r.Header.Get("X-Honeycomb-Team"), body: len(body), reply: make(chan string, 1)}
		ep := r.URL.EscapedPath()
		if strings.HasPrefix(ep, "/1/batch/") {
			if ds, err := url.PathUnescape(strings.TrimPrefix(ep, "/1/batch/")); err == nil {
				req.ds = ds
			} else {
				req.note = "path " + ep
			}
		} else {
			req.note = "path " + ep
		}
		if rerr != nil {
			req.note += " read: " + rerr.Error()
		}
		if r.Header.Get("Content-Encoding") != "" {
			req.note += " encoding " + r.Header.Get("Content-Encoding")
		}
		ids, err := c26DecodeIDs(body)
		if err != nil {
			req.note += " decode: " + err.Error()
		}
		req.ids = ids
		wd.mu.Lock()
		k := fmt.Sprint(host, "|", req.key, "|", req.ds, "|", ids)
		wd.seen[k]++
		req.try = wd.seen[k]
		wd.arrived++
		auto := wd.auto
		if !auto {
			wd.held = append(wd.held, req)
		} else if wd.script != nil {
			wd.log = append(wd.log, req)
		}
		script := wd.script
		wd.mu.Unlock()
		wd.sig.ping()
		b := "ok"
		if !auto {
			b = <-req.reply
		} else if script != nil {
			b = script(req)
			wd.mu.Lock()
			req.answer = b
			wd.mu.Unlock()
		}
		c26Reply(w, wd, b, len(ids))
	}
}

func c26Statuses(b string, n int) []map[string]int {
	var out []map[string]int
	for i := 0; i < n; i++ {
		st := http.StatusAccepted
		if strings.HasPrefix(b, "evErr") && i == 0 {
			st = http.StatusBadRequest
		}
		out = append(out, map[string]int{"status": st})
	}
	if strings.HasPrefix(b, "short") && n > 0 {
		out = out[:n-1]
	}
	if out == nil {
		out = []map[string]int{}
	}
	return out
}

func c26Reply(w http.ResponseWriter, wd *c26World, b string, n int) {
	switch {
	case b == "timeout":
		w.Header().Set("X-C26-Timeout", "1")
		w.WriteHeader(599)
	case strings.HasPrefix(b, "r429") || strings.HasPrefix(b, "r503"):
		ra := b[strings.Index(b, "_")+1:]
		switch ra {
		case "none":
		case "date":
			w.Header().Set("Retry-After", wd.clock.Now().Add(c26Unit).UTC().Format(http.TimeFormat))
		case "past":
			w.Header().Set("Retry-After", wd.clock.Now().Add(-c26Unit).UTC().Format(http.TimeFormat))
		case "junk":
			w.Header().Set("Retry-After", "soon")
		default:
			w.Header().Set("Retry-After", ra)
		}
		st, _ := strconv.Atoi(b[1:4])
		w.WriteHeader(st)
		w.Write([]byte(`{"error":"throttled"}`))
	case b == "e400" || b == "e401" || b == "e500":
		st, _ := strconv.Atoi(b[1:])
		w.Header().Set("Content-Type", "application/json")
		w.WriteHeader(st)
		w.Write([]byte(`{"error":"scripted"}`))
	case b == "undec":
		w.Header().Set("Content-Type", "application/json")
		w.WriteHeader(http.StatusOK)
		w.Write([]byte(`{not json`))
	case b == "undec_m":
		w.Header().Set("Content-Type", "application/msgpack")
		w.WriteHeader(http.StatusOK)
		w.Write([]byte{0xa3, 'a', 'b', 'c'})
	case strings.HasSuffix(b, "_m"):
		raw, _ := msgpack.Marshal(c26Statuses(b, n))
		w.Header().Set("Content-Type", "application/msgpack")
		w.WriteHeader(http.StatusOK)
		w.Write(raw)
	default: // ok, evErr, short as JSON
		var sb strings.Builder
		sb.WriteByte('[')
		for i, s := range c26Statuses(b, n) {
			if i > 0 {
				sb.WriteByte(',')
			}
			fmt.Fprintf(&sb, `{"status":%d}`, s["status"])
		}
		sb.WriteByte(']')
		w.Header().Set("Content-Type", "application/json")
		w.WriteHeader(http.StatusOK)
		w.Write([]byte(sb.String()))
	}
}

// ---------------------------------------------------------------------------
// really-sized events

var (
	c26PadMu  sync.Mutex
	c26PadLen = map[int]int{}
	c26Pads   = map[int]string{}
	c26Cfg    = &config.MockConfig{AdditionalErrorFields: []string{"id"}}
	c26Stamp  = time.Date(2029, 6, 1, 12, 0, 0, 0, time.UTC)
)

func c26Pad(n int) string {
	if p, ok := c26Pads[n]; ok {
		return p
	}
	p := strings.Repeat("x", n)
	c26Pads[n] = p
	return p
}

func c26Event(id int, tr map[string]any, padLen int) *types.Event {
	return &types.Event{
		Context:    context.Background(),
		APIHost:    c26Servers[verifkit.Str(tr, "host")].URL,
		APIKey:     verifkit.Str(tr, "key"),
		Dataset:    verifkit.Str(tr, "ds"),
		SampleRate: 1,
		Timestamp:  c26Stamp,
		Data:       types.NewPayload(c26Cfg, map[string]any{"id": fmt.Sprintf("e%02d", id), "pad": c26Pad(padLen)}),
	}
}

// c26Measure is the quantity sendBatch compares with apiMaxEventSize.
func c26Measure(ev *types.Event) (int, error) {
	be := batchedEvent{time: ev.Timestamp, sampleRate: int64(ev.SampleRate), data: ev.Data}
	out, err := be.MarshalMsg(nil)
	return len(out), err
}

// c26Sized builds event id for destination tr that serializes to exactly size bytes.
func c26Sized(id int, tr map[string]any, size int) (*types.Event, error) {
	c26PadMu.Lock()
	defer c26PadMu.Unlock()
	if l, ok := c26PadLen[size]; ok {
		return c26Event(id, tr, l), nil
	}
	base, err := c26Measure(c26Event(id, tr, 0))
	if err != nil {
		return nil, err
	}
	l := size - base
	for i := 0; i < 8 && l >= 0; i++ {
		m, err := c26Measure(c26Event(id, tr, l))
		if err != nil {
			return nil, err
		}
		if m == size {
			c26PadLen[size] = l
			return c26Event(id, tr, l), nil
		}
		l -= m - size
	}
	return nil, fmt.Errorf("cannot build an event of %d bytes (empty event is %d)", size, base)
}

// ---------------------------------------------------------------------------
// the clock given to the transmission
//
// c26Clock is a clockwork fake clock whose tickers are driven by the harness:
// after the clock has moved, every ticker that has come due is handed its tick
// with a blocking send (as if its consumer kept up), and one more tick of a
// ticker that was due more than once serves as a fence - when the consumer
// takes it, it has finished whatever the earlier ticks made it do. Nothing
// depends on how many tickers the transmission creates, on their periods or on
// how many passes it makes. Sleep is counted so that "a sendBatch goroutine is
// asleep on the clock" is observable.

type c26Ticker struct {
	c       *c26Clock
	ch      chan time.Time
	period  time.Duration
	next    time.Time
	stopped bool
}

func (t *c26Ticker) Chan() <-chan time.Time { return t.ch }
func (t *c26Ticker) Reset(d time.Duration) {
	t.c.mu.Lock()
	t.period, t.next, t.stopped = d, t.c.FakeClock.Now().Add(d), false
	t.c.mu.Unlock()
}
func (t *c26Ticker) Stop() {
	t.c.mu.Lock()
	t.stopped = true
	t.c.mu.Unlock()
}

type c26Clock struct {
	*clockwork.FakeClock
	mu       sync.Mutex
	tickers  []*c26Ticker
	sleeping int
	sig      c26Signal
}

func (c *c26Clock) NewTicker(d time.Duration) clockwork.Ticker {
	if d <= 0 {
		panic("non-positive interval for NewTicker")
	}
	t := &c26Ticker{c: c, ch: make(chan time.Time), period: d}
	c.mu.Lock()
	t.next = c.FakeClock.Now().Add(d)
	c.tickers = append(c.tickers, t)
	c.mu.Unlock()
	c.sig.ping()
	return t
}

func (c *c26Clock) Sleep(d time.Duration) {
	tm := c.FakeClock.NewTimer(d) // registered at the current instant, before it is counted
	c.mu.Lock()
	c.sleeping++
	c.mu.Unlock()
	c.sig.ping()
	<-tm.Chan()
	c.mu.Lock()
	c.sleeping--
	c.mu.Unlock()
	c.sig.ping()
}

func (c *c26Clock) sleepers() int {
	c.mu.Lock()
	defer c.mu.Unlock()
	return c.sleeping
}

func (c *c26Clock) nTickers() int {
	c.mu.Lock()
	defer c.mu.Unlock()
	return len(c.tickers)
}

// send hands one tick to t's consumer; false if nobody took it for a long time.
func (c *c26Clock) send(t *c26Ticker, now time.Time) bool {
	for strikes := 0; strikes < 2; strikes++ {
		select {
		case t.ch <- now:
			return true
		case <-time.After(15 * time.Second):
		}
	}
	return false
}

// step moves the clock by d and delivers the ticks that came due. It returns a
// description of the problem if a ticker's consumer does not take its tick.
func (c *c26Clock) step(d time.Duration) string {
	c.FakeClock.Advance(d) // fires Sleep timers
	now := c.FakeClock.Now()
	type due struct {
		t *c26Ticker
		n int
	}
	var dues []due
	c.mu.Lock()
	for _, t := range c.tickers {
		if t.stopped {
			continue
		}
		n := 0
		for !t.next.After(now) {
			t.next = t.next.Add(t.period)
			n++
		}
		if n > 0 {
			dues = append(dues, due{t, n})
		}
	}
	c.mu.Unlock()
	var fence *c26Ticker
	for _, x := range dues {
		if !c.send(x.t, now) {
			return fmt.Sprintf("nobody took the tick of the %v ticker", x.t.period)
		}
		if fence == nil || x.n > 1 {
			fence = x.t
		}
	}
	if fence != nil && !c.send(fence, now) {
		return fmt.Sprintf("the consumer of the %v ticker did not come back for another tick", fence.period)
	}
	return ""
}

// ---------------------------------------------------------------------------
// the harness

type c26Wait struct {
	pend                  string // canonical text of the pending event ids
	reqs, downs, sleepers int
	stopped               bool
}

type c26Harness struct {
	dt        *DirectTransmission
	clock     *c26Clock
	met       *c26Metrics
	log       *c26Logger
	wd        *c26World
	sig       c26Signal
	triples   map[string]any
	nEvents   int
	stopBegun bool
	stopDone  chan struct{}
	stuck     string
}

func (h *c26Harness) teardown() {
	if h.dt == nil {
		return
	}
	h.wd.mu.Lock()
	h.wd.auto = true
	held := h.wd.held
	h.wd.held = nil
	h.wd.mu.Unlock()
	for _, r := range held {
		r.reply <- "ok"
	}
	if !h.stopBegun {
		h.stopBegun = true
		dt, done := h.dt, h.stopDone
		go func() { dt.Stop(); close(done) }()
	}
	deadline := time.After(20 * time.Second)
	for {
		h.clock.FakeClock.Advance(70 * time.Second) // wakes every Retry-After sleeper
		select {
		case <-h.stopDone:
			h.dt = nil
			return
		case <-deadline:
			h.dt = nil // abandoned; its goroutines only ever talk to the old world
			return
		case <-h.sig:
		case <-time.After(5 * time.Millisecond):
		}
	}
}

func (h *c26Harness) Reset(init map[string]any) error {
	c26Setup()
	h.teardown()
	p, _ := init["params"].(map[string]any)
	if p == nil {
		return errors.New("no params in the initial state")
	}
	h.triples, _ = p["triples"].(map[string]any)
	maxBatch, sub := verifkit.Int(p, "maxBatch"), verifkit.Int(p, "sub")
	if h.triples == nil || maxBatch == 0 || sub == 0 {
		return fmt.Errorf("bad params %v", p)
	}
	h.sig = make(c26Signal, 1)
	h.clock = &c26Clock{FakeClock: clockwork.NewFakeClockAt(c26T0), sig: h.sig}
	h.met = c26NewMetrics(h.sig)
	h.log = &c26Logger{errIDs: map[int]bool{}}
	c26WalkSeq++
	h.wd = &c26World{seen: map[string]int{}, sig: h.sig, clock: h.clock.FakeClock, id: strconv.Itoa(c26WalkSeq)}
	c26Cur.Store(h.wd)
	h.nEvents, h.stopBegun, h.stuck = 0, false, ""
	h.stopDone = make(chan struct{})

	dt := NewDirectTransmission(types.TransmitTypeUpstream, c26Tr, maxBatch, time.Duration(4*sub)*c26Unit, time.Hour, false, map[string]string{"X-C26-Walk": h.wd.id})
	dt.Clock = h.clock
	dt.Logger = h.log
	dt.Metrics = h.met
	dt.Config = c26Cfg
	dt.Version = "verif"
	if err := dt.Start(); err != nil {
		return err
	}
	h.dt = dt
	// the stale-dispatch goroutine creates its ticker(s) right after Start; wait for the first,
	// a later one merely starts its period later
	for deadline := time.After(20 * time.Second); h.clock.nTickers() == 0; {
		select {
		case <-h.sig:
		case <-deadline:
			return nil // no ticker at all: the walk will show what that does to the batches
		}
	}
	return nil
}

func (h *c26Harness) counts() c26Wait {
	h.wd.mu.Lock()
	arrived := h.wd.arrived
	h.wd.mu.Unlock()
	stopped := false
	select {
	case <-h.stopDone:
		stopped = true
	default:
	}
	return c26Wait{pend: fmt.Sprint(h.pending()), reqs: arrived, downs: h.met.read(h.met.down, h.dt.metricKeys.updownQueuedItems),
		sleepers: h.clock.sleepers(), stopped: stopped}
}

// barrier waits until the counts of one of the quiescent points the
// specification allows for this action are reached. It gives up at once when
// the code has overshot all of them and after a long deadline otherwise; in
// both cases the code has left the specification and Project shows where it is.
func (h *c26Harness) barrier(waits []c26Wait) {
	// The deadline only matters once the code has left the specification. It is
	// restarted whenever anything moves and has to expire twice in a row, so that
	// a test process that was frozen by an overloaded machine is not mistaken for
	// a stuck transmission.
	const patience = 15 * time.Second
	timer := time.NewTimer(patience)
	defer timer.Stop()
	strikes := 0
	for {
		o := h.counts()
		over := true
		for _, w := range waits {
			if o == w {
				return
			}
			if o.pend == w.pend && o.reqs <= w.reqs && o.downs <= w.downs && (!o.stopped || w.stopped) {
				over = false
			}
		}
		if over {
			h.stuck = fmt.Sprintf("overshot: %+v, expected one of %+v", o, waits)
			return
		}
		var stopCh chan struct{}
		if !o.stopped {
			stopCh = h.stopDone // once seen closed it would make the select spin
		}
		select {
		case <-h.sig:
			strikes = 0
			if !timer.Stop() {
				select {
				case <-timer.C:
				default:
				}
			}
			timer.Reset(patience)
		case <-stopCh:
		case <-timer.C:
			strikes++
			if strikes >= 2 {
				h.stuck = fmt.Sprintf("stuck at %+v, expected one of %+v", o, waits)
				return
			}
			timer.Reset(patience)
		}
	}
}

func c26Waits(a map[string]any) []c26Wait {
	var out []c26Wait
	ws, _ := a["wait"].([]any)
	for _, x := range ws {
		m, _ := x.(map[string]any)
		ids := []int{}
		ps, _ := m["pendSet"].([]any)
		for _, x := range ps {
			if f, ok := x.(float64); ok {
				ids = append(ids, int(f))
			}
		}
		sort.Ints(ids)
		out = append(out, c26Wait{pend: fmt.Sprint(ids), reqs: verifkit.Int(m, "reqs"), downs: verifkit.Int(m, "downs"),
			sleepers: verifkit.Int(m, "sleepers"), stopped: verifkit.Bool(m, "stopped")})
	}
	return out
}

func (h *c26Harness) Apply(a map[string]any) (err error) {
	defer func() {
		if r := recover(); r != nil {
			h.stuck = fmt.Sprint("panic: ", r)
			err = nil
		}
	}()
	h.stuck = ""
	switch verifkit.Str(a, "name") {
	case "Enqueue":
		tr, _ := h.triples[verifkit.Str(a, "k")].(map[string]any)
		if tr == nil {
			return fmt.Errorf("unknown destination in %v", a)
		}
		h.nEvents++
		ev, err := c26Sized(h.nEvents, tr, verifkit.Int(a, "sz"))
		if err != nil {
			return err
		}
		h.dt.EnqueueEvent(ev)
	case "Tick":
		if msg := h.clock.step(c26Unit); msg != "" {
			h.stuck = msg
			return nil
		}
	case "Respond":
		m := verifkit.Int(a, "m")
		var req *c26Req
		h.wd.mu.Lock()
		for i, r := range h.wd.held {
			if len(r.ids) > 0 && c26Min(r.ids) == m {
				req = r
				h.wd.held = append(h.wd.held[:i:i], h.wd.held[i+1:]...)
				break
			}
		}
		h.wd.mu.Unlock()
		if req == nil {
			return fmt.Errorf("no held request starts with event %d", m)
		}
		req.reply <- verifkit.Str(a, "b")
	case "Stop":
		h.stopBegun = true
		dt, done, sig := h.dt, h.stopDone, h.sig
		go func() { dt.Stop(); close(done); sig.ping() }()
		h.dt.stopWG.Wait() // the stale-dispatch goroutine has exited and stopped its tickers
	default:
		return fmt.Errorf("unknown action %v", a)
	}
	h.barrier(c26Waits(a))
	return nil
}

func c26Min(ids []int) int {
	m := ids[0]
	for _, x := range ids {
		if x < m {
			m = x
		}
	}
	return m
}

func (h *c26Harness) pending() []int {
	ids := []int{}
	if h.stopBegun {
		return ids // Stop owns eventBatches from here on; a batch it fails to flush shows up as a missing request
	}
	h.dt.batchMutex.RLock()
	defer h.dt.batchMutex.RUnlock()
	for _, b := range h.dt.eventBatches {
		b.mutex.Lock()
		for _, ev := range b.events {
			n := -1
			if v, ok := ev.Data.Get("id").(string); ok {
				n, _ = strconv.Atoi(strings.TrimPrefix(v, "e"))
			}
			ids = append(ids, n)
		}
		b.mutex.Unlock()
	}
	sort.Ints(ids)
	return ids
}

func (h *c26Harness) Project() (any, error) {
	held := []any{}
	h.wd.mu.Lock()
	for _, r := range h.wd.held {
		ids := append([]int{}, r.ids...)
		sort.Ints(ids)
		e := map[string]any{"dest": map[string]any{"host": r.host, "key": r.key, "ds": r.ds}, "idsSet": ids, "body": r.body, "try": r.try}
		if r.note != "" {
			e["note"] = r.note
		}
		held = append(held, e)
	}
	h.wd.mu.Unlock()
	sleepers := h.clock.sleepers()
	k := h.dt.metricKeys
	g := func(name string) int { return h.met.read(h.met.ctr, name) }
	errs := []int{}
	h.log.mu.Lock()
	for id := range h.log.errIDs {
		errs = append(errs, id)
	}
	odd := append([]string{}, h.log.odd...)
	h.log.mu.Unlock()
	sort.Ints(errs)
	stopped := false
	select {
	case <-h.stopDone:
		stopped = true
	default:
	}
	out := map[string]any{
		"now":      int(h.clock.Now().Sub(c26T0) / c26Unit),
		"pendSet":  h.pending(),
		"heldSet":  held,
		"sleepers": sleepers,
		"c": map[string]any{"r20x": g(k.counterResponse20x), "respErr": g(k.counterResponseErrors) + g(k.counterEnqueueErrors),
			"sendErr": g(k.counterSendErrors), "retries": g(k.counterSendRetries), "gauge": h.met.read(h.met.upd, k.updownQueuedItems)},
		"errSet":  errs,
		"stopped": stopped,
	}
	if h.stuck != "" {
		out["stuck"] = h.stuck
	}
	if len(odd) > 0 {
		out["oddLogs"] = odd
	}
	return out, nil
}

func TestVerifC26Transmission(t *testing.T) {
	h := &c26Harness{}
	if err := verifkit.Main(h); err != nil {
		t.Fatal(err)
	}
	h.teardown()
}
