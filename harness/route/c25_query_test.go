//go:build verif

package route

// Binding of spec/QueryAuth.tla (property C25) to a real Router.
//
// One specification walk = one (router type, configured token, request token)
// vector - the reference token in several lengths (8 ... 100 characters), the
// request token derived from it (prefix / same prefix with a different tail at
// several cut points, extension, case variant, ...); each Eval step sends a GET for one /query/ route, in one format,
// over loopback HTTP to the mux that Router.LnS built, with a configuration
// loaded by the real loader from YAML files (so QueryAuthToken, the rules,
// the file ids and the hashes are real). Observed: a success status, and
// whether the response body contains the data the route serves (distinctive
// strings of the rules file, the configuration/rules file ids and hashes, the
// address of the node the trace is placed on).

import (
	"fmt"
	"io"
	"net/http"
	"net/http/httptest"
	"os"
	"path/filepath"
	"strings"
	"testing"
	"unicode"

	"github.com/honeycombio/refinery/config"
	"github.com/honeycombio/refinery/internal/health"
	"github.com/honeycombio/refinery/internal/verifkit"
	"github.com/honeycombio/refinery/logger"
	"github.com/honeycombio/refinery/metrics"
	"github.com/honeycombio/refinery/sharder"
	"github.com/honeycombio/refinery/types"
	"go.opentelemetry.io/otel/trace/noop"
)

const (
	c25ShardAddr   = "http://c25-placement-marker:8081"
	c25RulesMarker = "c25_rules_marker_field"
	c25EnvName     = "c25env"
)

// c25Token is the reference token T(L) of the specification: L characters,
// letters of both cases, digits and punctuation, no two neighbours alike.
func c25Token(n int) string {
	switch n { // the specification's Blanks: configured tokens made of white space only
	case -1:
		return " "
	case -2:
		return "\n"
	case -3:
		return "\r\n"
	case -4:
		return " \t "
	}
	const alphabet = "c25TokSecretXyZ-aBdEfGhIjKlMnOpQrStUvW_0123456789"
	b := make([]byte, n)
	for i := range b {
		b[i] = alphabet[(i*7+i/len(alphabet))%len(alphabet)]
	}
	return string(b)
}

// c25Differ returns n characters that differ from tok[from:from+n] position
// by position (and a fixed filler beyond the end of tok).
func c25Differ(tok string, from, n int) string {
	b := make([]byte, n)
	for i := range b {
		b[i] = 'q'
		if from+i < len(tok) && tok[from+i] == 'q' {
			b[i] = 'r'
		}
	}
	return string(b)
}

func c25SwapCase(s string) string {
	return strings.Map(func(r rune) rune {
		if unicode.IsUpper(r) {
			return unicode.ToLower(r)
		}
		return unicode.ToUpper(r)
	}, s)
}

type c25EnvKey struct {
	router string
	cfgLen int // 0: no QueryAuthToken configured; < 0: one of the white-space-only tokens
}

type c25Env struct {
	router  *Router
	srv     *httptest.Server
	markers []string // strings whose presence in a body means "data was served"
}

func c25NewEnv(dir string, k c25EnvKey) (*c25Env, error) {
	var b strings.Builder
	b.WriteString("General:\n  ConfigurationVersion: 2\nNetwork:\n  ListenAddr: 127.0.0.1:0\n  PeerListenAddr: 127.0.0.1:0\n")
	if k.cfgLen != 0 {
		fmt.Fprintf(&b, "Debugging:\n  QueryAuthToken: %q\n", c25Token(k.cfgLen))
	}
	rules := fmt.Sprintf("RulesVersion: 2\nSamplers:\n  __default__:\n    DynamicSampler:\n      SampleRate: 7\n      FieldList:\n        - %s\n  %s:\n    DynamicSampler:\n      SampleRate: 3\n      FieldList:\n        - %s\n",
		c25RulesMarker, c25EnvName, c25RulesMarker)
	cpath := filepath.Join(dir, fmt.Sprintf("c25-config-%s-%d.yaml", k.router, k.cfgLen))
	rpath := filepath.Join(dir, fmt.Sprintf("c25-rules-%s-%d.yaml", k.router, k.cfgLen))
	if err := os.WriteFile(cpath, []byte(b.String()), 0o600); err != nil {
		return nil, err
	}
	if err := os.WriteFile(rpath, []byte(rules), 0o600); err != nil {
		return nil, err
	}
	cfg, err := config.NewConfig(&config.CmdEnv{ConfigLocations: []string{cpath}, RulesLocations: []string{rpath}}, "v3.0.0")
	if cfg == nil {
		return nil, fmt.Errorf("config loader refused the c25 configuration: %v", err)
	}
	want := ""
	if k.cfgLen != 0 {
		want = c25Token(k.cfgLen)
	}
	if got := cfg.GetQueryAuthToken(); got != want {
		return nil, fmt.Errorf("stale harness: loaded QueryAuthToken %q, wanted %q", got, want)
	}
	mm := &metrics.MockMetrics{}
	mm.Start()
	hr := &health.MockHealthReporter{}
	hr.SetAlive(true)
	hr.SetReady(true)
	r := &Router{
		Config:        cfg,
		Logger:        &logger.NullLogger{},
		Health:        hr,
		HTTPTransport: &http.Transport{},
		Sharder:       &sharder.MockSharder{Self: &sharder.TestShard{Addr: c25ShardAddr}},
		Metrics:       mm,
		Tracer:        noop.Tracer{},
	}
	r.SetVersion("c25")
	if k.router == "peer" {
		r.SetType(types.RouterTypePeer)
	} else {
		r.SetType(types.RouterTypeIncoming)
	}
	r.LnS()
	if r.server == nil {
		return nil, fmt.Errorf("Router.LnS did not build its server")
	}
	e := &c25Env{router: r, srv: httptest.NewServer(r.server.Handler)}
	e.markers = []string{c25ShardAddr, c25RulesMarker, cpath, rpath, filepath.Base(cpath), filepath.Base(rpath)}
	for _, m := range cfg.GetConfigMetadata() {
		if m.Hash != "" {
			e.markers = append(e.markers, m.Hash)
		}
	}
	ch, rh := cfg.GetHashes()
	for _, h := range []string{ch, rh} {
		if h != "" {
			e.markers = append(e.markers, h)
		}
	}
	return e, nil
}

type c25Outcome struct {
	Route   string `json:"route"`
	Fmt     string `json:"fmt"`
	Ok      bool   `json:"ok"`
	Data    bool   `json:"data"`
	Anomaly string `json:"anomaly,omitempty"`
}

// c25RequestToken builds the request's token from the vector's description.
// The second result is the header it travels in ("" = no header at all).
func c25RequestToken(kind string, cut, n int) (string, string, error) {
	tok := c25Token(n)
	switch kind {
	case "absent":
		return "", "", nil
	case "empty":
		return "", types.QueryTokenHeader, nil
	case "wrongheader":
		if n < 0 { // a white-space token cannot travel in a header; any value in the wrong header must be refused all the same
			return "c25-in-the-wrong-header", types.APIKeyHeader, nil
		}
		return tok, types.APIKeyHeader, nil
	case "other":
		return "c25-something-else", types.QueryTokenHeader, nil
	case "case":
		return c25SwapCase(tok), types.QueryTokenHeader, nil
	case "exact":
		return tok, types.QueryTokenHeader, nil
	case "prefix":
		return tok[:cut], types.QueryTokenHeader, nil
	case "sametail":
		return tok[:cut] + c25Differ(tok, cut, n-cut), types.QueryTokenHeader, nil
	case "extend":
		return tok + c25Differ(tok, n, cut), types.QueryTokenHeader, nil
	}
	return "", "", fmt.Errorf("unknown request token kind %q", kind)
}

func (e *c25Env) eval(route, format string, cfgLen int, kind string, cut, n int) (c25Outcome, error) {
	var path string
	switch route {
	case "trace":
		path = "/query/trace/c25trace0123456789"
	case "rules":
		path = "/query/rules/" + format + "/" + c25EnvName
	case "allrules":
		path = "/query/allrules/" + format
	case "configmetadata":
		path = "/query/configmetadata"
	default:
		return c25Outcome{}, fmt.Errorf("unknown route %q", route)
	}
	req, err := http.NewRequest("GET", e.srv.URL+path, nil)
	if err != nil {
		return c25Outcome{}, err
	}
	sent, header, err := c25RequestToken(kind, cut, n)
	if err != nil {
		return c25Outcome{}, err
	}
	if header != "" {
		req.Header[header] = []string{sent}
	}
	if kind != "exact" && kind != "wrongheader" && cfgLen != 0 && sent == c25Token(cfgLen) {
		return c25Outcome{}, fmt.Errorf("stale harness: variant %s/%d of a %d-character token equals the token", kind, cut, n)
	}
	resp, err := e.srv.Client().Do(req)
	if err != nil {
		return c25Outcome{}, err
	}
	defer resp.Body.Close()
	body, _ := io.ReadAll(resp.Body)
	o := c25Outcome{Route: route, Fmt: format, Ok: resp.StatusCode >= 200 && resp.StatusCode < 300}
	text := string(body)
	for _, h := range resp.Header {
		text += "\n" + strings.Join(h, "\n")
	}
	for _, m := range e.markers {
		if strings.Contains(text, m) {
			o.Data = true
		}
	}
	// a refusal must not hand out the configured token either (it may echo what the client sent)
	if cfgLen > 0 && header != types.APIKeyHeader && !strings.Contains(sent, c25Token(cfgLen)) && strings.Contains(text, c25Token(cfgLen)) {
		o.Anomaly = "response contains the configured QueryAuthToken"
	}
	return o, nil
}

type c25Harness struct {
	dir    string
	envs   map[c25EnvKey]*c25Env
	cur    *c25Env
	cfgLen int
	vec    map[string]any
	outs   []c25Outcome
}

func (h *c25Harness) Reset(init map[string]any) error {
	n := verifkit.Int(init, "len")
	k := c25EnvKey{router: verifkit.Str(init, "router")}
	if verifkit.Bool(init, "cfgSet") {
		k.cfgLen = n
	}
	e, ok := h.envs[k]
	if !ok {
		var err error
		if e, err = c25NewEnv(h.dir, k); err != nil {
			return err
		}
		h.envs[k] = e
	}
	h.cur = e
	h.cfgLen = k.cfgLen
	h.vec = map[string]any{"router": k.router, "cfgSet": k.cfgLen != 0, "len": n, "kind": verifkit.Str(init, "kind"), "cut": verifkit.Int(init, "cut")}
	h.outs = []c25Outcome{}
	return nil
}

func (h *c25Harness) Apply(a map[string]any) error {
	if verifkit.Str(a, "name") != "Eval" {
		return fmt.Errorf("unknown action %v", a)
	}
	o, err := h.cur.eval(verifkit.Str(a, "route"), verifkit.Str(a, "fmt"), h.cfgLen, h.vec["kind"].(string), h.vec["cut"].(int), h.vec["len"].(int))
	if err != nil {
		return err
	}
	h.outs = append(h.outs, o)
	return nil
}

func (h *c25Harness) Project() (any, error) {
	out := map[string]any{"outs": h.outs}
	for k, v := range h.vec {
		out[k] = v
	}
	return out, nil
}

func TestVerifC25Query(t *testing.T) {
	h := &c25Harness{dir: t.TempDir(), envs: map[c25EnvKey]*c25Env{}}
	defer func() {
		for _, e := range h.envs {
			e.srv.Close()
			e.router.Stop()
		}
	}()
	if err := verifkit.Main(h); err != nil {
		t.Fatal(err)
	}
}
