SPECIFICATION Spec
CONSTANTS
  Dests = {"A"}
  Sizes = {200, 1000001}
  EventMax = 1000000
  BodyMax = 5000000
  MaxBatch = 2
  Sub = 1
  MaxEvents = 2
  MaxNow = 1
  MaxFaults = 2
  Behaviours = {"ok", "ok_m", "evErr", "evErr_m", "short", "short_m", "undec", "undec_m", "e400", "e401", "e500", "r429_1", "r503_1", "r503_2", "r429_none", "r429_date", "r429_junk", "r429_0", "r429_past", "r429_60", "timeout"}
  Coarse = TRUE
  Loose = TRUE
INVARIANTS TypeOK OwnDestination ExactlyOneBatch OversizeCounted BodyWithinLimit CountWithinLimit AtMostTwice Timely StopFlushes GaugeExact Conservation
VIEW View
CHECK_DEADLOCK FALSE
ACTION_CONSTRAINT Dump
