SPECIFICATION Spec
CONSTANTS
  Catalogue <- CatBig
  DiskC = "A"
  DiskR = "A"
  Feat = {"msg", "poll", "stop"}
  Feeds <- FeedsOne
  MaxCum = 0
  Steps = {1}
  Outcomes = {}
  ZeroReports = "keys"
  RetryFailed = TRUE
  Faithful = TRUE
INVARIANTS TypeOK AppliedIsInForce FailedIsRefused EffectiveInForce Conservation NoDoubleCount StopUnhealthy
PROPERTIES RefusedKeepsOld StatusProtocol OnlyMessagesApply NoReapply NewHashHandled HealthFollows ReportCarriesAll OnlySentDelivers
CHECK_DEADLOCK FALSE
ACTION_CONSTRAINT Dump
VIEW View
