//go:build verif

package route

import (
	"fmt"
	"math/rand"
	"os"
	"runtime"
	"strconv"
	"sync"
	"testing"
	"time"

	"github.com/honeycombio/refinery/config"
	"github.com/honeycombio/refinery/internal/verifkit"
)

// TestVerifClusterRace is the C35 driver for one real node (the c16 harness:
// two real Routers, real InMemCollector, two real DirectTransmissions, fake
// Honeycomb and peer): ingestion on both listeners, stress relief toggling,
// collector ticks, batch dispatch of both transmissions and config reloads
// (which clear samplers and resize every worker's decision cache) all run
// concurrently. The oracle is the Go race detector; the schedule shapes come
// from the action alphabet of spec/Cluster.tla (RecvPlain, RecvProbe, RecvSpan,
// SetStress, CollectTick, Dispatch) plus Collector.tla's ReloadRules.
func TestVerifClusterRace(t *testing.T) {
	seed, _ := strconv.ParseInt(os.Getenv("VERIF_SEED"), 10, 64)
	budget, _ := strconv.ParseFloat(os.Getenv("VERIF_BUDGET_S"), 64)
	if budget == 0 {
		budget = 20
	}
	deadline := time.Now().Add(time.Duration(budget * float64(time.Second)))
	rng := rand.New(rand.NewSource(seed))
	runs, events := 0, 0
	shapes := map[string]bool{}
	for time.Now().Before(deadline) && runs < 300 {
		h := &c16Harness{}
		init := map[string]any{"params": map[string]any{"own": []any{"o1", "o2"}, "foreign": []any{"f1", "f2"}, "skeep": []any{"o1", "f1"}, "srate": float64(5)}}
		if err := h.Reset(init); err != nil {
			t.Fatal(err)
		}
		var wg sync.WaitGroup
		nid := 0
		var idmu sync.Mutex
		next := func() int { idmu.Lock(); defer idmu.Unlock(); nid++; return nid }
		traces := []string{"o1", "o2", "f1", "f2"}
		for p := 0; p < 4; p++ {
			wg.Add(1)
			go func(prng *rand.Rand, listener string) {
				defer wg.Done()
				for k := 0; k < 25; k++ {
					a := map[string]any{"listener": listener, "id": float64(next()), "crate": float64(prng.Intn(3))}
					switch prng.Intn(6) {
					case 0:
						h.router(a).processEvent(h.event(a, "", false), "req")
					case 1:
						h.router(a).processEvent(h.event(a, traces[prng.Intn(4)], true), "req")
					default:
						h.router(a).processEvent(h.event(a, traces[prng.Intn(4)], false), "req")
					}
					if prng.Intn(4) == 0 {
						runtime.Gosched()
					}
				}
			}(rand.New(rand.NewSource(rng.Int63())), []string{"incoming", "peer"}[p%2])
		}
		shape := fmt.Sprintf("stress=%v reload=%v", runs%2 == 0, runs%3 != 2)
		shapes[shape] = true
		wg.Add(1)
		go func(prng *rand.Rand) { // stress toggles, ticks, dispatches
			defer wg.Done()
			for k := 0; k < 12; k++ {
				for y := 0; y < prng.Intn(40); y++ {
					runtime.Gosched()
				}
				switch prng.Intn(4) {
				case 0:
					if runs%2 == 0 {
						h.stress.mu.Lock()
						h.stress.on = !h.stress.on
						h.stress.mu.Unlock()
					}
				case 1:
					h.collClock.Advance(c16CollTick)
				case 2:
					h.upClock.Advance(c16BatchT + c16BatchT/4)
				case 3:
					h.peerClock.Advance(c16BatchT + c16BatchT/4)
				}
			}
		}(rand.New(rand.NewSource(rng.Int63())))
		if runs%3 != 2 {
			wg.Add(1)
			go func(prng *rand.Rand) { // config reloads: sampler change + decision cache resize
				defer wg.Done()
				for k := 0; k < 3; k++ {
					for y := 0; y < prng.Intn(60); y++ {
						runtime.Gosched()
					}
					h.conf.Mux.Lock()
					h.conf.GetSamplerTypeVal = &config.DeterministicSamplerConfig{SampleRate: 1 + k%2}
					h.conf.SampleCache.KeptSize = uint(5000 + 1000*k)
					h.conf.Mux.Unlock()
					h.conf.Reload()
				}
			}(rand.New(rand.NewSource(rng.Int63())))
		}
		wg.Wait()
		events += nid
		h.stop()
		h.stop = nil
		runs++
	}
	verifkit.WriteJSON(os.Getenv("VERIF_OUT"), map[string]any{"evaluations": events, "distinct": runs, "traces": runs,
		"samples": []any{map[string]any{"runs": runs, "events": events, "shapes": len(shapes)}},
		"note": "concurrent activity scripts on one real node under the Go race detector"})
}
