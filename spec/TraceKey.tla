------------------------------ MODULE TraceKey ------------------------------
(***************************************************************************)
(* Sample keys of the dynsampler-backed samplers (property C11).           *)
(*                                                                         *)
(* sample/trace_key.go builds, for a trace and a configured field list, a  *)
(* key string; DynamicSampler, EMADynamicSampler, EMAThroughputSampler,    *)
(* WindowedThroughputSampler and TotalThroughputSampler hand it to their   *)
(* dynsampler and return it from GetSampleRate.  C11 says what the key may *)
(* depend on; it does not fix the text of the key.  So the specification   *)
(* defines the ABSTRACT key                                                *)
(*                                                                         *)
(*   AKey(c, t) = for every plain field the SET of values it takes over    *)
(*                the spans, for every root.-field the root span's value   *)
(*                (or none), and the span count if UseTraceLength          *)
(*                                                                         *)
(* and states C11 as a relation between abstract and real keys:            *)
(*   equal abstract keys      => equal real keys           (always)        *)
(*   different abstract keys  => different real keys       (all fields     *)
(*                               present, delimiter-free values)           *)
(*                                                                         *)
(* Function-vector binding (B3): Init enumerates vectors, Eval fills in    *)
(* the expected observation.                                               *)
(*   "class" vector (c, t, u): u = NF(c, t) is the normal form of t, a     *)
(*      trace rebuilt from AKey(c, t) alone.  All traces of an abstract    *)
(*      class share u, so `key(t) = key(u)` for every enumerated t gives   *)
(*      equality on whole classes; the enumeration contains every order of *)
(*      the spans, every duplication, every split of the values over the   *)
(*      spans, and every value of the fields that are not configured.      *)
(*   "pair" vector (c, t, u): two normal forms of different separable      *)
(*      classes; their real keys must differ.                              *)
(*   "prov" vector (c, t, u, prov): the same logical trace t handed to the  *)
(*      key builder as payloads of every PROVENANCE the real system         *)
(*      produces (see "Payload provenance" below): built from a map,        *)
(*      decoded from msgpack without key-field extraction, decoded from     *)
(*      msgpack with an ingest-time key-field set that is the same as,      *)
(*      smaller than, disjoint from or partly absent compared with the      *)
(*      decision-time FieldList (a rules reload while the trace is in       *)
(*      flight), per span.  key(t) = key(u) before and after the            *)
(*      collector's decision-time MemoizeFields.                            *)
(* The real side is each sampler's GetSampleRate: the key it returns, and  *)
(* the rate (>= 1 always).                                                 *)
(***************************************************************************)
EXTENDS Integers, Sequences, FiniteSets, TLC, Json

CONSTANTS DataFields,  \* field names that occur in spans (the catalogue below uses "a" and "b")
          Vals,        \* value tokens ("s:x" string x, "i:7" integer 7, "b:true", "f:2.5"); distinct renderings
          DelimVals,   \* the tokens whose rendering contains a key delimiter (',' or the bullet)
          MaxSpans,
          CfgNames,    \* which field lists of the catalogue are enumerated
          Samplers,    \* names of the dynsampler-backed samplers
          \* --- payload provenance family ("prov" vectors) ---
          GhostFields,  \* field names an ingest-time FieldList may name that no span carries
          ProvValSet,   \* distinct values: span i of a prov trace carries the i-th of them (ProvVals[i]) in the fields it has
          ProvMaxSpans, \* prov traces have 1..ProvMaxSpans spans (0: no prov vectors)
          ProvCfgNames, \* decision-time field lists of the prov vectors
          ProvUTL,      \* UseTraceLength settings of the prov vectors
          ProvMix       \* "uniform": one provenance for all spans; "one": one provenance mixed with
                        \* map-built spans; "all": every per-span assignment

VARIABLES vec, out, act

vars == <<vec, out, act>>

NoVal == "-"                       \* the field is absent from the span
SpanDom == [DataFields -> Vals \cup {NoVal}]

\* a trace: its spans in arrival order and which of them is the root (0: no root yet)
Traces == UNION {{[spans |-> s, root |-> r] : s \in [1..n -> SpanDom], r \in 0..n} : n \in 0..MaxSpans}

\* field lists (FieldList entries "f" are plain, "root.f" root-only)
Catalogue == [ a     |-> [plain |-> {"a"},      root |-> {}],
               ab    |-> [plain |-> {"a", "b"}, root |-> {}],
               ra    |-> [plain |-> {},         root |-> {"a"}],
               a_rb  |-> [plain |-> {"a"},      root |-> {"b"}],
               a_ra  |-> [plain |-> {"a"},      root |-> {"a"}],
               ab_ra |-> [plain |-> {"a", "b"}, root |-> {"a"}],
               ra_rb |-> [plain |-> {},         root |-> {"a", "b"}] ]

ASSUME /\ \A n \in CfgNames : n \in DOMAIN Catalogue /\ (Catalogue[n].plain \cup Catalogue[n].root) \subseteq DataFields
       /\ DelimVals \subseteq Vals
       /\ MaxSpans \in Nat
       /\ ProvMaxSpans \in 0..MaxSpans /\ ProvMaxSpans <= Cardinality(ProvValSet)
       /\ ProvValSet \cap (DelimVals \cup {NoVal}) = {}
       /\ GhostFields \cap DataFields = {}
       /\ ProvCfgNames \subseteq CfgNames /\ ProvUTL \subseteq BOOLEAN
       /\ ProvMix \in {"uniform", "one", "all"}

Cfg(n, u) == [name |-> n, plain |-> Catalogue[n].plain, root |-> Catalogue[n].root, utl |-> u]
Cfgs == {Cfg(n, u) : n \in CfgNames, u \in BOOLEAN}

----------------------------------------------------------------------------
\* The abstract key
Values(t, f) == {t.spans[i][f] : i \in 1..Len(t.spans)} \ {NoVal}

AKey(c, t) ==
  [ plainSets |-> [f \in c.plain |-> Values(t, f)],
    rootVals  |-> [f \in c.root |-> IF t.root = 0 THEN NoVal ELSE t.spans[t.root][f]],
    count     |-> IF c.utl THEN Len(t.spans) ELSE -1 ]

\* all configured fields present, no value contains a delimiter
Separable(c, t) ==
  /\ \A f \in c.plain : Values(t, f) # {} /\ Values(t, f) \cap DelimVals = {}
  /\ \A f \in c.root : t.root # 0 /\ t.spans[t.root][f] \notin ({NoVal} \cup DelimVals)

----------------------------------------------------------------------------
\* Normal form: a trace built from an abstract key only.
RECURSIVE SeqOf(_)
SeqOf(S) == IF S = {} THEN <<>> ELSE LET x == CHOOSE y \in S : TRUE IN <<x>> \o SeqOf(S \ {x})

Max(S) == CHOOSE x \in S : \A y \in S : y <= x

NFOfKey(c, k) ==
  LET hasRoot == \E f \in c.root : k.rootVals[f] # NoVal
      \* the root span (index 1) must show exactly rootVals for the root fields
      rootVal(f) == IF f \in c.root THEN k.rootVals[f] ELSE NoVal
      \* column of a plain field: its values top-down; the root's own value first; if the
      \* field is a root field the root lacks, leave the root span's cell empty
      col(f) == IF f \notin c.plain THEN <<>>
                ELSE IF hasRoot /\ f \in c.root
                     THEN IF rootVal(f) # NoVal
                          THEN <<rootVal(f)>> \o SeqOf(k.plainSets[f] \ {rootVal(f)})
                          ELSE <<NoVal>> \o SeqOf(k.plainSets[f])
                     ELSE SeqOf(k.plainSets[f])
      need == Max({Len(col(f)) : f \in c.plain} \cup {IF hasRoot THEN 1 ELSE 0})
      n == IF k.count >= 0 THEN k.count ELSE need
      cell(i, f) == IF f \in c.plain
                    THEN IF i <= Len(col(f)) THEN col(f)[i] ELSE NoVal
                    ELSE IF i = 1 /\ hasRoot THEN rootVal(f) ELSE NoVal
  IN [spans |-> [i \in 1..n |-> [f \in DataFields |-> cell(i, f)]],
      root |-> IF hasRoot THEN 1 ELSE 0]

NF(c, t) == NFOfKey(c, AKey(c, t))

SepReps(c) == {NF(c, t) : t \in {x \in Traces : Separable(c, x)}}


----------------------------------------------------------------------------
\* Payload provenance (types/payload.go).  A span's fields reach the key builder
\* through Payload.Exists/Get, which answer from three places: the memoized map,
\* the list of fields recorded as missing, and the serialized msgpack kept from
\* the wire.  How these are filled depends on how the span came in:
\*   "map"    NewPayload(cfg, map): everything is in the memoized map (/1/events, gRPC)
\*   "wire"   msgpack kept serialized, metadata only extracted (OTLP; UnmarshalMsgpack)
\*   "ingest" msgpack kept serialized; the key fields of the sampler configured AT
\*            INGEST TIME (keys, root. prefix stripped) are looked for: found ones are
\*            memoized, the others recorded as missing (/1/batch, peer traffic)
\* At decision time the collector calls MemoizeFields with the key fields of the
\* sampler in force THEN (all of them on the root span, the plain ones elsewhere),
\* which may be another set if the rules were reloaded in between.
ProvVals == SeqOf(ProvValSet)
KeyUniverse == DataFields \cup GhostFields
MapProv  == [kind |-> "map",  keys |-> {}]
WireProv == [kind |-> "wire", keys |-> {}]
Provs == {MapProv, WireProv} \cup {[kind |-> "ingest", keys |-> K] : K \in (SUBSET KeyUniverse) \ {{}}}

Present(s) == {f \in DataFields : s[f] # NoVal}

\* payload state after the span came in with provenance p
Ingest(s, p) ==
  CASE p.kind = "map"    -> [wire |-> FALSE, memo |-> Present(s), missing |-> {}]
    [] p.kind = "wire"   -> [wire |-> TRUE,  memo |-> {},         missing |-> {}]
    [] p.kind = "ingest" -> [wire |-> TRUE,  memo |-> p.keys \cap Present(s), missing |-> p.keys \ Present(s)]

\* Payload.MemoizeFields(K): the keys neither memoized nor known missing are looked
\* for in the serialized data; found -> memoized, not found -> missing
Memoize(s, pl, K) ==
  LET find == K \ (pl.memo \cup pl.missing)
      onWire == IF pl.wire THEN Present(s) ELSE {}
  IN [pl EXCEPT !.memo = @ \cup (find \cap onWire), !.missing = @ \cup (find \ onWire)]

\* what Exists/Get deliver for field f
FieldView(s, pl) == [f \in DataFields |->
                  IF f \in pl.memo THEN s[f]
                  ELSE IF f \in pl.missing THEN NoVal
                  ELSE IF pl.wire THEN s[f] ELSE NoVal]

\* CollectorWorker.makeDecision: sampler.GetKeyFields() -> MemoizeFields per span
DecideKeys(c, t, i) == IF i = t.root THEN c.plain \cup c.root ELSE c.plain

PayloadOf(c, t, q, i, decided) ==
  LET p0 == Ingest(t.spans[i], q[i])
  IN IF decided THEN Memoize(t.spans[i], p0, DecideKeys(c, t, i)) ELSE p0

\* the trace as the key builder sees it through the payloads
Seen(c, t, q, decided) ==
  [spans |-> [i \in 1..Len(t.spans) |-> FieldView(t.spans[i], PayloadOf(c, t, q, i, decided))], root |-> t.root]

\* prov traces: span i carries ProvVals[i] in the fields it has, so hiding any field
\* of any span changes the abstract key of a plain field (maximal sensitivity)
DiagTraces ==
  UNION {{[spans |-> [i \in 1..n |-> [f \in DataFields |-> IF f \in pres[i] THEN ProvVals[i] ELSE NoVal]], root |-> r] :
             pres \in [1..n -> SUBSET DataFields], r \in 0..n} : n \in 1..ProvMaxSpans}

Range(q) == {q[i] : i \in DOMAIN q}
ProvAssign(n) ==
  {q \in [1..n -> Provs] :
     \/ ProvMix = "all"
     \/ Cardinality(Range(q)) = 1
     \/ ProvMix = "one" /\ Cardinality(Range(q)) = 2 /\ MapProv \in Range(q)}

\* how class and pair vectors are concretised: class traces alternate map-built and
\* wire-backed spans, pair traces (normal forms) are map-built
ClassProv(t) == [i \in 1..Len(t.spans) |-> IF i % 2 = 0 THEN WireProv ELSE MapProv]
PairProv(t)  == [i \in 1..Len(t.spans) |-> MapProv]

----------------------------------------------------------------------------
ClassVectors == {[kind |-> "class", cfg |-> c, t |-> t, u |-> NF(c, t), prov |-> ClassProv(t)] : c \in Cfgs, t \in Traces}

ProvVectors ==
  UNION {{[kind |-> "prov", cfg |-> c, t |-> t, u |-> NF(c, t), prov |-> q] : q \in ProvAssign(Len(t.spans))} :
            c \in {Cfg(n, b) : n \in ProvCfgNames, b \in ProvUTL}, t \in DiagTraces}

\* every unordered pair of different separable classes once
PairVectors ==
  UNION {LET reps == SeqOf(SepReps(c))
         IN {[kind |-> "pair", cfg |-> c, t |-> reps[p[1]], u |-> reps[p[2]], prov |-> PairProv(reps[p[1]])] :
                p \in {q \in (1..Len(reps)) \X (1..Len(reps)) : q[1] < q[2]}} : c \in Cfgs}

Init == /\ vec \in ClassVectors \cup PairVectors \cup ProvVectors
        /\ out = [evaluated |-> FALSE]
        /\ act = [name |-> "Init"]

\* GetSampleRate on t and on u by every sampler (one long-lived sampler per
\* configuration: u, t, u, t again, so state left behind by one trace must not leak
\* into the next key).  t's payloads are built with the provenances vec.prov; the
\* second round asks the way the collector does: MemoizeFields(DecideKeys) on every
\* span, then GetSampleRate.
Eval == /\ ~out.evaluated
        /\ out' = [evaluated |-> TRUE,
                   sameSet   |-> IF vec.kind \in {"class", "prov"} THEN Samplers ELSE {},   \* key(t) = key(u), both rounds
                   differSet |-> IF vec.kind = "pair" THEN Samplers ELSE {},    \* key(t) # key(u)
                   stableSet |-> Samplers,   \* asking again gives the same key
                   rateOKSet |-> Samplers]   \* every returned rate >= 1
        /\ UNCHANGED vec
        /\ act' = [name |-> "Eval"]

Next == Eval

Spec == Init /\ [][Next]_vars

----------------------------------------------------------------------------
\* Properties of the abstract key that TLC checks on every vector

IsTrace(t) == /\ Len(t.spans) \in 0..MaxSpans /\ t.root \in 0..Len(t.spans)
              /\ \A i \in 1..Len(t.spans) :
                    t.spans[i] \in [DataFields -> Vals \cup ProvValSet \cup {NoVal}]
TypeOK == /\ vec.kind \in {"class", "pair", "prov"}
          /\ vec.prov \in [1..Len(vec.t.spans) -> Provs]
          /\ vec.cfg \in Cfgs
          /\ IsTrace(vec.t) /\ IsTrace(vec.u)
          /\ out.evaluated \in BOOLEAN

\* Eval leaves the vector unchanged, so the properties of the vector are evaluated on
\* the initial state of each vector only
Fresh == ~out.evaluated

\* the normal form is in the class of its trace and is a fixed point
NFSound == (Fresh /\ vec.kind \in {"class", "prov"}) =>
             /\ AKey(vec.cfg, vec.u) = AKey(vec.cfg, vec.t)
             /\ NF(vec.cfg, vec.u) = vec.u
             /\ Separable(vec.cfg, vec.u) <=> Separable(vec.cfg, vec.t)

\* C11: reordering the spans does not change the abstract key
Perms(n) == {p \in [1..n -> 1..n] : \A i, j \in 1..n : p[i] = p[j] => i = j}
Permute(t, p) == [spans |-> [i \in 1..Len(t.spans) |-> t.spans[p[i]]],
                  root |-> IF t.root = 0 THEN 0 ELSE CHOOSE i \in 1..Len(t.spans) : p[i] = t.root]
PermutationInvariant ==
  (Fresh /\ vec.kind = "class") =>
     \A p \in Perms(Len(vec.t.spans)) : AKey(vec.cfg, Permute(vec.t, p)) = AKey(vec.cfg, vec.t)

\* C11: duplicating a span changes the abstract key exactly when the span count is part of it
Duplicate(t, i) == [spans |-> Append(t.spans, t.spans[i]), root |-> t.root]
DuplicationInvariant ==
  (Fresh /\ vec.kind = "class") =>
     \A i \in 1..Len(vec.t.spans) :
        (AKey(vec.cfg, Duplicate(vec.t, i)) = AKey(vec.cfg, vec.t)) <=> ~vec.cfg.utl

\* C11: fields that are not configured, and root-only fields of other spans, do not matter
Overwrite(t, i, f, v) == [t EXCEPT !.spans[i][f] = v]
IrrelevantCellsInvariant ==
  (Fresh /\ vec.kind = "class") =>
     \A i \in 1..Len(vec.t.spans), f \in DataFields, v \in Vals \cup {NoVal} :
        (f \notin vec.cfg.plain /\ (f \notin vec.cfg.root \/ i # vec.t.root))
           => AKey(vec.cfg, Overwrite(vec.t, i, f, v)) = AKey(vec.cfg, vec.t)

\* pair vectors really are different separable classes
PairsDistinct ==
  (Fresh /\ vec.kind = "pair") =>
     /\ AKey(vec.cfg, vec.t) # AKey(vec.cfg, vec.u)
     /\ Separable(vec.cfg, vec.t) /\ Separable(vec.cfg, vec.u)

\* C11 across provenances.  What a payload records about its span is sound: a field
\* is recorded missing only if the span lacks it, memoized only if it has it, a
\* map-built payload memoizes all of it; after the decision-time MemoizeFields every
\* decision-time key field is memoized or (rightly) missing ...
PayloadSound ==
  Fresh => \A i \in 1..Len(vec.t.spans), decided \in BOOLEAN :
     LET s == vec.t.spans[i]
         pl == PayloadOf(vec.cfg, vec.t, vec.prov, i, decided)
     IN /\ pl.missing \cap Present(s) = {}
        /\ pl.memo \subseteq Present(s)
        /\ ~pl.wire => pl.memo = Present(s)
        /\ decided => DecideKeys(vec.cfg, vec.t, i) \subseteq pl.memo \cup pl.missing
\* ... so the key builder sees the logical trace whatever the provenance and whatever
\* key-field set was in force at ingest time, and the abstract key is a function of
\* the trace's field values under the decision-time field list only
ProvenanceInvariant ==
  Fresh => \A decided \in BOOLEAN :
     /\ Seen(vec.cfg, vec.t, vec.prov, decided) = vec.t
     /\ AKey(vec.cfg, Seen(vec.cfg, vec.t, vec.prov, decided)) = AKey(vec.cfg, vec.t)
\* the same for every other provenance assignment of this trace, not only the enumerated
\* ones (evaluated once per (field list, trace): on the vector whose spans are all map-built)
AnyProvenanceInvariant ==
  (Fresh /\ vec.kind = "prov" /\ ProvMix # "all" /\ vec.prov = PairProv(vec.t)) =>
     \A q \in [1..Len(vec.t.spans) -> Provs], decided \in BOOLEAN :
        AKey(vec.cfg, Seen(vec.cfg, vec.t, q, decided)) = AKey(vec.cfg, vec.t)

\* the output never claims both relations
OutConsistent == out.evaluated => out.sameSet \cap out.differSet = {}

----------------------------------------------------------------------------
\* conformance plumbing
St == [vec |-> vec, out |-> out]
Abs == [kind |-> vec.kind, out |-> out]
Dump == PrintT(ToJson([fs |-> St, fa |-> act.name, act |-> act', ts |-> St', fabs |-> Abs, tabs |-> Abs']))
View == <<vec, out>>
=============================================================================
