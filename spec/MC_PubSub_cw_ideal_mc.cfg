SPECIFICATION Spec
CONSTANTS
  Topics = {"cfg_update"}
  Subs = {"w", "s1"}
  Pubs = {}
  MaxPub = 2
  MaxStops = 1
  Hows = {"Close", "Stop"}
  Step = FALSE
  Faithful = FALSE
  Revive = TRUE
  Metrics = FALSE
  ParkPlain = FALSE
  Watcher = TRUE
  CwModes = {"normal", "noint", "opamp"}
  MaxNow = 3
INVARIANTS TypeOK MustDeliver AtMostOnce NoForbidden OwnTopic ClosedIsClosed OpAMPInert
PROPERTIES StormAvoidance ChangeAnnounced NoReloadAfterStop
VIEW View
CHECK_DEADLOCK FALSE
