SPECIFICATION Spec
CONSTANTS
  Faithful = FALSE
  Secs <- SecsAll
  Digits <- DigitsAll
  Zones <- ZonesAll
INVARIANTS TypeOK Preserved InexactOnlyAsDeviation RefusedOnlyWhereOpen PadSane LossFree
CHECK_DEADLOCK FALSE
