SPECIFICATION Spec
CONSTANTS
  CContents = {"A", "B", "Bw", "X"}
  RContents = {"A", "B"}
  Procs = {"timer", "pubsub"}
  Listeners = {"l1", "l2"}
  InitListeners = {"l1"}
  MaxWrites = 2
  Atomic = FALSE
  Exclusive = FALSE
  Serialized = TRUE
  Faithful = FALSE
INVARIANTS TypeOK AcceptedRunning NotifiedOncePerChange LockOK
PROPERTY NoDoubleApply NoRegress FreshAtReturn OnlyReloadApplies
VIEW StepView
