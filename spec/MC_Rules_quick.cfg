SPECIFICATION Spec
CONSTANTS
  Mode = "all"
  Big = FALSE
  PairScopes = {"trace", "span"}
  Faithful = TRUE
INVARIANTS TypeOK FirstMatch Decision Delegation OwnSampler AbsentNeverMatches SpanImpliesTrace DevOnlyOnAbsent
ACTION_CONSTRAINT Dump
VIEW View
CHECK_DEADLOCK FALSE
