SPECIFICATION Spec
CONSTANTS
  Signals = {"traces", "logs", "events_received"}
  MaxCum = 3
  Steps = {1, 2}
  Overwrite = FALSE
  ZeroReports = "keys"
  Attempts = 2
INVARIANTS TypeOK Conservation NonNegative NoDoubleCount InFlightIsPending
PROPERTY DeliveredMonotone OnlyAckDelivers OnlyAckClearsPending PendingTwiceKeeps
VIEW View
