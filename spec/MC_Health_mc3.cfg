SPECIFICATION Spec
CONSTANTS
  Subs1 = {"a", "b"}
  Timeouts1 = {6}
  Subs2 = {"c"}
  Timeouts2 = {12}
  Tick = 5
  UnitMs = 100
  Exact = TRUE
INVARIANTS TypeOK C30Alive C30Ready CodeMatchesGhosts CodeWithinStatement
PROPERTY DeadUntilReport
VIEW View
