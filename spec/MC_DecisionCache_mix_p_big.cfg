SPECIFICATION SpecP
CONSTANTS
  Traces = {"a", "b"}
  KeepTraces = {"a", "b"}
  DropTraces = {"a"}
  Rates = {1}
  Reasons = {"ra"}
  Coupled = TRUE
  KeptSizes = {2}
  ResizeKept = {1}
  DropSizes = {3}
  MaxQueue = 1
  MaxCount = 0
  MaxTotal = 8
  TrackPromise = FALSE
INVARIANTS TypeOKP PromiseShape
ACTION_CONSTRAINT DumpP
VIEW ViewP
