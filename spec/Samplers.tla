------------------------------ MODULE Samplers ------------------------------
(***************************************************************************)
(* Sampler creation, sharing and cluster-size scaling (properties C12 and  *)
(* C13): sample.SamplerFactory (sharedDynsamplers registry,                *)
(* goalThroughputConfigs, peerCount, updatePeerCounts, ClearDynsamplers),  *)
(* the per-worker sampler cache of collect.CollectorWorker, the reload     *)
(* path config -> InMemCollector.reload -> reloadConfigs -> worker.reload, *)
(* and the asynchronous peer-change callback.                              *)
(*                                                                         *)
(* A run starts from a *scenario*: two rules files `a` and `b` (the        *)
(* configuration toggles between them on every ConfigChange).  A rules     *)
(* file maps every destination (environment / dataset) to its top-level    *)
(* sampler: either one leaf sampler or a rules-based sampler whose rules   *)
(* carry downstream leaf samplers.  A leaf is                              *)
(*    [t |-> type, g |-> rate or throughput goal, u |-> UseClusterSize,    *)
(*     n |-> tuning variant (MaxKeys, UseTraceLength, ClearFrequency ...), *)
(*     f |-> field list id]                                                *)
(* Types: "tt" TotalThroughput, "et" EMAThroughput, "wt" Windowed-         *)
(* Throughput, "dy" Dynamic, "ed" EMADynamic, "de" Deterministic (no       *)
(* dynsampler), "df" destination absent from the file (falls back to the   *)
(* __default__ deterministic sampler).                                     *)
(*                                                                         *)
(* The registry key is the operator RegKey.  Faithful = FALSE is the ideal *)
(* of C12 (the whole definition); Faithful = TRUE is what                  *)
(* sample.makeDynsamplerKey computes on the tree this was written against: *)
(* (prefix string, type, rate/goal, fields) -- tuning parameters and       *)
(* UseClusterSize are missing, and the prefix of a downstream sampler of   *)
(* destination d is the string "rules:d:", which a destination may be      *)
(* named.  A Decide step in which a sampler receives an instance that was  *)
(* created for a different definition is labelled dev |-> "key-collision"  *)
(* and taints the run; the C12/C13 invariants are demanded of untainted    *)
(* runs (all runs when Faithful = FALSE).                                  *)
(*                                                                         *)
(* ShareIdentical: C12 says two definitions of one destination share state *)
(* only if their configurations are identical, not that they must.  TRUE:  *)
(* identical downstream samplers of different rules share one instance     *)
(* (what the code does); FALSE: every rule has its own.                    *)
(***************************************************************************)
EXTENDS Integers, Sequences, FiniteSets, TLC, Json, SequencesExt

CONSTANTS NW,             \* number of collector workers (1..3)
          Family,         \* name of the scenario family Init enumerates
          PeerCounts,     \* cluster sizes a membership change can produce
          MaxChanges,     \* bound on configuration changes in one run
          Faithful,       \* registry key: FALSE ideal, TRUE as makeDynsamplerKey
          ShareIdentical  \* see above

VARIABLES sc,        \* the scenario [a |-> file, b |-> file]; never changes
          nchg,      \* configuration changes so far (file a is loaded iff even)
          reloadSig, \* InMemCollector.reload holds a signal (capacity 1)
          toSignal,  \* reloadConfigs loop: 0 idle, i = about to signal worker i
          pending,   \* worker.reload holds a signal (capacity 1)
          local,     \* worker.datasetSamplers
          reg,       \* SamplerFactory.sharedDynsamplers (+ goalThroughputConfigs as .scaled)
          epoch,     \* number of ClearDynsamplers so far
          peers,     \* true cluster size (what Peers.GetPeers returns)
          peerCount, \* SamplerFactory.peerCount
          cbPending, \* a peer-change callback goroutine has been started and not yet run
          gauge,     \* last value of the unique_dynsampler_count gauge
          tainted,   \* ghost: some sampler received an instance of another definition
          act

vars == <<sc, nchg, reloadSig, toSignal, pending, local, reg, epoch, peers, peerCount, cbPending, gauge, tainted, act>>

WSeq == SubSeq(<<"w1", "w2", "w3">>, 1, NW)
Workers == {WSeq[i] : i \in 1..NW}

Max(x, y) == IF x >= y THEN x ELSE y
Min(S) == CHOOSE x \in S : \A y \in S : x <= y

---------------------------------------------------------------------------
(* Scenarios *)

Leaf(t, g, u, n, f) == [t |-> t, g |-> g, u |-> u, n |-> n, f |-> f]
Top(l)     == [rules |-> FALSE, leaves |-> <<l>>]
R1(l1)     == [rules |-> TRUE,  leaves |-> <<l1>>]
R2(l1, l2) == [rules |-> TRUE,  leaves |-> <<l1, l2>>]
Default    == Top(Leaf("df", 1, FALSE, 0, "f"))
Det(r)     == Top(Leaf("de", r, FALSE, 0, "f"))

TputTypes == {"tt", "et", "wt"}
DynTypes  == {"dy", "ed"}
IsTput(t) == t \in TputTypes
HasDyn(t) == t \in TputTypes \cup DynTypes

\* v-th variation of a leaf: 0 identical, 1 and 2 a tuning parameter, 3 UseClusterSize,
\* 4 the field list, 5 the rate/goal
Vary(l, v) == CASE v = 0 -> l
                [] v = 1 -> [l EXCEPT !.n = 1]
                [] v = 2 -> [l EXCEPT !.n = 2]
                [] v = 3 -> [l EXCEPT !.u = ~l.u]
                [] v = 4 -> [l EXCEPT !.f = "g"]
                [] v = 5 -> [l EXCEPT !.g = IF l.g = 2 THEN 10 ELSE 2]

\* e1 has two rules whose downstream samplers differ by variation v; e2 has the
\* base definition at top level; after a configuration change the roles swap
PairScenario(l, v) ==
  [a |-> [e1 |-> R2(l, Vary(l, v)), e2 |-> Top(l)],
   b |-> [e1 |-> Top(Vary(l, v)),   e2 |-> R2(Vary(l, v), l)]]

\* mixtures of samplers with and without UseClusterSize
MixByDest(t, g) ==
  [a |-> [e1 |-> Top(Leaf(t, g, TRUE, 0, "f")),  e2 |-> Top(Leaf(t, g, FALSE, 0, "f"))],
   b |-> [e1 |-> Top(Leaf(t, g, FALSE, 0, "f")), e2 |-> Default]]
MixByRule(t, g) ==   \* distinct field lists: no key collision even with the short key
  [a |-> [e1 |-> R2(Leaf(t, g, TRUE, 0, "f"), Leaf(t, g, FALSE, 0, "g")), e2 |-> Det(2)],
   b |-> [e1 |-> R2(Leaf(t, g, FALSE, 0, "f"), Leaf(t, g, TRUE, 0, "g")), e2 |-> Det(2)]]
MixCollide(t, g) ==  \* the two rules differ in UseClusterSize only
  [a |-> [e1 |-> R2(Leaf(t, g, TRUE, 0, "f"), Leaf(t, g, FALSE, 0, "f")), e2 |-> Default],
   b |-> [e1 |-> R2(Leaf(t, g, FALSE, 0, "f"), Leaf(t, g, TRUE, 0, "f")), e2 |-> Default]]

\* a destination that is literally named like the downstream prefix of e1
AliasScenario(t) ==
  [a |-> [e1 |-> R1(Leaf(t, 10, FALSE, 0, "f")), alias |-> Top(Leaf(t, 10, FALSE, 0, "f"))],
   b |-> [e1 |-> Top(Leaf(t, 10, FALSE, 0, "f")), alias |-> Top(Leaf(t, 10, FALSE, 0, "f"))]]

Base(t) == Leaf(t, 10, FALSE, 0, "f")

Scenarios ==
  CASE Family = "c12-quick" ->
         {PairScenario(Base("tt"), v) : v \in {0, 1, 3}}
         \cup {PairScenario(Base("dy"), v) : v \in {2, 4}}
         \cup {PairScenario(Base("ed"), 1), PairScenario(Base("wt"), 2), PairScenario(Base("et"), 5)}
    [] Family = "c12-full" ->
         {PairScenario(Base(t), v) : t \in TputTypes, v \in 0..5}
         \cup {PairScenario(Base(t), v) : t \in DynTypes, v \in {0, 1, 2, 4, 5}}
         \cup {PairScenario(Leaf("de", 10, FALSE, 0, "f"), 5)}
    [] Family = "c12-alias" ->
         {AliasScenario(t) : t \in {"tt", "dy"}}
    [] Family = "c13-quick" ->
         {MixByDest("tt", 10), MixByDest("et", 1), MixByRule("wt", 2), MixByRule("tt", 1),
          MixCollide("et", 10), MixCollide("wt", 2)}
    [] Family = "c13-full" ->
         {MixByDest(t, g) : t \in TputTypes, g \in {1, 2, 10}}
         \cup {MixByRule(t, g) : t \in TputTypes, g \in {1, 2, 10}}
         \cup {MixCollide(t, g) : t \in TputTypes, g \in {1, 2, 10}}
    [] Family = "collect" ->
         {PairScenario(Base("tt"), 1), PairScenario(Base("dy"), 0), MixCollide("et", 10), MixByDest("wt", 2)}

DSeq == IF Family = "c12-alias" THEN <<"alias", "e1">> ELSE <<"e1", "e2">>
ND == Len(DSeq)
Dests == {DSeq[i] : i \in 1..ND}
ML == 2     \* most leaves below one destination

File == IF nchg % 2 = 0 THEN sc.a ELSE sc.b

---------------------------------------------------------------------------
(* Registry keys *)

\* the prefix string createSampler receives: the destination itself for a top-level
\* sampler, "rules:<dest>:" for the downstream samplers of its rules
RulesPrefix == [e1 |-> "rules:e1:", e2 |-> "rules:e2:", alias |-> "rules:rules:e1::"]
DestString  == [e1 |-> "e1", e2 |-> "e2", alias |-> "rules:e1:"]
Prefix(d, p) == IF p = 0 THEN DestString[d] ELSE RulesPrefix[d]

\* the definition: destination, position (0 = top level, i = rule i) and the whole leaf
Def(d, p, l) == [d |-> d, p |-> p, l |-> l]

IdealKey(d, p, l) == IF ShareIdentical THEN [d |-> d, p |-> IF p = 0 THEN 0 ELSE 1, l |-> l]
                                       ELSE [d |-> d, p |-> p, l |-> l]
ShortKey(d, p, l) == [pfx |-> Prefix(d, p), t |-> l.t, g |-> l.g, f |-> l.f]
RegKey(d, p, l)   == IF Faithful THEN ShortKey(d, p, l) ELSE IdealKey(d, p, l)

\* two definitions that the property allows to share one instance
MayShare(x, y) == IdealKey(x.d, x.p, x.l) = IdealKey(y.d, y.p, y.l)

NoInst == [none |-> TRUE]

Lookup(r, k) == {e \in r : e.k = k}

Expected(l, n) == IF l.u THEN Max(1, l.g \div n) ELSE l.g

\* updatePeerCounts: every registered throughput instance with an entry in
\* goalThroughputConfigs gets max(cfg / peerCount, 1)
Rescale(r, n) == {IF e.scaled THEN [e EXCEPT !.goal = Max(1, e.cfg \div n)] ELSE e : e \in r}

---------------------------------------------------------------------------
(* createSampler for the leaves of one destination, in rule order.         *)
(* Build returns [r |-> registry, s |-> slots, dev |-> BOOLEAN].           *)

RECURSIVE Build(_, _, _, _)
Build(d, top, i, accu) ==
  IF i > Len(top.leaves) THEN accu
  ELSE
    LET l == top.leaves[i]
        p == IF top.rules THEN i ELSE 0
        me == Def(d, p, l)
    IN IF ~HasDyn(l.t)
       THEN Build(d, top, i + 1, [accu EXCEPT !.s = Append(@, [l |-> l, inst |-> NoInst])])
       ELSE
         LET k == RegKey(d, p, l)
             hit == Lookup(accu.r, k)
         IN IF hit # {}
            THEN LET e == CHOOSE x \in hit : TRUE
                     \* goalThroughputConfigs[key] = goal whenever the definition has UseClusterSize
                     e2 == IF IsTput(l.t) /\ l.u THEN [e EXCEPT !.scaled = TRUE, !.cfg = l.g] ELSE e
                 IN Build(d, top, i + 1,
                          [r |-> (accu.r \ {e}) \cup {e2},
                           s |-> Append(accu.s, [l |-> l, inst |-> [k |-> k, ep |-> e.ep]]),
                           dev |-> accu.dev \/ ~MayShare(e.cr, me)])
            ELSE LET e == [k |-> k, cr |-> me, ep |-> epoch,
                           scaled |-> IsTput(l.t) /\ l.u, cfg |-> l.g,
                           goal |-> IF IsTput(l.t) THEN l.g ELSE 0]
                 IN Build(d, top, i + 1,
                          [r |-> accu.r \cup {e},
                           s |-> Append(accu.s, [l |-> l, inst |-> [k |-> k, ep |-> epoch]]),
                           dev |-> accu.dev])

---------------------------------------------------------------------------
(* Actions *)

Uncached == [c |-> FALSE, s |-> <<>>]

Init == /\ sc \in Scenarios
        /\ nchg = 0 /\ reloadSig = FALSE /\ toSignal = 0
        /\ pending = [w \in Workers |-> FALSE]
        /\ local = [w \in Workers |-> [d \in Dests |-> Uncached]]
        /\ reg = {} /\ epoch = 0
        /\ peers = 1 /\ peerCount = 1 /\ cbPending = FALSE
        /\ gauge = 0 /\ tainted = FALSE
        /\ act = [name |-> "Init"]

\* CollectorWorker.makeDecision for a trace of destination d: use the cached sampler
\* or create one through SamplerFactory.GetSamplerImplementationForKey.  Every
\* createSampler ends with updatePeerCounts (which re-reads the peer list) and sets
\* the unique_dynsampler_count gauge.
Decide(w, d) ==
  IF local[w][d].c
  THEN /\ UNCHANGED <<sc, nchg, reloadSig, toSignal, pending, local, reg, epoch, peers, peerCount, cbPending, gauge, tainted>>
       /\ act' = [name |-> "Decide", w |-> w, d |-> d]
  ELSE LET b == Build(d, File[d], 1, [r |-> reg, s |-> <<>>, dev |-> FALSE])
       IN /\ local' = [local EXCEPT ![w][d] = [c |-> TRUE, s |-> b.s]]
          /\ reg' = Rescale(b.r, peers)
          /\ peerCount' = peers
          /\ gauge' = Cardinality(b.r)
          /\ tainted' = (tainted \/ b.dev)
          /\ UNCHANGED <<sc, nchg, reloadSig, toSignal, pending, epoch, peers, cbPending>>
          /\ act' = IF b.dev THEN [name |-> "Decide", w |-> w, d |-> d, dev |-> "key-collision"]
                             ELSE [name |-> "Decide", w |-> w, d |-> d]

\* the rules file changes on disk and config.Reload applies it: samplers created from
\* now on use the new file; the reload callback posts one signal (non-blocking)
ConfigChange ==
  /\ nchg < MaxChanges
  /\ sc.a # sc.b
  /\ nchg' = nchg + 1
  /\ reloadSig' = TRUE
  /\ UNCHANGED <<sc, toSignal, pending, local, reg, epoch, peers, peerCount, cbPending, gauge, tainted>>
  /\ act' = [name |-> "ConfigChange"]

\* InMemCollector.monitor takes the signal; reloadConfigs: ClearDynsamplers ...
MonitorClear ==
  /\ reloadSig /\ toSignal = 0
  /\ reloadSig' = FALSE
  /\ reg' = {}
  /\ epoch' = epoch + 1
  /\ toSignal' = 1
  /\ UNCHANGED <<sc, nchg, pending, local, peers, peerCount, cbPending, gauge, tainted>>
  /\ act' = [name |-> "MonitorClear"]

\* ... then one non-blocking signal per worker, in worker order
MonitorSignal ==
  /\ toSignal > 0
  /\ pending' = [pending EXCEPT ![WSeq[toSignal]] = TRUE]
  /\ toSignal' = IF toSignal = NW THEN 0 ELSE toSignal + 1
  /\ UNCHANGED <<sc, nchg, reloadSig, local, reg, epoch, peers, peerCount, cbPending, gauge, tainted>>
  /\ act' = [name |-> "MonitorSignal"]

\* CollectorWorker.collect: case <-cl.reload: clear(cl.datasetSamplers)
WorkerReload(w) ==
  /\ pending[w]
  /\ pending' = [pending EXCEPT ![w] = FALSE]
  /\ local' = [local EXCEPT ![w] = [d \in Dests |-> Uncached]]
  /\ UNCHANGED <<sc, nchg, reloadSig, toSignal, reg, epoch, peers, peerCount, cbPending, gauge, tainted>>
  /\ act' = [name |-> "WorkerReload", w |-> w]

\* cluster membership changes; the peers implementation starts `go callback()`
PeersChanged(n) ==
  /\ n # peers
  /\ peers' = n
  /\ cbPending' = TRUE
  /\ UNCHANGED <<sc, nchg, reloadSig, toSignal, pending, local, reg, epoch, peerCount, gauge, tainted>>
  /\ act' = [name |-> "PeersChanged", n |-> n]

\* the callback goroutine runs SamplerFactory.updatePeerCounts
PeerCallback ==
  /\ cbPending
  /\ cbPending' = FALSE
  /\ peerCount' = peers
  /\ reg' = Rescale(reg, peers)
  /\ UNCHANGED <<sc, nchg, reloadSig, toSignal, pending, local, epoch, peers, gauge, tainted>>
  /\ act' = [name |-> "PeerCallback"]

Next == \/ \E w \in Workers, d \in Dests : Decide(w, d)
        \/ ConfigChange
        \/ MonitorClear
        \/ MonitorSignal
        \/ \E w \in Workers : WorkerReload(w)
        \/ \E n \in PeerCounts : PeersChanged(n)
        \/ PeerCallback

Spec == Init /\ [][Next]_vars

---------------------------------------------------------------------------
(* Properties *)

TypeOK ==
  /\ nchg \in 0..MaxChanges /\ epoch \in 0..MaxChanges
  /\ reloadSig \in BOOLEAN /\ cbPending \in BOOLEAN /\ tainted \in BOOLEAN
  /\ toSignal \in 0..NW
  /\ pending \in [Workers -> BOOLEAN]
  /\ peers \in PeerCounts \cup {1} /\ peerCount \in PeerCounts \cup {1}
  /\ \A w \in Workers, d \in Dests :
       /\ local[w][d].c \in BOOLEAN
       /\ Len(local[w][d].s) <= ML
       /\ ~local[w][d].c => local[w][d].s = <<>>
  /\ \A e \in reg : e.ep = epoch /\ e.goal >= 0 /\ Cardinality(Lookup(reg, e.k)) = 1
  /\ gauge \in 0..(2 * ND * ML)
  /\ (tainted => Faithful)

Quiescent == ~reloadSig /\ toSignal = 0 /\ ~cbPending /\ \A w \in Workers : ~pending[w]

\* all cached slots
SlotSet == {x \in [w : Workers, d : Dests, i : 1..ML] : local[x.w][x.d].c /\ x.i <= Len(local[x.w][x.d].s)}
SlotOf(x) == local[x.w][x.d].s[x.i]
PosOf(x)  == IF File[x.d].rules THEN x.i ELSE 0

Live(inst) == inst # NoInst /\ \E e \in reg : e.k = inst.k /\ e.ep = inst.ep
EntryOf(inst) == CHOOSE e \in reg : e.k = inst.k /\ e.ep = inst.ep

\* C12 (1): with no reload in flight every worker holds, for a destination, samplers
\* built from the file in force and backed by the same live instances
WorkersShare ==
  (Quiescent /\ ~tainted) =>
    /\ \A w1, w2 \in Workers, d \in Dests :
         (local[w1][d].c /\ local[w2][d].c) => local[w1][d].s = local[w2][d].s
    /\ \A x \in SlotSet :
         /\ SlotOf(x).l = File[x.d].leaves[x.i]
         /\ HasDyn(SlotOf(x).l.t) => Live(SlotOf(x).inst)

\* C12 (2): state is never shared between destinations (at any time)
DestsIsolated ==
  ~tainted => \A x, y \in SlotSet :
     (SlotOf(x).inst # NoInst /\ SlotOf(x).inst = SlotOf(y).inst) => x.d = y.d

\* C12 (3): within a destination two samplers share state only if their entire
\* configurations are identical (at any time)
DefsIsolated ==
  ~tainted => \A x, y \in SlotSet :
     (SlotOf(x).inst # NoInst /\ SlotOf(x).inst = SlotOf(y).inst) => SlotOf(x).l = SlotOf(y).l

\* C13: with no callback outstanding every live throughput instance has the goal of
\* the definition it was created for, scaled by the true cluster size iff UseClusterSize
RegistryGoals ==
  (~cbPending /\ ~tainted) =>
    \A e \in reg : IsTput(e.cr.l.t) => e.goal = Expected(e.cr.l, peers)

\* C13 as seen by the workers: at quiescence the sampler a worker would use for a trace
\* runs with the goal of its own definition
WorkerGoals ==
  (Quiescent /\ ~tainted) =>
    \A x \in SlotSet : IsTput(SlotOf(x).l.t) =>
        /\ Live(SlotOf(x).inst)
        /\ EntryOf(SlotOf(x).inst).goal = Expected(SlotOf(x).l, peers)

\* the factory's cached peer count is the true one whenever no callback is outstanding
\* and at least one sampler was created
PeerCountCurrent == (~cbPending /\ reg # {}) => peerCount = peers

\* a worker's sampler for a destination changes only when the worker handles a reload
CacheStable ==
  [][\A w \in Workers, d \in Dests :
       (local[w][d].c /\ local'[w][d] # local[w][d]) => (act'.name = "WorkerReload" /\ act'.w = w)]_vars

\* instances are only ever dropped from the registry by ClearDynsamplers
RegistryMonotone ==
  [][(\E e \in reg : Lookup(reg', e.k) = {}) => act'.name = "MonitorClear"]_vars

\* sanity of the deviation: the short key really produces what C12 forbids
\* (checked to FAIL with Faithful = TRUE in MC_Samplers_bites.cfg)
NeverTainted == ~tainted

---------------------------------------------------------------------------
(* Projection compared with the real objects.  Instances are numbered in    *)
(* order of first appearance over (worker, destination, slot).              *)

Pos == [w : 1..NW, d : 1..ND, i : 1..ML]
Ord(p) == ((p.w - 1) * ND + (p.d - 1)) * ML + p.i
InstAt(p) == LET c == local[WSeq[p.w]][DSeq[p.d]]
             IN IF c.c /\ p.i <= Len(c.s) THEN c.s[p.i].inst ELSE NoInst
IdOf(p) == IF InstAt(p) = NoInst THEN 0
           ELSE LET first == Min({Ord(q) : q \in {q \in Pos : InstAt(q) = InstAt(p)}})
                IN Cardinality({InstAt(q) : q \in {q \in Pos : Ord(q) <= first}} \ {NoInst})
GoalOf(l, inst) == IF inst = NoInst \/ ~IsTput(l.t) THEN 0
                   ELSE IF Live(inst) THEN EntryOf(inst).goal ELSE -1

SlotView(w, d, i) ==
  LET s == local[WSeq[w]][DSeq[d]].s[i]
  IN [id   |-> IdOf([w |-> w, d |-> d, i |-> i]),
      live |-> Live(s.inst),
      goal |-> GoalOf(s.l, s.inst)]

Abs == [ local  |-> [w \in Workers |->
                       [d \in Dests |->
                          LET wi == CHOOSE i \in 1..NW : WSeq[i] = w
                              di == CHOOSE i \in 1..ND : DSeq[i] = d
                          IN [c |-> local[w][d].c,
                              s |-> [i \in 1..Len(local[w][d].s) |-> SlotView(wi, di, i)]]]],
         unique |-> gauge ]

---------------------------------------------------------------------------
(* Edge dump for the conformance replay.  The hidden part of a state is    *)
(* written compactly: the scenario by its index in ScenarioSeq (the table  *)
(* is printed once as `params`), definitions and registry keys by their    *)
(* index in the scenario's table of definitions.                           *)

ScenarioSeq == SetToSeq(Scenarios)
Sci == CHOOSE i \in 1..Len(ScenarioSeq) : ScenarioSeq[i] = sc

FileDefSet(file) == {Def(d, IF file[d].rules THEN i ELSE 0, file[d].leaves[i]) :
                       <<d, i>> \in {x \in Dests \X (1..ML) : x[2] <= Len(file[x[1]].leaves)}}
DefTabs == [i \in 1..Len(ScenarioSeq) |->
              SetToSeq(FileDefSet(ScenarioSeq[i].a) \cup FileDefSet(ScenarioSeq[i].b))]
DefTab == DefTabs[Sci]
DefId(x) == CHOOSE i \in 1..Len(DefTab) : DefTab[i] = x
KeyId(k) == Min({i \in 1..Len(DefTab) : RegKey(DefTab[i].d, DefTab[i].p, DefTab[i].l) = k})
B(x) == IF x THEN 1 ELSE 0

\* a slot: <<leaf (as the definition it has in file a or b), key, epoch>>
LeafId(d, l) == Min({i \in 1..Len(DefTab) : DefTab[i].d = d /\ DefTab[i].l = l})
SlotCode(d, s) == IF s.inst = NoInst THEN <<LeafId(d, s.l), 0, 0>>
                  ELSE <<LeafId(d, s.l), KeyId(s.inst.k), s.inst.ep>>

Hid == [ sci  |-> Sci, nchg |-> nchg, rs |-> B(reloadSig), ts |-> toSignal,
         pend |-> [i \in 1..NW |-> B(pending[WSeq[i]])],
         loc  |-> [i \in 1..NW |-> [j \in 1..ND |->
                     LET c == local[WSeq[i]][DSeq[j]]
                     IN [x \in 1..Len(c.s) |-> SlotCode(DSeq[j], c.s[x])]]],
         reg  |-> {<<KeyId(e.k), DefId(e.cr), B(e.scaled), e.cfg, e.goal>> : e \in reg},
         ep   |-> epoch, peers |-> peers, pc |-> peerCount, cb |-> B(cbPending), tn |-> B(tainted) ]

Params == [ workers |-> WSeq, dests |-> DSeq, destNames |-> [d \in Dests |-> DestString[d]],
            scenarios |-> ScenarioSeq, faithful |-> Faithful, shareIdentical |-> ShareIdentical ]
ASSUME PrintT(ToJson([params |-> Params]))
Dump == PrintT(ToJson([fa |-> act.name, act |-> act', fabs |-> Abs, fhid |-> Hid, tabs |-> Abs', thid |-> Hid']))
View == <<sc, nchg, reloadSig, toSignal, pending, local, reg, epoch, peers, peerCount, cbPending, gauge, tainted>>
=============================================================================
