"""C33 The metrics store reports what was recorded."""

PROP = dict(
    level="model_checking",
    technique="TLA+ spec Metrics.tla model-checked by TLC at two grains (one action per public call; shared-memory sub-steps of two interleaved threads); every transition of the per-call graph replayed into a real metrics.MultiMetrics and read back through Get (spec->code transition tour)",
    design_ref="DESIGN.md §5 C33",
    level_text="placeholder",
    level_note="placeholder",
    assumptions=[],
    stages=[dict(kind="walk", module="Metrics", pkg="metrics", test="TestVerifC33Metrics", harness=["metrics/c33_metrics_test.go"],
                 cfg={"quick": "MC_Metrics.cfg", "thorough": "MC_Metrics_big.cfg"}, budget={"quick": 30, "thorough": 240}),
            dict(kind="walk", name="MetricsSampler", module="Metrics", pkg="sample", test="TestVerifC33Sampler", harness=["sample/c33_sampler_test.go"],
                 cfg={"quick": "MC_Metrics_sampler.cfg", "thorough": "MC_Metrics_sampler.cfg"}, budget={"quick": 20, "thorough": 60}),
            dict(kind="tlc", name="MetricsFine", module="Metrics", cfg={"quick": "MC_Metrics_fine.cfg", "thorough": "MC_Metrics_fine_big.cfg"}, workers=8)],
)
