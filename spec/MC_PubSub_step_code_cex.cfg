SPECIFICATION Spec
CONSTANTS
  Topics = {"a"}
  Subs = {"s1"}
  Pubs = {"p1"}
  MaxPub = 1
  MaxStops = 0
  Hows = {"Close", "Stop"}
  Step = TRUE
  Faithful = TRUE
  Revive = TRUE
  Metrics = TRUE
  ParkPlain = TRUE
  Watcher = FALSE
  CwModes = {}
  MaxNow = 0
PROPERTIES NoCallbackAfterClose
VIEW View
CHECK_DEADLOCK FALSE
