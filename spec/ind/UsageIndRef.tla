---------------------------- MODULE UsageIndRef ----------------------------
(* TLC tie between spec/Usage.tla and spec/ind/UsageInd.tla; see           *)
(* TTLIndRef.tla for the method (Union exploration, Fwd, Bwd, SameInv). *)
EXTENDS Usage

I == INSTANCE UsageInd

Union == Next \/ (I!Next /\ act' = [name |-> "Typed"])
SpecU == Init /\ [][Union]_vars

InitSame == Init => I!Init
Fwd == [][I!Next]_vars

Park == TLCSet(1, <<cum', seen', cur', pend', rep', phase', att', res', delivered'>>)
OrigStepToParked == ENABLED (Next /\ <<cum', seen', cur', pend', rep', phase', att', res', delivered'>> = TLCGet(1))
Bwd == [][Park /\ OrigStepToParked]_vars

SameInv == /\ TypeOK <=> I!TypeOK
           /\ Conservation <=> I!Conservation
           /\ NonNegative <=> I!NonNegative
           /\ NoDoubleCount <=> I!NoDoubleCount
           /\ InFlightIsPending <=> I!InFlightIsPending
           /\ I!IndInv /\ I!ConstOK

\* on the original steps the labelled properties and the label-free ones agree
SameAct ==
  [][act'.name # "Typed" =>
       /\ (\A s \in Signals : delivered'[s] >= delivered[s]) <=> I!DeliveredMonotoneStep
       /\ (delivered' # delivered => act'.name = "Ack") <=> I!OnlyAckDeliversStep
       /\ (pend' # pend => act'.name \in {"NewReport", "Ack"}) <=> I!OnlyAckClearsPendingStep
       /\ ((phase = "offered" /\ att = Attempts /\ act'.name = "RespondPending")
             => (pend' = pend /\ cur' = cur /\ delivered' = delivered /\ phase' = "idle" /\ res' = "fail"))
          <=> I!PendingTwiceKeepsStep]_vars
=============================================================================
