SPECIFICATION Spec
CONSTANTS
  Signals = {"traces"}
  MaxCum = 3
  Steps = {1, 2}
  Overwrite = TRUE
  ZeroReports = "keys"
  Attempts = 2
INVARIANTS TypeOK Conservation NonNegative NoDoubleCount InFlightIsPending
PROPERTY DeliveredMonotone OnlyAckDelivers OnlyAckClearsPending PendingTwiceKeeps
VIEW View
