------------------------- MODULE TraceTransmission -------------------------
(***************************************************************************)
(* Coverage extension CX4: trace validation (binding B2) of                *)
(* transmit.DirectTransmission at the grain of its critical sections.      *)
(*                                                                         *)
(* Property C26 is bound to the code by a coarse walk (environment steps   *)
(* run to quiescence); the interleaved model of Transmission.tla           *)
(* (Coarse = FALSE) was only model-checked.  Here real concurrent          *)
(* executions - several producer goroutines in EnqueueEvent, the           *)
(* stale-batch dispatcher on a fake clock, sendBatch goroutines talking to *)
(* a scripted Honeycomb, Stop while all of that is going on - are recorded *)
(* as NDJSON (Go driver harness/transmit/cx4_trace_test.go, run under the  *)
(* race detector) and TLC checks that every log is a behaviour of the      *)
(* per-critical-section functions of Transmission.tla: EnqueueF, AdvanceF, *)
(* CutF, PackF, RespondSet (RespondCode), WakeCode, StopBeginF, StopEnd.   *)
(* Every invariant of the fine model is thereby evaluated after every      *)
(* logged step of a real execution.                                        *)
(*                                                                         *)
(* Where the lines come from:                                              *)
(*   hook events (transmit/verif_on.go, emitted while the lock protecting  *)
(*   the reported state is held, or by the goroutine owning it):           *)
(*     enqueue      under batch.mutex, after append / cut decision         *)
(*     stale_begin  dispatchStaleBatches read the clock for a pass         *)
(*     stale_cut    under batch.mutex, batch taken by the pass             *)
(*     stale_skip   under batch.mutex, batch left alone by the pass        *)
(*     stale_end    pass over                                              *)
(*     send_begin   a sendBatch goroutine started on a cut batch           *)
(*     pack         sendBatch packed the next request body                 *)
(*     event_ok / event_err   one event got its outcome (metrics, log)     *)
(*     sleep        about to Clock.Sleep(Retry-After)                      *)
(*     retry        second attempt begins                                  *)
(*     sub_done / batch_fail  the request's events all have an outcome     *)
(*     stop_flush   Stop took the batch map (dispatcher has exited)        *)
(*     stop_end     Stop returns                                           *)
(*   the scripted server:  req (a request arrived: destination, decoded    *)
(*     event ids, body length, n-th time seen, the answer it will get)     *)
(*   the driver:  reset, enq_call (a producer is about to call             *)
(*     EnqueueEvent), advance (the fake clock is about to move one unit),  *)
(*     stop_call, stopped (Stop returned: metrics and error log)           *)
(*                                                                         *)
(* Event ids are the positions of the enqueue lines in the log (assigned   *)
(* by the driver while the hook holds batch.mutex), so s.evs is in         *)
(* linearization order.                                                    *)
(*                                                                         *)
(* Clock reads cannot be hooked atomically with the lines that report      *)
(* them; the driver's clock makes `advance` precede the movement and       *)
(* excludes reads in between, so a logged reading is never ahead of the    *)
(* model's clock: a new batch's start lies between the clock at enq_call   *)
(* and the clock at the enqueue line, a pass's reading is <= now, and a    *)
(* sleeper really wakes no earlier than the model's wake instant.          *)
(*                                                                         *)
(* Conventions the C26 statement leaves open (stale cut exactly from age   *)
(* BatchTimeout on, retry policy details) are followed as the code has     *)
(* them with Loose = FALSE; TraceTransmission*_loose.cfg accepts every     *)
(* convention the statement allows (alternative cfg of the stage).         *)
(***************************************************************************)
EXTENDS Transmission, SequencesExt

VARIABLES l,   \* trace lines consumed
          x    \* auxiliary state of the validation (see X0)

tvars == <<s, act, l, x>>

Trace == ndJsonDeserialize("trace.ndjson")
Line == Trace[l + 1]
Consume == l < Len(Trace) /\ l' = l + 1
IsEvent(e) == Consume /\ Line.event = e /\ act' = [name |-> e]
HWM == TLCSet(1, IF l > TLCGet(1) THEN l ELSE TLCGet(1))

\* copy of the record in Transmission!Init (TraceInit checks they agree)
S0 == [ evs |-> <<>>, out |-> <<>>, pend |-> [k \in Dests |-> EmptyBatch], now |-> 0, tickDue |-> FALSE,
        jobs |-> {}, c |-> [r20x |-> 0, respErr |-> 0, sendErr |-> 0, retries |-> 0, ups |-> 0, downs |-> 0],
        errLog |-> {}, reqs |-> {}, stop |-> "no", faults |-> 0, maxCutAge |-> 0 ]

X0 == [ calls |-> <<>>,        \* producer -> clock reading when it announced its EnqueueEvent call
        begun |-> {},          \* jobs whose sendBatch goroutine has started
        rcvd  |-> {},          \* <<tag, try>> of the attempts the server has received
        ans   |-> <<>>,        \* tag -> answer the server gave to the latest attempt
        obs   |-> <<>>,        \* event -> outcome the code reported for it ("ok" / "err")
        pass  |-> [on |-> FALSE, now |-> 0],   \* the stale pass in progress and its clock reading
        stopCalled |-> FALSE ]

TraceInit == Init /\ s = S0 /\ l = 0 /\ x = X0 /\ TLCSet(1, 0)

Without(f, a) == [b \in DOMAIN f \ {a} |-> f[b]]
With(f, a, v) == (a :> v) @@ f
JobOf(t, id) == {j \in t.jobs : j.id = id}

\* ---- the driver ---------------------------------------------------------
TReset ==
  /\ IsEvent("reset")
  /\ Line.maxBatch = MaxBatch /\ Line.sub = Sub      \* the run was configured as this cfg assumes
  /\ s' = S0 /\ x' = X0

TEnqCall ==
  /\ IsEvent("enq_call")
  /\ ~x.stopCalled                                    \* assumption of C26: no EnqueueEvent once Stop is called
  /\ Line.p \notin DOMAIN x.calls
  /\ x' = [x EXCEPT !.calls = With(@, Line.p, s.now)]
  /\ UNCHANGED s

\* the fake clock is about to move by one unit
TAdvance ==
  /\ IsEvent("advance")
  /\ s' = AdvanceF(s) /\ Line.now = s'.now
  /\ UNCHANGED x

TStopCall ==
  /\ IsEvent("stop_call")
  /\ ~x.stopCalled /\ x.calls = <<>>                  \* every EnqueueEvent has returned
  /\ x' = [x EXCEPT !.stopCalled = TRUE]
  /\ UNCHANGED s

\* ---- EnqueueEvent: the critical section under batch.mutex -----------------
\* EnqueueF with the clock reading the code really took for a new batch
EnqAt(t, k, z, st) == LET u == EnqueueF([t EXCEPT !.now = st], k, z) IN [u EXCEPT !.now = t.now]

TEnqueue ==
  /\ IsEvent("enqueue")
  /\ Line.p \in DOMAIN x.calls
  /\ Line.id = Len(s.evs) + 1
  /\ Line.k \in Dests /\ Line.sz \in Sizes
  /\ LET p0    == s.pend[Line.k]
         opens == p0.ids = <<>>
     IN /\ IF opens THEN Line.start >= x.calls[Line.p] /\ Line.start <= s.now
                    ELSE Line.start = p0.start
        /\ s' = IF opens THEN EnqAt(s, Line.k, Line.sz, Line.start) ELSE EnqueueF(s, Line.k, Line.sz)
        /\ Line.n = Len(p0.ids) + 1
        /\ Line.dispatch = (s'.pend[Line.k].ids = <<>>)   \* cut exactly when the model cuts (MaxBatch reached)
  /\ x' = [x EXCEPT !.calls = Without(@, Line.p)]

\* ---- dispatchStaleBatches -------------------------------------------------
TStaleBegin ==
  /\ IsEvent("stale_begin")
  /\ ~x.pass.on /\ s.stop = "no"
  /\ Line.now <= s.now /\ Line.now >= x.pass.now
  /\ x' = [x EXCEPT !.pass = [on |-> TRUE, now |-> Line.now]]
  /\ UNCHANGED s

TStaleCut ==
  /\ IsEvent("stale_cut")
  /\ x.pass.on /\ Line.k \in Dests
  /\ LET p0 == s.pend[Line.k]
     IN /\ p0.ids # <<>> /\ p0.ids = Line.ids /\ p0.start = Line.start
        /\ Loose \/ x.pass.now - p0.start >= TU        \* the code's convention: only batches BatchTimeout old
  /\ s' = CutF(s, {Line.k})
  /\ UNCHANGED x

TStaleSkip ==
  /\ IsEvent("stale_skip")
  /\ x.pass.on /\ Line.k \in Dests
  /\ LET p0 == s.pend[Line.k]
     IN /\ Line.n = Len(p0.ids)
        /\ Line.n > 0 => Line.start = p0.start
        /\ Loose \/ Line.n = 0 \/ x.pass.now - p0.start < TU
  /\ UNCHANGED <<s, x>>

TStaleEnd ==
  /\ IsEvent("stale_end")
  /\ x.pass.on
  /\ x' = [x EXCEPT !.pass.on = FALSE]
  /\ UNCHANGED s

\* ---- sendBatch ------------------------------------------------------------
TSendBegin ==
  /\ IsEvent("send_begin")
  /\ \E j \in s.jobs : /\ j.pc = "pack" /\ j.try = 0 /\ j.rest = Line.ids /\ j.id \notin x.begun
                       /\ x' = [x EXCEPT !.begun = @ \cup {j.id}]
  /\ UNCHANGED s

\* an event got its outcome: metrics updated, error logged
TEventOutcome ==
  /\ Consume /\ Line.event \in {"event_ok", "event_err"} /\ act' = [name |-> Line.event]
  /\ Line.id \in 1..Len(s.evs) /\ Line.id \notin DOMAIN x.obs /\ s.out[Line.id] = "none"
  /\ \E j \in s.jobs :
       /\ j.id \in x.begun
       /\ IF Line.event = "event_ok"
            THEN j.pc = "sent" /\ Line.id \in Range(j.sub) /\ <<j.sub[1], j.try>> \in x.rcvd
            ELSE \/ j.pc \in {"sent", "sleep"} /\ Line.id \in Range(j.sub) /\ <<j.sub[1], j.try>> \in x.rcvd
                 \/ j.pc = "pack" /\ Line.id \in Range(j.rest) /\ s.evs[Line.id].sz > EventMax   \* dropped while packing
  /\ x' = [x EXCEPT !.obs = With(@, Line.id, IF Line.event = "event_ok" THEN "ok" ELSE "err")]
  /\ UNCHANGED s

\* head of the sendBatch loop: the next body is packed (oversize events dropped), first attempt goes out
TPack ==
  /\ IsEvent("pack")
  /\ \E j \in Packing(s) :
       /\ j.id \in x.begun /\ j.rest = Line.whole
       /\ LET t == PackF(s, j)
          IN /\ IF Line.sub = <<>>
                  THEN JobOf(t, j.id) = {} /\ Line.next = Len(Line.whole)
                  ELSE \E j2 \in JobOf(t, j.id) :
                         /\ j2.sub = Line.sub /\ j2.pc = "sent" /\ j2.try = 1
                         /\ j2.rest = SubSeq(Line.whole, Line.next + 1, Len(Line.whole))
                         /\ Line.bytes = Slack + SumSz(s.evs, Line.sub)
             \* every event PackF drops was reported as an error by the code, and nothing else was
             /\ \A e \in Range(j.rest) : (t.out[e] = "oversize") <=> (e \in DOMAIN x.obs)
             /\ s' = t
  /\ UNCHANGED x

\* the scripted server received a request
TReq ==
  /\ IsEvent("req")
  /\ Line.note = ""
  /\ \E j \in Sent(s) :
       /\ j.sub = Line.ids
       /\ Triples[j.dest] = [host |-> Line.host, key |-> Line.key, ds |-> Line.ds]
       /\ Line.body = Body(s.evs, j.sub)
       /\ Line.try = j.try
       /\ <<j.sub[1], j.try>> \notin x.rcvd
       /\ Line.b \in Behaviours
       /\ x' = [x EXCEPT !.rcvd = @ \cup {<<j.sub[1], j.try>>}, !.ans = With(@, j.sub[1], Line.b)]
  /\ UNCHANGED s

\* what the model allows job j to do next: act on the server's answer, or return from Clock.Sleep
Resolve(j) ==
  IF j.pc = "sent"
    THEN IF <<j.sub[1], j.try>> \in x.rcvd
           THEN LET b == x.ans[j.sub[1]] IN RespondSet(CountFault(s, b), j, b)
           ELSE {}
  ELSE IF j.pc = "sleep" /\ j.wake <= s.now THEN {WakeCode(s, j)}
  ELSE {}

TSleep ==
  /\ IsEvent("sleep")
  /\ \E j \in Sent(s) : /\ j.sub = Line.ids
                        /\ \E t \in Resolve(j) : /\ \E j2 \in JobOf(t, j.id) : j2.pc = "sleep" /\ j2.wake - s.now = Line.dur
                                                 /\ s' = t
  /\ UNCHANGED x

TRetry ==
  /\ IsEvent("retry")
  /\ \E j \in s.jobs : /\ j.pc \in {"sent", "sleep"} /\ j.sub = Line.ids
                       /\ \E t \in Resolve(j) : /\ \E j2 \in JobOf(t, j.id) : /\ j2.pc = "sent" /\ j2.sub = Line.ids
                                                                              /\ j2.try = j.try + 1 /\ j2.try = Line.try + 1
                                                /\ s' = t
  /\ UNCHANGED x

\* the request's events all have their outcome: next body, or sendBatch returns
TSubEnd ==
  /\ Consume /\ Line.event \in {"sub_done", "batch_fail"} /\ act' = [name |-> Line.event]
  /\ \E j \in s.jobs :
       /\ j.pc \in {"sent", "sleep"} /\ j.sub = Line.ids
       /\ \E t \in Resolve(j) :
            /\ \A j2 \in JobOf(t, j.id) : j2.pc = "pack" /\ j2.sub = <<>>
            /\ \A e \in Range(j.sub) :
                 IF Line.event = "batch_fail"
                   THEN t.out[e] = "fail" /\ e \notin DOMAIN x.obs
                   ELSE e \in DOMAIN x.obs /\ t.out[e] = x.obs[e]
            /\ s' = t
  /\ UNCHANGED x

\* ---- Stop -------------------------------------------------------------------
PendOf(k) == IF k \in DOMAIN Line.pend THEN Line.pend[k] ELSE <<>>

TStopFlush ==
  /\ IsEvent("stop_flush")
  /\ x.stopCalled /\ s.stop = "no" /\ ~x.pass.on
  /\ \A k \in Dests : s.pend[k].ids = PendOf(k)       \* nothing lost: Stop holds exactly what is pending
  /\ \A k \in DOMAIN Line.pend : k \in Dests
  /\ s' = StopBeginF(s)
  /\ UNCHANGED x

TStopEnd ==
  /\ IsEvent("stop_end")
  /\ s.stop = "stopping" /\ s.jobs = {}
  /\ \A r \in s.reqs : <<r.tag, r.try>> \in x.rcvd    \* every attempt the model knows of reached the server
  /\ s' = [s EXCEPT !.stop = "stopped"]
  /\ UNCHANGED x

\* Stop has returned to the driver: metrics and error log as the model has them
AsSet(q) == {q[i] : i \in DOMAIN q}
TStopped ==
  /\ IsEvent("stopped")
  /\ s.stop = "stopped"
  /\ Line.r20x = s.c.r20x /\ Line.respErr = s.c.respErr /\ Line.sendErr = s.c.sendErr /\ Line.retries = s.c.retries
  /\ Line.ups = s.c.ups /\ Line.downs = s.c.downs /\ Line.gauge = s.c.ups - s.c.downs
  /\ AsSet(Line.errs) = s.errLog
  /\ UNCHANGED <<s, x>>

TraceNext == \/ TReset \/ TEnqCall \/ TAdvance \/ TStopCall \/ TEnqueue
             \/ TStaleBegin \/ TStaleCut \/ TStaleSkip \/ TStaleEnd
             \/ TSendBegin \/ TEventOutcome \/ TPack \/ TReq \/ TSleep \/ TRetry \/ TSubEnd
             \/ TStopFlush \/ TStopEnd \/ TStopped

TraceSpec == TraceInit /\ [][TraceNext]_tvars

\* ---- invariants evaluated after every consumed line (besides those of Transmission) ----
\* Timely of the fine model.  The driver freezes the clock while a stale pass runs (the model's
\* assumption that the checker looks at every grid instant); once Stop has been called the clock
\* runs freely to wake Retry-After sleepers, so pending ages are no longer meaningful.
TraceTimely == /\ ~x.stopCalled => \A k \in Dests : s.pend[k].ids # <<>> => s.now - s.pend[k].start <= Limit
               /\ s.maxCutAge <= Limit

\* an outcome the code reported belongs to an event that left its batch, and agrees with the model's
ObsSound == \A e \in DOMAIN x.obs :
              /\ e \in 1..N
              /\ \A k \in Dests : e \notin Range(s.pend[k].ids)
              /\ s.out[e] \in {"none", "oversize", x.obs[e]}
              /\ s.out[e] = "oversize" => x.obs[e] = "err"

\* nothing is on the wire for a transmission whose Stop has returned
QuietAfterStop == s.stop = "stopped" => s.jobs = {} /\ x.calls = <<>> /\ ~x.pass.on

TraceAccepted ==
  LET hwm == TLCGet(1) IN
  IF hwm = Len(Trace) THEN PrintT(<<"TRACE-ACCEPTED", hwm>>)
  ELSE PrintT(<<"TRACE-HWM", hwm>>) /\ FALSE
=============================================================================
