SPECIFICATION Spec
CONSTANTS
  Cap = 2
  MaxSpans = 4
INVARIANTS TypeOK Conservation
PROPERTIES RefusedOnlyWhenFull
ACTION_CONSTRAINT Dump
VIEW View
CHECK_DEADLOCK FALSE
