SPECIFICATION Spec
CONSTANTS
  Faithful = FALSE
  CrossResps <- MidResps
  Sides = {"req", "rsp", "fault"}
  FaultReqs <- FaultReqsBig
  FaultResps <- FaultRespsBig
INVARIANTS TypeOK RelayedUnchanged XffDeviationShape ReturnedUnchanged UpstreamHeaderWins OneCall FailureIsReported FaithfulPresentations OwnAnswerOnly DevsOnlyWhenFaithful NoDeviation
CHECK_DEADLOCK FALSE
