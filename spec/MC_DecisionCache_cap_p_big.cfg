SPECIFICATION SpecP
CONSTANTS
  Traces = {"a", "b"}
  KeepTraces = {}
  DropTraces = {"a"}
  Rates = {1}
  Reasons = {"ra"}
  Coupled = TRUE
  KeptSizes = {1}
  ResizeKept = {1}
  DropSizes = {3, 7}
  MaxQueue = 1
  MaxCount = 0
  MaxTotal = 10
  TrackPromise = FALSE
INVARIANTS TypeOKP PromiseShape
ACTION_CONSTRAINT DumpP
VIEW ViewP
