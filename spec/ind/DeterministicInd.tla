-------------------------- MODULE DeterministicInd --------------------------
(***************************************************************************)
(* Typed companion of spec/Deterministic.tla (property C10) for unbounded  *)
(* proofs: the hash space 0..H is ANY H >= 0 (in particular 2^32-1 and     *)
(* 2^64-1, where TLC stops at H = 255) and the rates are any naturals.     *)
(*                                                                         *)
(* Same variables, constants and actions as Deterministic.tla (bodies      *)
(* copied; `act` and the St/Abs/Dump plumbing are gone).                   *)
(* spec/ind/DeterministicIndRef.tla has TLC check on the bounded models of *)
(* MC_Deterministic_{det,stress,arith}.cfg that the original Init/Next     *)
(* (Spec and SpecArith) and the ones below are the same relations on the   *)
(* reachable states and that the label-free action properties are the      *)
(* labelled ones.                                                          *)
(***************************************************************************)
EXTENDS Integers, FiniteSets

CONSTANTS
  \* @type: Str;
  Kind,
  \* @type: Int;
  H,
  \* @type: Set(Int);
  Rates,
  \* @type: Set(INST);
  Insts,
  \* @type: Set(Str);
  Tables,
  \* @type: Int;
  ExtremeFrom,
  \* @type: Set(PROFILE);
  Profiles,
  \* @type: Set(PROFILE);
  Rejectable

\* the ASSUME of Deterministic.tla, plus ExtremeFrom >= 1 (it is a divisor; the cfgs use 1 and 3)
ConstOK == /\ Kind \in {"det", "stress"}
           /\ H \in Int /\ H >= 0
           /\ \A N \in Rates : N \in Int /\ N >= 0
           /\ Kind \in {"det"} => 0 \notin Rates   \* written with \in: Apalache reads an equality `Kind = "det"` anywhere
                                                  \* inside a --cinit predicate as a binding of the constant
           /\ Rejectable \subseteq Profiles
           \* found by the induction step: a refused first configuration leaves rate 1, which TypeOK only admits
           \* if some configurable rate is stored as 1 (true in every cfg: Rejectable = {} or 1 \in Rates)
           /\ \A p \in Rejectable : \E N \in Rates : N = 1 \/ (N = 0 /\ Kind \in {"stress"})
           /\ ExtremeFrom \in Int /\ ExtremeFrom >= 1

VARIABLES
  \* @type: Str;
  table,
  \* @type: Int;
  h,
  \* @type: INST -> Int;
  rate,
  \* @type: INST -> Int;
  bound

vars == <<table, h, rate, bound>>

Keep(hh, N, HH) == N <= 1 \/ hh <= HH \div N

Stored(N) == IF Kind = "stress" /\ N = 0 THEN 1 ELSE N

Answer(i) ==
  IF rate[i] = -1 THEN [rate |-> -1, keep |-> FALSE]
  ELSE IF rate[i] <= 1 THEN [rate |-> 1, keep |-> TRUE]
  ELSE [rate |-> rate[i], keep |-> h <= bound[i]]

\* h \in AvailH(table) of Deterministic.tla, as a predicate
Avail(t, hh) == /\ hh \in Int /\ 0 <= hh /\ hh <= H
                /\ t = "extreme" => hh > H \div ExtremeFrom

Init == /\ table \in Tables
        /\ h \in 0..H /\ Avail(table, h)
        /\ rate = [i \in Insts |-> -1]
        /\ bound = [i \in Insts |-> -1]

Configure(i, N, p) ==
  /\ rate' = [rate EXCEPT ![i] = Stored(N)]
  /\ bound' = [bound EXCEPT ![i] = H \div Stored(N)]
  /\ UNCHANGED <<table, h>>

ConfigureRefused(i, N, p) ==
  /\ p \in Rejectable
  /\ rate' = [rate EXCEPT ![i] = IF rate[i] = -1 THEN 1 ELSE rate[i]]
  /\ bound' = [bound EXCEPT ![i] = IF rate[i] = -1 THEN H ELSE bound[i]]
  /\ UNCHANGED <<table, h>>

Decide(i) ==
  /\ rate[i] # -1
  /\ UNCHANGED <<table, h, rate, bound>>

Next == \/ \E i \in Insts, N \in Rates, p \in Profiles : Configure(i, N, p) \/ ConfigureRefused(i, N, p)
        \/ \E i \in Insts : Decide(i)

Spec == Init /\ [][Next]_vars

\* the function-vector view (SpecArith of Deterministic.tla)
InitArith == /\ table = "none"
             /\ h \in 0..H
             /\ rate = [i \in Insts |-> -1]
             /\ bound = [i \in Insts |-> -1]

NextArith == \E i \in Insts, N \in Rates, p \in Profiles : rate[i] = -1 /\ Configure(i, N, p)

----------------------------------------------------------------------------
(* the invariants of MC_Deterministic_*.cfg, verbatim *)
Started == {i \in Insts : rate[i] # -1}

TypeOK == /\ table \in Tables
          /\ h \in 0..H
          /\ rate \in [Insts -> {-1} \cup {Stored(N) : N \in Rates}]
          /\ bound \in [Insts -> -1..H]

TypeOKArith == /\ h \in 0..H
               /\ rate \in [Insts -> {-1} \cup {Stored(N) : N \in Rates}]
               /\ bound \in [Insts -> -1..H]

BoundIsThreshold == \A i \in Started : bound[i] = H \div rate[i]
KeepIsThreshold == \A i \in Started : Answer(i).keep <=> Keep(h, rate[i], H)
RateLE1KeepsAll == \A i \in Started : rate[i] <= 1 => Answer(i) = [rate |-> 1, keep |-> TRUE]
InstancesAgree == \A i, j \in Started : rate[i] = rate[j] => Answer(i) = Answer(j)
NestedAnswers == \A i, j \in Started : rate[i] <= rate[j] /\ Answer(j).keep => Answer(i).keep

ArithNested ==
  \A i \in Started : Answer(i).keep => \A M \in 0..rate[i] : Keep(h, M, H)
ArithNestedUp ==
  \A i \in Started : ~Answer(i).keep => \A M \in {m \in Rates : m >= rate[i]} : ~Keep(h, M, H)
ArithKeptCount ==
  \A i \in Started :
     Cardinality({hh \in 0..H : Keep(hh, rate[i], H)}) =
        IF rate[i] <= 1 THEN H + 1 ELSE H \div rate[i] + 1
ArithFraction ==
  \A i \in Started : rate[i] > 1 =>
     LET k == H \div rate[i] + 1 IN
       /\ k * rate[i] > H + 1 - rate[i]
       /\ (k - 1) * rate[i] <= H

\* state invariants that need no division lemma / that need one
SafetyBasic == TypeOK /\ BoundIsThreshold /\ KeepIsThreshold /\ RateLE1KeepsAll /\ InstancesAgree
SafetyArith == NestedAnswers /\ ArithNestedUp /\ ArithFraction

(* the action properties, `act'.name = "X" /\ act'.i = i ...` read as "the step is X(i, ...)" *)
AskingIsPureStep == \A i \in Insts : Decide(i) => \A j \in Insts : Answer(j)' = Answer(j)

ConfigureTakesEffectStep ==
  \A i \in Insts, N \in Rates, p \in Profiles :
    (Configure(i, N, p) \/ ConfigureRefused(i, N, p)) =>
         \/ Answer(i)' = (IF Stored(N) <= 1 THEN [rate |-> 1, keep |-> TRUE]
                          ELSE [rate |-> Stored(N), keep |-> Keep(h, Stored(N), H)])
         \/ /\ p \in Rejectable
            /\ Answer(i)' = (IF rate[i] = -1 THEN [rate |-> 1, keep |-> TRUE] ELSE Answer(i))

ConfigureIsLocalStep ==
  \A i \in Insts, N \in Rates, p \in Profiles :
    (Configure(i, N, p) \/ ConfigureRefused(i, N, p)) => \A j \in Insts \ {i} : Answer(j)' = Answer(j)

----------------------------------------------------------------------------
(* the inductive invariant: an instance is either not configured (-1, -1)  *)
(* or holds a storable rate >= 1 together with exactly its threshold       *)
IndInv ==
  /\ table \in Tables
  /\ h \in Int /\ 0 <= h /\ h <= H
  /\ rate \in [Insts -> Int] /\ bound \in [Insts -> Int]
  /\ \A i \in Insts :
       \/ rate[i] = -1 /\ bound[i] = -1
       \/ /\ rate[i] >= 1
          /\ \E N \in Rates : rate[i] = Stored(N)
          /\ bound[i] = H \div rate[i]
=============================================================================
