--------------------------- MODULE MetricsIndProofs ---------------------------
(* TLAPS proofs about MetricsInd for ARBITRARY constants satisfying ConstOK: *)
(* any (disjoint) sets of names, any set of threads, any MaxOps, any number  *)
(* MaxGen >= 1 of cells per name.  Both grains.                              *)
(*   tlapm --threads 16 MetricsIndProofs.tla                                 *)
EXTENDS MetricsInd, TLAPS

ASSUME Const == ConstOK

TOPS == {"", "add", "set", "reg", "get"}

TypePart ==
  /\ reg \in [Names -> BOOLEAN] /\ gen \in [Names -> Int] /\ ideal \in [Names -> Int]
  /\ DOMAIN heap = Names /\ \A n \in Names : heap[n] \in [1 .. MaxGen -> Int]
  /\ pc \in [Threads -> PCs] /\ tn \in [Threads -> Names \cup {""}] /\ top \in [Threads -> TOPS]
  /\ tk \in [Threads -> Int] /\ tp \in [Threads -> Int] /\ gotOK \in [Threads -> BOOLEAN]
  /\ ops \in Int /\ 0 <= ops /\ ops <= MaxOps

StoreInv(n) ==
  /\ gen[n] = 0 \/ gen[n] = 1
  /\ n \in Hists => gen[n] = 0
  /\ gen[n] = 0 => (heap[n][1] = 0 /\ ideal[n] = 0)
  /\ gen[n] = 1 => heap[n][1] = ideal[n]

LEMMA Split == IndInv <=> (TypePart /\ (\A n \in Names : StoreInv(n)) /\ (\A t \in Threads : ThreadInv(t)))
  BY DEF IndInv, TypePart, StoreInv, TOPS
LEMMA SplitP == IndInv' <=> (TypePart' /\ (\A n \in Names : StoreInv(n)') /\ (\A t \in Threads : ThreadInv(t)'))
  BY DEF IndInv, TypePart, StoreInv, TOPS

LEMMA Fams == /\ Counters \subseteq Stored /\ Gauges \subseteq Stored /\ UpDowns \subseteq Stored /\ Stores \subseteq Stored
              /\ Stored \subseteq Names /\ Registrable \subseteq Names /\ Hists \subseteq Names
              /\ Stored \cap Hists = {} /\ 1 \in 1 .. MaxGen /\ RegisterReplaces = FALSE
  BY Const DEF ConstOK, Disjoint, Stored, Names, Registrable

\* a thread that did not move keeps its invariant as long as an existing cell is kept
LEMMA ThreadFrame == ASSUME NEW t \in Threads, ThreadInv(t),
                            pc'[t] = pc[t], tn'[t] = tn[t], top'[t] = top[t], tk'[t] = tk[t], tp'[t] = tp[t], gotOK'[t] = gotOK[t],
                            (tn[t] \in Names /\ gen[tn[t]] = 1) => gen'[tn[t]] = 1
                     PROVE  ThreadInv(t)'
  BY Fams DEF ThreadInv

\* a name whose store entries did not change
LEMMA StoreFrame == ASSUME NEW n \in Names, StoreInv(n), gen'[n] = gen[n], heap'[n] = heap[n], ideal'[n] = ideal[n]
                    PROVE  StoreInv(n)'
  BY DEF StoreInv

----------------------------------------------------------------------------
THEOREM InitInd == Init => IndInv
<1> SUFFICES ASSUME Init PROVE IndInv  OBVIOUS
<1>1 TypePart  BY Const, Fams DEF Init, TypePart, ConstOK, PCs, TOPS
<1>2 ASSUME NEW n \in Names PROVE StoreInv(n)  BY Fams DEF Init, StoreInv
<1>3 ASSUME NEW t \in Threads PROVE ThreadInv(t)  BY DEF Init, ThreadInv, PCs
<1> QED BY <1>1, <1>2, <1>3, Split

----------------------------------------------------------------------------
(* atomic grain *)
LEMMA WriteInd == ASSUME IndInv, NEW n \in Stored, NEW op \in {"add", "set"}, NEW k \in Int, Write(n, op, k)
                  PROVE  IndInv'
<1>0 TypePart /\ (\A m \in Names : StoreInv(m)) /\ (\A t \in Threads : ThreadInv(t))  BY Split
<1>f n \in Names /\ n \notin Hists /\ 1 \in 1 .. MaxGen  BY Fams
<1>g EnsuredGen(n) = 1  BY <1>0, <1>f DEF EnsuredGen, StoreInv
<1>1 /\ gen' = [gen EXCEPT ![n] = 1]
     /\ heap' = [heap EXCEPT ![n][1] = NewVal(op, heap[n][1], k)]
     /\ ideal' = [ideal EXCEPT ![n] = NewVal(op, ideal[n], k)]
     /\ UNCHANGED <<reg, pc, tn, top, tk, tp, gotOK, ops>>
  BY <1>g DEF Write, thr
<1>2 heap[n] \in [1 .. MaxGen -> Int] /\ heap[n][1] \in Int /\ ideal[n] \in Int  BY <1>0, <1>f DEF TypePart
<1>3 NewVal(op, heap[n][1], k) \in Int /\ NewVal(op, ideal[n], k) \in Int  BY <1>2 DEF NewVal
<1>4 heap'[n] = [heap[n] EXCEPT ![1] = NewVal(op, heap[n][1], k)] /\ \A m \in Names : m # n => heap'[m] = heap[m]
  BY <1>1, <1>0, <1>f DEF TypePart
<1>5 TypePart'
  <2>1 DOMAIN heap' = Names  BY <1>1, <1>0 DEF TypePart
  <2>2 \A m \in Names : heap'[m] \in [1 .. MaxGen -> Int]  BY <1>4, <1>2, <1>3, <1>0 DEF TypePart
  <2>3 gen' \in [Names -> Int] /\ ideal' \in [Names -> Int]  BY <1>1, <1>3, <1>0, <1>f DEF TypePart
  <2>4 /\ reg' = reg /\ pc' = pc /\ tn' = tn /\ top' = top /\ tk' = tk /\ tp' = tp /\ gotOK' = gotOK /\ ops' = ops  BY <1>1
  <2> QED BY <2>1, <2>2, <2>3, <2>4, <1>0 DEF TypePart
<1>6 ASSUME NEW m \in Names PROVE StoreInv(m)'
  <2>1 CASE m = n
    <3>1 gen'[n] = 1 /\ heap'[n][1] = NewVal(op, heap[n][1], k) /\ ideal'[n] = NewVal(op, ideal[n], k)
      BY <1>1, <1>4, <1>2, <1>0, <1>f DEF TypePart
    <3>2 heap[n][1] = ideal[n]  BY <1>0, <1>f DEF StoreInv
    <3> QED BY <3>1, <3>2, <2>1, <1>f DEF StoreInv
  <2>2 CASE m # n
    <3>1 gen'[m] = gen[m] /\ heap'[m] = heap[m] /\ ideal'[m] = ideal[m]  BY <1>1, <1>4, <1>0, <2>2 DEF TypePart
    <3> QED BY <3>1, <1>0, StoreFrame
  <2> QED BY <2>1, <2>2
<1>7 ASSUME NEW t \in Threads PROVE ThreadInv(t)'
  <2>1 (tn[t] \in Names /\ gen[tn[t]] = 1) => gen'[tn[t]] = 1  BY <1>1, <1>0, <1>f DEF TypePart
  <2> QED BY <2>1, <1>1, <1>0, ThreadFrame
<1> QED BY <1>5, <1>6, <1>7, SplitP

LEMMA RegisterInd == ASSUME IndInv, NEW n \in Registrable, Register(n) PROVE IndInv'
<1>0 TypePart /\ (\A m \in Names : StoreInv(m)) /\ (\A t \in Threads : ThreadInv(t))  BY Split
<1>f n \in Names /\ 1 \in 1 .. MaxGen /\ RegisterReplaces = FALSE  BY Fams
<1>1 /\ reg' = [reg EXCEPT ![n] = TRUE] /\ UNCHANGED <<ideal, pc, tn, top, tk, tp, gotOK, ops>>
  BY DEF Register, thr
<1>2 CASE n \in Hists
  <2>1 UNCHANGED <<gen, heap>>  BY <1>2 DEF Register
  <2>2 TypePart'  BY <1>0, <1>1, <2>1, <1>f DEF TypePart
  <2>3 ASSUME NEW m \in Names PROVE StoreInv(m)'  BY <1>0, <1>1, <2>1, StoreFrame
  <2>4 ASSUME NEW t \in Threads PROVE ThreadInv(t)'  BY <1>0, <1>1, <2>1, ThreadFrame
  <2> QED BY <2>2, <2>3, <2>4, SplitP
<1>3 CASE n \notin Hists
  <2>0 gen[n] = 0 \/ gen[n] = 1  BY <1>0, <1>f DEF StoreInv
  <2>1 gen' = [gen EXCEPT ![n] = 1] /\ heap' = heap
    BY <1>3, <1>f, <2>0 DEF Register, RegGen, RegHeap, EnsuredGen
  <2>2 TypePart'  BY <1>0, <1>1, <2>1, <1>f DEF TypePart
  <2>3 ASSUME NEW m \in Names PROVE StoreInv(m)'
    <3>1 CASE m = n
      <4>1 gen'[n] = 1 /\ heap'[n] = heap[n] /\ ideal'[n] = ideal[n]  BY <1>0, <1>1, <2>1, <1>f DEF TypePart
      <4> QED BY <4>1, <3>1, <2>0, <1>0, <1>3 DEF StoreInv
    <3>2 CASE m # n
      <4>1 gen'[m] = gen[m] /\ heap'[m] = heap[m] /\ ideal'[m] = ideal[m]  BY <1>0, <1>1, <2>1, <3>2 DEF TypePart
      <4> QED BY <4>1, <1>0, StoreFrame
    <3> QED BY <3>1, <3>2
  <2>4 ASSUME NEW t \in Threads PROVE ThreadInv(t)'
    <3>1 (tn[t] \in Names /\ gen[tn[t]] = 1) => gen'[tn[t]] = 1  BY <2>1, <1>0, <1>f DEF TypePart
    <3> QED BY <3>1, <1>1, <1>0, ThreadFrame
  <2> QED BY <2>2, <2>3, <2>4, SplitP
<1> QED BY <1>2, <1>3

LEMMA RegisterAllInd == ASSUME IndInv, RegisterAll PROVE IndInv'
<1>0 TypePart /\ (\A m \in Names : StoreInv(m)) /\ (\A t \in Threads : ThreadInv(t))  BY Split
<1>f 1 \in 1 .. MaxGen /\ RegisterReplaces = FALSE /\ Registrable \subseteq Names  BY Fams
<1>1 /\ reg' = [n \in Names |-> IF n \in Registrable THEN TRUE ELSE reg[n]]
     /\ gen' = [n \in Names |-> IF n \in Registrable \ Hists THEN EnsuredGen(n) ELSE gen[n]]
     /\ heap' = [n \in Names |-> heap[n]]
     /\ UNCHANGED <<ideal, pc, tn, top, tk, tp, gotOK, ops>>
  BY <1>f DEF RegisterAll, RegGen, thr
<1>2 \A n \in Names : EnsuredGen(n) = 1 \/ (EnsuredGen(n) = gen[n] /\ gen[n] = 1)  BY <1>0 DEF EnsuredGen, StoreInv
<1>3 TypePart'
  <2>1 gen' \in [Names -> Int]  BY <1>1, <1>2, <1>0 DEF TypePart
  <2>2 DOMAIN heap' = Names /\ \A n \in Names : heap'[n] \in [1 .. MaxGen -> Int]  BY <1>1, <1>0 DEF TypePart
  <2>3 reg' \in [Names -> BOOLEAN]  BY <1>1, <1>0 DEF TypePart
  <2> QED BY <2>1, <2>2, <2>3, <1>1, <1>0 DEF TypePart
<1>4 ASSUME NEW m \in Names PROVE StoreInv(m)'
  <2>1 heap'[m] = heap[m] /\ ideal'[m] = ideal[m]  BY <1>1
  <2>2 CASE m \in Registrable \ Hists
    <3>1 gen'[m] = 1  BY <1>1, <1>2, <2>2
    <3> QED BY <3>1, <2>1, <2>2, <1>0 DEF StoreInv
  <2>3 CASE m \notin Registrable \ Hists
    <3>1 gen'[m] = gen[m]  BY <1>1, <2>3
    <3> QED BY <3>1, <2>1, <1>0, StoreFrame
  <2> QED BY <2>2, <2>3
<1>5 ASSUME NEW t \in Threads PROVE ThreadInv(t)'
  <2>1 (tn[t] \in Names /\ gen[tn[t]] = 1) => gen'[tn[t]] = 1  BY <1>1, <1>2
  <2> QED BY <2>1, <1>1, <1>0, ThreadFrame
<1> QED BY <1>3, <1>4, <1>5, SplitP

LEMMA AtomicInd == IndInv /\ AtomicNext => IndInv'
<1> SUFFICES ASSUME IndInv, AtomicNext PROVE IndInv'  OBVIOUS
<1>v \A v \in Vals \cup {0} : v \in Int  BY Const DEF ConstOK
<1>1 ASSUME NEW n \in Registrable, Register(n) PROVE IndInv'  BY <1>1, RegisterInd
<1>2 ASSUME RegisterAll PROVE IndInv'  BY <1>2, RegisterAllInd
<1>3 ASSUME NEW n \in Counters, Increment(n) \/ Count(n, 2) PROVE IndInv'
  <2>0 n \in Stored /\ "add" \in {"add", "set"} /\ 1 \in Int /\ 2 \in Int  BY Fams
  <2>1 CASE Increment(n)
    <3>1 Write(n, "add", 1)  BY <2>1 DEF Increment
    <3> QED BY <3>1, <2>0, WriteInd
  <2>2 CASE Count(n, 2)
    <3>1 Write(n, "add", 2)  BY <2>2 DEF Count
    <3> QED BY <3>1, <2>0, WriteInd
  <2> QED BY <1>3, <2>1, <2>2
<1>4 ASSUME NEW n \in UpDowns, Up(n) \/ Down(n) PROVE IndInv'
  <2>0 n \in Stored /\ "add" \in {"add", "set"} /\ 1 \in Int /\ 0 - 1 \in Int  BY Fams
  <2>1 CASE Up(n)
    <3>1 Write(n, "add", 1)  BY <2>1 DEF Up
    <3> QED BY <3>1, <2>0, WriteInd
  <2>2 CASE Down(n)
    <3>1 Write(n, "add", 0 - 1)  BY <2>2 DEF Down
    <3> QED BY <3>1, <2>0, WriteInd
  <2> QED BY <1>4, <2>1, <2>2
<1>5 ASSUME NEW n \in Gauges, NEW v \in Vals \cup {0}, Gauge(n, v) PROVE IndInv'
  BY <1>5, <1>v, Fams, WriteInd DEF Gauge
<1>6 ASSUME NEW n \in Stores, NEW v \in Vals, StoreVal(n, v) PROVE IndInv'
  BY <1>6, <1>v, Fams, WriteInd DEF StoreVal
<1>7 ASSUME NEW n \in Hists, NEW v \in Vals, Histogram(n, v) PROVE IndInv'
  <2>1 UNCHANGED <<reg, gen, heap, ideal, pc, tn, top, tk, tp, gotOK, ops>>  BY <1>7 DEF Histogram, store, thr
  <2> QED BY <2>1 DEF IndInv, ThreadInv
<1> QED BY <1>1, <1>2, <1>3, <1>4, <1>5, <1>6, <1>7 DEF AtomicNext

----------------------------------------------------------------------------
(* fine grain *)

\* a step of thread t that leaves the store alone: the other threads and all names are framed
LEMMA FineFrame == ASSUME IndInv, NEW t \in Threads, TypePart', ThreadInv(t)',
                          UNCHANGED <<gen, heap, ideal>>,
                          \A u \in Threads \ {t} : /\ pc'[u] = pc[u] /\ tn'[u] = tn[u] /\ top'[u] = top[u]
                                                   /\ tk'[u] = tk[u] /\ tp'[u] = tp[u] /\ gotOK'[u] = gotOK[u]
                   PROVE  IndInv'
<1>0 TypePart /\ (\A m \in Names : StoreInv(m)) /\ (\A u \in Threads : ThreadInv(u))  BY Split
<1>1 ASSUME NEW m \in Names PROVE StoreInv(m)'  BY <1>0, StoreFrame
<1>2 ASSUME NEW u \in Threads PROVE ThreadInv(u)'
  <2>1 CASE u = t  BY <2>1
  <2>2 CASE u # t  BY <2>2, <1>0, ThreadFrame
  <2> QED BY <2>1, <2>2
<1> QED BY <1>1, <1>2, SplitP

LEMMA BeginInd == ASSUME IndInv, NEW t \in Threads, NEW op \in {"add", "set", "reg", "get"}, NEW n \in Names, NEW k \in Int,
                         Begin(t, op, n, k),
                         op \in {"add", "set"} => (n \in Stored /\ (n \in Counters => (op = "add" /\ k >= 1))),
                         op = "reg" => n \in Registrable,
                         op = "get" => n \in Stored
                  PROVE  IndInv'
<1>0 TypePart /\ (\A m \in Names : StoreInv(m)) /\ (\A u \in Threads : ThreadInv(u))  BY Split
<1>1 /\ pc[t] = "idle" /\ ops < MaxOps /\ ops' = ops + 1
     /\ tn' = [tn EXCEPT ![t] = n] /\ top' = [top EXCEPT ![t] = op] /\ tk' = [tk EXCEPT ![t] = k]
     /\ pc' = [pc EXCEPT ![t] = CASE op = "reg" -> "regtype" [] op = "get" -> "getload" [] OTHER -> "load"]
     /\ UNCHANGED <<reg, gen, heap, ideal, tp, gotOK>>
  BY DEF Begin, Idle, Goto, store
<1>2 (CASE op = "reg" -> "regtype" [] op = "get" -> "getload" [] OTHER -> "load") \in {"regtype", "getload", "load"}
  OBVIOUS
<1>3 TypePart'  BY <1>0, <1>1, <1>2, Const DEF TypePart, PCs, TOPS, ConstOK
<1>4 ThreadInv(t)'
  <2>1 /\ pc'[t] = (CASE op = "reg" -> "regtype" [] op = "get" -> "getload" [] OTHER -> "load")
       /\ tn'[t] = n /\ top'[t] = op /\ tk'[t] = k /\ gotOK'[t] = gotOK[t] /\ gotOK[t]
    BY <1>0, <1>1 DEF TypePart, ThreadInv
  <2>2 CASE op = "reg"  BY <2>1, <2>2 DEF ThreadInv, PCs
  <2>3 CASE op = "get"  BY <2>1, <2>3 DEF ThreadInv, PCs
  <2>4 CASE op \in {"add", "set"}  BY <2>1, <2>4 DEF ThreadInv, PCs
  <2> QED BY <2>2, <2>3, <2>4
<1>5 \A u \in Threads \ {t} : /\ pc'[u] = pc[u] /\ tn'[u] = tn[u] /\ top'[u] = top[u]
                              /\ tk'[u] = tk[u] /\ tp'[u] = tp[u] /\ gotOK'[u] = gotOK[u]
  BY <1>0, <1>1 DEF TypePart
<1> QED BY <1>1, <1>3, <1>4, <1>5, FineFrame

LEMMA FineInd == IndInv /\ FineNext => IndInv'
<1> SUFFICES ASSUME IndInv, NEW t \in Threads,
                    \/ \E n \in Counters, k \in {1, 2} : Begin(t, "add", n, k)
                    \/ \E n \in UpDowns, k \in {1, 0 - 1} : Begin(t, "add", n, k)
                    \/ \E n \in Gauges \cup Stores, v \in Vals : Begin(t, "set", n, v)
                    \/ \E n \in Registrable : Begin(t, "reg", n, 0)
                    \/ \E n \in Stored : Begin(t, "get", n, 0)
                    \/ FLoad(t) \/ FLoadOrStore(t) \/ FApply(t)
                    \/ FRegType(t) \/ FRegStore(t) \/ FGetLoad(t) \/ FGetRead(t)
             PROVE  IndInv'
  BY DEF FineNext
<1>0 TypePart /\ (\A m \in Names : StoreInv(m)) /\ (\A u \in Threads : ThreadInv(u))  BY Split
<1>f /\ Counters \subseteq Stored /\ Gauges \subseteq Stored /\ UpDowns \subseteq Stored /\ Stores \subseteq Stored
     /\ Stored \subseteq Names /\ Registrable \subseteq Names /\ Stored \cap Hists = {} /\ 1 \in 1 .. MaxGen /\ RegisterReplaces = FALSE
     /\ Counters \cap UpDowns = {} /\ Counters \cap Gauges = {} /\ Counters \cap Stores = {}
  BY Fams, Const DEF ConstOK, Disjoint
<1>v \A v \in Vals : v \in Int  BY Const DEF ConstOK
<1>o \A u \in Threads \ {t} : TRUE  OBVIOUS
<1>1 ASSUME NEW n \in Counters, NEW k \in {1, 2}, Begin(t, "add", n, k) PROVE IndInv'
  <2>1 n \in Names /\ n \in Stored /\ k \in Int /\ k >= 1 /\ "add" \in {"add", "set", "reg", "get"}  BY <1>f
  <2>2 "add" \in {"add", "set"} => (n \in Stored /\ (n \in Counters => ("add" = "add" /\ k >= 1)))  BY <2>1
  <2>3 ("add" = "reg" => n \in Registrable) /\ ("add" = "get" => n \in Stored)  OBVIOUS
  <2> QED BY <1>1, <2>1, <2>2, <2>3, BeginInd
<1>2 ASSUME NEW n \in UpDowns, NEW k \in {1, 0 - 1}, Begin(t, "add", n, k) PROVE IndInv'
  BY <1>2, <1>f, BeginInd
<1>3 ASSUME NEW n \in Gauges \cup Stores, NEW v \in Vals, Begin(t, "set", n, v) PROVE IndInv'
  BY <1>3, <1>f, <1>v, BeginInd
<1>4 ASSUME NEW n \in Registrable, Begin(t, "reg", n, 0) PROVE IndInv'
  <2>1 n \in Names /\ 0 \in Int /\ "reg" \in {"add", "set", "reg", "get"}  BY <1>f
  <2>2 "reg" \in {"add", "set"} => (n \in Stored /\ (n \in Counters => ("reg" = "add" /\ 0 >= 1)))  OBVIOUS
  <2>3 ("reg" = "reg" => n \in Registrable) /\ ("reg" = "get" => n \in Stored)  OBVIOUS
  <2> QED BY <1>4, <2>1, <2>2, <2>3, BeginInd
<1>5 ASSUME NEW n \in Stored, Begin(t, "get", n, 0) PROVE IndInv'
  <2>1 n \in Names /\ 0 \in Int /\ "get" \in {"add", "set", "reg", "get"}  BY <1>f
  <2>2 "get" \in {"add", "set"} => (n \in Stored /\ (n \in Counters => ("get" = "add" /\ 0 >= 1)))  OBVIOUS
  <2>3 ("get" = "reg" => n \in Registrable) /\ ("get" = "get" => n \in Stored)  OBVIOUS
  <2> QED BY <1>5, <2>1, <2>2, <2>3, BeginInd
<1>6 ASSUME FLoad(t) PROVE IndInv'
  <2>1 /\ pc[t] = "load" /\ UNCHANGED <<reg, gen, heap, ideal, tn, top, tk, gotOK, ops>>
       /\ IF gen[tn[t]] # 0 THEN tp' = [tp EXCEPT ![t] = gen[tn[t]]] /\ pc' = [pc EXCEPT ![t] = "apply"]
                            ELSE UNCHANGED tp /\ pc' = [pc EXCEPT ![t] = "los"]
    BY <1>6 DEF FLoad, Goto, store
  <2>2 tn[t] \in Stored /\ tn[t] \in Names /\ (gen[tn[t]] = 0 \/ gen[tn[t]] = 1) /\ gen[tn[t]] \in Int
    BY <2>1, <1>0, <1>f DEF ThreadInv, StoreInv
  <2>3 TypePart'  BY <2>1, <2>2, <1>0 DEF TypePart, PCs
  <2>4 ThreadInv(t)'
    <3>1 CASE gen[tn[t]] # 0
      <4>1 pc'[t] = "apply" /\ tp'[t] = 1 /\ gen[tn[t]] = 1  BY <3>1, <2>1, <2>2, <1>0 DEF TypePart
      <4> QED BY <4>1, <2>1, <1>0 DEF ThreadInv, PCs
    <3>2 CASE gen[tn[t]] = 0
      <4>1 pc'[t] = "los"  BY <3>2, <2>1, <1>0 DEF TypePart
      <4> QED BY <4>1, <2>1, <1>0 DEF ThreadInv, PCs
    <3> QED BY <3>1, <3>2
  <2>5 \A u \in Threads \ {t} : /\ pc'[u] = pc[u] /\ tn'[u] = tn[u] /\ top'[u] = top[u]
                                /\ tk'[u] = tk[u] /\ tp'[u] = tp[u] /\ gotOK'[u] = gotOK[u]
    BY <2>1, <1>0 DEF TypePart
  <2> QED BY <2>1, <2>3, <2>4, <2>5, FineFrame
<1>7 ASSUME FLoadOrStore(t) PROVE IndInv'
  <2>1 /\ pc[t] = "los" /\ UNCHANGED <<reg, heap, ideal, tn, top, tk, gotOK, ops>>
       /\ gen' = [gen EXCEPT ![tn[t]] = EnsuredGen(tn[t])]
       /\ tp' = [tp EXCEPT ![t] = EnsuredGen(tn[t])]
       /\ pc' = [pc EXCEPT ![t] = "apply"]
    BY <1>7 DEF FLoadOrStore, Goto
  <2>2 tn[t] \in Stored /\ tn[t] \in Names /\ tn[t] \notin Hists /\ EnsuredGen(tn[t]) = 1
    BY <2>1, <1>0, <1>f DEF ThreadInv, StoreInv, EnsuredGen
  <2>3 TypePart'  BY <2>1, <2>2, <1>0 DEF TypePart, PCs
  <2>4 ASSUME NEW m \in Names PROVE StoreInv(m)'
    <3>1 CASE m = tn[t]
      <4>1 gen'[m] = 1 /\ heap'[m] = heap[m] /\ ideal'[m] = ideal[m]  BY <3>1, <2>1, <2>2, <1>0 DEF TypePart
      <4> QED BY <4>1, <3>1, <2>2, <1>0 DEF StoreInv
    <3>2 CASE m # tn[t]
      <4>1 gen'[m] = gen[m] /\ heap'[m] = heap[m] /\ ideal'[m] = ideal[m]  BY <3>2, <2>1, <1>0 DEF TypePart
      <4> QED BY <4>1, <1>0, StoreFrame
    <3> QED BY <3>1, <3>2
  <2>5 ASSUME NEW u \in Threads PROVE ThreadInv(u)'
    <3>0 \A m \in Names : gen[m] = 1 => gen'[m] = 1  BY <2>1, <2>2, <1>0 DEF TypePart
    <3>1 CASE u = t
      <4>1 pc'[t] = "apply" /\ tp'[t] = 1 /\ gen'[tn[t]] = 1 /\ tn'[t] = tn[t]  BY <2>1, <2>2, <1>0 DEF TypePart
      <4> QED BY <4>1, <3>1, <2>1, <1>0 DEF ThreadInv, PCs
    <3>2 CASE u # t
      <4>1 /\ pc'[u] = pc[u] /\ tn'[u] = tn[u] /\ top'[u] = top[u]
           /\ tk'[u] = tk[u] /\ tp'[u] = tp[u] /\ gotOK'[u] = gotOK[u]
        BY <3>2, <2>1, <1>0 DEF TypePart
      <4>2 (tn[u] \in Names /\ gen[tn[u]] = 1) => gen'[tn[u]] = 1  BY <3>0
      <4> QED BY <4>1, <4>2, <1>0, ThreadFrame
    <3> QED BY <3>1, <3>2
  <2> QED BY <2>3, <2>4, <2>5, SplitP
<1>8 ASSUME FApply(t) PROVE IndInv'
  <2>1 /\ pc[t] = "apply" /\ UNCHANGED <<reg, gen, tn, top, tk, tp, gotOK, ops>>
       /\ heap' = [heap EXCEPT ![tn[t]][tp[t]] = NewVal(top[t], heap[tn[t]][tp[t]], tk[t])]
       /\ ideal' = [ideal EXCEPT ![tn[t]] = NewVal(top[t], ideal[tn[t]], tk[t])]
       /\ pc' = [pc EXCEPT ![t] = "idle"]
    BY <1>8 DEF FApply, Goto
  <2>2 /\ tn[t] \in Stored /\ tn[t] \in Names /\ tp[t] = 1 /\ gen[tn[t]] = 1 /\ tk[t] \in Int
       /\ heap[tn[t]] \in [1 .. MaxGen -> Int] /\ heap[tn[t]][1] \in Int /\ ideal[tn[t]] \in Int
       /\ heap[tn[t]][1] = ideal[tn[t]]
    BY <2>1, <1>0, <1>f DEF ThreadInv, StoreInv, TypePart
  <2>3 NewVal(top[t], heap[tn[t]][1], tk[t]) \in Int /\ NewVal(top[t], ideal[tn[t]], tk[t]) \in Int
    BY <2>2 DEF NewVal
  <2>4 /\ heap'[tn[t]] = [heap[tn[t]] EXCEPT ![1] = NewVal(top[t], heap[tn[t]][1], tk[t])]
       /\ \A m \in Names : m # tn[t] => heap'[m] = heap[m]
    BY <2>1, <2>2, <1>0 DEF TypePart
  <2>5 TypePart'
    <3>1 DOMAIN heap' = Names  BY <2>1, <1>0 DEF TypePart
    <3>2 \A m \in Names : heap'[m] \in [1 .. MaxGen -> Int]  BY <2>4, <2>2, <2>3, <1>0 DEF TypePart
    <3> QED BY <3>1, <3>2, <2>1, <2>2, <2>3, <1>0 DEF TypePart, PCs
  <2>6 ASSUME NEW m \in Names PROVE StoreInv(m)'
    <3>1 CASE m = tn[t]
      <4>1 gen'[m] = 1 /\ heap'[m][1] = NewVal(top[t], heap[m][1], tk[t]) /\ ideal'[m] = NewVal(top[t], ideal[m], tk[t])
        BY <3>1, <2>1, <2>2, <2>4, <1>0, <1>f DEF TypePart
      <4> QED BY <4>1, <3>1, <2>2, <1>f DEF StoreInv
    <3>2 CASE m # tn[t]
      <4>1 gen'[m] = gen[m] /\ heap'[m] = heap[m] /\ ideal'[m] = ideal[m]  BY <3>2, <2>1, <2>4, <1>0 DEF TypePart
      <4> QED BY <4>1, <1>0, StoreFrame
    <3> QED BY <3>1, <3>2
  <2>7 ASSUME NEW u \in Threads PROVE ThreadInv(u)'
    <3>1 CASE u = t
      <4>1 pc'[t] = "idle" /\ gotOK'[t] = gotOK[t] /\ gotOK[t]  BY <2>1, <1>0 DEF TypePart, ThreadInv
      <4> QED BY <4>1, <3>1 DEF ThreadInv, PCs
    <3>2 CASE u # t
      <4>1 /\ pc'[u] = pc[u] /\ tn'[u] = tn[u] /\ top'[u] = top[u]
           /\ tk'[u] = tk[u] /\ tp'[u] = tp[u] /\ gotOK'[u] = gotOK[u] /\ gen' = gen
        BY <3>2, <2>1, <1>0 DEF TypePart
      <4> QED BY <4>1, <1>0, ThreadFrame
    <3> QED BY <3>1, <3>2
  <2> QED BY <2>5, <2>6, <2>7, SplitP
<1>9 ASSUME FRegType(t) PROVE IndInv'
  <2>1 /\ pc[t] = "regtype" /\ UNCHANGED <<gen, heap, ideal, tn, top, tk, tp, gotOK, ops>>
       /\ reg' = [reg EXCEPT ![tn[t]] = TRUE]
       /\ pc' = [pc EXCEPT ![t] = IF tn[t] \in Hists THEN "idle" ELSE "regstore"]
    BY <1>9 DEF FRegType, Goto
  <2>2 tn[t] \in Registrable /\ gotOK[t]  BY <2>1, <1>0 DEF ThreadInv
  <2>3 TypePart'  BY <2>1, <1>0 DEF TypePart, PCs
  <2>4 ThreadInv(t)'
    <3>1 pc'[t] = (IF tn[t] \in Hists THEN "idle" ELSE "regstore") /\ tn'[t] = tn[t] /\ gotOK'[t] = gotOK[t]
      BY <2>1, <1>0 DEF TypePart
    <3> QED BY <3>1, <2>2 DEF ThreadInv, PCs
  <2>5 \A u \in Threads \ {t} : /\ pc'[u] = pc[u] /\ tn'[u] = tn[u] /\ top'[u] = top[u]
                                /\ tk'[u] = tk[u] /\ tp'[u] = tp[u] /\ gotOK'[u] = gotOK[u]
    BY <2>1, <1>0 DEF TypePart
  <2> QED BY <2>1, <2>3, <2>4, <2>5, FineFrame
<1>10 ASSUME FRegStore(t) PROVE IndInv'
  <2>1 /\ pc[t] = "regstore" /\ UNCHANGED <<reg, ideal, tn, top, tk, tp, gotOK, ops>>
       /\ gen' = [gen EXCEPT ![tn[t]] = EnsuredGen(tn[t])]
       /\ heap' = heap
       /\ pc' = [pc EXCEPT ![t] = "idle"]
    BY <1>10, <1>f DEF FRegStore, Goto, RegGen, RegHeap
  <2>2 tn[t] \in Registrable /\ tn[t] \in Names /\ tn[t] \notin Hists /\ EnsuredGen(tn[t]) = 1 /\ gotOK[t]
    BY <2>1, <1>0, <1>f DEF ThreadInv, StoreInv, EnsuredGen
  <2>3 TypePart'  BY <2>1, <2>2, <1>0 DEF TypePart, PCs
  <2>4 ASSUME NEW m \in Names PROVE StoreInv(m)'
    <3>1 CASE m = tn[t]
      <4>1 gen'[m] = 1 /\ heap'[m] = heap[m] /\ ideal'[m] = ideal[m]  BY <3>1, <2>1, <2>2, <1>0 DEF TypePart
      <4> QED BY <4>1, <3>1, <2>2, <1>0 DEF StoreInv
    <3>2 CASE m # tn[t]
      <4>1 gen'[m] = gen[m] /\ heap'[m] = heap[m] /\ ideal'[m] = ideal[m]  BY <3>2, <2>1, <1>0 DEF TypePart
      <4> QED BY <4>1, <1>0, StoreFrame
    <3> QED BY <3>1, <3>2
  <2>5 ASSUME NEW u \in Threads PROVE ThreadInv(u)'
    <3>0 \A m \in Names : gen[m] = 1 => gen'[m] = 1  BY <2>1, <2>2, <1>0 DEF TypePart
    <3>1 CASE u = t
      <4>1 pc'[t] = "idle" /\ gotOK'[t] = gotOK[t]  BY <2>1, <1>0 DEF TypePart
      <4> QED BY <4>1, <3>1, <2>2 DEF ThreadInv, PCs
    <3>2 CASE u # t
      <4>1 /\ pc'[u] = pc[u] /\ tn'[u] = tn[u] /\ top'[u] = top[u]
           /\ tk'[u] = tk[u] /\ tp'[u] = tp[u] /\ gotOK'[u] = gotOK[u]
        BY <3>2, <2>1, <1>0 DEF TypePart
      <4>2 (tn[u] \in Names /\ gen[tn[u]] = 1) => gen'[tn[u]] = 1  BY <3>0
      <4> QED BY <4>1, <4>2, <1>0, ThreadFrame
    <3> QED BY <3>1, <3>2
  <2> QED BY <2>3, <2>4, <2>5, SplitP
<1>11 ASSUME FGetLoad(t) PROVE IndInv'
  <2>1 /\ pc[t] = "getload" /\ UNCHANGED <<reg, gen, heap, ideal, tn, top, tk, ops>>
       /\ IF gen[tn[t]] = 0
            THEN /\ gotOK' = [gotOK EXCEPT ![t] = (ideal[tn[t]] = 0)]
                 /\ UNCHANGED tp /\ pc' = [pc EXCEPT ![t] = "idle"]
            ELSE /\ tp' = [tp EXCEPT ![t] = gen[tn[t]]] /\ UNCHANGED gotOK /\ pc' = [pc EXCEPT ![t] = "getread"]
    BY <1>11 DEF FGetLoad, Goto, store
  <2>2 tn[t] \in Stored /\ tn[t] \in Names /\ (gen[tn[t]] = 0 \/ gen[tn[t]] = 1) /\ gen[tn[t]] \in Int /\ gotOK[t]
       /\ (gen[tn[t]] = 0 => ideal[tn[t]] = 0)
    BY <2>1, <1>0, <1>f DEF ThreadInv, StoreInv
  <2>3 TypePart'  BY <2>1, <2>2, <1>0 DEF TypePart, PCs
  <2>4 ThreadInv(t)'
    <3>1 CASE gen[tn[t]] = 0
      <4>1 pc'[t] = "idle" /\ gotOK'[t] = TRUE  BY <3>1, <2>1, <2>2, <1>0 DEF TypePart
      <4> QED BY <4>1 DEF ThreadInv, PCs
    <3>2 CASE gen[tn[t]] # 0
      <4>1 pc'[t] = "getread" /\ tp'[t] = 1 /\ gen'[tn'[t]] = 1 /\ tn'[t] = tn[t] /\ gotOK'[t] = gotOK[t]
        BY <3>2, <2>1, <2>2, <1>0 DEF TypePart
      <4> QED BY <4>1, <2>2 DEF ThreadInv, PCs
    <3> QED BY <3>1, <3>2
  <2>5 \A u \in Threads \ {t} : /\ pc'[u] = pc[u] /\ tn'[u] = tn[u] /\ top'[u] = top[u]
                                /\ tk'[u] = tk[u] /\ tp'[u] = tp[u] /\ gotOK'[u] = gotOK[u]
    BY <2>1, <1>0 DEF TypePart
  <2> QED BY <2>1, <2>3, <2>4, <2>5, FineFrame
<1>12 ASSUME FGetRead(t) PROVE IndInv'
  <2>1 /\ pc[t] = "getread" /\ UNCHANGED <<reg, gen, heap, ideal, tn, top, tk, tp, ops>>
       /\ gotOK' = [gotOK EXCEPT ![t] = (heap[tn[t]][tp[t]] = ideal[tn[t]])]
       /\ pc' = [pc EXCEPT ![t] = "idle"]
    BY <1>12 DEF FGetRead, Goto, store
  <2>2 tn[t] \in Names /\ tp[t] = 1 /\ gen[tn[t]] = 1 /\ heap[tn[t]][1] = ideal[tn[t]]
    BY <2>1, <1>0, <1>f DEF ThreadInv, StoreInv
  <2>3 TypePart'  BY <2>1, <2>2, <1>0 DEF TypePart, PCs
  <2>4 ThreadInv(t)'
    <3>1 pc'[t] = "idle" /\ gotOK'[t] = TRUE  BY <2>1, <2>2, <1>0 DEF TypePart
    <3> QED BY <3>1 DEF ThreadInv, PCs
  <2>5 \A u \in Threads \ {t} : /\ pc'[u] = pc[u] /\ tn'[u] = tn[u] /\ top'[u] = top[u]
                                /\ tk'[u] = tk[u] /\ tp'[u] = tp[u] /\ gotOK'[u] = gotOK[u]
    BY <2>1, <1>0 DEF TypePart
  <2> QED BY <2>1, <2>3, <2>4, <2>5, FineFrame
<1> QED BY <1>1, <1>2, <1>3, <1>4, <1>5, <1>6, <1>7, <1>8, <1>9, <1>10, <1>11, <1>12

----------------------------------------------------------------------------
THEOREM StepInd == /\ IndInv /\ [AtomicNext]_vars => IndInv'
                   /\ IndInv /\ [FineNext]_vars => IndInv'
<1>1 ASSUME IndInv, UNCHANGED vars PROVE IndInv'
  <2>1 UNCHANGED <<reg, gen, heap, ideal, pc, tn, top, tk, tp, gotOK, ops>>  BY <1>1 DEF vars, store, thr
  <2> QED BY <1>1, <2>1 DEF IndInv, ThreadInv
<1> QED BY <1>1, AtomicInd, FineInd

THEOREM IndSafe == IndInv => Safety
<1> SUFFICES ASSUME IndInv PROVE Safety  OBVIOUS
<1>0 TypePart /\ (\A m \in Names : StoreInv(m)) /\ (\A u \in Threads : ThreadInv(u))  BY Split
<1>m MaxGen \in Int /\ MaxGen >= 1  BY Const DEF ConstOK
<1>1 TypeOK
  <2>1 gen \in [Names -> 0 .. MaxGen]  BY <1>0, <1>m DEF TypePart, StoreInv
  <2>2 \A n \in Names : DOMAIN heap[n] = 1 .. MaxGen  BY <1>0 DEF TypePart
  <2>3 \A n \in Hists : gen[n] = 0  BY <1>0, Fams DEF StoreInv
  <2>4 \A t \in Threads : pc[t] \in {"idle", "load", "los", "apply", "regtype", "regstore", "getload", "getread"}
    BY <1>0 DEF TypePart, PCs
  <2> QED BY <2>1, <2>2, <2>3, <2>4, <1>0 DEF TypeOK, TypePart
<1>2 ReadBack  BY <1>0 DEF ReadBack, CurVal, StoreInv
<1>3 SingleCell  BY <1>0 DEF SingleCell, StoreInv
<1>4 GetLinearizable  BY <1>0 DEF GetLinearizable, ThreadInv
<1> QED BY <1>1, <1>2, <1>3, <1>4 DEF Safety

\* C33 "a counter never decreases", both grains.  By ReadBack before and after the step the value read
\* is the ghost, and the ghost of a counter only moves by Increment / Count(2) / an Apply of an add with k >= 1.
THEOREM StepMono == IndInv /\ (AtomicNext \/ FineNext) => CounterMonotoneStep
<1> SUFFICES ASSUME IndInv, AtomicNext \/ FineNext, NEW c \in Counters PROVE CurVal(c)' >= CurVal(c)
  BY DEF CounterMonotoneStep
<1>0 TypePart /\ (\A m \in Names : StoreInv(m)) /\ (\A u \in Threads : ThreadInv(u))  BY Split
<1>1 IndInv'  BY AtomicInd, FineInd
<1>2 c \in Names /\ c \in Stored /\ c \notin UpDowns /\ c \notin Gauges /\ c \notin Stores /\ c \notin Hists
  BY Fams, Const DEF ConstOK, Disjoint
<1>3 CurVal(c) = ideal[c] /\ ideal[c] \in Int  BY <1>0, <1>2 DEF CurVal, StoreInv, TypePart
<1>4 CurVal(c)' = ideal'[c] /\ ideal'[c] \in Int
  <2>1 TypePart' /\ StoreInv(c)'  BY <1>1, <1>2, SplitP
  <2> QED BY <2>1, <1>2 DEF CurVal, StoreInv, TypePart
<1>5 SUFFICES ideal'[c] >= ideal[c]  BY <1>3, <1>4
\* a Write to another family leaves the counter's ghost alone; a Write to c adds k >= 1
<1>6 ASSUME NEW n \in Names, NEW op \in {"add", "set"}, NEW k \in Int, Write(n, op, k), n = c => (op = "add" /\ k >= 1)
     PROVE  ideal'[c] >= ideal[c]
  <2>1 ideal' = [ideal EXCEPT ![n] = NewVal(op, ideal[n], k)]  BY <1>6 DEF Write
  <2>2 CASE n = c  BY <2>1, <2>2, <1>6, <1>3, <1>2, <1>0 DEF NewVal, TypePart
  <2>3 CASE n # c  BY <2>1, <2>3, <1>3, <1>2, <1>0 DEF TypePart
  <2> QED BY <2>2, <2>3
<1>f /\ Counters \subseteq Names /\ UpDowns \subseteq Names /\ Gauges \subseteq Names /\ Stores \subseteq Names
  BY Fams
<1>v \A v \in Vals \cup {0} : v \in Int  BY Const DEF ConstOK
<1>7 CASE AtomicNext
  <2>1 ASSUME NEW n \in Registrable, Register(n) PROVE ideal'[c] >= ideal[c]  BY <2>1, <1>3 DEF Register
  <2>2 ASSUME RegisterAll PROVE ideal'[c] >= ideal[c]  BY <2>2, <1>3 DEF RegisterAll
  <2>3 ASSUME NEW n \in Counters, Increment(n) \/ Count(n, 2) PROVE ideal'[c] >= ideal[c]
    <3>1 CASE Increment(n)  BY <3>1, <1>6, <1>f DEF Increment
    <3>2 CASE Count(n, 2)  BY <3>2, <1>6, <1>f DEF Count
    <3> QED BY <2>3, <3>1, <3>2
  <2>4 ASSUME NEW n \in UpDowns, Up(n) \/ Down(n) PROVE ideal'[c] >= ideal[c]
    <3>0 n # c /\ n \in Names /\ 0 - 1 \in Int  BY <1>2, <1>f
    <3>1 CASE Up(n)  BY <3>0, <3>1, <1>6 DEF Up
    <3>2 CASE Down(n)  BY <3>0, <3>2, <1>6 DEF Down
    <3> QED BY <2>4, <3>1, <3>2
  <2>5 ASSUME NEW n \in Gauges, NEW v \in Vals \cup {0}, Gauge(n, v) PROVE ideal'[c] >= ideal[c]
    <3>0 n # c /\ n \in Names /\ v \in Int  BY <1>2, <1>f, <1>v
    <3> QED BY <3>0, <2>5, <1>6 DEF Gauge
  <2>6 ASSUME NEW n \in Stores, NEW v \in Vals, StoreVal(n, v) PROVE ideal'[c] >= ideal[c]
    <3>0 n # c /\ n \in Names /\ v \in Int  BY <1>2, <1>f, <1>v
    <3> QED BY <3>0, <2>6, <1>6 DEF StoreVal
  <2>7 ASSUME NEW n \in Hists, NEW v \in Vals, Histogram(n, v) PROVE ideal'[c] >= ideal[c]
    BY <2>7, <1>3 DEF Histogram, store
  <2> QED BY <1>7, <2>1, <2>2, <2>3, <2>4, <2>5, <2>6, <2>7 DEF AtomicNext
<1>8 CASE FineNext
  <2> SUFFICES ASSUME NEW t \in Threads,
                      \/ \E n \in Counters, k \in {1, 2} : Begin(t, "add", n, k)
                      \/ \E n \in UpDowns, k \in {1, 0 - 1} : Begin(t, "add", n, k)
                      \/ \E n \in Gauges \cup Stores, v \in Vals : Begin(t, "set", n, v)
                      \/ \E n \in Registrable : Begin(t, "reg", n, 0)
                      \/ \E n \in Stored : Begin(t, "get", n, 0)
                      \/ FLoad(t) \/ FLoadOrStore(t) \/ FApply(t)
                      \/ FRegType(t) \/ FRegStore(t) \/ FGetLoad(t) \/ FGetRead(t)
               PROVE  ideal'[c] >= ideal[c]
    BY <1>8 DEF FineNext
  <2>1 ASSUME NEW op, NEW n, NEW k, Begin(t, op, n, k) PROVE ideal'[c] >= ideal[c]
    BY <2>1, <1>3 DEF Begin, store
  <2>2 ASSUME FLoad(t) \/ FGetLoad(t) \/ FGetRead(t) PROVE ideal'[c] >= ideal[c]
    BY <2>2, <1>3 DEF FLoad, FGetLoad, FGetRead, store
  <2>3 ASSUME FLoadOrStore(t) \/ FRegType(t) \/ FRegStore(t) PROVE ideal'[c] >= ideal[c]
    BY <2>3, <1>3 DEF FLoadOrStore, FRegType, FRegStore
  <2>4 ASSUME FApply(t) PROVE ideal'[c] >= ideal[c]
    <3>1 /\ pc[t] = "apply" /\ ideal' = [ideal EXCEPT ![tn[t]] = NewVal(top[t], ideal[tn[t]], tk[t])]
      BY <2>4 DEF FApply
    <3>2 /\ tk[t] \in Int /\ (tn[t] \in Counters => (top[t] = "add" /\ tk[t] >= 1))  BY <3>1, <1>0 DEF ThreadInv
    <3>3 CASE tn[t] = c  BY <3>1, <3>2, <3>3, <1>3, <1>2, <1>0 DEF NewVal, TypePart
    <3>4 CASE tn[t] # c  BY <3>1, <3>4, <1>3, <1>2, <1>0 DEF TypePart
    <3> QED BY <3>3, <3>4
  <2> QED BY <2>1, <2>2, <2>3, <2>4
<1> QED BY <1>7, <1>8

THEOREM Unbounded == /\ Spec => []Safety
                     /\ SpecFine => []Safety
<1>1 Init => IndInv  BY InitInd
<1>2 IndInv /\ [AtomicNext]_vars => IndInv'  BY StepInd
<1>3 IndInv /\ [FineNext]_vars => IndInv'  BY StepInd
<1>4 IndInv => Safety  BY IndSafe
<1>5 Spec => []Safety  BY <1>1, <1>2, <1>4, PTL DEF Spec
<1>6 SpecFine => []Safety  BY <1>1, <1>3, <1>4, PTL DEF SpecFine
<1> QED BY <1>5, <1>6
=============================================================================
