//go:build verif

package transmit

// Concurrent stage of property C26 (run with -race). The transition tour of
// c26_transmission_test.go issues environment actions one at a time; this
// driver covers what no sequence of completed calls can show: several
// goroutines enqueue while another one advances the fake clock (so that the
// stale-dispatch goroutine runs passes in between), servers answer by a seeded
// script, then Stop(). Many short rounds, a fresh DirectTransmission each.
//
// The oracle is the invariants of spec/Transmission.tla evaluated at the one
// point that is quiescent by construction - after Stop() has returned:
//   Conservation / ExactlyOneBatch  every enqueued event id was received by a
//                     server in exactly one batch (a second attempt carries the
//                     same events to the same place)
//   OwnDestination    and that server/key/dataset is the event's own
//   CountWithinLimit  no request holds more than MaxBatchSize events
//   AtMostTwice       at most two attempts, the second only after 429/503
//                     (Retry-After 1) or a timeout
//   StopFlushes + GaugeExact  every event has exactly one outcome: the gauge is
//                     0, Downs = events, response_20x / response_errors equal
//                     what the scripted answers imply
// Nothing is asserted about timing. Race windows are widened only at the
// collaborator boundaries the transmission itself calls: the clock's Now()
// and the metrics' Up/Down/Histogram yield the processor.

import (
	"encoding/json"
	"fmt"
	"math/rand"
	"os"
	"runtime"
	"sort"
	"strconv"
	"sync"
	"testing"
	"time"

	"github.com/jonboulle/clockwork"

	"github.com/honeycombio/refinery/metrics"
	"github.com/honeycombio/refinery/types"
)

// c26YieldClock is the fake clock with a Now() that lets other goroutines run.
type c26YieldClock struct{ *clockwork.FakeClock }

func (c c26YieldClock) Now() time.Time {
	runtime.Gosched()
	t := c.FakeClock.Now()
	runtime.Gosched()
	return t
}

// c26YieldMetrics yields around the calls the transmission makes on its hot paths.
type c26YieldMetrics struct{ *c26Metrics }

func (m c26YieldMetrics) Up(name string)                   { runtime.Gosched(); m.c26Metrics.Up(name) }
func (m c26YieldMetrics) Down(name string)                 { runtime.Gosched(); m.c26Metrics.Down(name) }
func (m c26YieldMetrics) Histogram(name string, v float64) { runtime.Gosched(); m.c26Metrics.Histogram(name, v) }

var _ metrics.Metrics = c26YieldMetrics{}

type c26ConcViolation struct {
	Round  int            `json:"round"`
	Seed   int64          `json:"seed"`
	Params map[string]any `json:"params"`
	What   []string       `json:"what"`
}

var c26ConcDests = []map[string]any{
	{"host": "h1", "key": "k1", "ds": "d1"},
	{"host": "h1", "key": "k1", "ds": "d 2/x%"},
	{"host": "h1", "key": "k2", "ds": "d1"},
	{"host": "h2", "key": "k1", "ds": "d1"},
}

// c26ConcRound runs one round and returns the invariants that do not hold.
func c26ConcRound(seed int64) (params map[string]any, what []string, err error) {
	rng := rand.New(rand.NewSource(seed))
	nDest := 2 + rng.Intn(3)
	nProd := 2 + rng.Intn(3)
	perProd := 3 + rng.Intn(8)
	maxBatch := 1 + rng.Intn(3)
	faultPct := []int{0, 0, 10, 25}[rng.Intn(4)]
	params = map[string]any{"dests": nDest, "producers": nProd, "perProducer": perProd, "maxBatch": maxBatch, "faultPct": faultPct}

	sig := make(c26Signal, 1)
	fc := clockwork.NewFakeClockAt(c26T0)
	met := c26NewMetrics(sig)
	lg := &c26Logger{errIDs: map[int]bool{}}
	c26WalkSeq++
	wd := &c26World{seen: map[string]int{}, sig: sig, clock: fc, id: "c" + strconv.Itoa(c26WalkSeq), auto: true}
	var smu sync.Mutex
	srng := rand.New(rand.NewSource(seed ^ 0x5eed))
	wd.script = func(r *c26Req) string {
		smu.Lock()
		defer smu.Unlock()
		if srng.Intn(100) >= faultPct {
			return "ok"
		}
		return []string{"short", "evErr", "e500", "r429_1", "r503_1", "timeout", "ok_m"}[srng.Intn(7)]
	}
	c26Cur.Store(wd)

	dt := NewDirectTransmission(types.TransmitTypeUpstream, c26Tr, maxBatch, 4*c26Unit, time.Hour, false, map[string]string{"X-C26-Walk": wd.id})
	dt.Clock = c26YieldClock{fc}
	dt.Logger = lg
	dt.Metrics = c26YieldMetrics{met}
	dt.Config = c26Cfg
	dt.Version = "verif"
	if err := dt.Start(); err != nil {
		return params, nil, err
	}

	// events are built before the race starts; ids are unique within the round
	type plan struct {
		ev   *types.Event
		id   int
		dest int
	}
	plans := make([][]plan, nProd)
	destOf := map[int]int{}
	id := 0
	for p := range plans {
		for i := 0; i < perProd; i++ {
			id++
			d := rng.Intn(nDest)
			ev, err := c26Sized(id, c26ConcDests[d], 200)
			if err != nil {
				return params, nil, err
			}
			plans[p] = append(plans[p], plan{ev: ev, id: id, dest: d})
			destOf[id] = d
		}
	}
	total := id

	// the clock runs (one stale-ticker period per step) from before the first
	// enqueue until Stop has returned; it also wakes Retry-After sleepers
	stopClock := make(chan struct{})
	clockDone := make(chan struct{})
	go func() {
		defer close(clockDone)
		for {
			select {
			case <-stopClock:
				return
			default:
			}
			fc.Advance(c26Unit)
			runtime.Gosched()
		}
	}()
	var wg sync.WaitGroup
	for p := range plans {
		wg.Add(1)
		go func(mine []plan) {
			defer wg.Done()
			for _, pl := range mine {
				dt.EnqueueEvent(pl.ev)
				runtime.Gosched()
			}
		}(plans[p])
	}
	wg.Wait()
	stopped := make(chan struct{})
	go func() { dt.Stop(); close(stopped) }()
	select {
	case <-stopped:
	case <-time.After(60 * time.Second):
		close(stopClock)
		return params, nil, fmt.Errorf("Stop did not return within 60 s (seed %d)", seed)
	}
	close(stopClock)
	<-clockDone

	// ---- the invariants at quiescence ----
	wd.mu.Lock()
	log := append([]*c26Req{}, wd.log...)
	wd.mu.Unlock()
	type batch struct {
		ids      []int
		attempts []string
		dest     string
	}
	batches := map[string]*batch{}
	inBatch := map[int][]string{}
	var order []string
	for _, r := range log {
		if r.note != "" {
			what = append(what, "malformed request: "+r.note)
		}
		ids := append([]int{}, r.ids...)
		sort.Ints(ids)
		dest := fmt.Sprintf("%s|%s|%s", r.host, r.key, r.ds)
		k := fmt.Sprint(dest, ids)
		b := batches[k]
		if b == nil {
			b = &batch{ids: ids, dest: dest}
			batches[k] = b
			order = append(order, k)
			for _, e := range ids {
				inBatch[e] = append(inBatch[e], k)
			}
		}
		b.attempts = append(b.attempts, r.answer)
		if len(ids) > maxBatch || len(ids) == 0 {
			what = append(what, fmt.Sprintf("CountWithinLimit: request with %d events, MaxBatchSize %d", len(ids), maxBatch))
		}
		for _, e := range ids {
			d, ok := destOf[e]
			if !ok {
				what = append(what, fmt.Sprintf("event %d was never enqueued", e))
				continue
			}
			t := c26ConcDests[d]
			if own := fmt.Sprintf("%s|%s|%s", t["host"], t["key"], t["ds"]); own != dest {
				what = append(what, fmt.Sprintf("OwnDestination: event %d of %s was sent to %s", e, own, dest))
			}
		}
	}
	for e := 1; e <= total; e++ {
		switch n := len(inBatch[e]); {
		case n == 0:
			what = append(what, fmt.Sprintf("Conservation/StopFlushes: event %d (destination %d) was enqueued but no server ever received it", e, destOf[e]))
		case n > 1:
			what = append(what, fmt.Sprintf("ExactlyOneBatch: event %d was placed in %d different batches", e, n))
		}
	}
	wantOK, wantErr, wantRetries := 0, 0, 0
	for _, k := range order {
		b := batches[k]
		n := len(b.ids)
		if len(b.attempts) > 2 {
			what = append(what, fmt.Sprintf("AtMostTwice: batch %v attempted %d times", b.ids, len(b.attempts)))
			continue
		}
		if len(b.attempts) == 2 {
			wantRetries++
			if a := b.attempts[0]; a != "r429_1" && a != "r503_1" && a != "timeout" {
				what = append(what, fmt.Sprintf("AtMostTwice: batch %v attempted again after %q", b.ids, a))
			}
		}
		switch last := b.attempts[len(b.attempts)-1]; last {
		case "ok", "ok_m":
			wantOK += n
		case "short", "evErr":
			wantOK += n - 1
			wantErr++
		case "timeout": // second timeout: the batch fails as a whole, no per-event counter
		default: // e500, or a throttle answer that was not (or no longer) retried
			wantErr += n
		}
		if last := b.attempts[len(b.attempts)-1]; len(b.attempts) == 1 && (last == "r429_1" || last == "r503_1" || last == "timeout") {
			// the statement allows giving up after one attempt; the counters then are those of a final answer (above)
			_ = last
		}
	}
	k := dt.metricKeys
	if g := met.read(met.upd, k.updownQueuedItems); g != 0 {
		what = append(what, fmt.Sprintf("GaugeExact: queued-items gauge is %d after Stop returned", g))
	}
	if d := met.read(met.down, k.updownQueuedItems); d != total {
		what = append(what, fmt.Sprintf("outcomes: %d events enqueued, %d outcomes (gauge Downs)", total, d))
	}
	if len(what) == 0 { // the per-outcome counters only mean something when the batches are sound
		if g := met.read(met.ctr, k.counterResponse20x); g != wantOK {
			what = append(what, fmt.Sprintf("outcomes: response_20x is %d, the servers accepted %d events", g, wantOK))
		}
		if g := met.read(met.ctr, k.counterResponseErrors); g != wantErr {
			what = append(what, fmt.Sprintf("outcomes: response_errors is %d, the servers' answers imply %d", g, wantErr))
		}
	}
	params["events"] = total
	params["requests"] = len(log)
	params["retries"] = wantRetries
	return params, what, nil
}

func TestVerifC26Concurrent(t *testing.T) {
	c26Setup()
	seed, _ := strconv.ParseInt(os.Getenv("VERIF_SEED"), 10, 64)
	budget, _ := strconv.ParseFloat(os.Getenv("VERIF_BUDGET_S"), 64)
	if budget == 0 {
		budget = 15
	}
	out := map[string]any{}
	var viol []c26ConcViolation
	var samples []any
	rounds, retried := 0, 0
	shapes := map[string]bool{}
	deadline := time.Now().Add(time.Duration(budget * float64(time.Second)))
	if rp := os.Getenv("VERIF_REPLAY"); rp != "" {
		var rf struct {
			Violation c26ConcViolation `json:"violation"`
		}
		if raw, err := os.ReadFile(rp); err == nil && json.Unmarshal(raw, &rf) == nil && rf.Violation.Seed != 0 {
			seed = rf.Violation.Seed / 1000003
		}
	}
	for time.Now().Before(deadline) && len(viol) < 3 {
		rs := seed*1000003 + int64(rounds)
		params, what, err := c26ConcRound(rs)
		if err != nil {
			out["error"] = err.Error()
			break
		}
		rounds++
		shapes[fmt.Sprint(params["dests"], params["producers"], params["perProducer"], params["maxBatch"], params["faultPct"])] = true
		if r, _ := params["retries"].(int); r > 0 {
			retried++
		}
		if len(what) > 0 {
			if len(what) > 6 {
				what = what[:6]
			}
			viol = append(viol, c26ConcViolation{Round: rounds, Seed: rs, Params: params, What: what})
		} else if len(samples) < 2 {
			samples = append(samples, params)
		}
	}
	c26Cur.Store(nil)
	out["evaluations"] = rounds
	out["distinct"] = len(shapes)
	out["traces"] = rounds
	out["violations"] = viol
	out["samples"] = samples
	out["note"] = fmt.Sprintf("%d rounds, %d with at least one retried batch", rounds, retried)
	raw, _ := json.Marshal(out)
	if err := os.WriteFile(os.Getenv("VERIF_OUT"), raw, 0o644); err != nil {
		t.Fatal(err)
	}
}
