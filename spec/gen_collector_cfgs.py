#!/usr/bin/env python3
"""Generates the MCCollector<Family>.tla modules and MC_Collector_<family>[_q].cfg files
(one configuration family per property group of Collector.tla, quick and thorough bounds).
Run from /verif/spec:  python3 gen_collector_cfgs.py      (outputs are committed)"""

CFG0 = dict(dryRun=False, addReason=True, addCounts=False, addSpanCount=False, addHost=False, attrs="")


def tla(v):
    if isinstance(v, bool):
        return "TRUE" if v else "FALSE"
    if isinstance(v, int):
        return str(v)
    if isinstance(v, str):
        return '"' + v + '"'
    if isinstance(v, dict):
        return "[" + ", ".join(f"{k} |-> {tla(x)}" for k, x in v.items()) + "]"
    if isinstance(v, (set, frozenset)):
        return "{" + ", ".join(sorted(tla(x) for x in v)) + "}"
    if isinstance(v, (list, tuple)):
        return "<<" + ", ".join(tla(x) for x in v) + ">>"
    raise TypeError(v)


def shape(kind="span", root=False, crate=0):
    return dict(kind=kind, root=root, crate=crate)


def fn(d):
    """TLA+ function with string domain from a dict."""
    return "(" + " @@ ".join(f"{tla(k)} :> {tla(v)}" for k, v in d.items()) + ")"


K2 = dict(keep=True, rate=2)
K3 = dict(keep=True, rate=3)
D3 = dict(keep=False, rate=3)
D2 = dict(keep=False, rate=2)
K1 = dict(keep=True, rate=1)

FAMILIES = {
    # C01 / C02: two workers, roots and children, late spans, a rules reload that flips tB
    "Core": dict(
        comment="C01/C02: 2 workers x 2 traces, roots/children, late spans, rules reload flipping tB's verdict",
        workerOf={"tA": 0, "tB": 1}, verdicts=[{"tA": K2, "tB": K2}, {"tA": K3, "tB": D3}],
        reasons=["deterministic/chance", "deterministic/chance"],
        shapes=[shape(), shape(root=True)], cfgs=[CFG0], init=CFG0, eject=[], stress=[],
        consts=dict(TraceTimeout=2, SendDelay=1, SpanLimit=0, MaxExpired=0),
        thorough=dict(MaxSpans=3, MaxNow=4), quick=dict(MaxSpans=2, MaxNow=3)),
    # C02/C03: one worker, backlog (MaxExpired = 1), span limit
    "Backlog": dict(
        comment="C02/C03: 1 worker x 3 traces, MaxExpired = 1 (backlog, earliest deadline first), SpanLimit = 1",
        workerOf={"tA": 0, "tB": 0, "tC": 0}, verdicts=[{"tA": K2, "tB": D2, "tC": K2}],
        reasons=["deterministic/chance"],
        shapes=[shape(), shape(root=True)], cfgs=[CFG0], init=CFG0, eject=[], stress=[],
        consts=dict(TraceTimeout=2, SendDelay=1, SpanLimit=1, MaxExpired=1),
        thorough=dict(MaxSpans=2, MaxNow=4), quick=dict(MaxSpans=2, MaxNow=3, ArriveUntil=1)),
    # C03: SendDelay longer than TraceTimeout (deadline never raised), limit 1
    "Timing": dict(
        comment="C03: SendDelay (3) > TraceTimeout (2): a root after the first span must not push the deadline later; SpanLimit = 1",
        workerOf={"tA": 0, "tB": 0}, verdicts=[{"tA": K2, "tB": D2}],
        reasons=["deterministic/chance"],
        shapes=[shape(), shape(root=True)], cfgs=[CFG0], init=CFG0, eject=[], stress=[],
        consts=dict(TraceTimeout=2, SendDelay=3, SpanLimit=1, MaxExpired=0),
        thorough=dict(MaxSpans=3, MaxNow=5), quick=dict(MaxSpans=2, MaxNow=4)),
    # C03: everything unset -> built-in defaults (60 s, 2 s), MaxExpired 0 = unlimited. 1 tick = 1 s.
    "Defaults": dict(
        comment="C03: TraceTimeout = SendDelay = SpanLimit = MaxExpired = 0: the 60 s / 2 s defaults; spans arrive in the first ticks only",
        workerOf={"tA": 0, "tB": 0}, verdicts=[{"tA": K2, "tB": K2}],
        reasons=["deterministic/chance"],
        shapes=[shape(), shape(root=True)], cfgs=[CFG0], init=CFG0, eject=[], stress=[],
        consts=dict(TraceTimeout=0, SendDelay=0, SpanLimit=0, MaxExpired=0),
        thorough=dict(MaxSpans=2, MaxNow=62, ArriveUntil=2), quick=dict(MaxSpans=2, MaxNow=62, ArriveUntil=1)),
    # C04: client rates x sampler rates x on-time / late / stress paths
    "Rates": dict(
        comment="C04: client rates {0,1,3} x sampler rates {2,3} x on-time / late / stress-relief paths, no dry run",
        workerOf={"tA": 0, "tB": 0}, verdicts=[{"tA": K2, "tB": D2}, {"tA": K3, "tB": D3}],
        reasons=["deterministic/chance", "deterministic/chance"],
        shapes=[shape(crate=0), shape(crate=3), shape(root=True, crate=1)], cfgs=[CFG0], init=CFG0, eject=[],
        stress=[dict(keep=True, rate=5), dict(keep=False, rate=5)],
        consts=dict(TraceTimeout=2, SendDelay=1, SpanLimit=0, MaxExpired=0),
        thorough=dict(MaxSpans=2, MaxNow=3), quick=dict(MaxSpans=2, MaxNow=2, ArriveUntil=0)),
    # C05: dry run on throughout
    "DryRun": dict(
        comment="C05: DryRun on: every span forwarded with the client's rate and the would-be decision; late spans of kept and dropped traces",
        workerOf={"tA": 0, "tB": 1}, verdicts=[{"tA": K2, "tB": D2}, {"tA": D3, "tB": D3}],
        reasons=["deterministic/chance", "deterministic/chance"],
        shapes=[shape(crate=0), shape(crate=3), shape(root=True, crate=0)],
        cfgs=[dict(CFG0, dryRun=True)], init=dict(CFG0, dryRun=True), eject=[1], stress=[],
        consts=dict(TraceTimeout=2, SendDelay=1, SpanLimit=0, MaxExpired=0),
        thorough=dict(MaxSpans=3, MaxNow=3), quick=dict(MaxSpans=2, MaxNow=3)),
    # C05: dry run toggled by reload in the middle of a trace
    "DryToggle": dict(
        comment="C05/C06: DryRun toggled by reload between any two steps",
        workerOf={"tA": 0, "tB": 0}, verdicts=[{"tA": K2, "tB": D2}],
        reasons=["deterministic/chance"],
        shapes=[shape(), shape(root=True, crate=3)],
        cfgs=[CFG0, dict(CFG0, dryRun=True)], init=CFG0, eject=[], stress=[],
        consts=dict(TraceTimeout=2, SendDelay=1, SpanLimit=0, MaxExpired=0),
        thorough=dict(MaxSpans=3, MaxNow=3), quick=dict(MaxSpans=2, MaxNow=3)),
    # C06: decorations; every option toggled between any two steps
    "Decor": dict(
        comment="C06: spans / span events / links, on-time and late roots, every single option toggle between any two steps",
        workerOf={"tA": 0}, verdicts=[{"tA": K2}],
        reasons=["deterministic/chance"],
        shapes=[shape(), shape(kind="event"), shape(kind="link"), shape(root=True)],
        cfgs=[CFG0, dict(CFG0, addReason=False), dict(CFG0, addCounts=True), dict(CFG0, addSpanCount=True),
              dict(CFG0, addCounts=True, addSpanCount=True), dict(CFG0, attrs="env=prod"), dict(CFG0, addHost=True)],
        init=CFG0, eject=[], stress=[dict(keep=True, rate=5)],
        pairs=[(dict(CFG0, attrs="env=prod"), dict(CFG0, addHost=True)), (dict(CFG0, addHost=True), CFG0), (dict(CFG0, addHost=True), dict(CFG0, addCounts=True))],
        consts=dict(TraceTimeout=2, SendDelay=1, SpanLimit=0, MaxExpired=0),
        thorough=dict(MaxSpans=3, MaxNow=2, ArriveUntil=0), quick=dict(MaxSpans=2, MaxNow=2, ArriveUntil=0)),
    # C06 x C07: a trace that SURVIVES a memory-pressure ejection pass (a heavier neighbour covers the bytes to free) keeps buffering
    # spans, span events and links and is decided later: the counts on its root are those of the whole trace
    "DecorEject": dict(
        comment="C06/C07: counts options on; ejection pass with share 1 over a light and a heavy trace on one worker, the survivor keeps growing",
        workerOf={"tA": 0, "tB": 0}, verdicts=[{"tA": K2, "tB": K2}],
        reasons=["deterministic/chance"],
        shapes=[shape(), shape(kind="link"), shape(root=True)],
        cfgs=[dict(CFG0, addCounts=True, addSpanCount=True)], init=dict(CFG0, addCounts=True, addSpanCount=True), eject=[1], stress=[],
        consts=dict(TraceTimeout=3, SendDelay=1, SpanLimit=0, MaxExpired=0),
        thorough=dict(MaxSpans=3, MaxNow=2, ArriveUntil=0), quick=dict(MaxSpans=2, MaxNow=2, ArriveUntil=0)),
    # C07: ejection
    "Eject": dict(
        comment="C07: memory-pressure ejection with shares {0,1,3} over buffers of different sizes on 2 workers",
        workerOf={"tA": 0, "tB": 0, "tC": 1}, verdicts=[{"tA": K2, "tB": D2, "tC": K2}],
        reasons=["deterministic/chance"],
        shapes=[shape(), shape(root=True)], cfgs=[CFG0], init=CFG0, eject=[0, 1, 3], stress=[],
        consts=dict(TraceTimeout=3, SendDelay=2, SpanLimit=0, MaxExpired=0),
        thorough=dict(MaxSpans=3, MaxNow=1), quick=dict(MaxSpans=2, MaxNow=1, ArriveUntil=0)),
}

INVS = "TypeOK OneDecision ExactlyOnce DeadlineRule RatesCompose SendReasonRule DryRunForwardsAll"
PROPS = "DecidedOnTime DeadlineNeverLater BacklogOrder EjectDecides"


def main():
    for name, f in FAMILIES.items():
        traces = sorted(f["workerOf"])
        mod = f"MCCollector{name}"
        lines = [f"-------------------------- MODULE {mod} --------------------------",
                 f"(* {f['comment']} *)", "(* generated by gen_collector_cfgs.py *)",
                 "EXTENDS Collector",
                 f"mc_Traces == {tla(set(traces))}",
                 f"mc_WorkerOf == {fn(f['workerOf'])}",
                 "mc_Verdicts == <<" + ", ".join(fn(v) for v in f["verdicts"]) + ">>",
                 f"mc_Reason == {tla(f['reasons'])}",
                 "mc_Shapes == {" + ", ".join(tla(s) for s in f["shapes"]) + "}",
                 "mc_Cfgs == {" + ", ".join(tla(c) for c in f["cfgs"]) + "}",
                 f"mc_Cfg0 == {tla(f['init'])}",
                 "mc_Stress == {" + ", ".join(tla(s) for s in f["stress"]) + "}",
                 "mc_ReloadPairs == {" + ", ".join("<<" + tla(a) + ", " + tla(b) + ">>" for a, b in f.get("pairs", [])) + "}",
                 "=" * 77, ""]
        open(f"{mod}.tla", "w").write("\n".join(lines))
        for tier, suffix in (("thorough", ""), ("quick", "_q")):
            c = dict(f["consts"])
            c.update(f[tier])
            c.setdefault("ArriveUntil", c["MaxNow"])
            cfg = ["SPECIFICATION Spec", "CONSTANTS",
                   "  Traces <- mc_Traces", "  WorkerOf <- mc_WorkerOf", "  Verdicts <- mc_Verdicts", "  Reason <- mc_Reason",
                   "  SpanShapes <- mc_Shapes", "  Cfgs <- mc_Cfgs", "  InitCfg <- mc_Cfg0", "  StressRates <- mc_Stress", "  ReloadPairs <- mc_ReloadPairs",
                   "  EjectShares = {" + ", ".join(str(x) for x in f["eject"]) + "}",
                   "  DefTimeout = 60", "  DefDelay = 2"]
            for k in ("MaxSpans", "MaxNow", "TraceTimeout", "SendDelay", "SpanLimit", "MaxExpired", "ArriveUntil"):
                cfg.append(f"  {k} = {c[k]}")
            cfg += [f"INVARIANTS {INVS}", f"PROPERTIES {PROPS}", "ACTION_CONSTRAINT Dump", "VIEW View", "CHECK_DEADLOCK FALSE", ""]
            open(f"MC_Collector_{name.lower()}{suffix}.cfg", "w").write("\n".join(cfg))
    print("generated", len(FAMILIES), "families")


if __name__ == "__main__":
    main()
