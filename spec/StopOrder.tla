------------------------------ MODULE StopOrder ------------------------------
(***************************************************************************)
(* C36, one level below Shutdown.tla: the ORDER in which                   *)
(* InMemCollector.Stop takes its parts down while worker loops may still   *)
(* be in the middle of a send tick.                                        *)
(*                                                                         *)
(* Parts (collect/collect.go Stop, collect/collector_worker.go):           *)
(*   worker loop w   idle -> inTick (took the ticker signal, is deciding   *)
(*                   expired traces) -> idle ...; leaves when it finds its *)
(*                   input channels closed while idle                      *)
(*   sample cache w  open -> stopped (CuckooTraceChecker closes its add    *)
(*                   channel; recording a drop afterwards panics "send on  *)
(*                   closed channel")                                      *)
(*   outgoing queue  open -> closed (tracesToSend; queueing a kept trace   *)
(*                   afterwards panics)                                    *)
(*   sender          running -> exited once the queue is closed and empty  *)
(*                                                                         *)
(* The Stop sequence is a program counter over its steps; Order selects    *)
(* the step order: "code" = what the repository does (close the workers'   *)
(* channels, wait for the loops, stop the caches, close the queue, wait    *)
(* for the sender), "cacheFirst" = caches stopped before the loops have    *)
(* left (the refactoring a seeded change made), "queueFirst" = queue       *)
(* closed before the loops have left.                                      *)
(*                                                                         *)
(* Property: NoUseAfterStop - no worker ever records a decision into a     *)
(* stopped cache or queues a trace on a closed queue (= no panic), and     *)
(* StopReturns under fairness.                                             *)
(*                                                                         *)
(* Binding: harness/collect/c36_midtick_test.go executes the schedules of  *)
(* this model in which Stop overlaps a tick (TickBegin(w) ; StopSteps ;    *)
(* Decide(w, verdict) ; TickEnd(w) ; StopSteps) on a real collector: the   *)
(* worker is parked through the metrics collaborator at the two points the *)
(* model distinguishes (tick taken / decision about to be recorded), Stop  *)
(* is started meanwhile, then the worker is released. A panic of the real  *)
(* process is the observation.                                             *)
(***************************************************************************)
EXTENDS Integers, FiniteSets, TLC

CONSTANTS Workers,      \* e.g. {1, 2}
          Order,        \* "code" | "cacheFirst" | "queueFirst"
          MaxTicks      \* bound on ticks per worker

VARIABLES wstate,       \* [Workers -> {"idle","inTick","decided","exited"}]
          pendingDrop,  \* [Workers -> BOOLEAN]  the tick in progress has a drop decision to record
          pendingKeep,  \* [Workers -> BOOLEAN]  ... a kept trace to queue
          cache,        \* [Workers -> {"open","stopped"}]
          queue,        \* "open" | "closed"
          sender,       \* "running" | "exited"
          chans,        \* "open" | "closed"   the workers' input channels
          pc,           \* position in the Stop sequence, 0 = Stop not called
          ticks,        \* [Workers -> Nat]
          panicked      \* BOOLEAN

vars == <<wstate, pendingDrop, pendingKeep, cache, queue, sender, chans, pc, ticks, panicked>>

Steps ==
  CASE Order = "code"       -> <<"closeChans", "waitWorkers", "stopCaches", "closeQueue", "waitSender">>
    [] Order = "cacheFirst" -> <<"closeChans", "stopCaches", "waitWorkers", "closeQueue", "waitSender">>
    [] Order = "queueFirst" -> <<"closeChans", "closeQueue", "waitWorkers", "stopCaches", "waitSender">>

NSteps == 5

Init == /\ wstate = [w \in Workers |-> "idle"]
        /\ pendingDrop = [w \in Workers |-> FALSE]
        /\ pendingKeep = [w \in Workers |-> FALSE]
        /\ cache = [w \in Workers |-> "open"]
        /\ queue = "open" /\ sender = "running" /\ chans = "open"
        /\ pc = 0 /\ ticks = [w \in Workers |-> 0] /\ panicked = FALSE

\* the loop takes the ticker signal (select picks it even when the channels are already closed: Go's select is fair among ready cases)
TickBegin(w) == /\ wstate[w] = "idle" /\ ticks[w] < MaxTicks /\ ~panicked
                /\ \E d, k \in BOOLEAN :
                     /\ pendingDrop' = [pendingDrop EXCEPT ![w] = d]
                     /\ pendingKeep' = [pendingKeep EXCEPT ![w] = k]
                /\ wstate' = [wstate EXCEPT ![w] = "inTick"]
                /\ ticks' = [ticks EXCEPT ![w] = @ + 1]
                /\ UNCHANGED <<cache, queue, sender, chans, pc, panicked>>

\* makeDecision records into the worker's own sample cache; send queues kept traces
Decide(w) == /\ wstate[w] = "inTick" /\ ~panicked
             /\ panicked' = ( (pendingDrop[w] /\ cache[w] = "stopped") \/ (pendingKeep[w] /\ queue = "closed") )
             /\ wstate' = [wstate EXCEPT ![w] = "decided"]
             /\ UNCHANGED <<pendingDrop, pendingKeep, cache, queue, sender, chans, pc, ticks>>

TickEnd(w) == /\ wstate[w] = "decided" /\ ~panicked
              /\ wstate' = [wstate EXCEPT ![w] = "idle"]
              /\ UNCHANGED <<pendingDrop, pendingKeep, cache, queue, sender, chans, pc, ticks, panicked>>

\* an idle loop that finds its channels closed returns
Leave(w) == /\ wstate[w] = "idle" /\ chans = "closed" /\ ~panicked
            /\ wstate' = [wstate EXCEPT ![w] = "exited"]
            /\ UNCHANGED <<pendingDrop, pendingKeep, cache, queue, sender, chans, pc, ticks, panicked>>

StopCall == /\ pc = 0 /\ ~panicked /\ pc' = 1
            /\ UNCHANGED <<wstate, pendingDrop, pendingKeep, cache, queue, sender, chans, ticks, panicked>>

StopStep ==
  /\ pc \in 1..NSteps /\ ~panicked
  /\ LET s == Steps[pc] IN
     /\ CASE s = "closeChans"  -> chans' = "closed" /\ UNCHANGED <<cache, queue>>
          [] s = "waitWorkers" -> (\A w \in Workers : wstate[w] = "exited") /\ UNCHANGED <<chans, cache, queue>>
          [] s = "stopCaches"  -> cache' = [w \in Workers |-> "stopped"] /\ UNCHANGED <<chans, queue>>
          [] s = "closeQueue"  -> queue' = "closed" /\ UNCHANGED <<chans, cache>>
          [] s = "waitSender"  -> sender = "exited" /\ UNCHANGED <<chans, cache, queue>>
  /\ pc' = pc + 1
  /\ UNCHANGED <<wstate, pendingDrop, pendingKeep, sender, ticks, panicked>>

SenderExit == /\ sender = "running" /\ queue = "closed" /\ ~panicked
              /\ sender' = "exited"
              /\ UNCHANGED <<wstate, pendingDrop, pendingKeep, cache, queue, chans, pc, ticks, panicked>>

Next == \/ \E w \in Workers : TickBegin(w) \/ Decide(w) \/ TickEnd(w) \/ Leave(w)
        \/ StopCall \/ StopStep \/ SenderExit

Fairness == /\ \A w \in Workers : WF_vars(Decide(w)) /\ WF_vars(TickEnd(w)) /\ SF_vars(Leave(w))
            /\ WF_vars(StopStep) /\ WF_vars(SenderExit)

Spec == Init /\ [][Next]_vars /\ Fairness

TypeOK == /\ wstate \in [Workers -> {"idle", "inTick", "decided", "exited"}]
          /\ cache \in [Workers -> {"open", "stopped"}]
          /\ queue \in {"open", "closed"} /\ sender \in {"running", "exited"} /\ chans \in {"open", "closed"}
          /\ pc \in 0..(NSteps + 1) /\ panicked \in BOOLEAN

NoUseAfterStop == ~panicked

\* a part is taken down only when nobody who uses it can still be running
CachesOutliveLoops == \A w \in Workers : cache[w] = "stopped" => wstate[w] = "exited"
QueueOutlivesLoops == queue = "closed" => \A w \in Workers : wstate[w] = "exited"

StopReturns == (pc = 1) ~> (pc = NSteps + 1)
===============================================================================
