------------------------------ MODULE PeerGoal ------------------------------
(***************************************************************************)
(* The throughput goal in force follows the CURRENT cluster size through   *)
(* the REAL membership component (property C13, second half of the check;  *)
(* the first half, Samplers.tla, drives the SamplerFactory with a peers    *)
(* object whose count the model sets directly).                            *)
(*                                                                         *)
(* Every node is one refinery process:                                     *)
(*   - the peer registry internal/peer/pubsub_redis.go (RedisPubsubPeers   *)
(*     on generics.MapWithTTL): Start, the Ready goroutine that publishes  *)
(*     a register message ("heartbeat") whenever its refresh ticker fires, *)
(*     listen() = Set/Delete + checkHash(), graceful stop (unregister      *)
(*     message), silent crash, lazy entry expiry, and the change           *)
(*     notification: checkHash() starts the registered callbacks when the  *)
(*     listed id set differs from the one it hashed last;                  *)
(*   - a sample.SamplerFactory whose Peers is that registry:               *)
(*     updatePeerCounts (registered as the callback, and run at the end of *)
(*     every sampler creation) re-reads GetPeers() and gives every         *)
(*     registered throughput dynsampler with UseClusterSize the goal       *)
(*     max(1, configured goal div peers); samplers without UseClusterSize  *)
(*     keep the configured goal.                                           *)
(* The nodes share one pubsub channel that delivers a published message to *)
(* every subscriber at once (pubsub.LocalPubSub; delivery orders and       *)
(* delays of the channel are the business of Peers.tla / C18) and one      *)
(* clock.                                                                  *)
(*                                                                         *)
(* State of node n:                                                        *)
(*   status[n]   "new" | "up" | "stopped" | "crashed"                      *)
(*   ent[n][m]   remaining lifetime of the entry for m in n's peer map     *)
(*               (Set puts T, every tick takes one off, -1 = not stored or *)
(*               expired; MapWithTTL still lists an entry at its expiry    *)
(*               instant, i.e. with 0 left)                                *)
(*   hashed[n], hashIds[n]  the id list checkHash() hashed last            *)
(*   sincePub[n] ticks since the refresh ticker fired last                 *)
(*   made[n]     the node has created its samplers (lazily, at any time)   *)
(*   seen[n]     SamplerFactory.peerCount: the cluster size the goals in   *)
(*               force were computed from                                  *)
(* Ghosts (TrackQuiet): quiet = ticks since the last Start/Stop/Crash,     *)
(*   lag[n] = ticks for which seen[n] has differed from what GetPeers()    *)
(*   of the same node reports (strict model only).                         *)
(*                                                                         *)
(* Strict = TRUE is the code: the goals are recomputed exactly when a      *)
(* handled message changes the listed id set, and on sampler creation.     *)
(* Strict = FALSE is all that C13 asks for: an implementation may          *)
(* recompute the goals at any step or leave them alone (seen' is the old   *)
(* value or the current count, either boundary convention at the expiry    *)
(* instant), but once membership has been stable for GoalBound =           *)
(* PeerEntryTimeout + one refresh interval (+ the one tick by which whole  *)
(* ticks over-approximate "has expired") the goals in                      *)
(* force are those of the live cluster.  TLC checks that the strict model  *)
(* has this property (GoalConverged) with the same bound.                  *)
(***************************************************************************)
EXTENDS Integers, FiniteSets, TLC, Json

CONSTANTS Gaps,       \* record: node id -> set of possible refresh gaps (ticks)
          T,          \* PeerEntryTimeout in ticks
          Goals,      \* configured GoalThroughputPerSec values (Init picks one)
          MaxEvents,  \* bound on Start/Stop/Crash events
          MaxClears,  \* bound on ClearDynsamplers calls (the samplers are re-created lazily afterwards)
          Hosts,      \* the nodes that create samplers (the others are peers only: keeps the graphs small)
          Strict,     \* see above
          TrackQuiet, \* maintain the ghosts quiet and lag
          UnitMs      \* milliseconds per tick (for the harness)

VARIABLES goal, status, ent, hashed, hashIds, sincePub, made, seen, clears, events, quiet, lag, act

vars == <<goal, status, ent, hashed, hashIds, sincePub, made, seen, clears, events, quiet, lag, act>>

Nodes == DOMAIN Gaps
NN == Cardinality(Nodes)
SetMax(S) == CHOOSE x \in S : \A y \in S : y <= x
SetMin(S) == CHOOSE x \in S : \A y \in S : x <= y
Rlo == SetMin(UNION {Gaps[n] : n \in Nodes})
Rhi == SetMax(UNION {Gaps[n] : n \in Nodes})
Gone == -1
MemberBound == T + 1                \* every running node lists exactly the running nodes (Rhi <= T)
GoalBound == T + Rhi + 1            \* ... and has told its sampler factory (tight: TLC refutes T + Rhi)
LagBound == Rhi                     \* the goals lag the node's own peer list by at most one refresh interval

ASSUME /\ \A n \in Nodes : Gaps[n] # {} /\ Gaps[n] \subseteq 1 .. T
       /\ Hosts \subseteq Nodes
       /\ Rhi <= T                  \* a live entry is refreshed before it runs out
       /\ \A g \in Goals : g >= 1

Up == {n \in Nodes : status[n] = "up"}
\* ids listed by n's peer map: closed boundary (the code), open boundary
VisC(e, n) == {m \in Nodes : e[n][m] >= 0}
VisO(e, n) == {m \in Nodes : e[n][m] >= 1}
\* len(GetPeers()): never empty (falls back to the own address)
Cnt(S) == IF S = {} THEN 1 ELSE Cardinality(S)
CntC(e, n) == Cnt(VisC(e, n))
CntO(e, n) == Cnt(VisO(e, n))

Max2(x, y) == IF x >= y THEN x ELSE y
Expected(g, n) == Max2(1, g \div n)

NoEnt == [m \in Nodes |-> Gone]
B(x) == IF x THEN 1 ELSE 0

\* what the harness observes on every running node: the length of GetPeers() (compared in the
\* strict model only), and GoalThroughputPerSec of its live dynsampler instances: the set of
\* values over the three throughput sampler types with UseClusterSize, and without
Abs == [ nodes |-> [n \in Nodes |->
           IF status[n] = "up"
           THEN [st |-> "up", made |-> made[n],
                 cnt |-> IF Strict THEN CntC(ent, n) ELSE 0,
                 scaledSet |-> IF made[n] THEN {Expected(goal, seen[n])} ELSE {},
                 fixedSet  |-> IF made[n] THEN {goal} ELSE {}]
           ELSE [st |-> status[n], made |-> FALSE, cnt |-> 0, scaledSet |-> {}, fixedSet |-> {}]] ]
Hid == [ goal |-> goal, ent |-> ent, hashed |-> [n \in Nodes |-> B(hashed[n])], hashIds |-> hashIds,
         sincePub |-> sincePub, seen |-> seen, clears |-> clears, events |-> events, quiet |-> quiet, lag |-> lag ]

Init == /\ goal \in Goals
        /\ status = [n \in Nodes |-> "new"]
        /\ ent = [n \in Nodes |-> NoEnt]
        /\ hashed = [n \in Nodes |-> FALSE]
        /\ hashIds = [n \in Nodes |-> {}]
        /\ sincePub = [n \in Nodes |-> 0]
        /\ made = [n \in Nodes |-> FALSE]
        /\ seen = [n \in Nodes |-> 0]
        /\ clears = 0 /\ events = 0 /\ quiet = 0
        /\ lag = [n \in Nodes |-> 0]
        /\ act = [name |-> "Init"]

\* ---- the change notification ------------------------------------------------------------
\* Effect of a step on hashed, hashIds, seen, lag.  st, e: status and entries after the step;
\* R: the nodes that handled a message in it (each ends listen() with checkHash());
\* C: the nodes whose factory ran updatePeerCounts for another reason (sampler creation);
\* q: quiet after the step; tick: the step is Advance.
Notify(st, e, R, C, q, tick) ==
  LET changed(r) == r \in R /\ (~hashed[r] \/ VisC(e, r) # hashIds[r])
      strictSeen == [r \in Nodes |-> IF st[r] # "up" THEN 0
                                     ELSE IF changed(r) \/ r \in C THEN CntC(e, r) ELSE seen[r]]
      looseOK(f) == \A r \in Nodes :
                      IF st[r] # "up" THEN f[r] = 0
                      ELSE /\ f[r] \in {seen[r], CntC(e, r), CntO(e, r)} \ {0}
                           /\ r \notin Hosts => f[r] = CntC(e, r)      \* nobody can tell
                           /\ (TrackQuiet /\ q >= GoalBound) => f[r] = CntC(e, r)
  IN /\ IF Strict
        THEN /\ seen' = strictSeen
             /\ hashed' = [r \in Nodes |-> st[r] = "up" /\ (hashed[r] \/ r \in R)]
             /\ hashIds' = [r \in Nodes |-> IF st[r] # "up" THEN {} ELSE IF r \in R THEN VisC(e, r) ELSE hashIds[r]]
        ELSE /\ seen' \in {f \in [Nodes -> 0 .. NN] : looseOK(f)}
             /\ UNCHANGED <<hashed, hashIds>>
     /\ lag' = [r \in Nodes |-> IF ~TrackQuiet \/ ~Strict \/ st[r] # "up" \/ seen'[r] = CntC(e, r) THEN 0
                                ELSE IF tick /\ lag[r] <= LagBound THEN lag[r] + 1 ELSE lag[r]]

\* ---- actions ------------------------------------------------------------------------------

\* RedisPubsubPeers.Start + SamplerFactory.Start (registers updatePeerCounts, peerCount = 1) + Ready
Start(n) ==
  /\ status[n] = "new"
  /\ events < MaxEvents
  /\ LET st == [status EXCEPT ![n] = "up"]
         e == [ent EXCEPT ![n] = [NoEnt EXCEPT ![n] = T]]
     IN /\ status' = st
        /\ ent' = e
        /\ sincePub' = [sincePub EXCEPT ![n] = 0]
        /\ events' = events + 1
        /\ quiet' = 0
        /\ seen' = [seen EXCEPT ![n] = 1]
        /\ lag' = [lag EXCEPT ![n] = 0]
        /\ UNCHANGED <<goal, hashed, hashIds, made, clears>>
  /\ act' = [name |-> "Start", n |-> n]

\* the refresh ticker of n fires: R<address>,<id> reaches every running node (n included)
Heartbeat(n) ==
  /\ status[n] = "up"
  /\ sincePub[n] \in Gaps[n]
  /\ LET e == [r \in Nodes |-> IF status[r] = "up" THEN [ent[r] EXCEPT ![n] = T] ELSE ent[r]]
     IN /\ ent' = e
        /\ Notify(status, e, Up, {}, quiet, FALSE)
  /\ sincePub' = [sincePub EXCEPT ![n] = 0]
  /\ UNCHANGED <<goal, status, made, clears, events, quiet>>
  /\ act' = [name |-> "Heartbeat", n |-> n]

\* lazy creation of the node's samplers: every createSampler ends with updatePeerCounts
Create(n) ==
  /\ n \in Hosts
  /\ status[n] = "up" /\ ~made[n]
  /\ made' = [made EXCEPT ![n] = TRUE]
  /\ Notify(status, ent, {}, {n}, quiet, FALSE)
  /\ UNCHANGED <<goal, status, ent, sincePub, clears, events, quiet>>
  /\ act' = [name |-> "Create", n |-> n]

\* ClearDynsamplers (a configuration reload): the registry and goalThroughputConfigs are
\* emptied, the collector's workers drop their samplers; peerCount stays
Clear(n) ==
  /\ status[n] = "up" /\ made[n]
  /\ clears < MaxClears
  /\ clears' = clears + 1
  /\ made' = [made EXCEPT ![n] = FALSE]
  /\ Notify(status, ent, {}, {}, quiet, FALSE)
  /\ UNCHANGED <<goal, status, ent, sincePub, events, quiet>>
  /\ act' = [name |-> "Clear", n |-> n]

Leave(n, how) ==
  /\ status[n] = "up"
  /\ events < MaxEvents
  /\ status' = [status EXCEPT ![n] = how]
  /\ sincePub' = [sincePub EXCEPT ![n] = 0]
  /\ made' = [made EXCEPT ![n] = FALSE]
  /\ events' = events + 1
  /\ quiet' = 0
  /\ UNCHANGED <<goal, clears>>

\* close(Done): U<address>,<id> reaches every other running node
Stop(n) ==
  /\ Leave(n, "stopped")
  /\ LET e == [r \in Nodes |-> IF r = n THEN NoEnt
                               ELSE IF status[r] = "up" THEN [ent[r] EXCEPT ![n] = Gone] ELSE ent[r]]
     IN /\ ent' = e
        /\ Notify(status', e, Up \ {n}, {}, 0, FALSE)
  /\ act' = [name |-> "Stop", n |-> n]

\* the process dies silently: the others forget it only by expiry
Crash(n) ==
  /\ Leave(n, "crashed")
  /\ LET e == [ent EXCEPT ![n] = NoEnt]
     IN /\ ent' = e
        /\ Notify(status', e, {}, {}, 0, FALSE)
  /\ act' = [name |-> "Crash", n |-> n]

Dec(x) == IF x <= Gone THEN Gone ELSE x - 1
\* one tick of the shared clock; blocked while a ticker firing is overdue
Advance ==
  /\ \A n \in Up : sincePub[n] < SetMax(Gaps[n])
  /\ Up # {}
  /\ LET e == [n \in Nodes |-> [m \in Nodes |-> Dec(ent[n][m])]]
         q == IF TrackQuiet /\ quiet < GoalBound THEN quiet + 1 ELSE quiet
     IN /\ ent' = e
        /\ quiet' = q
        /\ Notify(status, e, {}, {}, q, TRUE)
  /\ sincePub' = [n \in Nodes |-> IF status[n] = "up" THEN sincePub[n] + 1 ELSE 0]
  /\ UNCHANGED <<goal, status, made, clears, events>>
  /\ act' = [name |-> "Advance"]

Next == \/ \E n \in Nodes : Start(n) \/ Heartbeat(n) \/ Create(n) \/ Clear(n) \/ Stop(n) \/ Crash(n)
        \/ Advance

Spec == Init /\ [][Next]_vars

\* ---- properties --------------------------------------------------------------------------

TypeOK == /\ goal \in Goals
          /\ status \in [Nodes -> {"new", "up", "stopped", "crashed"}]
          /\ ent \in [Nodes -> [Nodes -> Gone .. T]]
          /\ hashed \in [Nodes -> BOOLEAN]
          /\ hashIds \in [Nodes -> SUBSET Nodes]
          /\ sincePub \in [Nodes -> 0 .. Rhi]
          /\ made \in [Nodes -> BOOLEAN]
          /\ seen \in [Nodes -> 0 .. NN]
          /\ \A n \in Nodes : (status[n] = "up") <=> (seen[n] >= 1)
          /\ \A n \in Nodes : made[n] => status[n] = "up"
          /\ clears \in 0 .. MaxClears /\ events \in 0 .. MaxEvents
          /\ quiet \in 0 .. GoalBound
          /\ lag \in [Nodes -> 0 .. LagBound + 1]

\* the goals in force at node n are those of a cluster of k nodes
GoalsFor(n, k) == made[n] => Expected(goal, seen[n]) = Expected(goal, k)

\* membership part (C18's convergence, re-checked here for the instantaneous channel)
MembersConverged == quiet >= MemberBound => \A n \in Up : VisC(ent, n) = Up

\* C13 through the real membership component: membership stable for the entry timeout plus one
\* refresh interval => every running node's throughput samplers with UseClusterSize run with
\* max(1, goal div live nodes)  (those without it always run with the goal: fixedSet)
GoalConverged == quiet >= GoalBound => \A n \in Up : seen[n] = Cardinality(Up) /\ GoalsFor(n, Cardinality(Up))

\* the goals never lag the node's own peer list by more than one refresh interval
LagBounded == \A n \in Up : lag[n] <= LagBound

\* a join or a graceful leave is in force as soon as the message has been handled
PromptOnMessage ==
  [][\A r \in Nodes : (act'.name \in {"Heartbeat", "Stop"} /\ status'[r] = "up") =>
        (VisC(ent, r)' # VisC(ent, r) => seen'[r] = CntC(ent, r)')]_vars

\* a sampler created at any time starts with the goal of the cluster size its node reports
CreatedCurrent == [][\A n \in Nodes : (act'.name = "Create" /\ act'.n = n) => seen'[n] = CntC(ent, n)']_vars

\* the factory never scales by anything but a peer count the node has reported
SeenIsACount == \A n \in Up : seen[n] \in 1 .. NN

Params == [ gaps |-> Gaps, hostSet |-> Hosts, T |-> T, rlo |-> Rlo, rhi |-> Rhi, unitMs |-> UnitMs, strict |-> Strict ]
ASSUME PrintT(ToJson([params |-> Params]))
Dump == PrintT(ToJson([fa |-> act.name, act |-> act', fabs |-> Abs, fhid |-> Hid, tabs |-> Abs', thid |-> Hid']))
View == <<goal, status, ent, hashed, hashIds, sincePub, made, seen, clears, events, quiet, lag>>

\* constant values for the configurations
Gaps2 == [a |-> {3, 4}, b |-> {3, 4}]
Gaps2F == [a |-> {3}, b |-> {4}]
Gaps3 == [a |-> {3, 4}, b |-> {3, 4}, c |-> {3, 4}]
Gaps3F == [a |-> {3}, b |-> {4}, c |-> {3, 4}]
=============================================================================
