//go:build verif

package configwatcher

import (
	"context"
	"math/rand"
	"os"
	"strconv"
	"sync"
	"testing"
	"time"

	"github.com/honeycombio/refinery/config"
	"github.com/honeycombio/refinery/internal/verifkit"
	"github.com/honeycombio/refinery/logger"
	"github.com/honeycombio/refinery/metrics"
	"github.com/honeycombio/refinery/pubsub"
)

// TestVerifC35WatcherRace runs the action alphabet of the watcher part of
// spec/PubSub.tla (Start, Stop, a peer's notice arriving, the local reload
// callback, a foreign publisher on the same bus) from several goroutines at
// once on a real ConfigWatcher over a real LocalPubSub, built with -race. The
// schedules that matter are the ones TLC flags in the model: Stop racing the
// monitor goroutine that Start has just spawned, a notice racing Stop, and a
// reload callback racing a notice. The only oracle is the race detector; the
// driver asserts nothing about values.
func TestVerifC35WatcherRace(t *testing.T) {
	seed, _ := strconv.ParseInt(os.Getenv("VERIF_SEED"), 10, 64)
	rounds := 300
	if os.Getenv("VERIF_TIER") == "thorough" {
		rounds = 3000
	}
	rng := rand.New(rand.NewSource(seed))
	evals := 0
	for r := 0; r < rounds; r++ {
		cfg := &config.MockConfig{GetGeneralConfigVal: config.GeneralConfig{ConfigReloadInterval: config.Duration(time.Millisecond * time.Duration(1+rng.Intn(3)))}}
		ps := &pubsub.LocalPubSub{Config: cfg, Metrics: &metrics.NullMetrics{}}
		if err := ps.Start(); err != nil {
			t.Fatal(err)
		}
		cw := &ConfigWatcher{Config: cfg, Logger: &logger.NullLogger{}, PubSub: ps}
		if err := cw.Start(); err != nil {
			t.Fatal(err)
		}
		topic := ps.FormatTopic(ConfigPubsubTopic)
		start := make(chan struct{})
		var wg sync.WaitGroup
		spin := rng.Intn(3)
		run := func(f func()) {
			wg.Add(1)
			go func() {
				defer wg.Done()
				<-start
				f()
			}()
		}
		run(func() { // Stop, possibly before the monitor goroutine ran at all
			for i := 0; i < spin; i++ {
				time.Sleep(time.Millisecond)
			}
			_ = cw.Stop()
		})
		run(func() { // a peer's notice, delivered over the bus
			_ = ps.Publish(context.Background(), topic, time.Now().Format(time.RFC3339))
		})
		run(func() { // the local configuration changed
			cw.ReloadCallback("h1", "h2")
		})
		run(func() { // a notice handed to the listener directly (late delivery)
			cw.SubscriptionListener(context.Background(), time.Now().Add(-time.Hour).Format(time.RFC3339))
		})
		close(start)
		wg.Wait()
		time.Sleep(time.Duration(rng.Intn(3)) * time.Millisecond) // lets a surviving monitor tick
		ps.Stop()
		evals++
	}
	if err := verifkit.WriteJSON(os.Getenv("VERIF_OUT"), map[string]any{
		"evaluations": evals, "distinct": evals, "violations": []any{}, "samples": []any{},
		"note": "Start, then Stop / peer notice / ReloadCallback / direct SubscriptionListener from four goroutines on a real ConfigWatcher over a real LocalPubSub under -race; oracle = race detector only",
	}); err != nil {
		t.Fatal(err)
	}
}
