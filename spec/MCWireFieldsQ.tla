--------------------------- MODULE MCWireFieldsQ ---------------------------
(* C20 decision pipeline, quick bound: 2 spans (root, child) in either order, on time or late, with or without a
   root at decision time; the 8 sampler configurations; 4 decoration profiles; 2 ingest paths; 3 x 2 field shapes *)
EXTENDS MCWireFieldsBase
mc_Spans == {"r", "c"}
mc_Crate == ("r" :> 0) @@ ("c" :> 2)
mc_Shapes == ("r" :> {{"svc", "http", "tags", "dur"}, {"svc", "http.response.status", "dur"}, {"http", "http.response.status", "tags"}})
          @@ ("c" :> {{"svc", "http"}, {"http.response.status", "tags", "dur"}})
mc_Samplers == mc_AllSamplers
mc_Profiles == {P(FALSE, FALSE, FALSE, FALSE, FALSE, {}),
                P(FALSE, TRUE, TRUE, FALSE, TRUE, {"env"}),
                P(TRUE, TRUE, FALSE, TRUE, FALSE, {}),
                P(TRUE, FALSE, TRUE, TRUE, FALSE, {"env"})}
=============================================================================
