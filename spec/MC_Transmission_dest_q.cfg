SPECIFICATION Spec
CONSTANTS
  Dests = {"A","D"}
  Sizes = {200}
  EventMax = 1000000
  BodyMax = 5000000
  MaxBatch = 2
  Sub = 1
  MaxEvents = 3
  MaxNow = 4
  MaxFaults = 1
  Behaviours = {"ok"}
  Coarse = TRUE
  Loose = TRUE
INVARIANTS TypeOK OwnDestination ExactlyOneBatch OversizeCounted BodyWithinLimit CountWithinLimit AtMostTwice Timely StopFlushes GaugeExact Conservation
VIEW View
CHECK_DEADLOCK FALSE
ACTION_CONSTRAINT Dump
