"""C18 Redis peer membership converges to the live, publishing nodes."""

_H = ["internal/peer/c18_peers_test.go", "internal/peer/c18_codec_test.go"]
# what C18 leaves open: the boundary at the expiry instant, and when change callbacks fire
_VARIANTS = [("closed+callbacks", "c"), ("closed", "n"), ("open+callbacks", "oc"), ("open", "on")]
# ... and the publish schedule beyond 'often enough': extra register publishes (eagerly at Start; for one node also on every handled message), backoff while publishes fail
_BACKOFF = [("closed+loose", "x"), ("open+loose", "ox")]


def _walk(name, quick, thorough, budget, tiers=("quick", "thorough"), backoff=True):
    return dict(kind="walk", name=name, module="Peers", pkg="internal/peer", test="TestVerifC18Peers", harness=_H, tiers=tiers,
                alternatives=[dict(name=n, cfg={"quick": f"MC_Peers_{quick}_{s}.cfg", "thorough": f"MC_Peers_{thorough}_{s}.cfg"}) for n, s in _VARIANTS + (_BACKOFF if backoff else [])],
                budget=budget, maxwalk=200, tlc_timeout=900)


PROP = dict(
    level="model_checking",
    technique="TLA+ spec Peers.tla (RedisPubsubPeers + MapWithTTL + pubsub channel with arbitrary delivery order and bounded delay) model-checked by TLC, "
              "timed convergence invariants (cluster-wide and per peer) in both tiers and <>[] convergence under fairness in the thorough tier; every generated transition replayed into 2-3 real "
              "RedisPubsubPeers instances (real Ready goroutines) that share a clockwork fake clock and a harness pubsub which delivers each queued message on the model's command "
              "(spec->code transition tour; histories may start from a running three-node cluster that the harness boots through the same code paths); PeersCodec.tla enumerates address/id strings for the message codec (function-vector replay)",
    design_ref="DESIGN.md §5 C18, §9",
    level_text="TLC explores every order of node start, refresh-ticker firing (gap 3 or 4 ticks of 1 s, covering the code's 3 s + up to 20 % jitter), message delivery in any order with a delay of "
               "0..D ticks, graceful stop (unregister message, which may overtake or be overtaken by a register), silent crash, restart of a process under a new instance id on the same address, transient Publish failures (the call returns an error and nobody receives the message; up to 3 for one node incl. its own looped-back heartbeat, 1-2 for two nodes), "
               "and TTL expiry, for 2 nodes (quick) and 2-3 nodes / 3 ids (thorough) with at most 3-6 membership events, plus MIXED histories from a running three-node cluster (a silent crash and a clean unregister of different peers in either order "
               "and at any distance inside one timeout window - quick; any two of three nodes leaving either way, and a rolling restart [crash of c, unregister of b, b's successor joining on b's address and unregistering again] - thorough), and checks on the model: if no start/stop/crash/failed publish happened for "
               "PeerEntryTimeout + one refresh interval + the delivery delay then every running node lists exactly the alive publishing nodes (plus the tighter halves: live nodes are learnt within "
               "refresh + delay, dead ones forgotten within timeout + delay; a running node always lists itself; no duplicate address afterwards; and the same PER PEER, however much the rest of the cluster keeps changing: a peer that left, with or without unregister, is listed by nobody from timeout + delay after it left, "
               "a publishing peer is listed by every node that has been up for refresh + delay), an entry reappears only through a register message, "
               "and - thorough, under weak fairness of clock, tickers and deliveries - membership eventually agrees forever and a list that changed by expiry is eventually notified. "
               "Each generated transition of the replayed graphs is executed on real RedisPubsubPeers instances and GetPeers() of every running node, the set of messages the nodes published "
               "(who, register/unregister, to whom), the change-callback firings and the set of nodes whose currently requested refresh period (NewTicker and every later Reset) lies outside the model's 3..4 s envelope must equal the model's (empty for the code's fixed period; an implementation that backs off while publishes fail is accepted by the backoff alternatives only if the first successful publish brings the period back). The codec clause: for all address/id strings over a small alphabet (incl. the separator and "
               "action letters) unmarshal(marshal(x)) must return x unchanged whenever address and id are non-empty and comma-free, and unmarshal must not panic on any string.",
    level_note="Exhaustive only within the bounds (replayed: 2 nodes D=1 with jitter, 3 ids/2 addresses D=0, 3 nodes D=0, booted 3-node cluster D=0 with 2 leave events, booted 3-node cluster + successor id with 4 events; model-checked only: booted 3-node cluster with 3 events,  2 nodes D=2 jitter, restart D=1 jitter, 3 nodes D=0 with 4 events; <=3-6 membership events; time in 1 s ticks, "
               "so the refresh interval is the envelope 3..4 s and the bound checked is 10 s + 4 s + D). Assumptions made explicit in the model: no loss of a successfully published message, a bounded number of failed Publish calls (the settle time counts from the last one; for an implementation with backoff, from its first successful publish after them), delivery delay <= D with "
               "refresh + D <= timeout, nothing is delivered to a stopped/crashed process, a restarted process has a new instance id. The refresh ticker's channel is interposed: the goroutine "
               "gets its tick when the model says so and the harness checks that the period the code requested from the clock lies in the model's envelope (if the code's constants leave the envelope "
               "but still refresh in time the check reports cannot-decide, if entries would expire between refreshes it reports a violation). RedisPubsubPeers builds its TTL map on the wall clock "
               "(NewMapWithTTL ignores the injected clock), so the harness re-seats that map on the fake clock right after Start. The boundary at the expiry instant and the exact callback discipline "
               "are not part of C18 (but WHEN an entry leaves the list is: GetPeers() of every running node is compared after every 1 s tick, so an entry that outlives its own deadline because of what happened to a different key - e.g. an expiry scan postponed by an unrelated Delete - diverges at the first tick after the deadline). "
               "In the mixed (booted) scenarios roles are fixed to keep the graphs replayable (a1 observes and never leaves in the quick one; c1 only crashes and b1/b2 only unregister in the rolling restart) and a node publishes only when no message is in flight (deliveries of one heartbeat and of a concurrent unregister still in any order); "
               "the walk first demands the code model's behaviour (closed boundary, callback iff the listed id set differs from the last hashed one) and falls back to the "
               "alternatives; VIOLATION only if none fits. Concurrent listen() calls (go-redis runs each callback in its own goroutine; unsynchronised hash/callbacks, C35) and go-redis itself are "
               "not exercised. Codec: an address containing a comma is cut at the first comma by unmarshal (TLC invariant CommaAddressCorrupts documents it) but no address the system can produce "
               "(http://host-or-IP:port) or id (8 hex digits) contains one, so those inputs are left open rather than reported.",
    assumptions=["clockwork.FakeClock is faithful", "pubsub: a successful Publish is delivered without loss, in any order, delay <= D ticks with refresh + D <= PeerEntryTimeout; a bounded number of Publish calls fail (error returned, nothing delivered)",
                 "refresh ticker fires 3..4 s after the previous firing", "bounded: 2-3 nodes (4 ids in the rolling restart), <=6 membership events, D<=2; the booted cluster of the mixed scenarios starts with all nodes registered at the same instant",
                 "addresses are http://host:port and ids 8 hex digits (no comma)"],
    stages=[
        _walk("pair", "pair_q", "pair_t", {"quick": 25, "thorough": 100}),
        _walk("solo", "solo", "solo", {"quick": 8, "thorough": 15}, backoff=True),
        _walk("mix", "mix_q", "mix_t", {"quick": 25, "thorough": 45}),
        dict(kind="tlc", name="timed-mix", module="Peers", cfg={"quick": "MC_Peers_mix_q_timed.cfg", "thorough": "MC_Peers_mix_mc_timed.cfg"}, workers=8),
        dict(kind="tlc", name="timed", module="Peers", cfg={"quick": "MC_Peers_pair_q_timed.cfg", "thorough": "MC_Peers_pair_mc_timed.cfg"}, workers=8),
        dict(kind="walk", name="codec", module="PeersCodec", pkg="internal/peer", test="TestVerifC18Codec", harness=_H,
             cfg={"quick": "MC_PeersCodec_q.cfg", "thorough": "MC_PeersCodec_t.cfg"}, budget={"quick": 10, "thorough": 60}, dump_workers=1),
        _walk("pairfail", "pairfail", "pairfail", {"thorough": 60}, tiers=("thorough",), backoff=True),
        dict(kind="tlc", name="timed-solo", module="Peers", cfg="MC_Peers_solo_timed.cfg", workers=4, tiers=("thorough",)),
        dict(kind="tlc", name="timed-pairfail", module="Peers", cfg="MC_Peers_pairfail_mc_timed.cfg", workers=8, tiers=("thorough",)),
        dict(kind="tlc", name="timed-pairfail-loose", module="Peers", cfg="MC_Peers_pairfail_mc_loose_timed.cfg", workers=8, tiers=("thorough",)),
        _walk("restart", "restart", "restart", {"thorough": 60}, tiers=("thorough",)),
        _walk("trio", "trio", "trio", {"thorough": 100}, tiers=("thorough",)),
        _walk("roll", "roll", "roll", {"thorough": 60}, tiers=("thorough",)),
        dict(kind="tlc", name="timed-roll", module="Peers", cfg="MC_Peers_roll_mc_timed.cfg", workers=8, tiers=("thorough",)),
        dict(kind="tlc", name="timed-pair-loose", module="Peers", cfg="MC_Peers_pair_q_loose_timed.cfg", workers=8, tiers=("thorough",)),
        dict(kind="tlc", name="timed-restart", module="Peers", cfg="MC_Peers_restart_mc_timed.cfg", workers=8, tiers=("thorough",)),
        dict(kind="tlc", name="timed-trio", module="Peers", cfg="MC_Peers_trio_mc_timed.cfg", workers=8, tiers=("thorough",)),
        dict(kind="tlc", name="live-pair", module="Peers", cfg="MC_Peers_pair_mc_live.cfg", workers=8, tiers=("thorough",)),
        dict(kind="tlc", name="live-pairfail", module="Peers", cfg="MC_Peers_pairfail_mc_live.cfg", workers=8, tiers=("thorough",)),
        dict(kind="tlc", name="live-mix", module="Peers", cfg="MC_Peers_mix_q_live.cfg", workers=8, tiers=("thorough",)),
    ],
)
