//go:build verif

package collect

import (
	"context"
	"fmt"
	"math/rand"
	"os"
	"runtime"
	"strconv"
	"sync"
	"testing"
	"time"

	"github.com/jonboulle/clockwork"

	"github.com/honeycombio/refinery/config"
	"github.com/honeycombio/refinery/internal/peer"
	"github.com/honeycombio/refinery/internal/verifkit"
	"github.com/honeycombio/refinery/logger"
	"github.com/honeycombio/refinery/metrics"
	"github.com/honeycombio/refinery/pubsub"
)

// TestVerifStressRace is a C35 driver for the real StressRelief object with
// its real monitor goroutine: the clock (periodic Recalc and publishing), the
// readers a router uses (Stressed, GetSampleRate), peer reports arriving over
// pubsub, changing load readings and config reloads (UpdateFromConfig) all run
// concurrently. The action alphabet is StressRelief.tla's (SetReadings,
// PeerReport, Advance, Recalc, Update); the oracle is the race detector.
func TestVerifStressRace(t *testing.T) {
	seed, _ := strconv.ParseInt(os.Getenv("VERIF_SEED"), 10, 64)
	budget, _ := strconv.ParseFloat(os.Getenv("VERIF_BUDGET_S"), 64)
	if budget == 0 {
		budget = 10
	}
	deadline := time.Now().Add(time.Duration(budget * float64(time.Second)))
	rng := rand.New(rand.NewSource(seed))
	runs, events := 0, 0
	for time.Now().Before(deadline) && runs < 200 {
		clock := clockwork.NewFakeClock()
		met := &metrics.MockMetrics{}
		met.Start()
		cfg := &config.MockConfig{StressRelief: config.StressReliefConfig{Mode: []string{"always", "monitor"}[runs%2], ActivationLevel: 60, DeactivationLevel: 30,
			SamplingRate: 5, MinimumActivationDuration: config.Duration(time.Second)}}
		ps := &pubsub.LocalPubSub{Config: cfg, Metrics: met}
		ps.Start()
		sr := &StressRelief{Clock: clock, Done: make(chan struct{}), Logger: &logger.NullLogger{}, RefineryMetrics: met, PubSub: ps,
			Health: c35Health{}, Peer: peer.NewMockPeers([]string{"self", "p1", "p2"}, "self"), Config: cfg}
		if err := sr.Start(); err != nil {
			t.Fatal(err)
		}
		met.Store(DENOMINATOR_PEER_CAP, 1000)
		met.Store(DENOMINATOR_INCOMING_CAP, 1000)
		met.Store(DENOMINATOR_MEMORY_MAX_ALLOC, 1000000)
		var wg sync.WaitGroup
		var mu sync.Mutex
		n := 0
		count := func() { mu.Lock(); n++; mu.Unlock() }
		spin := func(r *rand.Rand) {
			for y := 0; y < r.Intn(30); y++ {
				runtime.Gosched()
			}
		}
		for g := 0; g < 3; g++ { // router-side readers
			wg.Add(1)
			go func(r *rand.Rand) {
				defer wg.Done()
				for k := 0; k < 200; k++ {
					sr.Stressed()
					sr.GetSampleRate(fmt.Sprintf("trace-%d", r.Intn(1000)))
					count()
					if k%8 == 0 {
						spin(r)
					}
				}
			}(rand.New(rand.NewSource(rng.Int63())))
		}
		wg.Add(1)
		go func(r *rand.Rand) { // load readings change which reason dominates; the clock drives the monitor goroutine
			defer wg.Done()
			for k := 0; k < 60; k++ {
				met.Gauge(NUMERATOR_INCOMING_QUEUE, float64(r.Intn(1000)))
				met.Gauge(NUMERATOR_PEER_QUEUE, float64(r.Intn(1000)))
				met.Gauge(NUMERATOR_MEMORY_HEAP_ALLOC, float64(r.Intn(1000000)))
				clock.Advance(100 * time.Millisecond) // the monitor goroutine is the only caller of Recalc, as in production
				count()
				spin(r)
			}
		}(rand.New(rand.NewSource(rng.Int63())))
		wg.Add(1)
		go func(r *rand.Rand) { // peer reports
			defer wg.Done()
			for k := 0; k < 40; k++ {
				ps.Publish(context.Background(), ps.FormatTopic(stressReliefTopic), newStressReliefMessage(uint(r.Intn(101)), []string{"p1", "p2"}[k%2]).String())
				count()
				spin(r)
			}
		}(rand.New(rand.NewSource(rng.Int63())))
		wg.Add(1)
		go func(r *rand.Rand) { // config reloads
			defer wg.Done()
			for k := 0; k < 10; k++ {
				cfg.Mux.Lock()
				cfg.StressRelief.SamplingRate = uint64(2 + r.Intn(8))
				cfg.StressRelief.ActivationLevel = uint(40 + r.Intn(40))
				cfg.Mux.Unlock()
				sr.UpdateFromConfig()
				count()
				spin(r)
			}
		}(rand.New(rand.NewSource(rng.Int63())))
		wg.Wait()
		close(sr.Done)
		ps.Stop()
		events += n
		runs++
	}
	verifkit.WriteJSON(os.Getenv("VERIF_OUT"), map[string]any{"evaluations": events, "distinct": runs, "traces": runs,
		"samples": []any{map[string]any{"runs": runs, "events": events}}, "note": "real StressRelief with its monitor goroutine under the race detector"})
}

type c35Health struct{}

func (c35Health) Register(string, time.Duration) {}
func (c35Health) Unregister(string)              {}
func (c35Health) Ready(string, bool)             {}
