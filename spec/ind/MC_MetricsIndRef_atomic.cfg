SPECIFICATION SpecU
CONSTANTS
  Counters = {"c"}
  Gauges = {"g"}
  UpDowns = {"u"}
  Hists = {"h"}
  Stores = {"s"}
  MaxCount = 3
  MaxNet = 1
  Vals = {1, 2}
  MaxGen = 1
  Threads = {}
  MaxOps = 0
  RegisterReplaces = FALSE
INVARIANTS InitSame SameInv
PROPERTIES Fwd Bwd SameAct
VIEW View
CHECK_DEADLOCK FALSE
