//go:build verif

package route

// Binding of spec/Proxy.tla (property C37) to a real Router.
//
// One specification walk = one (client request, upstream response) vector.
// The request is written byte by byte onto a TCP connection to the mux that
// Router.LnS built (real middleware chain, real catch-all proxy route), with
// the Honeycomb API of the configuration (real loader, YAML) pointing at a
// fake API that records what it receives and answers what the vector says.
//   Forward: project what the fake API received (method, request target,
//            body, every header that is not hop-level; the client's own
//            address is shown as CLIENT)
//   Return / Fail: project what came back on the client's connection
//   Faulty:  the fake API misbehaves as the vector's `fault` says (closes the
//            connection after reading the request - once or always -, refuses
//            the connection, cuts its answer in the middle of the body, never
//            answers); project EVERY request the fake API received, in order,
//            and what came back on the client's connection
// Header values are projected as element lists (comma-separated lists split),
// Set-Cookie line by line - see the header of Proxy.tla for why.

import (
	"bufio"
	"bytes"
	"context"
	"encoding/hex"
	"errors"
	"fmt"
	"io"
	"net"
	"net/http"
	"net/http/httptest"
	"os"
	"path/filepath"
	"sort"
	"strings"
	"sync"
	"sync/atomic"
	"syscall"
	"testing"
	"time"

	"github.com/honeycombio/refinery/config"
	"github.com/honeycombio/refinery/internal/health"
	"github.com/honeycombio/refinery/internal/verifkit"
	"github.com/honeycombio/refinery/logger"
	"github.com/honeycombio/refinery/metrics"
	"github.com/honeycombio/refinery/sharder"
	"github.com/honeycombio/refinery/types"
	"go.opentelemetry.io/otel/trace/noop"
)

const (
	c37RedirectTarget = "/c37/redirect-target"
	c37IOGuard        = 60 * time.Second // failure guard on socket reads, never waited for in a passing run
	// fault "hang" only: the proxy's own client timeout (10 s in LnS) is shortened for that one exchange;
	// the fake API does not answer until the proxy has given up, so the outcome does not depend on the value
	c37HangTimeout = 250 * time.Millisecond
)

var c37Bodies = map[string][]byte{
	"empty":  {},
	"json":   []byte(`{"c37":"body","list":[1,2,3],"text":"a, b"}`),
	"binary": append([]byte{0x00, 0xff, 0xfe, '\r', '\n', 0x80, 'a', 0x00, '%', '2', 'F', 0xc3, 0x28}, bytes.Repeat([]byte{0x01, 0x7f, 0x00}, 100)...),
	"target": []byte("c37 redirect target"),
}

func c37BodyToken(b []byte) string {
	for k, v := range c37Bodies {
		if bytes.Equal(b, v) {
			return k
		}
	}
	n := len(b)
	if n > 24 {
		n = 24
	}
	return fmt.Sprintf("other:%d:%s", len(b), hex.EncodeToString(b[:n]))
}

// hop-level fields: rewritten by every HTTP hop, not part of the relation
var c37HopReq = map[string]bool{"Accept-Encoding": true, "Content-Length": true, "Connection": true, "Transfer-Encoding": true, "Te": true,
	"Trailer": true, "Upgrade": true, "Keep-Alive": true, "Proxy-Connection": true, "Host": true}
var c37HopResp = map[string]bool{"Date": true, "Content-Length": true, "Connection": true, "Transfer-Encoding": true, "Keep-Alive": true, "Trailer": true}

type c37Seen struct {
	method, target string
	header         http.Header
	body           []byte
}

type c37Answer struct {
	status int                 // 0: drop the connection
	hdrs   map[string][]string // name -> values, one field line each
	body   []byte
}

// c37Upstream is the fake Honeycomb API.
type c37Upstream struct {
	srv   *httptest.Server
	mu    sync.Mutex
	calls []c37Seen
	cur   c37Answer
	fault string // "" / "none": healthy; else see Proxy.tla Faults
}

// dropConn closes the connection of the request without answering; with a non-nil
// answer it first writes status line, headers and the first half of the announced body.
func c37DropConn(w http.ResponseWriter, partial *c37Answer) {
	hj, ok := w.(http.Hijacker)
	if !ok {
		return
	}
	c, _, err := hj.Hijack()
	if err != nil {
		return
	}
	if partial != nil {
		var b bytes.Buffer
		fmt.Fprintf(&b, "HTTP/1.1 %d %s\r\n", partial.status, http.StatusText(partial.status))
		for name, vals := range partial.hdrs {
			for _, v := range vals {
				fmt.Fprintf(&b, "%s: %s\r\n", http.CanonicalHeaderKey(name), v)
			}
		}
		fmt.Fprintf(&b, "Content-Length: %d\r\n\r\n", len(partial.body))
		b.Write(partial.body[:len(partial.body)/2])
		c.Write(b.Bytes())
	}
	c.Close()
}

func (u *c37Upstream) handle(w http.ResponseWriter, r *http.Request) {
	body, _ := io.ReadAll(r.Body)
	u.mu.Lock()
	u.calls = append(u.calls, c37Seen{method: r.Method, target: r.RequestURI, header: r.Header.Clone(), body: body})
	ans := u.cur
	fault, nth := u.fault, len(u.calls)
	u.mu.Unlock()
	switch fault {
	case "close-once":
		if nth == 1 {
			c37DropConn(w, nil)
			return
		}
	case "close-always":
		c37DropConn(w, nil)
		return
	case "cut-body":
		c37DropConn(w, &ans)
		return
	case "hang":
		<-r.Context().Done() // until the proxy gives the call up
		return
	}
	h := w.Header()
	if r.URL.Path == c37RedirectTarget {
		h.Set("X-C37-Resp", "r1")
		h.Set("Content-Type", "text/plain; charset=utf-8")
		w.WriteHeader(200)
		w.Write(c37Bodies["target"])
		return
	}
	if ans.status == 0 {
		if hj, ok := w.(http.Hijacker); ok {
			if c, _, err := hj.Hijack(); err == nil {
				c.Close()
			}
		}
		return
	}
	h["Content-Type"] = nil // no sniffing: the vector decides whether there is a Content-Type
	for name, vals := range ans.hdrs {
		h[http.CanonicalHeaderKey(name)] = append([]string(nil), vals...)
	}
	w.WriteHeader(ans.status)
	w.Write(ans.body)
}

func (u *c37Upstream) arm(a c37Answer, fault string) {
	u.mu.Lock()
	u.calls = nil
	u.cur = a
	u.fault = fault
	u.mu.Unlock()
}

func (u *c37Upstream) seen() []c37Seen {
	u.mu.Lock()
	defer u.mu.Unlock()
	return append([]c37Seen(nil), u.calls...)
}

type c37Env struct {
	up     *c37Upstream
	router *Router
	srv    *httptest.Server
	conn   net.Conn
	rd     *bufio.Reader
	tr     *http.Transport
	refuse atomic.Bool // fault "refused": every dial of the proxy's transport is refused
}

func c37NewEnv(dir string) (*c37Env, error) {
	e := &c37Env{up: &c37Upstream{}}
	e.up.srv = httptest.NewServer(http.HandlerFunc(e.up.handle))
	cpath := filepath.Join(dir, "c37-config.yaml")
	rpath := filepath.Join(dir, "c37-rules.yaml")
	cy := "General:\n  ConfigurationVersion: 2\nNetwork:\n  ListenAddr: 127.0.0.1:0\n  PeerListenAddr: 127.0.0.1:0\n  HoneycombAPI: " + e.up.srv.URL + "\n"
	ry := "RulesVersion: 2\nSamplers:\n  __default__:\n    DeterministicSampler:\n      SampleRate: 1\n"
	if err := os.WriteFile(cpath, []byte(cy), 0o600); err != nil {
		return nil, err
	}
	if err := os.WriteFile(rpath, []byte(ry), 0o600); err != nil {
		return nil, err
	}
	cfg, err := config.NewConfig(&config.CmdEnv{ConfigLocations: []string{cpath}, RulesLocations: []string{rpath}}, "v3.0.0")
	if cfg == nil {
		return nil, fmt.Errorf("config loader refused the c37 configuration: %v", err)
	}
	if cfg.GetHoneycombAPI() != e.up.srv.URL {
		return nil, fmt.Errorf("stale harness: HoneycombAPI is %q", cfg.GetHoneycombAPI())
	}
	dialer := &net.Dialer{}
	e.tr = &http.Transport{DialContext: func(ctx context.Context, network, addr string) (net.Conn, error) {
		if e.refuse.Load() {
			return nil, &net.OpError{Op: "dial", Net: network, Err: os.NewSyscallError("connect", syscall.ECONNREFUSED)}
		}
		return dialer.DialContext(ctx, network, addr)
	}}
	mm := &metrics.MockMetrics{}
	mm.Start()
	hr := &health.MockHealthReporter{}
	hr.SetAlive(true)
	hr.SetReady(true)
	e.router = &Router{
		Config:        cfg,
		Logger:        &logger.NullLogger{},
		Health:        hr,
		HTTPTransport: e.tr,
		Sharder:       &sharder.MockSharder{Self: &sharder.TestShard{Addr: "http://c37-self:8081"}},
		Metrics:       mm,
		Tracer:        noop.Tracer{},
	}
	e.router.SetVersion("c37")
	e.router.SetType(types.RouterTypeIncoming)
	e.router.LnS()
	if e.router.server == nil {
		return nil, fmt.Errorf("Router.LnS did not build its server")
	}
	e.srv = httptest.NewServer(e.router.server.Handler)
	return e, nil
}

func (e *c37Env) close() {
	if e.conn != nil {
		e.conn.Close()
	}
	e.srv.Close()
	e.router.Stop()
	e.up.srv.Close()
}

// c37Result is what the client read from its connection.
type c37Result struct {
	status int
	header http.Header
	body   []byte
	local  string // the client's own address (ip:port)
	cut    bool   // the announced body did not arrive completely
}

// exchange writes the raw request and reads one response.
func (e *c37Env) exchange(method string, raw []byte) (*c37Result, error) {
	if e.conn == nil {
		c, err := net.Dial("tcp", strings.TrimPrefix(e.srv.URL, "http://"))
		if err != nil {
			return nil, err
		}
		e.conn, e.rd = c, bufio.NewReader(c)
	}
	e.conn.SetDeadline(time.Now().Add(c37IOGuard))
	if _, err := e.conn.Write(raw); err != nil {
		return nil, err
	}
	resp, err := http.ReadResponse(e.rd, &http.Request{Method: method})
	if err != nil {
		local := e.conn.LocalAddr().String()
		e.conn.Close()
		e.conn = nil
		if errors.Is(err, io.EOF) || errors.Is(err, io.ErrUnexpectedEOF) {
			// Refinery closed the connection instead of answering: an observation, not a harness failure
			return &c37Result{status: -1, header: http.Header{}, local: local}, nil
		}
		return nil, fmt.Errorf("reading Refinery's response: %w", err)
	}
	body, err := io.ReadAll(resp.Body)
	resp.Body.Close()
	res := &c37Result{status: resp.StatusCode, header: resp.Header, body: body, local: e.conn.LocalAddr().String()}
	if err != nil {
		e.conn.Close()
		e.conn = nil
		if errors.Is(err, io.EOF) || errors.Is(err, io.ErrUnexpectedEOF) {
			// the announced body did not arrive completely: also an observation
			res.cut = true
			res.body = append(res.body, []byte(" [c37: body cut short]")...)
			return res, nil
		}
		return nil, fmt.Errorf("reading Refinery's response body: %w", err)
	}
	if resp.Close {
		e.conn.Close()
		e.conn = nil
	}
	return res, nil
}

func c37StrList(v any) []string {
	arr, _ := v.([]any)
	out := make([]string, 0, len(arr))
	for _, x := range arr {
		s, _ := x.(string)
		out = append(out, s)
	}
	return out
}

func c37Elements(name string, lines []string) []any {
	out := []any{}
	for _, l := range lines {
		if name == "Set-Cookie" {
			out = append(out, l)
			continue
		}
		for _, p := range strings.Split(l, ",") {
			out = append(out, strings.TrimSpace(p))
		}
	}
	return out
}

type c37Harness struct {
	dir       string
	side      string
	fault     string
	nfault    int
	env       *c37Env
	req, rsp  map[string]any
	res       *c37Result
	calls     []c37Seen
	forwarded bool
	returned  bool
}

func (h *c37Harness) Reset(init map[string]any) error {
	if h.env == nil {
		e, err := c37NewEnv(h.dir)
		if err != nil {
			return err
		}
		h.env = e
	}
	h.req, _ = init["req"].(map[string]any)
	h.rsp, _ = init["rsp"].(map[string]any)
	if h.req == nil || h.rsp == nil {
		return fmt.Errorf("initial state without req/rsp: %v", init)
	}
	h.side = verifkit.Str(init, "side")
	h.fault = verifkit.Str(init, "fault")
	h.res, h.calls, h.forwarded, h.returned = nil, nil, false, false
	return nil
}

func (h *c37Harness) rawRequest() (string, []byte, error) {
	method := verifkit.Str(h.req, "method")
	body, ok := c37Bodies[verifkit.Str(h.req, "body")]
	if !ok {
		return "", nil, fmt.Errorf("unknown body %v", h.req["body"])
	}
	var b bytes.Buffer
	fmt.Fprintf(&b, "%s %s%s HTTP/1.1\r\nHost: c37.refinery.test\r\n", method, verifkit.Str(h.req, "path"), verifkit.Str(h.req, "query"))
	hdrs, _ := h.req["hdrs"].(map[string]any)
	names := make([]string, 0, len(hdrs))
	for n := range hdrs {
		names = append(names, n)
	}
	sort.Strings(names)
	for _, n := range names {
		vals := c37StrList(hdrs[n])
		if verifkit.Str(h.req, "wire") == "comma" {
			fmt.Fprintf(&b, "%s: %s\r\n", n, strings.Join(vals, ", "))
			continue
		}
		for _, v := range vals {
			fmt.Fprintf(&b, "%s: %s\r\n", n, v)
		}
	}
	if len(body) > 0 || method != "GET" {
		fmt.Fprintf(&b, "Content-Length: %d\r\n", len(body))
	}
	b.WriteString("\r\n")
	b.Write(body)
	return method, b.Bytes(), nil
}

// exchange performs the vector's whole HTTP exchange.
func (h *c37Harness) exchange() error {
	ans := c37Answer{status: verifkit.Int(h.rsp, "status"), hdrs: map[string][]string{}}
	body, ok := c37Bodies[verifkit.Str(h.rsp, "body")]
	if !ok {
		return fmt.Errorf("unknown body %v", h.rsp["body"])
	}
	ans.body = body
	rh, _ := h.rsp["hdrs"].(map[string]any)
	for n, v := range rh {
		ans.hdrs[n] = c37StrList(v)
	}
	if ans.status == 3020 {
		ans.status = 302
		ans.hdrs["Location"] = []string{c37RedirectTarget}
	}
	fault := ""
	if h.side == "fault" {
		fault = h.fault
	}
	method, raw, err := h.rawRequest()
	if err != nil {
		return err
	}
	if fault != "" {
		// every other fault vector starts with a healthy exchange, so that the proxy's transport holds a
		// kept-alive connection to the API when the fault strikes (a stale connection dying under a request:
		// net/http then repeats replayable requests by itself); the others meet the fault on a fresh connection
		if h.nfault++; h.nfault%2 == 1 {
			h.env.up.arm(ans, "")
			if _, err := h.env.exchange(method, raw); err != nil {
				return err
			}
		}
	}
	h.env.up.arm(ans, fault)
	switch fault {
	case "refused":
		h.env.tr.CloseIdleConnections() // no kept-alive connection to the API: the proxy has to dial
		h.env.refuse.Store(true)
		defer h.env.refuse.Store(false)
	case "hang":
		normal := h.env.router.proxyClient.Timeout
		h.env.router.proxyClient.Timeout = c37HangTimeout
		defer func() { h.env.router.proxyClient.Timeout = normal }()
	}
	res, err := h.env.exchange(method, raw)
	if err != nil {
		return err
	}
	h.res, h.calls = res, h.env.up.seen()
	if fault != "" {
		// leave nothing of the faulty exchange behind for the next vector
		h.env.up.arm(c37Answer{}, "")
		h.env.tr.CloseIdleConnections()
	}
	return nil
}

// seenAbs is one request the fake API received, in the shape of Proxy.tla Upstream(req).
func (h *c37Harness) seenAbs(c c37Seen) map[string]any {
	host, _, _ := net.SplitHostPort(h.res.local)
	hdrs := map[string]any{}
	for n, lines := range c.header {
		if c37HopReq[n] {
			continue
		}
		el := c37Elements(n, lines)
		if n == "X-Forwarded-For" {
			for i, x := range el {
				if x == h.res.local || x == host {
					el[i] = "CLIENT"
				}
			}
		}
		hdrs[n] = el
	}
	return map[string]any{"method": c.method, "target": c.target, "body": c37BodyToken(c.body), "hdrs": hdrs}
}

func (h *c37Harness) Apply(a map[string]any) error {
	switch name := verifkit.Str(a, "name"); {
	case name == "Forward" && h.side == "req":
		if err := h.exchange(); err != nil {
			return err
		}
		h.forwarded = true
		return nil
	case (name == "Return" || name == "Fail") && h.side == "rsp":
		if err := h.exchange(); err != nil {
			return err
		}
		h.returned = true
		return nil
	case name == "Faulty" && h.side == "fault":
		if err := h.exchange(); err != nil {
			return err
		}
		h.forwarded, h.returned = true, true
		if f := os.Getenv("C37_FAULT_LOG"); f != "" { // diagnostic only: what the real code did under each fault
			if fh, err := os.OpenFile(f, os.O_APPEND|os.O_CREATE|os.O_WRONLY, 0o600); err == nil {
				fmt.Fprintf(fh, "%s %s body=%s -> presentations=%d client=%d cut=%v\n", h.fault, verifkit.Str(h.req, "method"), verifkit.Str(h.req, "body"), len(h.calls), h.res.status, h.res.cut)
				fh.Close()
			}
		}
		return nil
	}
	return fmt.Errorf("unknown action %v on side %q", a, h.side)
}

func (h *c37Harness) Project() (any, error) {
	up, down := []any{}, []any{}
	if h.forwarded && h.side == "fault" {
		for _, c := range h.calls {
			up = append(up, h.seenAbs(c))
		}
	} else if h.forwarded && len(h.calls) > 0 {
		up = append(up, h.seenAbs(h.calls[0]))
	}
	if h.returned {
		r := h.res
		if (verifkit.Int(h.rsp, "status") == 0 || h.side == "fault") && (r.status == 502 || r.status == 503 || r.status == 504) {
			down = append(down, map[string]any{"kind": "gateway-error", "status": 0, "body": "-", "hdrs": map[string]any{"Access-Control-Allow-Origin": []any{"*"}}, "calls": 0})
		} else {
			hdrs := map[string]any{}
			for n, lines := range r.header {
				if c37HopResp[n] {
					continue
				}
				hdrs[n] = c37Elements(n, lines)
			}
			kind, body := "relayed", c37BodyToken(r.body)
			if want := c37Bodies[verifkit.Str(h.rsp, "body")]; h.side == "fault" && r.cut {
				// visibly incomplete (the connection ended before the announced length): what arrived must be the beginning of the API's body
				got := bytes.TrimSuffix(r.body, []byte(" [c37: body cut short]"))
				if len(got) < len(want) && bytes.HasPrefix(want, got) {
					kind, body = "relayed-cut", "cut"
				}
			}
			down = append(down, map[string]any{"kind": kind, "status": r.status, "body": body, "hdrs": hdrs, "calls": len(h.calls)})
		}
	}
	fault := h.fault
	if fault == "" {
		fault = "none"
	}
	return map[string]any{"side": h.side, "fault": fault, "req": h.req, "rsp": h.rsp, "up": up, "down": down}, nil
}

func TestVerifC37Proxy(t *testing.T) {
	h := &c37Harness{dir: t.TempDir()}
	err := verifkit.Main(h)
	if h.env != nil {
		h.env.close()
	}
	if err != nil {
		t.Fatal(err)
	}
}
