package verifkit

import (
	"bufio"
	"encoding/json"
	"os"
	"sync"
)

// TraceWriter records NDJSON events for binding B2 (recorded-trace
// validation). Emit is safe for concurrent use; the sequence number is taken
// under the writer's own mutex, so callers that need the event order to equal
// the linearization order must call Emit while still holding the lock that
// protects the state they report.
type TraceWriter struct {
	mu     sync.Mutex
	f      *os.File
	w      *bufio.Writer
	seq    int
	Traces int
	Events int
}

// NewTraceWriter opens path for writing.
func NewTraceWriter(path string) (*TraceWriter, error) {
	f, err := os.Create(path)
	if err != nil {
		return nil, err
	}
	return &TraceWriter{f: f, w: bufio.NewWriter(f)}, nil
}

// Reset starts a new trace (a fresh real object): it emits the separator the
// Trace*.tla specifications consume with their TraceReset action.
func (t *TraceWriter) Reset(fields map[string]any) {
	t.mu.Lock()
	defer t.mu.Unlock()
	t.seq = 0
	t.Traces++
	m := map[string]any{"event": "reset"}
	for k, v := range fields {
		m[k] = v
	}
	t.write(m)
}

// Emit appends one event.
func (t *TraceWriter) Emit(event string, fields map[string]any) {
	t.mu.Lock()
	defer t.mu.Unlock()
	t.seq++
	t.Events++
	m := map[string]any{"event": event, "seq": t.seq}
	for k, v := range fields {
		m[k] = v
	}
	t.write(m)
}

func (t *TraceWriter) write(m map[string]any) {
	b, err := json.Marshal(m)
	if err != nil {
		panic(err)
	}
	t.w.Write(b)
	t.w.WriteByte('\n')
}

// Close flushes the file.
func (t *TraceWriter) Close() error {
	t.mu.Lock()
	defer t.mu.Unlock()
	if err := t.w.Flush(); err != nil {
		return err
	}
	return t.f.Close()
}

// WriteJSON writes v to the file named by the environment variable (used for
// driver summaries: VERIF_OUT).
func WriteJSON(path string, v any) error {
	b, err := json.Marshal(v)
	if err != nil {
		return err
	}
	return os.WriteFile(path, b, 0o644)
}
