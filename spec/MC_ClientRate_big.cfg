SPECIFICATION Spec
CONSTANTS
  Rates <- RatesAll
  MaxLen = 3
INVARIANTS TypeOK AtLeastOne OwnRate AbsentIsOne NeighbourFree
ACTION_CONSTRAINT Dump
VIEW View
CHECK_DEADLOCK FALSE
