//go:build verif

package route

// Binding of spec/Proxy.tla (property C37) to a real Router.
//
// One specification walk = one (client request, upstream response) vector.
// The request is written byte by byte onto a TCP connection to the mux that
// Router.LnS built (real middleware chain, real catch-all proxy route), with
// the Honeycomb API of the configuration (real loader, YAML) pointing at a
// fake API that records what it receives and answers what the vector says.
//   Forward: project what the fake API received (method, request target,
//            body, every header that is not hop-level; the client's own
//            address is shown as CLIENT)
//   Return / Fail: project what came back on the client's connection
// Header values are projected as element lists (comma-separated lists split),
// Set-Cookie line by line - see the header of Proxy.tla for why.

import (
	"bufio"
	"bytes"
	"encoding/hex"
	"errors"
	"fmt"
	"io"
	"net"
	"net/http"
	"net/http/httptest"
	"os"
	"path/filepath"
	"sort"
	"strings"
	"sync"
	"testing"
	"time"

	"github.com/honeycombio/refinery/config"
	"github.com/honeycombio/refinery/internal/health"
	"github.com/honeycombio/refinery/internal/verifkit"
	"github.com/honeycombio/refinery/logger"
	"github.com/honeycombio/refinery/metrics"
	"github.com/honeycombio/refinery/sharder"
	"github.com/honeycombio/refinery/types"
	"go.opentelemetry.io/otel/trace/noop"
)

const (
	c37RedirectTarget = "/c37/redirect-target"
	c37IOGuard        = 60 * time.Second // failure guard on socket reads, never waited for in a passing run
)

var c37Bodies = map[string][]byte{
	"empty":  {},
	"json":   []byte(`{"c37":"body","list":[1,2,3],"text":"a, b"}`),
	"binary": append([]byte{0x00, 0xff, 0xfe, '\r', '\n', 0x80, 'a', 0x00, '%', '2', 'F', 0xc3, 0x28}, bytes.Repeat([]byte{0x01, 0x7f, 0x00}, 100)...),
	"target": []byte("c37 redirect target"),
}

func c37BodyToken(b []byte) string {
	for k, v := range c37Bodies {
		if bytes.Equal(b, v) {
			return k
		}
	}
	n := len(b)
	if n > 24 {
		n = 24
	}
	return fmt.Sprintf("other:%d:%s", len(b), hex.EncodeToString(b[:n]))
}

// hop-level fields: rewritten by every HTTP hop, not part of the relation
var c37HopReq = map[string]bool{"Accept-Encoding": true, "Content-Length": true, "Connection": true, "Transfer-Encoding": true, "Te": true,
	"Trailer": true, "Upgrade": true, "Keep-Alive": true, "Proxy-Connection": true, "Host": true}
var c37HopResp = map[string]bool{"Date": true, "Content-Length": true, "Connection": true, "Transfer-Encoding": true, "Keep-Alive": true, "Trailer": true}

type c37Seen struct {
	method, target string
	header         http.Header
	body           []byte
}

type c37Answer struct {
	status int                 // 0: drop the connection
	hdrs   map[string][]string // name -> values, one field line each
	body   []byte
}

// c37Upstream is the fake Honeycomb API.
type c37Upstream struct {
	srv   *httptest.Server
	mu    sync.Mutex
	calls []c37Seen
	cur   c37Answer
}

func (u *c37Upstream) handle(w http.ResponseWriter, r *http.Request) {
	body, _ := io.ReadAll(r.Body)
	u.mu.Lock()
	u.calls = append(u.calls, c37Seen{method: r.Method, target: r.RequestURI, header: r.Header.Clone(), body: body})
	ans := u.cur
	u.mu.Unlock()
	h := w.Header()
	if r.URL.Path == c37RedirectTarget {
		h.Set("X-C37-Resp", "r1")
		h.Set("Content-Type", "text/plain; charset=utf-8")
		w.WriteHeader(200)
		w.Write(c37Bodies["target"])
		return
	}
	if ans.status == 0 {
		if hj, ok := w.(http.Hijacker); ok {
			if c, _, err := hj.Hijack(); err == nil {
				c.Close()
			}
		}
		return
	}
	h["Content-Type"] = nil // no sniffing: the vector decides whether there is a Content-Type
	for name, vals := range ans.hdrs {
		h[http.CanonicalHeaderKey(name)] = append([]string(nil), vals...)
	}
	w.WriteHeader(ans.status)
	w.Write(ans.body)
}

func (u *c37Upstream) arm(a c37Answer) {
	u.mu.Lock()
	u.calls = nil
	u.cur = a
	u.mu.Unlock()
}

func (u *c37Upstream) seen() []c37Seen {
	u.mu.Lock()
	defer u.mu.Unlock()
	return append([]c37Seen(nil), u.calls...)
}

type c37Env struct {
	up     *c37Upstream
	router *Router
	srv    *httptest.Server
	conn   net.Conn
	rd     *bufio.Reader
}

func c37NewEnv(dir string) (*c37Env, error) {
	e := &c37Env{up: &c37Upstream{}}
	e.up.srv = httptest.NewServer(http.HandlerFunc(e.up.handle))
	cpath := filepath.Join(dir, "c37-config.yaml")
	rpath := filepath.Join(dir, "c37-rules.yaml")
	cy := "General:\n  ConfigurationVersion: 2\nNetwork:\n  ListenAddr: 127.0.0.1:0\n  PeerListenAddr: 127.0.0.1:0\n  HoneycombAPI: " + e.up.srv.URL + "\n"
	ry := "RulesVersion: 2\nSamplers:\n  __default__:\n    DeterministicSampler:\n      SampleRate: 1\n"
	if err := os.WriteFile(cpath, []byte(cy), 0o600); err != nil {
		return nil, err
	}
	if err := os.WriteFile(rpath, []byte(ry), 0o600); err != nil {
		return nil, err
	}
	cfg, err := config.NewConfig(&config.CmdEnv{ConfigLocations: []string{cpath}, RulesLocations: []string{rpath}}, "v3.0.0")
	if cfg == nil {
		return nil, fmt.Errorf("config loader refused the c37 configuration: %v", err)
	}
	if cfg.GetHoneycombAPI() != e.up.srv.URL {
		return nil, fmt.Errorf("stale harness: HoneycombAPI is %q", cfg.GetHoneycombAPI())
	}
	mm := &metrics.MockMetrics{}
	mm.Start()
	hr := &health.MockHealthReporter{}
	hr.SetAlive(true)
	hr.SetReady(true)
	e.router = &Router{
		Config:        cfg,
		Logger:        &logger.NullLogger{},
		Health:        hr,
		HTTPTransport: &http.Transport{},
		Sharder:       &sharder.MockSharder{Self: &sharder.TestShard{Addr: "http://c37-self:8081"}},
		Metrics:       mm,
		Tracer:        noop.Tracer{},
	}
	e.router.SetVersion("c37")
	e.router.SetType(types.RouterTypeIncoming)
	e.router.LnS()
	if e.router.server == nil {
		return nil, fmt.Errorf("Router.LnS did not build its server")
	}
	e.srv = httptest.NewServer(e.router.server.Handler)
	return e, nil
}

func (e *c37Env) close() {
	if e.conn != nil {
		e.conn.Close()
	}
	e.srv.Close()
	e.router.Stop()
	e.up.srv.Close()
}

// c37Result is what the client read from its connection.
type c37Result struct {
	status int
	header http.Header
	body   []byte
	local  string // the client's own address (ip:port)
}

// exchange writes the raw request and reads one response.
func (e *c37Env) exchange(method string, raw []byte) (*c37Result, error) {
	if e.conn == nil {
		c, err := net.Dial("tcp", strings.TrimPrefix(e.srv.URL, "http://"))
		if err != nil {
			return nil, err
		}
		e.conn, e.rd = c, bufio.NewReader(c)
	}
	e.conn.SetDeadline(time.Now().Add(c37IOGuard))
	if _, err := e.conn.Write(raw); err != nil {
		return nil, err
	}
	resp, err := http.ReadResponse(e.rd, &http.Request{Method: method})
	if err != nil {
		local := e.conn.LocalAddr().String()
		e.conn.Close()
		e.conn = nil
		if errors.Is(err, io.EOF) || errors.Is(err, io.ErrUnexpectedEOF) {
			// Refinery closed the connection instead of answering: an observation, not a harness failure
			return &c37Result{status: -1, header: http.Header{}, local: local}, nil
		}
		return nil, fmt.Errorf("reading Refinery's response: %w", err)
	}
	body, err := io.ReadAll(resp.Body)
	resp.Body.Close()
	res := &c37Result{status: resp.StatusCode, header: resp.Header, body: body, local: e.conn.LocalAddr().String()}
	if err != nil {
		e.conn.Close()
		e.conn = nil
		if errors.Is(err, io.EOF) || errors.Is(err, io.ErrUnexpectedEOF) {
			// the announced body did not arrive completely: also an observation
			res.body = append(res.body, []byte(" [c37: body cut short]")...)
			return res, nil
		}
		return nil, fmt.Errorf("reading Refinery's response body: %w", err)
	}
	if resp.Close {
		e.conn.Close()
		e.conn = nil
	}
	return res, nil
}

func c37StrList(v any) []string {
	arr, _ := v.([]any)
	out := make([]string, 0, len(arr))
	for _, x := range arr {
		s, _ := x.(string)
		out = append(out, s)
	}
	return out
}

func c37Elements(name string, lines []string) []any {
	out := []any{}
	for _, l := range lines {
		if name == "Set-Cookie" {
			out = append(out, l)
			continue
		}
		for _, p := range strings.Split(l, ",") {
			out = append(out, strings.TrimSpace(p))
		}
	}
	return out
}

type c37Harness struct {
	dir       string
	side      string
	env       *c37Env
	req, rsp  map[string]any
	res       *c37Result
	calls     []c37Seen
	forwarded bool
	returned  bool
}

func (h *c37Harness) Reset(init map[string]any) error {
	if h.env == nil {
		e, err := c37NewEnv(h.dir)
		if err != nil {
			return err
		}
		h.env = e
	}
	h.req, _ = init["req"].(map[string]any)
	h.rsp, _ = init["rsp"].(map[string]any)
	if h.req == nil || h.rsp == nil {
		return fmt.Errorf("initial state without req/rsp: %v", init)
	}
	h.side = verifkit.Str(init, "side")
	h.res, h.calls, h.forwarded, h.returned = nil, nil, false, false
	return nil
}

func (h *c37Harness) rawRequest() (string, []byte, error) {
	method := verifkit.Str(h.req, "method")
	body, ok := c37Bodies[verifkit.Str(h.req, "body")]
	if !ok {
		return "", nil, fmt.Errorf("unknown body %v", h.req["body"])
	}
	var b bytes.Buffer
	fmt.Fprintf(&b, "%s %s%s HTTP/1.1\r\nHost: c37.refinery.test\r\n", method, verifkit.Str(h.req, "path"), verifkit.Str(h.req, "query"))
	hdrs, _ := h.req["hdrs"].(map[string]any)
	names := make([]string, 0, len(hdrs))
	for n := range hdrs {
		names = append(names, n)
	}
	sort.Strings(names)
	for _, n := range names {
		vals := c37StrList(hdrs[n])
		if verifkit.Str(h.req, "wire") == "comma" {
			fmt.Fprintf(&b, "%s: %s\r\n", n, strings.Join(vals, ", "))
			continue
		}
		for _, v := range vals {
			fmt.Fprintf(&b, "%s: %s\r\n", n, v)
		}
	}
	if len(body) > 0 || method != "GET" {
		fmt.Fprintf(&b, "Content-Length: %d\r\n", len(body))
	}
	b.WriteString("\r\n")
	b.Write(body)
	return method, b.Bytes(), nil
}

// exchange performs the vector's whole HTTP exchange.
func (h *c37Harness) exchange() error {
	ans := c37Answer{status: verifkit.Int(h.rsp, "status"), hdrs: map[string][]string{}}
	body, ok := c37Bodies[verifkit.Str(h.rsp, "body")]
	if !ok {
		return fmt.Errorf("unknown body %v", h.rsp["body"])
	}
	ans.body = body
	rh, _ := h.rsp["hdrs"].(map[string]any)
	for n, v := range rh {
		ans.hdrs[n] = c37StrList(v)
	}
	if ans.status == 3020 {
		ans.status = 302
		ans.hdrs["Location"] = []string{c37RedirectTarget}
	}
	h.env.up.arm(ans)
	method, raw, err := h.rawRequest()
	if err != nil {
		return err
	}
	res, err := h.env.exchange(method, raw)
	if err != nil {
		return err
	}
	h.res, h.calls = res, h.env.up.seen()
	return nil
}

func (h *c37Harness) Apply(a map[string]any) error {
	switch name := verifkit.Str(a, "name"); {
	case name == "Forward" && h.side == "req":
		if err := h.exchange(); err != nil {
			return err
		}
		h.forwarded = true
		return nil
	case (name == "Return" || name == "Fail") && h.side == "rsp":
		if err := h.exchange(); err != nil {
			return err
		}
		h.returned = true
		return nil
	}
	return fmt.Errorf("unknown action %v on side %q", a, h.side)
}

func (h *c37Harness) Project() (any, error) {
	up, down := []any{}, []any{}
	if h.forwarded && len(h.calls) > 0 {
		c := h.calls[0]
		host, _, _ := net.SplitHostPort(h.res.local)
		hdrs := map[string]any{}
		for n, lines := range c.header {
			if c37HopReq[n] {
				continue
			}
			el := c37Elements(n, lines)
			if n == "X-Forwarded-For" {
				for i, x := range el {
					if x == h.res.local || x == host {
						el[i] = "CLIENT"
					}
				}
			}
			hdrs[n] = el
		}
		up = append(up, map[string]any{"method": c.method, "target": c.target, "body": c37BodyToken(c.body), "hdrs": hdrs})
	}
	if h.returned {
		r := h.res
		if verifkit.Int(h.rsp, "status") == 0 && (r.status == 502 || r.status == 503 || r.status == 504) {
			down = append(down, map[string]any{"kind": "gateway-error", "status": 0, "body": "-", "hdrs": map[string]any{"Access-Control-Allow-Origin": []any{"*"}}, "calls": 0})
		} else {
			hdrs := map[string]any{}
			for n, lines := range r.header {
				if c37HopResp[n] {
					continue
				}
				hdrs[n] = c37Elements(n, lines)
			}
			down = append(down, map[string]any{"kind": "relayed", "status": r.status, "body": c37BodyToken(r.body), "hdrs": hdrs, "calls": len(h.calls)})
		}
	}
	return map[string]any{"side": h.side, "req": h.req, "rsp": h.rsp, "up": up, "down": down}, nil
}

func TestVerifC37Proxy(t *testing.T) {
	h := &c37Harness{dir: t.TempDir()}
	err := verifkit.Main(h)
	if h.env != nil {
		h.env.close()
	}
	if err != nil {
		t.Fatal(err)
	}
}
