SPECIFICATION TraceSpec
CONSTANTS
  CContents = {"A", "B", "Bw", "Br", "Brw", "X", "U"}
  RContents = {"A", "B", "X", "U"}
  Procs = {"p1", "p2"}
  Listeners = {"l1", "l2"}
  InitListeners = {"l1", "l2"}
  MaxWrites = 1000000
  Atomic = FALSE
  Exclusive = FALSE
  Serialized = FALSE
  Faithful = FALSE
CONSTRAINT HWM
VIEW TraceView
POSTCONDITION TraceAccepted
CHECK_DEADLOCK FALSE
