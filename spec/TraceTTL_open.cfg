SPECIFICATION TraceSpec
CONSTANTS
  Items = {"a", "b", "c"}
  Vals = {1, 2, 3}
  TTL = 2
  MaxNow = 1000000
  Closed = FALSE
INVARIANTS PresentForTTL ObserversAgree
CONSTRAINT HWM
POSTCONDITION TraceAccepted
CHECK_DEADLOCK FALSE
