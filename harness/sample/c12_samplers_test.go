//go:build verif

package sample

import (
	"encoding/json"
	"fmt"
	"os"
	"path/filepath"
	"strings"
	"sync"
	"testing"
	"time"

	"github.com/honeycombio/refinery/config"
	"github.com/honeycombio/refinery/internal/verifkit"
	"github.com/honeycombio/refinery/logger"
	"github.com/honeycombio/refinery/metrics"
	"github.com/honeycombio/refinery/types"
)

// Binding of spec/Samplers.tla (properties C12 and C13) to the real
// sample.SamplerFactory.
//
// Real: the rules files (written as YAML, loaded and validated by
// config.NewConfig, switched with Config.Reload, which fires the reload
// callbacks), SamplerFactory (GetSamplerImplementationForKey, the shared
// dynsampler registry, ClearDynsamplers, updatePeerCounts registered as the
// peers callback and started the way RedisPubsubPeers/FilePeers do: `go cb()`),
// every sampler type, the dynsampler-go instances.
// Emulated (three lines of collect each, the real ones are exercised by the
// collect-level stage): the collector's reload channel, the reloadConfigs loop
// that signals the workers, the workers' datasetSamplers maps.
//
// Observation: for every sampler a worker holds, the dynsampler object behind
// it (pointer identity, read in-package), whether the registry still holds
// that object, and its GoalThroughputPerSec. A pointer is named by the
// definition of the slot in which it was first seen and the number of
// ClearDynsamplers calls before it; a second pointer that would get the same
// name gets dup > 0, which no specification state has.

// ---- scenario (params of the graph) ---------------------------------------

type c12Leaf struct {
	T string `json:"t"`
	G int    `json:"g"`
	U bool   `json:"u"`
	N int    `json:"n"`
	F string `json:"f"`
}

type c12Top struct {
	Rules  bool      `json:"rules"`
	Leaves []c12Leaf `json:"leaves"`
}

type c12Def struct {
	D string  `json:"d"`
	P int     `json:"p"`
	L c12Leaf `json:"l"`
}

type c12Scenario struct {
	I     int               `json:"i"`
	A     map[string]c12Top `json:"a"`
	B     map[string]c12Top `json:"b"`
	Names map[string]string `json:"names"` // destination -> environment/dataset name used in the rules file
	Tab   []c12Def          `json:"tab"`
}

type c12Params struct {
	Workers        []string          `json:"workers"`
	Dests          []string          `json:"dests"`
	Scenarios      []c12Scenario     `json:"scenarios"`
	Faithful       bool              `json:"faithful"`
	ShareIdentical bool              `json:"shareIdentical"`
}

var c12Fields = map[string][]string{"f": {"svc"}, "g": {"svc", "op"}}

// c12LeafYAML renders one leaf sampler; indent is the indentation of the
// sampler-type line.
func c12LeafYAML(l c12Leaf, indent string) string {
	var b strings.Builder
	w := func(format string, a ...any) { b.WriteString(indent + fmt.Sprintf(format, a...) + "\n") }
	fl := "[" + strings.Join(c12Fields[l.F], ", ") + "]"
	switch l.T {
	case "de":
		w("DeterministicSampler:")
		w("  SampleRate: %d", l.G)
	case "dy":
		w("DynamicSampler:")
		w("  SampleRate: %d", l.G)
		w("  FieldList: %s", fl)
		if l.N == 1 {
			w("  MaxKeys: 77")
		}
		if l.N == 2 {
			w("  ClearFrequency: 45s")
			w("  UseTraceLength: true")
		}
	case "ed":
		w("EMADynamicSampler:")
		w("  GoalSampleRate: %d", l.G)
		w("  FieldList: %s", fl)
		if l.N == 1 {
			w("  MaxKeys: 77")
		}
		if l.N == 2 {
			w("  AdjustmentInterval: 20s")
			w("  Weight: 0.4")
			w("  BurstMultiple: 3")
		}
	case "tt":
		w("TotalThroughputSampler:")
		w("  GoalThroughputPerSec: %d", l.G)
		w("  UseClusterSize: %v", l.U)
		w("  FieldList: %s", fl)
		if l.N == 1 {
			w("  MaxKeys: 77")
		}
		if l.N == 2 {
			w("  ClearFrequency: 45s")
			w("  UseTraceLength: true")
		}
	case "et":
		w("EMAThroughputSampler:")
		w("  GoalThroughputPerSec: %d", l.G)
		w("  UseClusterSize: %v", l.U)
		w("  FieldList: %s", fl)
		if l.N == 1 {
			w("  MaxKeys: 77")
		}
		if l.N == 2 {
			w("  AdjustmentInterval: 20s")
			w("  Weight: 0.4")
			w("  InitialSampleRate: 7")
		}
	case "wt":
		w("WindowedThroughputSampler:")
		w("  GoalThroughputPerSec: %d", l.G)
		w("  UseClusterSize: %v", l.U)
		w("  FieldList: %s", fl)
		if l.N == 1 {
			w("  MaxKeys: 77")
		}
		if l.N == 2 {
			w("  UpdateFrequency: 2s")
			w("  LookbackFrequency: 40s")
		}
	}
	return b.String()
}

func c12RulesYAML(file map[string]c12Top, dests []string, names map[string]string) string {
	var b strings.Builder
	b.WriteString("RulesVersion: 2\nSamplers:\n  __default__:\n    DeterministicSampler:\n      SampleRate: 1\n")
	for _, d := range dests {
		top := file[d]
		if !top.Rules && top.Leaves[0].T == "df" {
			continue // destination absent from the file
		}
		b.WriteString(fmt.Sprintf("  %q:\n", names[d]))
		if !top.Rules {
			b.WriteString(c12LeafYAML(top.Leaves[0], "    "))
			continue
		}
		b.WriteString("    RulesBasedSampler:\n      Rules:\n")
		for i, l := range top.Leaves {
			b.WriteString(fmt.Sprintf("        - Name: rule%d\n          Conditions:\n            - Field: r\n              Operator: \"=\"\n              Value: %d\n              Datatype: int\n          Sampler:\n", i+1, i+1))
			b.WriteString(c12LeafYAML(l, "            "))
		}
	}
	return b.String()
}

// ---- peers: membership the harness controls, callbacks started like the real ones

type c12Peers struct {
	mu        sync.Mutex
	n         int
	callbacks []func()
}

func (p *c12Peers) GetPeers() ([]string, error) {
	p.mu.Lock()
	defer p.mu.Unlock()
	out := make([]string, p.n)
	for i := range out {
		out[i] = fmt.Sprintf("http://peer%d:8081", i)
	}
	return out, nil
}
func (p *c12Peers) GetInstanceID() (string, error) { return "http://peer0:8081", nil }
func (p *c12Peers) RegisterUpdatedPeersCallback(cb func()) {
	p.mu.Lock()
	defer p.mu.Unlock()
	p.callbacks = append(p.callbacks, cb)
}
func (p *c12Peers) Ready() error { return nil }
func (p *c12Peers) Start() error { return nil }
func (p *c12Peers) set(n int) {
	p.mu.Lock()
	p.n = n
	p.mu.Unlock()
}

// fire starts every registered callback in its own goroutine (as
// RedisPubsubPeers.checkHash and FilePeers do) and waits for them.
func (p *c12Peers) fire() {
	p.mu.Lock()
	cbs := append([]func(){}, p.callbacks...)
	p.mu.Unlock()
	var wg sync.WaitGroup
	for _, cb := range cbs {
		wg.Add(1)
		go func() {
			defer wg.Done()
			cb()
		}()
	}
	wg.Wait()
}

// ---- observation of one sampler --------------------------------------------

// c12Slot is one leaf sampler object: the dynsampler behind it (nil for a
// deterministic sampler), the leaf it was configured with, its goal.
type c12Slot struct {
	ptr  any // the *dynsampler.X, or nil
	leaf c12Leaf
	goal int
	tput bool
	bad  string
}

func c12FieldsID(fl []string) string {
	if len(fl) == 2 {
		return "g"
	}
	return "f"
}

func c12LeafSlot(s Sampler) c12Slot {
	switch x := s.(type) {
	case *DeterministicSampler:
		return c12Slot{leaf: c12Leaf{T: "de", G: x.Config.SampleRate, F: "f"}}
	case *DynamicSampler:
		l := c12Leaf{T: "dy", G: int(x.Config.SampleRate), F: c12FieldsID(x.Config.FieldList)}
		if x.Config.MaxKeys == 77 {
			l.N = 1
		} else if x.Config.UseTraceLength {
			l.N = 2
		}
		return c12Slot{ptr: x.dynsampler, leaf: l}
	case *EMADynamicSampler:
		l := c12Leaf{T: "ed", G: x.Config.GoalSampleRate, F: c12FieldsID(x.Config.FieldList)}
		if x.Config.MaxKeys == 77 {
			l.N = 1
		} else if x.Config.Weight == 0.4 {
			l.N = 2
		}
		return c12Slot{ptr: x.dynsampler, leaf: l}
	case *TotalThroughputSampler:
		l := c12Leaf{T: "tt", G: x.Config.GoalThroughputPerSec, U: x.Config.UseClusterSize, F: c12FieldsID(x.Config.FieldList)}
		if x.Config.MaxKeys == 77 {
			l.N = 1
		} else if x.Config.UseTraceLength {
			l.N = 2
		}
		return c12Slot{ptr: x.dynsampler, leaf: l, goal: x.dynsampler.GoalThroughputPerSec, tput: true}
	case *EMAThroughputSampler:
		l := c12Leaf{T: "et", G: x.Config.GoalThroughputPerSec, U: x.Config.UseClusterSize, F: c12FieldsID(x.Config.FieldList)}
		if x.Config.MaxKeys == 77 {
			l.N = 1
		} else if x.Config.Weight == 0.4 {
			l.N = 2
		}
		return c12Slot{ptr: x.dynsampler, leaf: l, goal: x.dynsampler.GoalThroughputPerSec, tput: true}
	case *WindowedThroughputSampler:
		l := c12Leaf{T: "wt", G: x.Config.GoalThroughputPerSec, U: x.Config.UseClusterSize, F: c12FieldsID(x.Config.FieldList)}
		if x.Config.MaxKeys == 77 {
			l.N = 1
		} else if time.Duration(x.Config.UpdateFrequency) == 2*time.Second {
			l.N = 2
		}
		g := x.dynsampler.GoalThroughputPerSec
		sl := c12Slot{ptr: x.dynsampler, leaf: l, goal: int(g), tput: true}
		if g != float64(int(g)) {
			sl.bad = fmt.Sprintf("fractional goal %v", g)
		}
		return sl
	}
	return c12Slot{bad: fmt.Sprintf("unexpected sampler %T", s)}
}

// c12Slots lists the leaf samplers of a top-level sampler in rule order.
func c12Slots(s Sampler) (rules bool, out []c12Slot) {
	rb, ok := s.(*RulesBasedSampler)
	if !ok {
		return false, []c12Slot{c12LeafSlot(s)}
	}
	for _, r := range rb.Config.Rules {
		if r.Sampler == nil {
			continue
		}
		ds, ok := rb.samplers[r.String()]
		if !ok {
			out = append(out, c12Slot{bad: "rule " + r.Name + " has no downstream sampler"})
			continue
		}
		out = append(out, c12LeafSlot(ds))
	}
	return true, out
}

// ---- the harness --------------------------------------------------------------

type c12Name struct{ cr, ep, dup int }

type c12Loaded struct {
	cfg     config.Config
	rules   string // path of the rules file
	current string // "a" or "b"
	onLoad  func() // reload callback target (nil: ignore)
}

type c12Harness struct {
	params *c12Params
	dir    string
	loaded map[int]*c12Loaded

	sc        *c12Scenario
	ld        *c12Loaded
	factory   *SamplerFactory
	met       *metrics.MockMetrics
	peers     *c12Peers
	reloadSig bool
	toSignal  int
	pending   map[string]bool
	local     map[string]map[string]Sampler
	clears    int
	names     map[any]c12Name
	used      map[[2]int]int
	steps     int
	panicMsg  string
}

func (h *c12Harness) file(which string) map[string]c12Top {
	if which == "a" {
		return h.sc.A
	}
	return h.sc.B
}

func (h *c12Harness) load(sci int) (*c12Loaded, error) {
	if ld, ok := h.loaded[sci]; ok {
		return ld, nil
	}
	if h.dir == "" {
		d, err := os.MkdirTemp("", "c12verif")
		if err != nil {
			return nil, err
		}
		h.dir = d
	}
	cp := filepath.Join(h.dir, fmt.Sprintf("config%d.yaml", sci))
	rp := filepath.Join(h.dir, fmt.Sprintf("rules%d.yaml", sci))
	if err := os.WriteFile(cp, []byte("General:\n  ConfigurationVersion: 2\n"), 0o644); err != nil {
		return nil, err
	}
	if err := os.WriteFile(rp, []byte(c12RulesYAML(h.sc.A, h.params.Dests, h.sc.Names)), 0o644); err != nil {
		return nil, err
	}
	// Both rules files of the scenario must be files refinery accepts with full
	// validation (startup and reload). The walks then use a second Config object
	// over the same files that skips re-validation on every reload (validation
	// parses the embedded metadata each time and would dominate the run).
	vopts, err := config.NewCmdEnvOptions([]string{"--config", cp, "--rules_config", rp})
	if err != nil {
		return nil, err
	}
	vc, err := config.NewConfig(vopts)
	if err != nil {
		return nil, fmt.Errorf("scenario %d file a rejected by config validation: %w", sci, err)
	}
	if err := os.WriteFile(rp, []byte(c12RulesYAML(h.sc.B, h.params.Dests, h.sc.Names)), 0o644); err != nil {
		return nil, err
	}
	if err := vc.Reload(); err != nil {
		return nil, fmt.Errorf("scenario %d file b rejected by config validation on reload: %w", sci, err)
	}
	if err := os.WriteFile(rp, []byte(c12RulesYAML(h.sc.A, h.params.Dests, h.sc.Names)), 0o644); err != nil {
		return nil, err
	}
	opts, err := config.NewCmdEnvOptions([]string{"--no-validate", "--config", cp, "--rules_config", rp})
	if err != nil {
		return nil, err
	}
	c, err := config.NewConfig(opts)
	if err != nil {
		return nil, err
	}
	ld := &c12Loaded{cfg: c, rules: rp, current: "a"}
	c.RegisterReloadCallback(func(string, string) {
		if ld.onLoad != nil {
			ld.onLoad()
		}
	})
	h.loaded[sci] = ld
	return ld, nil
}

func (h *c12Harness) switchTo(which string) error {
	if h.ld.current == which {
		return nil
	}
	if err := os.WriteFile(h.ld.rules, []byte(c12RulesYAML(h.file(which), h.params.Dests, h.sc.Names)), 0o644); err != nil {
		return err
	}
	if err := h.ld.cfg.Reload(); err != nil {
		return fmt.Errorf("config.Reload: %w", err)
	}
	h.ld.current = which
	return nil
}

func (h *c12Harness) Reset(init map[string]any) error {
	if h.params == nil {
		raw, err := json.Marshal(init["params"])
		if err != nil {
			return err
		}
		h.params = &c12Params{}
		if err := json.Unmarshal(raw, h.params); err != nil {
			return err
		}
		h.loaded = map[int]*c12Loaded{}
	}
	if h.factory != nil {
		h.factory.Stop()
	}
	sci := verifkit.Int(init, "sci")
	if sci < 1 || sci > len(h.params.Scenarios) {
		return fmt.Errorf("scenario index %d out of range", sci)
	}
	h.sc = &h.params.Scenarios[sci-1]
	ld, err := h.load(sci)
	if err != nil {
		return err
	}
	h.ld = ld
	ld.onLoad = nil
	if err := h.switchTo("a"); err != nil {
		return err
	}
	ld.onLoad = func() { h.reloadSig = true } // InMemCollector.sendReloadSignal: non-blocking send on a channel of capacity 1
	h.met = &metrics.MockMetrics{}
	h.met.Start()
	h.peers = &c12Peers{n: 1}
	h.factory = &SamplerFactory{Config: ld.cfg, Logger: &logger.NullLogger{}, Metrics: h.met, Peers: h.peers}
	if err := h.factory.Start(); err != nil {
		return err
	}
	h.reloadSig, h.toSignal, h.clears, h.steps, h.panicMsg = false, 0, 0, 0, ""
	h.pending = map[string]bool{}
	h.local = map[string]map[string]Sampler{}
	for _, w := range h.params.Workers {
		h.local[w] = map[string]Sampler{}
	}
	h.names = map[any]c12Name{}
	h.used = map[[2]int]int{}
	return nil
}

// canon is the index (1-based) of the first definition in the scenario's table
// that the property allows (d, p, l) to share an instance with; 0 if the table
// has no such definition.
func (h *c12Harness) canon(d string, p int, l c12Leaf) int {
	for i, x := range h.sc.Tab {
		if x.D != d || x.L != l {
			continue
		}
		if h.params.ShareIdentical {
			if (x.P == 0) == (p == 0) {
				return i + 1
			}
		} else if x.P == p {
			return i + 1
		}
	}
	return 0
}

// nameNew names the dynsampler pointers of a sampler that was just created.
func (h *c12Harness) nameNew(d string, s Sampler) {
	rules, slots := c12Slots(s)
	for i, sl := range slots {
		if sl.ptr == nil {
			continue
		}
		if _, ok := h.names[sl.ptr]; ok {
			continue
		}
		p := 0
		if rules {
			p = i + 1
		}
		cr := h.canon(d, p, sl.leaf)
		k := [2]int{cr, h.clears}
		h.names[sl.ptr] = c12Name{cr: cr, ep: h.clears, dup: h.used[k]}
		h.used[k]++
	}
}

func (h *c12Harness) trace() *types.Trace {
	h.steps++
	mockCfg := &config.MockConfig{}
	tr := &types.Trace{TraceID: fmt.Sprintf("t%d", h.steps)}
	sp := &types.Span{
		TraceID: tr.TraceID,
		IsRoot:  true,
		Event: &types.Event{Data: types.NewPayload(mockCfg, map[string]interface{}{
			"r": int64(h.steps%2 + 1), "svc": "s", "op": fmt.Sprintf("o%d", h.steps%3),
		})},
	}
	tr.RootSpan = sp
	tr.AddSpan(sp)
	return tr
}

func (h *c12Harness) Apply(a map[string]any) (err error) {
	defer func() {
		if r := recover(); r != nil {
			h.panicMsg = fmt.Sprintf("panic in %v: %v", a, r)
		}
	}()
	switch verifkit.Str(a, "name") {
	case "Decide":
		// CollectorWorker.makeDecision: look up the worker's cache, else ask the factory
		w, d := verifkit.Str(a, "w"), verifkit.Str(a, "d")
		key := h.sc.Names[d]
		s, found := h.local[w][key]
		if !found {
			s = h.factory.GetSamplerImplementationForKey(key)
			if s == nil {
				return fmt.Errorf("factory returned no sampler for %q", key)
			}
			h.local[w][key] = s
			h.nameNew(d, s)
		}
		if rate, _, _, _ := s.GetSampleRate(h.trace()); rate < 1 {
			h.panicMsg = fmt.Sprintf("sample rate %d < 1", rate)
		}
	case "ConfigChange":
		next := "b"
		if h.ld.current == "b" {
			next = "a"
		}
		return h.switchTo(next) // the reload callback sets reloadSig
	case "MonitorClear":
		// InMemCollector.monitor: case <-i.reload: reloadConfigs(): ClearDynsamplers ...
		if !h.reloadSig {
			return fmt.Errorf("MonitorClear without a reload signal: config.Reload did not call the reload callbacks")
		}
		h.reloadSig = false
		h.factory.ClearDynsamplers()
		h.clears++
		h.toSignal = 1
	case "MonitorSignal":
		// ... then a non-blocking send to every worker's reload channel (capacity 1)
		h.pending[h.params.Workers[h.toSignal-1]] = true
		if h.toSignal == len(h.params.Workers) {
			h.toSignal = 0
		} else {
			h.toSignal++
		}
	case "WorkerReload":
		// CollectorWorker.collect: case <-cl.reload: clear(cl.datasetSamplers)
		w := verifkit.Str(a, "w")
		h.pending[w] = false
		clear(h.local[w])
	case "PeersChanged":
		h.peers.set(verifkit.Int(a, "n"))
	case "PeerCallback":
		h.peers.fire()
	default:
		return fmt.Errorf("unknown action %v", a)
	}
	return nil
}

func (h *c12Harness) registered(ptr any) bool {
	h.factory.mutex.Lock()
	defer h.factory.mutex.Unlock()
	for _, e := range h.factory.sharedDynsamplers {
		if e.dynsampler == ptr {
			return true
		}
	}
	return false
}

func (h *c12Harness) Project() (any, error) {
	local := map[string]any{}
	var bad []string
	for _, w := range h.params.Workers {
		per := map[string]any{}
		for _, d := range h.params.Dests {
			s, ok := h.local[w][h.sc.Names[d]]
			views := []any{}
			if ok {
				_, slots := c12Slots(s)
				for _, sl := range slots {
					if sl.bad != "" {
						bad = append(bad, sl.bad)
					}
					v := map[string]any{"cr": 0, "ep": 0, "live": false, "goal": 0}
					if sl.ptr != nil {
						n, named := h.names[sl.ptr]
						if !named {
							bad = append(bad, "unnamed instance")
						}
						live := h.registered(sl.ptr)
						v["cr"], v["ep"], v["live"] = n.cr, n.ep, live
						if n.dup > 0 {
							v["dup"] = n.dup
						}
						if sl.tput {
							if live {
								v["goal"] = sl.goal
							} else {
								v["goal"] = -1
							}
						}
					}
					views = append(views, v)
				}
			}
			per[d] = map[string]any{"c": ok, "s": views}
		}
		local[w] = per
	}
	unique := 0
	if v, ok := h.met.Get("unique_dynsampler_count"); ok {
		unique = int(v)
	}
	out := map[string]any{"local": local, "unique": unique}
	if len(bad) > 0 {
		out["bad"] = bad
	}
	if h.panicMsg != "" {
		out["panic"] = h.panicMsg
	}
	return out, nil
}

func TestVerifSamplers(t *testing.T) {
	h := &c12Harness{}
	err := verifkit.Main(h)
	if h.factory != nil {
		h.factory.Stop()
	}
	if h.dir != "" {
		os.RemoveAll(h.dir)
	}
	if err != nil {
		t.Fatal(err)
	}
}
