SPECIFICATION FairSpec
CONSTANTS
  MaxEvents = 2
  Faithful = FALSE
  Macro = FALSE
  EnvFaults = {"401"}
  BodyFaults = {"gzip"}
  ParseFaults = {"garbage"}
INVARIANTS TypeOK ErrorMeansNoEffects SuccessMeansAllTried PerEventExact NoListElsewhere ExactlyOneStatus EffectsAreTheEvents FaultFreeSucceeds FaultMeansError
PROPERTIES NothingAfterAnswer StatusStable Answered
CHECK_DEADLOCK FALSE
