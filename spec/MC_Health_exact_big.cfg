SPECIFICATION Spec
CONSTANTS
  Subs = {"a", "b"}
  Timeouts = {6, 12}
  Tick = 5
  UnitMs = 100
  Exact = TRUE
INVARIANTS TypeOK C30Alive C30Ready CodeMatchesGhosts CodeWithinStatement
PROPERTY DeadUntilReport
ACTION_CONSTRAINT Dump
VIEW View
