SPECIFICATION Spec
CONSTANTS
  Kind = "stress"
  H = 31
  Rates = {0, 1, 2, 4, 16}
  Insts = {"A", "B"}
  Tables = {"small", "large", "extreme"}
  ExtremeFrom = 16
  Profiles = {"default", "inverted", "equalAlways", "zero", "monitor"}
  Rejectable = {"inverted"}
INVARIANTS TypeOK BoundIsThreshold KeepIsThreshold RateLE1KeepsAll InstancesAgree NestedAnswers
PROPERTIES AskingIsPure ConfigureIsLocal ConfigureTakesEffect
ACTION_CONSTRAINT Dump
VIEW View
