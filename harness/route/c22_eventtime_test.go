//go:build verif

package route

// Binding of spec/EventTime.tla (property C22) to the real ingest and
// forwarding path.
//
// One specification walk = one vector (where and how the client wrote an
// instant down). Eval sends ONE event carrying that timestamp over loopback
// HTTP into the mux Router.LnS built (/1/events with the event-time header, or
// /1/batch with a JSON / msgpack body assembled byte by byte here); the event
// has no trace id, so processEvent hands it to the upstream transmission, a
// real transmit.DirectTransmission (batch size 1: every event is sent at
// once), which serialises it with batchedEvent.MarshalMsg and posts it to a
// fake Honeycomb API. The fake decodes the body with a decoder that shares no
// code with the encoder (vmihailenco/msgpack, not tinylib/msgp) and reports
// the `time` of the event: that is "the timestamp Refinery forwards". It is
// compared with the supplied instant to the nanosecond.
//
// TestVerifC22Sweep (gotest stage) pushes seeded random instants of the whole
// ten-digit range through the same path in every format and applies the same
// comparison in Go (sampling, declared as such).

import (
	"bytes"
	"encoding/binary"
	"encoding/json"
	"fmt"
	"io"
	"math/rand"
	"net/http"
	"net/http/httptest"
	"os"
	"path/filepath"
	"strconv"
	"strings"
	"testing"
	"time"

	"github.com/honeycombio/refinery/config"
	"github.com/honeycombio/refinery/internal/health"
	"github.com/honeycombio/refinery/internal/verifkit"
	"github.com/honeycombio/refinery/logger"
	"github.com/honeycombio/refinery/metrics"
	"github.com/honeycombio/refinery/sharder"
	"github.com/honeycombio/refinery/transmit"
	"github.com/honeycombio/refinery/types"
	"github.com/vmihailenco/msgpack/v5"
	"go.opentelemetry.io/otel/trace/noop"
)

const (
	c22Key     = "c22a45edf5d245834089a1bd6cc9ad01" // classic key: no environment lookup
	c22Guard   = 60 * time.Second                   // failure guard on channel receives, never waited for in a passing run
	c22NearNs  = 1000                               // "near": less than a microsecond off
	c22MinSec  = 1000000000
	c22MaxSec  = 9999999999
	c22VidName = "c22vid"
)

// c22Instant is seconds + nanoseconds since the Unix epoch.
type c22Instant struct {
	sec  int64
	nsec int64
}

type c22Rec struct {
	vid int
	at  c22Instant
	err string
}

// c22Honeycomb is the fake Honeycomb API: it decodes every /1/batch body it
// receives and publishes (vid, time) of every event.
type c22Honeycomb struct {
	srv *httptest.Server
	ch  chan c22Rec
}

func c22NewHoneycomb() *c22Honeycomb {
	h := &c22Honeycomb{ch: make(chan c22Rec, 1<<16)}
	h.srv = httptest.NewServer(http.HandlerFunc(h.handle))
	return h
}

func (h *c22Honeycomb) handle(w http.ResponseWriter, r *http.Request) {
	body, _ := io.ReadAll(r.Body)
	if !strings.HasPrefix(r.URL.Path, "/1/batch/") {
		h.ch <- c22Rec{vid: -1, err: "fake Honeycomb: unexpected request " + r.Method + " " + r.URL.Path}
		w.WriteHeader(http.StatusNotFound)
		return
	}
	var evs []map[string]any
	if err := msgpack.NewDecoder(bytes.NewReader(body)).Decode(&evs); err != nil {
		h.ch <- c22Rec{vid: -1, err: "fake Honeycomb: undecodable batch: " + err.Error()}
		w.WriteHeader(http.StatusBadRequest)
		return
	}
	for _, e := range evs {
		rec := c22Rec{vid: -1}
		if data, ok := e["data"].(map[string]any); ok {
			switch v := data[c22VidName].(type) {
			case int64:
				rec.vid = int(v)
			case uint64:
				rec.vid = int(v)
			case int8:
				rec.vid = int(v)
			case int16:
				rec.vid = int(v)
			case int32:
				rec.vid = int(v)
			case uint8:
				rec.vid = int(v)
			case uint16:
				rec.vid = int(v)
			case uint32:
				rec.vid = int(v)
			case float64:
				rec.vid = int(v)
			}
		}
		switch t := e["time"].(type) {
		case time.Time:
			rec.at = c22Instant{t.Unix(), int64(t.Nanosecond())}
		default:
			rec.err = fmt.Sprintf("forwarded event's time is a %T (%v), not a msgpack timestamp", t, t)
		}
		h.ch <- rec
	}
	resp := make([]map[string]int, len(evs))
	for i := range resp {
		resp[i] = map[string]int{"status": 202}
	}
	w.Header().Set("Content-Type", "application/json")
	json.NewEncoder(w).Encode(resp)
}

type c22Env struct {
	hny    *c22Honeycomb
	tx     *transmit.DirectTransmission
	router *Router
	srv    *httptest.Server
	client *http.Client
	vid    int
	absent c22Instant // what is forwarded for a batch event that carries no time
}

func c22NewEnv(dir string, batchSize int) (*c22Env, error) {
	e := &c22Env{hny: c22NewHoneycomb()}
	cpath := filepath.Join(dir, fmt.Sprintf("c22-config-%d.yaml", batchSize))
	rpath := filepath.Join(dir, fmt.Sprintf("c22-rules-%d.yaml", batchSize))
	cy := "General:\n  ConfigurationVersion: 2\nNetwork:\n  ListenAddr: 127.0.0.1:0\n  PeerListenAddr: 127.0.0.1:0\n  HoneycombAPI: " + e.hny.srv.URL + "\n"
	ry := "RulesVersion: 2\nSamplers:\n  __default__:\n    DeterministicSampler:\n      SampleRate: 1\n"
	if err := os.WriteFile(cpath, []byte(cy), 0o600); err != nil {
		return nil, err
	}
	if err := os.WriteFile(rpath, []byte(ry), 0o600); err != nil {
		return nil, err
	}
	cfg, err := config.NewConfig(&config.CmdEnv{ConfigLocations: []string{cpath}, RulesLocations: []string{rpath}}, "v3.0.0")
	if cfg == nil {
		return nil, fmt.Errorf("config loader refused the c22 configuration: %v", err)
	}
	if cfg.GetHoneycombAPI() != e.hny.srv.URL {
		return nil, fmt.Errorf("stale harness: HoneycombAPI is %q", cfg.GetHoneycombAPI())
	}
	mm := &metrics.MockMetrics{}
	mm.Start()
	// the batch timeout never fires in a run: batches leave when they are full
	e.tx = transmit.NewDirectTransmission(types.TransmitTypeUpstream, http.DefaultTransport.(*http.Transport).Clone(), batchSize, 24*time.Hour, 30*time.Second, false, nil)
	e.tx.Config, e.tx.Logger, e.tx.Metrics, e.tx.Version = cfg, &logger.NullLogger{}, mm, "c22"
	if err := e.tx.Start(); err != nil {
		return nil, err
	}
	hr := &health.MockHealthReporter{}
	hr.SetAlive(true)
	hr.SetReady(true)
	e.router = &Router{
		Config:               cfg,
		Logger:               &logger.NullLogger{},
		Health:               hr,
		HTTPTransport:        &http.Transport{},
		UpstreamTransmission: e.tx,
		Sharder:              &sharder.MockSharder{Self: &sharder.TestShard{Addr: "http://c22-self:8081"}},
		Metrics:              mm,
		Tracer:               noop.Tracer{},
	}
	e.router.SetVersion("c22")
	e.router.SetType(types.RouterTypeIncoming)
	e.router.LnS()
	if e.router.server == nil {
		return nil, fmt.Errorf("Router.LnS did not build its server")
	}
	e.srv = httptest.NewServer(e.router.server.Handler)
	e.client = e.srv.Client()
	return e, nil
}

func (e *c22Env) close() {
	e.srv.Close()
	e.router.Stop()
	e.tx.Stop()
	e.hny.srv.Close()
}

// c22Vector is one way of writing an instant down.
type c22Vector struct {
	fmt, enc, digits, zone string
}

func (v c22Vector) supplied() (c22Instant, error) {
	if len(v.digits) < 10 || len(v.digits) > 19 {
		return c22Instant{}, fmt.Errorf("bad digit string %q", v.digits)
	}
	sec, err := strconv.ParseInt(v.digits[:10], 10, 64)
	if err != nil {
		return c22Instant{}, err
	}
	frac := v.digits[10:] + strings.Repeat("0", 19-len(v.digits))
	nsec, err := strconv.ParseInt(frac, 10, 64)
	if err != nil {
		return c22Instant{}, err
	}
	return c22Instant{sec, nsec}, nil
}

// text is the timestamp as the client writes it in a header / string field.
func (v c22Vector) text() (string, error) {
	switch v.enc {
	case "epoch":
		return v.digits, nil
	case "rfc3339":
		at, err := v.supplied()
		if err != nil {
			return "", err
		}
		loc := time.UTC
		suffix := "Z"
		if v.zone != "Z" {
			if len(v.zone) != 6 || (v.zone[0] != '+' && v.zone[0] != '-') || v.zone[3] != ':' {
				return "", fmt.Errorf("bad zone %q", v.zone)
			}
			hh, _ := strconv.Atoi(v.zone[1:3])
			mm, _ := strconv.Atoi(v.zone[4:6])
			off := hh*3600 + mm*60
			if v.zone[0] == '-' {
				off = -off
			}
			loc = time.FixedZone(v.zone, off)
			suffix = v.zone
		}
		s := time.Unix(at.sec, 0).In(loc).Format("2006-01-02T15:04:05")
		if n := len(v.digits) - 10; n > 0 {
			s += "." + v.digits[10:]
		}
		return s + suffix, nil
	}
	return "", fmt.Errorf("encoding %q has no text form", v.enc)
}

// --- msgpack, assembled by hand ---------------------------------------------

func c22MpStr(b []byte, s string) []byte {
	switch {
	case len(s) < 32:
		b = append(b, 0xa0|byte(len(s)))
	default:
		b = append(b, 0xd9, byte(len(s)))
	}
	return append(b, s...)
}

func c22MpTime(b []byte, v c22Vector) ([]byte, error) {
	at, err := v.supplied()
	if err != nil {
		return nil, err
	}
	switch v.fmt {
	case "mp-str":
		s, err := v.text()
		if err != nil {
			return nil, err
		}
		return c22MpStr(b, s), nil
	case "mp-int":
		n, err := strconv.ParseUint(v.digits, 10, 64)
		if err != nil {
			return nil, err
		}
		b = append(b, 0xcf)
		return binary.BigEndian.AppendUint64(b, n), nil
	case "mp-ext":
		switch v.enc {
		case "ext32":
			if at.nsec != 0 || at.sec>>32 != 0 {
				return nil, fmt.Errorf("%v does not fit timestamp 32", v)
			}
			b = append(b, 0xd6, 0xff)
			return binary.BigEndian.AppendUint32(b, uint32(at.sec)), nil
		case "ext64":
			if at.sec>>34 != 0 {
				return nil, fmt.Errorf("%v does not fit timestamp 64", v)
			}
			b = append(b, 0xd7, 0xff)
			return binary.BigEndian.AppendUint64(b, uint64(at.nsec)<<34|uint64(at.sec)), nil
		case "ext96":
			b = append(b, 0xc7, 12, 0xff)
			b = binary.BigEndian.AppendUint32(b, uint32(at.nsec))
			return binary.BigEndian.AppendUint64(b, uint64(at.sec)), nil
		}
	}
	return nil, fmt.Errorf("no msgpack form for %v", v)
}

// c22MpEvent appends {"time": <v>, "data": {"c22vid": vid}}; withTime=false leaves the time out.
func c22MpEvent(b []byte, v c22Vector, vid int, withTime bool) ([]byte, error) {
	if withTime {
		b = append(b, 0x82)
		b = c22MpStr(b, "time")
		var err error
		if b, err = c22MpTime(b, v); err != nil {
			return nil, err
		}
	} else {
		b = append(b, 0x81)
	}
	b = c22MpStr(b, "data")
	b = append(b, 0x81)
	b = c22MpStr(b, c22VidName)
	b = append(b, 0xce)
	return binary.BigEndian.AppendUint32(b, uint32(vid)), nil
}

func c22MpArrayHeader(b []byte, n int) []byte {
	if n < 16 {
		return append(b, 0x90|byte(n))
	}
	b = append(b, 0xdc)
	return binary.BigEndian.AppendUint16(b, uint16(n))
}

// c22JSONEvent renders one JSON batch event.
func c22JSONEvent(v c22Vector, vid int, withTime bool) (string, error) {
	if !withTime {
		return fmt.Sprintf(`{"data":{"%s":%d}}`, c22VidName, vid), nil
	}
	switch v.fmt {
	case "json-str":
		s, err := v.text()
		if err != nil {
			return "", err
		}
		return fmt.Sprintf(`{"time":"%s","data":{"%s":%d}}`, s, c22VidName, vid), nil
	case "json-num":
		if v.enc != "epoch" {
			return "", fmt.Errorf("json-num needs digits: %v", v)
		}
		return fmt.Sprintf(`{"time":%s,"data":{"%s":%d}}`, v.digits, c22VidName, vid), nil
	}
	return "", fmt.Errorf("no JSON form for %v", v)
}

// --- sending -----------------------------------------------------------------

// post sends one request to the router and returns the per-event statuses
// (a single element for /1/events).
func (e *c22Env) post(path, ctype string, hdr map[string]string, body []byte) ([]int, error) {
	req, err := http.NewRequest("POST", e.srv.URL+path, bytes.NewReader(body))
	if err != nil {
		return nil, err
	}
	req.Header.Set("Content-Type", ctype)
	req.Header.Set(types.APIKeyHeader, c22Key)
	for k, v := range hdr {
		req.Header.Set(k, v)
	}
	resp, err := e.client.Do(req)
	if err != nil {
		return nil, err
	}
	defer resp.Body.Close()
	rb, _ := io.ReadAll(resp.Body)
	if resp.StatusCode != http.StatusOK || !strings.HasPrefix(path, "/1/batch/") {
		return []int{resp.StatusCode}, nil
	}
	var per []struct {
		Status int `json:"status"`
	}
	if err := json.Unmarshal(rb, &per); err != nil {
		return nil, fmt.Errorf("batch response %q: %v", rb, err)
	}
	out := make([]int, len(per))
	for i, p := range per {
		out[i] = p.Status
	}
	return out, nil
}

// sendOne sends a single event carrying the vector's timestamp and returns the
// status Refinery gave that event.
func (e *c22Env) sendOne(v c22Vector, dataset string, vid int, withTime bool) (int, error) {
	var st []int
	var err error
	switch v.fmt {
	case "header":
		hdr := map[string]string{}
		if withTime {
			s, terr := v.text()
			if terr != nil {
				return 0, terr
			}
			hdr[types.TimestampHeader] = s
		}
		st, err = e.post("/1/events/"+dataset, "application/json", hdr, []byte(fmt.Sprintf(`{"%s":%d}`, c22VidName, vid)))
	case "json-str", "json-num":
		ev, jerr := c22JSONEvent(v, vid, withTime)
		if jerr != nil {
			return 0, jerr
		}
		st, err = e.post("/1/batch/"+dataset, "application/json", nil, []byte("["+ev+"]"))
	case "mp-str", "mp-int", "mp-ext":
		b, merr := c22MpEvent([]byte{0x91}, v, vid, withTime)
		if merr != nil {
			return 0, merr
		}
		st, err = e.post("/1/batch/"+dataset, "application/msgpack", nil, b)
	default:
		return 0, fmt.Errorf("unknown format %q", v.fmt)
	}
	if err != nil {
		return 0, err
	}
	if len(st) != 1 {
		return 0, fmt.Errorf("%d statuses for one event", len(st))
	}
	return st[0], nil
}

func (e *c22Env) await(vid int) (c22Instant, error) {
	select {
	case rec := <-e.hny.ch:
		if rec.err != "" {
			return c22Instant{}, fmt.Errorf("%s", rec.err)
		}
		if rec.vid != vid {
			return c22Instant{}, fmt.Errorf("fake Honeycomb received event %d while %d was awaited", rec.vid, vid)
		}
		return rec.at, nil
	case <-time.After(c22Guard):
		return c22Instant{}, fmt.Errorf("event %d accepted by Refinery never reached the fake Honeycomb", vid)
	}
}

// learnAbsent records what Refinery forwards for a batch event without any time.
func (e *c22Env) learnAbsent() error {
	e.vid++
	st, err := e.sendOne(c22Vector{fmt: "json-str"}, "c22-absent", e.vid, false)
	if err != nil {
		return err
	}
	if st/100 != 2 {
		return fmt.Errorf("event without a time answered %d", st)
	}
	e.absent, err = e.await(e.vid)
	return err
}

// c22Classify compares the forwarded with the supplied instant.
func c22Classify(want, got, absent c22Instant) map[string]any {
	class := func(k string) map[string]any { return map[string]any{"kind": k, "sec": "~", "frac": "~"} }
	if got == want {
		return map[string]any{"kind": "forwarded", "sec": fmt.Sprintf("%010d", got.sec), "frac": fmt.Sprintf("%09d", got.nsec)}
	}
	if got == absent {
		return class("ignored")
	}
	if got.sec < want.sec-1 || got.sec > want.sec+1 {
		return class("far")
	}
	d := (got.sec-want.sec)*1000000000 + got.nsec - want.nsec
	if d < 0 {
		d = -d
	}
	switch {
	case d < c22NearNs:
		return class("near")
	case d >= 1000000000:
		return class("far")
	}
	// anything else is shown as it is (no specification state has it)
	return map[string]any{"kind": "forwarded", "sec": fmt.Sprintf("%010d", got.sec), "frac": fmt.Sprintf("%09d", got.nsec)}
}

// eval runs one vector through Refinery.
func (e *c22Env) eval(v c22Vector) (map[string]any, error) {
	want, err := v.supplied()
	if err != nil {
		return nil, err
	}
	e.vid++
	st, err := e.sendOne(v, "c22-walk", e.vid, true)
	if err != nil {
		return nil, err
	}
	switch {
	case st/100 == 4:
		return map[string]any{"kind": "refused", "sec": "~", "frac": "~"}, nil
	case st/100 != 2:
		return nil, fmt.Errorf("Refinery answered %d to %v", st, v)
	}
	got, err := e.await(e.vid)
	if err != nil {
		return nil, err
	}
	return c22Classify(want, got, e.absent), nil
}

// --- walker binding ----------------------------------------------------------

type c22Harness struct {
	dir string
	env *c22Env
	vec c22Vector
	out []any
}

func (h *c22Harness) Reset(init map[string]any) error {
	if h.env == nil {
		e, err := c22NewEnv(h.dir, 1)
		if err != nil {
			return err
		}
		if err := e.learnAbsent(); err != nil {
			return err
		}
		h.env = e
	}
	h.vec = c22Vector{fmt: verifkit.Str(init, "fmt"), enc: verifkit.Str(init, "enc"), digits: verifkit.Str(init, "digits"), zone: verifkit.Str(init, "zone")}
	h.out = []any{}
	return nil
}

func (h *c22Harness) Apply(a map[string]any) error {
	if verifkit.Str(a, "name") != "Eval" {
		return fmt.Errorf("unknown action %v", a)
	}
	o, err := h.env.eval(h.vec)
	if err != nil {
		return err
	}
	h.out = append(h.out, o)
	return nil
}

func (h *c22Harness) Project() (any, error) {
	return map[string]any{"fmt": h.vec.fmt, "enc": h.vec.enc, "digits": h.vec.digits, "zone": h.vec.zone, "out": h.out}, nil
}

func TestVerifC22EventTime(t *testing.T) {
	h := &c22Harness{dir: t.TempDir()}
	err := verifkit.Main(h)
	if h.env != nil {
		h.env.close()
	}
	if err != nil {
		t.Fatal(err)
	}
}

// --- seeded sweep (gotest stage) ---------------------------------------------

const c22SweepBatch = 500

type c22SweepCase struct {
	v    c22Vector
	want c22Instant
}

func c22RandomVector(rng *rand.Rand, format string) c22Vector {
	sec := c22MinSec + rng.Int63n(c22MaxSec-c22MinSec+1)
	n := []int{0, 3, 6, 9}[rng.Intn(4)]
	digits := strconv.FormatInt(sec, 10)
	if n > 0 {
		digits += fmt.Sprintf("%0*d", n, rng.Int63n([]int64{1, 1000, 1000000, 1000000000}[n/3]))
	}
	switch format {
	case "header-epoch":
		return c22Vector{fmt: "header", enc: "epoch", digits: digits, zone: "-"}
	case "json-str-epoch":
		return c22Vector{fmt: "json-str", enc: "epoch", digits: digits, zone: "-"}
	case "json-num-epoch":
		return c22Vector{fmt: "json-num", enc: "epoch", digits: digits, zone: "-"}
	case "header-rfc3339", "json-str-rfc3339":
		zone := "Z"
		if rng.Intn(3) > 0 {
			zone = fmt.Sprintf("%c%02d:%02d", "+-"[rng.Intn(2)], rng.Intn(15), []int{0, 15, 30, 45}[rng.Intn(4)])
		}
		f := "header"
		if format == "json-str-rfc3339" {
			f = "json-str"
		}
		return c22Vector{fmt: f, enc: "rfc3339", digits: digits, zone: zone}
	case "mp-ext":
		// the layouts a client library may choose for this instant
		encs := []string{"ext96"}
		if sec>>34 == 0 {
			encs = append(encs, "ext64")
		}
		if n == 0 && sec>>32 == 0 {
			encs = append(encs, "ext32", "ext32") // what libraries pick when it fits
		}
		return c22Vector{fmt: "mp-ext", enc: encs[rng.Intn(len(encs))], digits: digits, zone: "-"}
	}
	panic("unknown sweep format " + format)
}

// c22KnownDeviation names the deviation of EventTime.tla that allows this
// inexact outcome for this vector ("" if none does).
func c22KnownDeviation(v c22Vector, kind string) string {
	floatPath := v.enc == "epoch" && (v.fmt == "header" || v.fmt == "json-str")
	switch {
	case kind == "near" && floatPath && len(v.digits) > 10 && !c22Overflows(v):
		return "float-epoch"
	case kind == "far" && floatPath && c22Overflows(v):
		return "nanos-overflow"
	case kind == "ignored" && v.fmt == "json-num":
		return "json-number-ignored"
	}
	return ""
}

func c22Overflows(v c22Vector) bool {
	return v.enc == "epoch" && len(v.digits) == 19 && v.digits > "9223372036854775807"
}

func TestVerifC22Sweep(t *testing.T) {
	outPath := os.Getenv("VERIF_OUT")
	if outPath == "" {
		t.Skip("VERIF_OUT not set")
	}
	result := map[string]any{}
	write := func() {
		raw, _ := json.Marshal(result)
		if err := os.WriteFile(outPath, raw, 0o644); err != nil {
			t.Fatal(err)
		}
	}
	fail := func(err error) {
		result["error"] = err.Error()
		write()
		t.Fatal(err)
	}
	seed, _ := strconv.ParseInt(os.Getenv("VERIF_SEED"), 10, 64)
	perFormat := 10000
	if os.Getenv("VERIF_TIER") == "thorough" {
		perFormat = 40000
	}
	if n, _ := strconv.Atoi(os.Getenv("C22_SWEEP_N")); n > 0 {
		perFormat = n / c22SweepBatch * c22SweepBatch
	}
	if rp := os.Getenv("VERIF_REPLAY"); rp != "" {
		// re-run exactly the recorded case
		var rf struct {
			Violation struct{ Format, Enc, Digits, Zone string } `json:"violation"`
		}
		raw, err := os.ReadFile(rp)
		if err == nil {
			err = json.Unmarshal(raw, &rf)
		}
		if err != nil {
			fail(err)
		}
		v := c22Vector{fmt: strings.TrimSuffix(strings.TrimSuffix(rf.Violation.Format, "-epoch"), "-rfc3339"), enc: rf.Violation.Enc, digits: rf.Violation.Digits, zone: rf.Violation.Zone}
		env, err := c22NewEnv(t.TempDir(), 1)
		if err != nil {
			fail(err)
		}
		defer env.close()
		if err := env.learnAbsent(); err != nil {
			fail(err)
		}
		o, err := env.eval(v)
		if err != nil {
			fail(err)
		}
		want, _ := v.supplied()
		result["evaluations"], result["distinct"] = 1, 1
		if o["kind"] != "forwarded" || o["sec"] != fmt.Sprintf("%010d", want.sec) || o["frac"] != fmt.Sprintf("%09d", want.nsec) {
			if dev := c22KnownDeviation(v, o["kind"].(string)); dev != "" {
				result["known"] = []any{map[string]any{"deviation": dev, "hits": 1}}
			} else {
				result["violations"] = []any{map[string]any{"format": rf.Violation.Format, "enc": v.enc, "digits": v.digits, "zone": v.zone, "outcome": o}}
			}
		}
		write()
		return
	}
	env, err := c22NewEnv(t.TempDir(), c22SweepBatch)
	if err != nil {
		fail(err)
	}
	defer env.close()
	rng := rand.New(rand.NewSource(seed*7919 + 22))

	formats := []string{"header-epoch", "header-rfc3339", "json-str-epoch", "json-str-rfc3339", "json-num-epoch", "mp-ext"}
	cases := []c22SweepCase{{}} // vid 0 unused
	// reference: a full batch of events without time
	absentSeen := map[c22Instant]int{}
	{
		var evs []string
		for i := 0; i < c22SweepBatch; i++ {
			cases = append(cases, c22SweepCase{})
			ev, _ := c22JSONEvent(c22Vector{fmt: "json-str"}, len(cases)-1, false)
			evs = append(evs, ev)
		}
		st, err := env.post("/1/batch/c22-absent", "application/json", nil, []byte("["+strings.Join(evs, ",")+"]"))
		if err != nil {
			fail(err)
		}
		for _, s := range st {
			if s/100 != 2 {
				fail(fmt.Errorf("event without a time answered %d", s))
			}
		}
		for i := 0; i < c22SweepBatch; i++ {
			select {
			case rec := <-env.hny.ch:
				if rec.err != "" {
					fail(fmt.Errorf("%s", rec.err))
				}
				absentSeen[rec.at]++
			case <-time.After(c22Guard):
				fail(fmt.Errorf("events without time did not reach the fake Honeycomb"))
			}
		}
		if len(absentSeen) != 1 {
			fail(fmt.Errorf("events without time were forwarded with %d different times", len(absentSeen)))
		}
		for at := range absentSeen {
			env.absent = at
		}
	}

	evaluations, refused := 0, 0
	kinds := map[string]int{}
	knownHits := map[string]int{}
	var violations, samples []any
	distinct := map[string]bool{}
	for _, format := range formats {
		first := len(cases)
		accepted := 0
		for done := 0; done < perFormat; done += c22SweepBatch {
			var vs []c22Vector
			for i := 0; i < c22SweepBatch; i++ {
				v := c22RandomVector(rng, format)
				want, err := v.supplied()
				if err != nil {
					fail(err)
				}
				cases = append(cases, c22SweepCase{v: v, want: want})
				vs = append(vs, v)
			}
			base := len(cases) - c22SweepBatch
			var st []int
			switch {
			case strings.HasPrefix(format, "header"):
				for i, v := range vs {
					s, err := env.sendOne(v, "c22-"+format, base+i, true)
					if err != nil {
						fail(err)
					}
					st = append(st, s)
				}
			case strings.HasPrefix(format, "json"):
				var evs []string
				for i, v := range vs {
					ev, err := c22JSONEvent(v, base+i, true)
					if err != nil {
						fail(err)
					}
					evs = append(evs, ev)
				}
				if st, err = env.post("/1/batch/c22-"+format, "application/json", nil, []byte("["+strings.Join(evs, ",")+"]")); err != nil {
					fail(err)
				}
			default:
				b := c22MpArrayHeader(nil, len(vs))
				for i, v := range vs {
					if b, err = c22MpEvent(b, v, base+i, true); err != nil {
						fail(err)
					}
				}
				if st, err = env.post("/1/batch/c22-"+format, "application/msgpack", nil, b); err != nil {
					fail(err)
				}
			}
			if len(st) != len(vs) {
				// the whole request was refused
				if len(st) == 1 && st[0]/100 == 4 {
					refused += len(vs)
					violations = append(violations, map[string]any{"format": format, "what": fmt.Sprintf("Refinery refused a whole batch of well-formed %s events with %d", format, st[0])})
					continue
				}
				fail(fmt.Errorf("%s: %d statuses for %d events", format, len(st), len(vs)))
			}
			for i, s := range st {
				if s/100 == 2 {
					accepted++
				} else if s/100 == 4 {
					refused++
					if len(violations) < 10 {
						violations = append(violations, map[string]any{"format": format, "digits": vs[i].digits, "what": fmt.Sprintf("Refinery refused the event with %d", s)})
					}
				} else {
					fail(fmt.Errorf("%s: event answered %d", format, s))
				}
			}
		}
		if accepted%c22SweepBatch != 0 {
			fail(fmt.Errorf("%s: %d accepted events do not fill whole batches; cannot wait for them without a clock", format, accepted))
		}
		for got := 0; got < accepted; got++ {
			var rec c22Rec
			select {
			case rec = <-env.hny.ch:
			case <-time.After(c22Guard):
				fail(fmt.Errorf("%s: %d of %d accepted events reached the fake Honeycomb", format, got, accepted))
			}
			if rec.err != "" {
				fail(fmt.Errorf("%s", rec.err))
			}
			if rec.vid < first || rec.vid >= len(cases) {
				fail(fmt.Errorf("%s: fake Honeycomb received unknown event %d", format, rec.vid))
			}
			c := cases[rec.vid]
			o := c22Classify(c.want, rec.at, env.absent)
			evaluations++
			kind := o["kind"].(string)
			if kind == "forwarded" && rec.at != c.want {
				kind = "wrong"
			}
			kinds[format+":"+kind]++
			distinct[c.v.fmt+"/"+c.v.enc+"/"+strconv.Itoa(len(c.v.digits))] = true
			text := ""
			if c.v.fmt != "mp-ext" && c.v.fmt != "json-num" {
				text, _ = c.v.text()
			}
			desc := map[string]any{"format": format, "enc": c.v.enc, "digits": c.v.digits, "zone": c.v.zone, "sent": text,
				"supplied": fmt.Sprintf("%d.%09d", c.want.sec, c.want.nsec), "forwarded": fmt.Sprintf("%d.%09d", rec.at.sec, rec.at.nsec), "outcome": kind}
			if len(samples) < 2 && kind == "forwarded" && format == "header-rfc3339" {
				samples = append(samples, desc)
			}
			if dev := c22KnownDeviation(c.v, kind); dev != "" {
				knownHits[dev]++
			} else if kind != "forwarded" && len(violations) < 10 {
				violations = append(violations, desc)
			}
		}
	}
	var known []any
	for d, n := range knownHits {
		known = append(known, map[string]any{"deviation": d, "hits": n})
	}
	result["evaluations"] = evaluations
	result["distinct"] = len(distinct)
	result["violations"] = violations
	result["samples"] = samples
	result["known"] = known
	result["note"] = fmt.Sprintf("seeded sampling, not model checking: %d random instants of 1000000000..9999999999 s per format %v; outcomes %v; refused %d", perFormat, formats, kinds, refused)
	write()
}
