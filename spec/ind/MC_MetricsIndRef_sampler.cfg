SPECIFICATION SpecU
CONSTANTS
  Counters = {"kept", "dropped"}
  Gauges = {}
  UpDowns = {}
  Hists = {"rate"}
  Stores = {}
  MaxCount = 4
  MaxNet = 0
  Vals = {1}
  MaxGen = 1
  Threads = {}
  MaxOps = 0
  RegisterReplaces = FALSE
INVARIANTS InitSame SameInv
PROPERTIES Fwd Bwd SameAct
VIEW View
CHECK_DEADLOCK FALSE
