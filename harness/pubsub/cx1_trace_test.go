//go:build verif

package pubsub

import (
	"context"
	"fmt"
	"math/rand"
	"os"
	"runtime"
	"strconv"
	"sync"
	"testing"
	"testing/synctest"

	"github.com/honeycombio/refinery/internal/cx1kit"
	"github.com/honeycombio/refinery/internal/verifkit"
	"github.com/honeycombio/refinery/metrics"
)

// TestVerifCX1Trace is the B2 driver for spec/TracePubSub.tla: goroutines
// subscribe, publish, close subscriptions and close the bus concurrently on a
// real LocalPubSub and log the call and the return of every operation and the
// entry of every callback. Each run lives in a synctest bubble only to get an
// exact end of the run (synctest.Wait: every delivery goroutine has run);
// inside the bubble the goroutines are scheduled freely on all Ps.
func TestVerifCX1Trace(t *testing.T) {
	tw, err := cx1kit.NewTraceLog(os.Getenv("VERIF_TRACE_OUT"))
	if err != nil {
		t.Fatal(err)
	}
	seed, _ := strconv.ParseInt(os.Getenv("VERIF_SEED"), 10, 64)
	ntraces := 24
	if os.Getenv("VERIF_TIER") == "thorough" {
		ntraces = 150
	}
	for n := 0; n < ntraces; n++ {
		n := n
		synctest.Test(t, func(t *testing.T) { cx1TraceRun(tw, seed*100003+int64(n)) })
	}
	if err := tw.Close(); err != nil {
		t.Fatal(err)
	}
	verifkit.WriteJSON(os.Getenv("VERIF_OUT"), map[string]any{"traces": tw.Traces, "events": tw.Events})
}

type cx1Slot struct {
	state string // free | busy | open | closed
	close func()
}

func cx1TraceRun(tw *cx1kit.TraceLog, seed int64) {
	ps := &LocalPubSub{Metrics: &metrics.NullMetrics{}}
	ps.Start()
	tw.Reset()
	topics := []string{"a", "b"}
	names := []string{"s1", "s2", "s3", "s4"}
	var mu sync.Mutex // guards the slot table, the message counter and the stop flags; pubcall is logged under it
	slots := map[string]*cx1Slot{}
	for _, s := range names {
		slots[s] = &cx1Slot{state: "free"}
	}
	nmsg := 0
	subsInFlight, stopCalled := 0, false
	pick := func(rng *rand.Rand, state string) string {
		var c []string
		for _, s := range names {
			if slots[s].state == state {
				c = append(c, s)
			}
		}
		if len(c) == 0 {
			return ""
		}
		return c[rng.Intn(len(c))]
	}
	cbFor := func(s string) func(context.Context, string) {
		return func(ctx context.Context, msg string) {
			tw.Emit("cb", map[string]any{"m": cx1kit.IDOf(context.Background(), msg), "s": s})
		}
	}
	var wg sync.WaitGroup
	for w := 1; w <= 3; w++ {
		p := fmt.Sprintf("p%d", w)
		rng := rand.New(rand.NewSource(seed*7 + int64(w)))
		wg.Add(1)
		go func() {
			defer wg.Done()
			for k := 0; k < 5; k++ {
				if rng.Intn(3) == 0 {
					runtime.Gosched()
				}
				switch r := rng.Intn(20); {
				case r < 6: // Subscribe (never once the bus is being closed: what that yields is left open)
					mu.Lock()
					s := ""
					if !stopCalled {
						s = pick(rng, "free")
					}
					if s == "" {
						mu.Unlock()
						continue
					}
					slots[s].state = "busy"
					subsInFlight++
					mu.Unlock()
					topic := topics[rng.Intn(len(topics))]
					tw.Emit("subcall", map[string]any{"s": s, "t": topic})
					sub := ps.Subscribe(context.Background(), topic, cbFor(s))
					tw.Emit("subret", map[string]any{"s": s})
					mu.Lock()
					slots[s].close = sub.Close
					slots[s].state = "open"
					subsInFlight--
					mu.Unlock()
				case r < 14: // Publish
					topic := topics[rng.Intn(len(topics))]
					mu.Lock()
					nmsg++
					m := nmsg
					tw.Emit("pubcall", map[string]any{"p": p, "m": m, "t": topic})
					mu.Unlock()
					ps.Publish(context.Background(), topic, fmt.Sprintf("m%d", m))
					tw.Emit("pubret", map[string]any{"p": p})
				case r < 19: // Subscription.Close
					mu.Lock()
					s := pick(rng, "open")
					if s == "" {
						mu.Unlock()
						continue
					}
					slots[s].state = "busy"
					cl := slots[s].close
					mu.Unlock()
					tw.Emit("closecall", map[string]any{"s": s})
					cl()
					tw.Emit("closeret", map[string]any{"s": s})
					mu.Lock()
					slots[s].state = "closed"
					mu.Unlock()
				default: // LocalPubSub.Close, once
					mu.Lock()
					if stopCalled || subsInFlight > 0 {
						mu.Unlock()
						continue
					}
					stopCalled = true
					mu.Unlock()
					tw.Emit("stopcall", nil)
					ps.Close()
					tw.Emit("stopret", nil)
				}
			}
		}()
	}
	wg.Wait()
	synctest.Wait()
	tw.Emit("end", nil)
}
