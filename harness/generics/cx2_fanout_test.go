//go:build verif

package generics

import (
	"fmt"
	"strconv"
	"sync"
	"testing"
	"time"

	"github.com/honeycombio/refinery/internal/verifkit"
)

// Coverage extension CX2: spec/Fanout.tla (the sequential meaning of the fan-out
// helpers) bound to the real functions. Every initial state of the model is one
// call; Eval performs it with real goroutines and records, through the callbacks
// the caller supplies, which inputs the workers saw, which worker numbers the
// factory was asked for, and when each cleanup ran (a global sequence number
// taken under a mutex orders worker and cleanup calls).
//
// worker: x -> 10*x; predicate: keeps the products of odd inputs.
// The watchdog below turns a call that never returns into an observation
// ("hang") instead of a test time-out; it never fires on a call that returns.

const cx2Watchdog = 30 * time.Second

type cx2Cleanup struct{ arg, owner, seq int }

type cx2FanoutRec struct {
	mu       sync.Mutex
	seq      int
	factory  []int
	worked   []int
	lastWork map[int]int
	cleanups []cx2Cleanup
	chunkBad bool
}

type cx2FanoutHarness struct {
	call map[string]any
	out  map[string]any
}

func (h *cx2FanoutHarness) Reset(init map[string]any) error {
	c, ok := init["call"].(map[string]any)
	if !ok {
		return fmt.Errorf("initial state has no call: %v", init)
	}
	h.call = c
	h.out = map[string]any{"done": false}
	return nil
}

func cx2F(x int) int          { return x * 10 }
func cx2Pred(u int) bool      { return (u/10)%2 == 1 }
func cx2Pair(k, v int) string { return strconv.Itoa(k) + "->" + strconv.Itoa(v) }

func (h *cx2FanoutHarness) run() map[string]any {
	fn := verifkit.Str(h.call, "fn")
	input := cx2Ints(h.call["input"])
	par := verifkit.Int(h.call, "par")
	chunk := verifkit.Int(h.call, "chunk")
	usePred, useCleanup := verifkit.Bool(h.call, "pred"), verifkit.Bool(h.call, "cleanup")
	rec := &cx2FanoutRec{lastWork: map[int]int{}}

	var pred func(int) bool
	if usePred {
		pred = cx2Pred
	}
	mkCleanup := func(i int) func(int) {
		if !useCleanup {
			return nil
		}
		return func(arg int) {
			rec.mu.Lock()
			rec.seq++
			rec.cleanups = append(rec.cleanups, cx2Cleanup{arg: arg, owner: i, seq: rec.seq})
			rec.mu.Unlock()
		}
	}
	factory := func(i int) (func(int) int, func(int)) {
		rec.mu.Lock()
		rec.factory = append(rec.factory, i)
		rec.mu.Unlock()
		return func(x int) int {
			rec.mu.Lock()
			rec.seq++
			rec.worked = append(rec.worked, x)
			rec.lastWork[i] = rec.seq
			rec.mu.Unlock()
			return cx2F(x)
		}, mkCleanup(i)
	}
	chunkFactory := func(i int) (func([]int) map[int]int, func(int)) {
		rec.mu.Lock()
		rec.factory = append(rec.factory, i)
		rec.mu.Unlock()
		return func(xs []int) map[int]int {
			rec.mu.Lock()
			rec.seq++
			rec.worked = append(rec.worked, xs...)
			rec.lastWork[i] = rec.seq
			if len(xs) < 1 || len(xs) > chunk {
				rec.chunkBad = true
			}
			rec.mu.Unlock()
			m := map[int]int{}
			for _, x := range xs {
				m[x] = cx2F(x)
			}
			return m
		}, mkCleanup(i)
	}
	easy := func(x int) int {
		rec.mu.Lock()
		rec.seq++
		rec.worked = append(rec.worked, x)
		rec.mu.Unlock()
		return cx2F(x)
	}

	outSlice := []int{}
	outMap := map[int]int{}
	switch fn {
	case "Fanout":
		outSlice = Fanout(input, par, factory, pred)
	case "EasyFanout":
		outSlice = EasyFanout(input, par, easy)
	case "FanoutToMap":
		outMap = FanoutToMap(input, par, factory, pred)
	case "EasyFanoutToMap":
		outMap = EasyFanoutToMap(input, par, easy)
	case "FanoutChunksToMap":
		outMap = FanoutChunksToMap(input, chunk, par, chunkFactory, pred)
	default:
		return map[string]any{"done": false, "error": "unknown fn " + fn}
	}
	if outSlice == nil {
		outSlice = []int{}
	}

	rec.mu.Lock()
	defer rec.mu.Unlock()
	pairs := []string{}
	for k, v := range outMap {
		pairs = append(pairs, cx2Pair(k, v))
	}
	cleanups := []int{}
	orderOk := true
	for _, c := range rec.cleanups {
		cleanups = append(cleanups, c.arg)
		if c.arg != c.owner || c.seq < rec.lastWork[c.owner] {
			orderOk = false
		}
	}
	factoryCalls, worked := rec.factory, rec.worked
	if factoryCalls == nil {
		factoryCalls = []int{}
	}
	if worked == nil {
		worked = []int{}
	}
	return map[string]any{
		"done": true, "outSet": outSlice, "mapSet": pairs, "workedSet": worked,
		"factorySet": factoryCalls, "cleanupSet": cleanups, "orderOk": orderOk, "chunksOk": !rec.chunkBad,
	}
}

func (h *cx2FanoutHarness) Apply(a map[string]any) error {
	if verifkit.Str(a, "name") != "Eval" {
		return fmt.Errorf("unknown action %v", a)
	}
	done := make(chan map[string]any, 1)
	go func() {
		defer func() {
			if r := recover(); r != nil {
				done <- map[string]any{"done": false, "panic": fmt.Sprint(r)}
			}
		}()
		done <- h.run()
	}()
	select {
	case h.out = <-done:
	case <-time.After(cx2Watchdog):
		h.out = map[string]any{"done": false, "hang": true}
	}
	return nil
}

func (h *cx2FanoutHarness) Project() (any, error) {
	return map[string]any{"call": h.call, "out": h.out}, nil
}

func TestVerifCX2Fanout(t *testing.T) {
	if err := verifkit.Main(&cx2FanoutHarness{}); err != nil {
		t.Fatal(err)
	}
}
