---------------------------- MODULE TTLIndProofs ----------------------------
(* TLAPS proofs about TTLInd for ARBITRARY constants satisfying ConstOK:   *)
(* any set Items (also infinite), any TTL >= 0, any horizon, both boundary *)
(* conventions.   tlapm --threads 16 TTLIndProofs.tla                      *)
EXTENDS TTLInd, TLAPS

ASSUME Const == ConstOK

THEOREM InitInd == Init => IndInv
  BY Const DEF Init, IndInv, ConstOK

THEOREM StepInd == IndInv /\ [Next]_vars => IndInv'
<1> SUFFICES ASSUME IndInv, [Next]_vars PROVE IndInv'
  OBVIOUS
<1>1 ASSUME NEW i \in Items, NEW v \in Vals, Add(i, v) PROVE IndInv'
  BY <1>1, Const DEF IndInv, Add, ConstOK
<1>2 ASSUME NEW i \in Items, Remove(i) PROVE IndInv'
  BY <1>2, Const DEF IndInv, Remove, ConstOK
<1>3 ASSUME NEW d \in Steps, Advance(d) PROVE IndInv'
  BY <1>3, Const DEF IndInv, Advance, ConstOK
<1>4 ASSUME Query PROVE IndInv'
  BY <1>4 DEF IndInv, Query
<1>5 ASSUME UNCHANGED vars PROVE IndInv'
  BY <1>5 DEF IndInv, vars
<1> QED BY <1>1, <1>2, <1>3, <1>4, <1>5 DEF Next

THEOREM IndSafe == IndInv => Safety
<1> SUFFICES ASSUME IndInv PROVE Safety
  OBVIOUS
<1>1 TypeOK
  BY Const DEF IndInv, TypeOK, ConstOK
<1>2 PresentForTTL
  BY Const DEF IndInv, PresentForTTL, Present, ConstOK
<1>3 ObserversAgree
  BY Const DEF IndInv, ObserversAgree, AbsVal, PresentSet, Present, ConstOK
<1> QED BY <1>1, <1>2, <1>3 DEF Safety

THEOREM StepNoRes == IndInv /\ [Next]_vars => NoResurrectionStep \/ UNCHANGED vars
<1> SUFFICES ASSUME IndInv, Next PROVE NoResurrectionStep
  OBVIOUS
<1>1 ASSUME NEW i \in Items, NEW v \in Vals, Add(i, v) PROVE NoResurrectionStep
  BY <1>1, Const DEF IndInv, Add, ConstOK, NoResurrectionStep, Present
<1>2 ASSUME NEW i \in Items, Remove(i) PROVE NoResurrectionStep
  BY <1>2, Const DEF IndInv, Remove, ConstOK, NoResurrectionStep, Present
<1>3 ASSUME NEW d \in Steps, Advance(d) PROVE NoResurrectionStep
  BY <1>3, Const DEF IndInv, Advance, ConstOK, NoResurrectionStep, Present
<1>4 ASSUME Query PROVE NoResurrectionStep
  BY <1>4 DEF Query, NoResurrectionStep, Present
<1> QED BY <1>1, <1>2, <1>3, <1>4 DEF Next

THEOREM Unbounded == Spec => []Safety
<1>1 Init => IndInv  BY InitInd
<1>2 IndInv /\ [Next]_vars => IndInv'  BY StepInd
<1>3 IndInv => Safety  BY IndSafe
<1> QED BY <1>1, <1>2, <1>3, PTL DEF Spec
=============================================================================
