--------------------------- MODULE MCWireFieldsQ ---------------------------
(* C20 decision pipeline, quick bound: 2 spans (root, child) in either order, on time or late, with or without a
   root at decision time; 8 real sampler configurations; 4 decoration profiles; 2 ingest paths; 4 x 3 field shapes *)
EXTENDS WireFields
mc_Spans == {"r", "c"}
mc_ClientNames == {"svc", "http", "http.response.status", "tags", "dur"}
mc_PathNames == {"http.response.status", "http.method", "tags.0", "http.request.id"}
mc_Under == ("http.response.status" :> "http") @@ ("http.method" :> "http") @@ ("tags.0" :> "tags") @@ ("http.request.id" :> "http")
mc_Crate == ("r" :> 0) @@ ("c" :> 2)
mc_Shapes == ("r" :> {{"svc", "http", "tags", "dur"}, {"svc", "http.response.status", "dur"}, {"http", "http.response.status", "tags"}, {}})
          @@ ("c" :> {{"svc", "http"}, {"http.response.status", "tags", "dur"}, {"dur"}})
S(id, all, nonroot, nested, paths) == [id |-> id, all |-> all, nonroot |-> nonroot, nested |-> nested, paths |-> paths]
mc_Samplers == {
  S("rules-nested", {"http.request.id", "http.response.status"}, {"http.request.id", "http.response.status"}, TRUE, {"http.request.id", "http.response.status"}),
  S("rules-flat", {"http.request.id", "http.response.status"}, {"http.request.id", "http.response.status"}, FALSE, {"http.request.id", "http.response.status"}),
  S("rules-rootlist", {"http.response.status", "http.method", "tags.0", "svc"}, {"http.method", "svc"}, TRUE, {"http.response.status", "http.method", "tags.0", "svc"}),
  S("rules-spanscope", {"svc", "http.method"}, {"svc", "http.method"}, TRUE, {"svc", "http.method"}),
  S("rules-downstream", {"tags.0", "svc", "http.response.status", "dur", "http"}, {"tags.0", "svc", "http.response.status", "http"}, TRUE, {"tags.0"}),
  S("dynamic", {"svc", "http", "dur", "tags"}, {"svc", "http"}, FALSE, {}),
  S("throughput", {"http.response.status", "dur"}, {"http.response.status", "dur"}, FALSE, {}),
  S("deterministic", {}, {}, FALSE, {})}
P(dry, reason, counts, spancount, host, attrs) == [dryRun |-> dry, addReason |-> reason, addCounts |-> counts, addSpanCount |-> spancount, addHost |-> host, attrs |-> attrs]
mc_Profiles == {P(FALSE, FALSE, FALSE, FALSE, FALSE, {}),
                P(FALSE, TRUE, TRUE, FALSE, TRUE, {"env"}),
                P(TRUE, TRUE, FALSE, TRUE, FALSE, {}),
                P(TRUE, FALSE, TRUE, TRUE, FALSE, {"env"})}
=============================================================================
