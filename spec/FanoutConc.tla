----------------------------- MODULE FanoutConc -----------------------------
(***************************************************************************)
(* generics/fanout.go (coverage extension CX2): the goroutines and         *)
(* channels behind Fanout / FanoutToMap / FanoutChunksToMap.  All three    *)
(* have the same skeleton:                                                 *)
(*                                                                         *)
(*   feeder    : for each job { fanoutChan <- job } ; close(fanoutChan)    *)
(*   worker i  : for job := range fanoutChan { products := worker(job) ;   *)
(*                  for each product that passes the predicate             *)
(*                     { faninChan <- product } } ; cleanup(i)             *)
(*   collector : for r := range faninChan { result += r }                  *)
(*   main      : wgWorkers.Wait() ; close(faninChan) ; wgFans.Wait() ;     *)
(*               return result                                             *)
(*                                                                         *)
(* with both channels buffered to the number of workers.  A job is one     *)
(* input (chunk = 0) or one chunk of consecutive inputs (chunk > 0, the    *)
(* worker then returns a map, so its products are one per distinct input   *)
(* of the chunk, in any order).  One action per channel operation /        *)
(* callback invocation.                                                    *)
(*                                                                         *)
(* TLC checks that every interleaving terminates (Terminates, no           *)
(* deadlock) in exactly the outcome that Fanout.tla promises (AtReturn:    *)
(* the operators of FanoutOps.tla), that no goroutine sends on a closed    *)
(* channel (NoSendOnClosed), that cleanup(i) runs once, after worker i's   *)
(* last job (CleanupLast), and that nobody touches `result` any more when  *)
(* the caller gets it (Quiescent).  TraceFanoutConc.tla validates event    *)
(* logs of the real functions against this module.                         *)
(*                                                                         *)
(* parallelism < 1 is outside the documented domain; the model shows why:  *)
(* with Pars = {0} and a non-empty input TLC reports the deadlock the code *)
(* has (feeder blocked on an unbuffered channel nobody reads, main blocked *)
(* in wgFans.Wait).                                                        *)
(***************************************************************************)
EXTENDS FanoutOps

CONSTANTS Vals, MaxLen, \* the inputs explored: every sequence over Vals of length 0 .. MaxLen
          Pars,        \* parallelism factors
          Chunks,      \* 0 = Fanout/FanoutToMap (one input per job), > 0 = FanoutChunksToMap chunk size
          CeilWorkers  \* chunked variant: FALSE = worker count as the code computes it, TRUE = as documented

VARIABLES input, par, usePred, chunk,   \* the call (chosen in Init)
          nw,            \* number of workers started
          jobs,          \* the jobs the feeder will send, in order
          fi,            \* jobs sent so far
          fanout, fanoutClosed,
          wpc, wjob, wprod,      \* per worker: control state, current job, products not yet emitted
          fanin, faninClosed,
          result,        \* sequence of <<input, product>> the collector has appended
          cpc,           \* collector: "run" | "done"
          mpc,           \* main: "waitWorkers" | "waitFans" | "returned"
          worked,        \* history: inputs the worker callback was called with (in call order)
          cleaned        \* history: cleanup(i) calls per worker

vars == <<input, par, usePred, chunk, nw, jobs, fi, fanout, fanoutClosed, wpc, wjob, wprod,
          fanin, faninClosed, result, cpc, mpc, worked, cleaned>>
callVars == <<input, par, usePred, chunk, nw, jobs>>

W == 0 .. nw - 1
InputSet == UNION {[1 .. n -> Vals] : n \in 0 .. MaxLen}

\* consecutive chunks of cs elements (the last one may be shorter)
ChunkJobs(in, cs) == [j \in 1 .. NChunks(Len(in), cs) |->
                        SubSeq(in, (j - 1) * cs + 1, Min2(j * cs, Len(in)))]
JobsOf(in, cs) == IF cs = 0 THEN [i \in DOMAIN in |-> <<in[i]>>] ELSE ChunkJobs(in, cs)
WorkersOf(in, p, cs) == IF cs = 0 THEN p
                        ELSE IF CeilWorkers THEN Min2(p, Max2(NChunks(Len(in), cs), 1))
                        ELSE ChunkWorkersCode(Len(in), cs, p)

\* the state right after the goroutines have been started
S0(in, p, pr, cs) ==
  LET n == WorkersOf(in, p, cs) IN
  [ input |-> in, par |-> p, usePred |-> pr, chunk |-> cs, nw |-> n, jobs |-> JobsOf(in, cs),
    wpc |-> [w \in 0 .. n - 1 |-> "recv"], wjob |-> [w \in 0 .. n - 1 |-> <<>>],
    wprod |-> [w \in 0 .. n - 1 |-> {}], cleaned |-> [w \in 0 .. n - 1 |-> 0] ]

Start(in, p, pr, cs) ==
  LET z == S0(in, p, pr, cs) IN
  /\ input = z.input /\ par = z.par /\ usePred = z.usePred /\ chunk = z.chunk
  /\ nw = z.nw /\ jobs = z.jobs
  /\ fi = 0 /\ fanout = <<>> /\ fanoutClosed = FALSE
  /\ wpc = z.wpc /\ wjob = z.wjob /\ wprod = z.wprod
  /\ fanin = <<>> /\ faninClosed = FALSE
  /\ result = <<>> /\ cpc = "run" /\ mpc = "waitWorkers"
  /\ worked = <<>>
  /\ cleaned = z.cleaned

Init == \E in \in InputSet, p \in Pars, pr \in BOOLEAN, cs \in Chunks : Start(in, p, pr, cs)

\* ---- feeder -----------------------------------------------------------------
FeederSend == /\ ~fanoutClosed /\ fi < Len(jobs) /\ Len(fanout) < nw
              /\ fanout' = Append(fanout, jobs[fi + 1])
              /\ fi' = fi + 1
              /\ UNCHANGED <<callVars, fanoutClosed, wpc, wjob, wprod, fanin, faninClosed, result, cpc, mpc, worked, cleaned>>
FeederClose == /\ ~fanoutClosed /\ fi = Len(jobs)
               /\ fanoutClosed' = TRUE
               /\ UNCHANGED <<callVars, fi, fanout, wpc, wjob, wprod, fanin, faninClosed, result, cpc, mpc, worked, cleaned>>

\* ---- worker w ----------------------------------------------------------------
WRecv(w) == /\ wpc[w] = "recv" /\ fanout # <<>>
            /\ wjob' = [wjob EXCEPT ![w] = Head(fanout)]
            /\ fanout' = Tail(fanout)
            /\ wpc' = [wpc EXCEPT ![w] = "work"]
            /\ UNCHANGED <<callVars, fi, fanoutClosed, wprod, fanin, faninClosed, result, cpc, mpc, worked, cleaned>>
\* range over a closed, drained channel ends
WExit(w) == /\ wpc[w] = "recv" /\ fanout = <<>> /\ fanoutClosed
            /\ wpc' = [wpc EXCEPT ![w] = "cleanup"]
            /\ UNCHANGED <<callVars, fi, fanout, fanoutClosed, wjob, wprod, fanin, faninClosed, result, cpc, mpc, worked, cleaned>>
\* the worker callback
WWork(w) == /\ wpc[w] = "work"
            /\ wprod' = [wprod EXCEPT ![w] = {<<x, F(x)>> : x \in Range(wjob[w])}]
            /\ worked' = worked \o wjob[w]
            /\ wpc' = [wpc EXCEPT ![w] = "emit"]
            /\ UNCHANGED <<callVars, fi, fanout, fanoutClosed, wjob, fanin, faninClosed, result, cpc, mpc, cleaned>>
\* predicate + send of one product (blocks while faninChan is full)
WEmit(w) == /\ wpc[w] = "emit"
            /\ IF wprod[w] = {}
               THEN /\ wpc' = [wpc EXCEPT ![w] = "recv"]
                    /\ UNCHANGED <<wprod, fanin>>
               ELSE \E p \in wprod[w] :
                      /\ wprod' = [wprod EXCEPT ![w] = @ \ {p}]
                      /\ IF Keep(p[2], usePred)
                         THEN Len(fanin) < nw /\ fanin' = Append(fanin, p)
                         ELSE fanin' = fanin
                      /\ UNCHANGED wpc
            /\ UNCHANGED <<callVars, fi, fanout, fanoutClosed, wjob, faninClosed, result, cpc, mpc, worked, cleaned>>
\* deferred cleanup(i), then wgWorkers.Done()
WCleanup(w) == /\ wpc[w] = "cleanup"
               /\ cleaned' = [cleaned EXCEPT ![w] = @ + 1]
               /\ wpc' = [wpc EXCEPT ![w] = "done"]
               /\ UNCHANGED <<callVars, fi, fanout, fanoutClosed, wjob, wprod, fanin, faninClosed, result, cpc, mpc, worked>>

\* ---- collector -------------------------------------------------------------
CRecv == /\ cpc = "run" /\ fanin # <<>>
         /\ result' = Append(result, Head(fanin))
         /\ fanin' = Tail(fanin)
         /\ UNCHANGED <<callVars, fi, fanout, fanoutClosed, wpc, wjob, wprod, faninClosed, cpc, mpc, worked, cleaned>>
CExit == /\ cpc = "run" /\ fanin = <<>> /\ faninClosed
         /\ cpc' = "done"
         /\ UNCHANGED <<callVars, fi, fanout, fanoutClosed, wpc, wjob, wprod, fanin, faninClosed, result, mpc, worked, cleaned>>

\* ---- main ------------------------------------------------------------------
\* wgWorkers.Wait() ; close(faninChan)
MCloseFanin == /\ mpc = "waitWorkers" /\ \A w \in W : wpc[w] = "done"
               /\ faninClosed' = TRUE
               /\ mpc' = "waitFans"
               /\ UNCHANGED <<callVars, fi, fanout, fanoutClosed, wpc, wjob, wprod, fanin, result, cpc, worked, cleaned>>
\* wgFans.Wait() ; return result
MReturn == /\ mpc = "waitFans" /\ fanoutClosed /\ cpc = "done"
           /\ mpc' = "returned"
           /\ UNCHANGED <<callVars, fi, fanout, fanoutClosed, wpc, wjob, wprod, fanin, faninClosed, result, cpc, worked, cleaned>>

Internal == FeederSend \/ FeederClose \/ CRecv \/ CExit \/ MCloseFanin
            \/ \E w \in W : WRecv(w) \/ WExit(w) \/ WEmit(w)
Observable == MReturn \/ \E w \in W : WWork(w) \/ WCleanup(w)
Terminated == mpc = "returned" /\ UNCHANGED vars

Next == Internal \/ Observable \/ Terminated

Spec == Init /\ [][Next]_vars /\ WF_vars(Internal \/ Observable)

\* ---- properties ----------------------------------------------------------
BagOf(q) == [v \in Range(q) |-> Cardinality({i \in DOMAIN q : q[i] = v})]

TypeOK == /\ fi \in 0 .. Len(jobs)
          /\ Len(fanout) <= nw /\ Len(fanin) <= nw
          /\ \A w \in W : wpc[w] \in {"recv", "work", "emit", "cleanup", "done"}
          /\ cpc \in {"run", "done"} /\ mpc \in {"waitWorkers", "waitFans", "returned"}

\* a send on a closed channel panics: nobody may still be producing once faninChan is closed,
\* and the feeder never sends after its own close
NoSendOnClosed == /\ faninClosed => \A w \in W : wpc[w] = "done"
                  /\ fanoutClosed => fi = Len(jobs)

\* cleanup(i): at most once, and only when worker i will not be called again
CleanupLast == \A w \in W : cleaned[w] <= 1 /\ (cleaned[w] = 1 => wpc[w] = "done")

\* what the caller gets is what Fanout.tla promises
AtReturn ==
  mpc = "returned" =>
    /\ BagOf(worked) = BagOf(input)                                  \* every input processed exactly once
    /\ \A w \in W : cleaned[w] = 1                                    \* every cleanup has run
    /\ IF chunk = 0
       THEN BagOf([i \in DOMAIN result |-> result[i][2]]) = BagOf(OutSeq(input, usePred))   \* Fanout: the slice
       ELSE TRUE
    /\ {Pair(result[i][1]) : i \in DOMAIN result} = OutPairs(input, usePred)               \* ...ToMap: the map
    /\ \A i \in DOMAIN result : result[i][2] = F(result[i][1])

\* when the caller holds the result, no goroutine of the call is still running
Quiescent == mpc = "returned" => /\ cpc = "done" /\ fanoutClosed /\ faninClosed
                                 /\ fanout = <<>> /\ fanin = <<>>
                                 /\ \A w \in W : wpc[w] = "done"

Terminates == <>(mpc = "returned")
=============================================================================
