------------------------------ MODULE Responses ------------------------------
(***************************************************************************)
(* Responses reflect what happened to the data (property C23).             *)
(*                                                                         *)
(* Code: route/route.go  event, requestToEvent, batch, processOTLPRequest, *)
(* processOTLPRequestBatchMsgp, processEvent; route/errors.go              *)
(* handlerReturnWithError, handleOTLPFailureResponse; route/otlp_trace.go  *)
(* postOTLPTrace, customTraceExportHandler, ExportTraceData;               *)
(* route/otlp_logs.go postOTLPLogs, LogsServer.Export.                     *)
(*                                                                         *)
(* One behaviour = one request.  `req` (chosen in Init, never changed) is  *)
(* the request and the faults injected into it from outside:               *)
(*   ep      the ingestion endpoint                                        *)
(*   enc     the body encoding (does not influence the model: all          *)
(*           encodings of an endpoint must behave alike)                   *)
(*   dataset "badescape": invalid percent-escape in the dataset path       *)
(*   key     "es": an Environments & Services key, whose environment is    *)
(*           looked up through Honeycomb's /1/auth; "classic": no lookup   *)
(*   ttl     "hour": a successful lookup stays in the environment cache    *)
(*           for the rest of the request; "tiny": EnvironmentCacheTTL is   *)
(*           so small that the entry has expired by the next lookup        *)
(*   envAt, env   the fault schedule of the auth API: from its envAt-th    *)
(*           call for this request on (0 = never) it answers env =         *)
(*           "401"/"500" (it went down / the key was revoked meanwhile)    *)
(*   body    "gzip"/"gziptrunc"/"zstd": the compressed body is corrupt     *)
(*   parse   "garbage"/"truncated": the (decompressed) body is malformed;  *)
(*           "ctype": it is announced with a Content-Type that OTLP/HTTP   *)
(*           does not speak (refused when the headers are validated)       *)
(*   shape   the events of the request, each one of                        *)
(*             "span"  part of a trace this node owns   -> collector       *)
(*             "peer"  part of a trace a peer owns      -> peer transm.    *)
(*             "plain" not part of a trace              -> upstream transm.*)
(*             "full"  like "span" but the collector queue is full         *)
(*                     (AddSpan returns collect.ErrWouldBlock)             *)
(*             "empty" an event without any field (invalid)                *)
(*             "neg"   /1/batch only: like "span", but the envelope of the *)
(*                     event carries a negative samplerate.  The statement *)
(*                     does not say whether such an event is invalid, so   *)
(*                     the handler may accept it (what the code does: the  *)
(*                     rate wraps when converted to uint) or answer 400    *)
(*                     FOR THAT EVENT (c.strict = "event"), or refuse the  *)
(*                     whole batch BEFORE it processes any of its events   *)
(*                     (c.strict = "request": an error answer and nothing  *)
(*                     handed on).  What it may not do is turn the event   *)
(*                     into an answer for the whole request after other    *)
(*                     events of the batch were handed on                  *)
(*   split   OTLP: how the events are spread over the resources of the     *)
(*           request (husky makes one batch per resource); <<2, 1>> = two  *)
(*           events in the first resource, one in the second               *)
(*                                                                         *)
(* Every handler is a step sequence (Program); one action = one step of    *)
(* the handler, named by `pc`.  StepFn is the step function of all         *)
(* handlers; Macro = FALSE lets TLC take the steps one by one (all         *)
(* invariants are checked in every intermediate state), Macro = TRUE       *)
(* collapses the request to one action Serve = StepFn iterated to the end, *)
(* which is what a client can observe; that graph is replayed into a real  *)
(* Router by harness/route/c23_responses_test.go.                          *)
(*                                                                         *)
(* The handler state:                                                      *)
(*   status   "none" | "ok" | "err": class of the status the client gets   *)
(*            (the first one written wins, like net/http)                  *)
(*   writes   number of answers written (error document, batch list,       *)
(*            success response)                                            *)
(*   perEvent the per-event statuses of the batch list                     *)
(*   effects  events handed to the collector / upstream / peer             *)
(*   refused  events whose queue admission was tried and refused           *)
(*   grp      OTLP: the resource batch being processed                     *)
(*   calls, cached   calls made to the auth API for this request; whether  *)
(*            the environment cache holds a live entry for the key         *)
(*                                                                         *)
(* The property does not say how often a handler may resolve the           *)
(* environment, only that an error answer means nothing was handed on and  *)
(* a success answer that everything was tried.  So the ideal handler may   *)
(* resolve it up to three times (choice c.extra) BEFORE it touches the     *)
(* data: if the schedule lets a later call fail, both "success, everything *)
(* processed" and "error, nothing processed" are allowed; an error after   *)
(* part of the request was handed on is not.                               *)
(*                                                                         *)
(* With Faithful = TRUE the graph also contains, as named deviations, what *)
(* the code does when the environment lookup fails:                        *)
(*   batch-env-error-continues       Router.batch answers the error and    *)
(*       carries on (no `return`): the events are processed with an empty  *)
(*       environment and a second document is appended to the response     *)
(*   otlp-env-error-answers-success  processOTLPRequest[BatchMsgp] returns *)
(*       nil: all events are dropped unprocessed and the client is told    *)
(*       the request succeeded                                             *)
(* `devs` remembers that a deviation was taken; the properties are stated  *)
(* for the ideal behaviours (devs = {}).                                   *)
(***************************************************************************)
EXTENDS Integers, Sequences, FiniteSets, TLC, Json

CONSTANTS MaxEvents,    \* events per request (batch, OTLP)
          Faithful,     \* TRUE: the graph also contains the known deviation successors
          Macro,        \* TRUE: one action per request (what a client observes)
          EnvFaults,    \* subset of {"401", "500"}
          EnvAts,       \* subset of {1, 2, 3}: the auth API call from which on it fails
          BodyFaults,   \* subset of {"gzip", "gziptrunc", "zstd"}
          ParseFaults   \* subset of {"garbage", "truncated", "ctype"}

VARIABLES req, pc, idx, grp, calls, cached, status, writes, perEvent, effects, refused, devs, act

vars  == <<req, pc, idx, grp, calls, cached, status, writes, perEvent, effects, refused, devs, act>>

ASSUME MaxEvents \in 0 .. 3

---------------------------------------------------------------------------
(* Requests                                                                *)

Endpoints == {"event", "batch", "peer-batch",
              "otlp-http-traces", "otlp-http-logs", "otlp-grpc-traces", "otlp-grpc-logs"}

IsBatch(ep) == ep \in {"batch", "peer-batch"}
IsOTLP(ep)  == ep \in {"otlp-http-traces", "otlp-http-logs", "otlp-grpc-traces", "otlp-grpc-logs"}
IsGRPC(ep)  == ep \in {"otlp-grpc-traces", "otlp-grpc-logs"}

Encodings(ep) == IF ep = "event" \/ IsBatch(ep) THEN {"json", "msgpack"}
                 ELSE IF IsGRPC(ep) THEN {"grpc"}
                 ELSE {"protobuf", "json"}

\* an OTLP span always has a trace ID; an OTLP event always has fields
Kinds(ep) == IF ep \in {"otlp-http-traces", "otlp-grpc-traces"} THEN {"span", "peer", "full"}
             ELSE IF ep \in {"otlp-http-logs", "otlp-grpc-logs"} THEN {"span", "peer", "full", "plain"}
             ELSE IF IsBatch(ep) THEN {"span", "peer", "full", "plain", "empty", "neg"}
             ELSE {"span", "peer", "full", "plain", "empty"}

\* events a handler must / may call invalid (per event, in a batch)
MustBeInvalid(k) == k = "empty"
MayBeInvalid(k)  == k \in {"empty", "neg"}

Min2(a, b) == IF a < b THEN a ELSE b
Shapes(ep) == IF ep = "event" THEN {<<k>> : k \in Kinds(ep)}
              ELSE IF ep = "peer-batch" THEN UNION {[1 .. n -> Kinds(ep)] : n \in 0 .. Min2(MaxEvents - 1, 2)}   \* same handler as "batch"
              ELSE UNION {[1 .. n -> Kinds(ep)] : n \in 0 .. MaxEvents}

\* the ways n events are spread over the resources of an OTLP request (n = 0:
\* one resource without events)
Splits(n) == CASE n = 0 -> {<<0>>}
               [] n = 1 -> {<<1>>}
               [] n = 2 -> {<<2>>, <<1, 1>>}
               [] n = 3 -> {<<3>>, <<1, 2>>, <<1, 1, 1>>}
ShapeSplits(ep) == UNION {{[shape |-> sh, split |-> sp] : sp \in (IF IsOTLP(ep) THEN Splits(Len(sh)) ELSE {<<Len(sh)>>})}
                          : sh \in Shapes(ep)}

\* the dataset is part of the path only on the Honeycomb endpoints; gRPC
\* bodies are framed by the transport (no body fault from outside)
DatasetFaults(ep) == IF ep = "event" \/ IsBatch(ep) THEN {"none", "badescape"} ELSE {"none"}
BodyFaultsOf(ep)  == IF IsGRPC(ep) THEN {"none"} ELSE {"none"} \cup BodyFaults
\* /1/events and /1/batch read anything that is not msgpack as JSON, gRPC has one content type
ParseFaultsOf(ep) == {"none"} \cup (IF ep \in {"otlp-http-traces", "otlp-http-logs"} THEN ParseFaults ELSE ParseFaults \ {"ctype"})

\* key class, cache TTL and fault schedule of the auth API.  A later call can
\* only be reached when nothing stays cached.
Healthy    == [key |-> "es", ttl |-> "hour", env |-> "none", envAt |-> 0]
EnvOptions == {Healthy,
               [key |-> "classic", ttl |-> "hour", env |-> "none", envAt |-> 0],
               [key |-> "es", ttl |-> "tiny", env |-> "none", envAt |-> 0]}
              \cup {[key |-> "es", ttl |-> "hour", env |-> f, envAt |-> 1] : f \in EnvFaults}
              \cup {[key |-> "es", ttl |-> "tiny", env |-> f, envAt |-> k] : f \in EnvFaults, k \in EnvAts \ {1}}

\* a body that cannot be decompressed has no content that could be malformed
BodyParse(ep) == {[body |-> "none", parse |-> q] : q \in ParseFaultsOf(ep)}
                 \cup {[body |-> b, parse |-> "none"] : b \in BodyFaultsOf(ep) \ {"none"}}

Mk(ep, enc, ds, o, bp, ss) ==
  [ep |-> ep, enc |-> enc, dataset |-> ds, key |-> o.key, ttl |-> o.ttl, env |-> o.env, envAt |-> o.envAt,
   body |-> bp.body, parse |-> bp.parse, shape |-> ss.shape, split |-> ss.split]

NoBodyParse == [body |-> "none", parse |-> "none"]

\* a request with an undecodable path is turned away before anything else of it
\* is looked at, so that fault is not combined with the others; requests whose
\* body is corrupt or malformed are enumerated with up to two events only
Requests ==
  UNION {UNION {{Mk(ep, enc, "none", o, bp, ss) : enc \in Encodings(ep), o \in EnvOptions,
                                                  ss \in {x \in ShapeSplits(ep) : bp = NoBodyParse \/ Len(x.shape) <= 2}}
                : bp \in BodyParse(ep)}
         \cup {Mk(ep, enc, ds, Healthy, NoBodyParse, ss)
                : enc \in Encodings(ep), ds \in DatasetFaults(ep) \ {"none"}, ss \in ShapeSplits(ep)}
         : ep \in Endpoints}

Dest(kind) == CASE kind \in {"span", "neg"} -> "collector" [] kind = "peer" -> "peer" [] kind = "plain" -> "upstream"

---------------------------------------------------------------------------
(* The handlers                                                            *)

\* accept        net/http parses the request line (gRPC: HTTP/2 framing)
\* auth          middleware apiKeyProcessor / the handler's own IsAccepted + GetReplaceKey + header validation
\* readBody      readAndCloseMaybeCompressedBody / husky parseOtlpRequestBody (decompression)
\* decodeDataset getDatasetFromRequest
\* lookupEnv     getEnvironmentName -> environmentCache -> GET /1/auth
\* parse         unmarshal / proto.Unmarshal / translatedTraceServiceRequest.Unmarshal
\* validate      requestToEvent "empty event data"
\* batch         OTLP: the loop over the resource batches of the request (per-batch set-up)
\* process       one iteration of the event loop: processEvent
\* respond       the success answer
Program(ep) ==
  CASE ep = "event"  -> <<"accept", "auth", "readBody", "decodeDataset", "lookupEnv", "parse", "validate", "process", "respond">>
    [] IsBatch(ep)   -> <<"accept", "auth", "readBody", "decodeDataset", "lookupEnv", "parse", "process", "respond">>
    [] IsGRPC(ep)    -> <<"accept", "auth", "parse", "lookupEnv", "batch", "process", "respond">>
    [] OTHER         -> <<"accept", "auth", "readBody", "parse", "lookupEnv", "batch", "process", "respond">>

After(ep, p) == LET P == Program(ep)
                    i == CHOOSE j \in 1 .. Len(P) : P[j] = p
                IN  P[i + 1]

DevName(ep) == IF IsBatch(ep) THEN "batch-env-error-continues" ELSE "otlp-env-error-answers-success"

\* an answer is written; the client keeps the first status
Answer(s, kind) == [s EXCEPT !.writes = @ + 1, !.status = IF @ = "none" THEN kind ELSE @]
Fail(s)         == [Answer(s, "err") EXCEPT !.pc = "done"]
Goto(s, p)      == [s EXCEPT !.pc = p]

\* processEvent on event i of the request
Process(r, s, c) ==
  LET i == s.idx
      k == r.shape[i]
      n == [s EXCEPT !.idx = i + 1]
  IN  IF IsBatch(r.ep) THEN
         CASE k = "empty" \/ (k = "neg" /\ c.strict = "event") -> [n EXCEPT !.perEvent = Append(@, 400)]
           [] k = "full"  -> [n EXCEPT !.perEvent = Append(@, 429), !.refused = @ \cup {i}]
           [] OTHER       -> [n EXCEPT !.perEvent = Append(@, 202), !.effects = @ \cup {[e |-> i, to |-> Dest(k)]}]
      ELSE IF k = "full" THEN
         \* /1/events answers an error for the refused event (the property would
         \* also allow a success answer: the event was tried); OTLP only logs
         IF r.ep = "event" /\ ~c.lenient THEN Fail([n EXCEPT !.refused = @ \cup {i}])
         ELSE [n EXCEPT !.refused = @ \cup {i}]
      ELSE [n EXCEPT !.effects = @ \cup {[e |-> i, to |-> Dest(k)]}]

\* getEnvironmentName, n times in a row: a classic key needs no lookup, a live
\* cache entry answers, otherwise the auth API is called; its j-th call for
\* this request fails from call envAt on.  Only a successful answer is cached,
\* and with the tiny TTL it has expired by the next lookup.
ApiFails(r, j) == r.envAt > 0 /\ j >= r.envAt
MinOf(S) == CHOOSE x \in S : \A y \in S : x <= y
LookupEnv(r, s, n) ==
  IF r.key = "classic" \/ s.cached THEN [st |-> s, ok |-> TRUE]
  ELSE IF r.ttl = "hour" THEN
          IF ApiFails(r, s.calls + 1) THEN [st |-> [s EXCEPT !.calls = @ + 1], ok |-> FALSE]
          ELSE [st |-> [s EXCEPT !.calls = @ + 1, !.cached = TRUE], ok |-> TRUE]
  ELSE LET bad == {j \in 1 .. n : ApiFails(r, s.calls + j)} IN
       IF bad = {} THEN [st |-> [s EXCEPT !.calls = @ + n], ok |-> TRUE]
       ELSE [st |-> [s EXCEPT !.calls = @ + MinOf(bad)], ok |-> FALSE]

\* the last event of resource batch g
RECURSIVE EndOf(_, _)
EndOf(r, g) == IF g = 0 THEN 0 ELSE EndOf(r, g - 1) + r.split[g]

HasNeg(r) == \E i \in 1 .. Len(r.shape) : r.shape[i] = "neg"

\* c.dev: follow the known deviation where there is one; c.lenient: see Process;
\* c.strict: an event with a negative samplerate is accepted ("accept"), answered
\* 400 per event ("event"), or makes the handler refuse the batch up front ("request");
\* c.extra: how many more times than once the environment is resolved up front
StepFn(r, s, c) ==
  LET nxt == After(r.ep, s.pc) IN
  CASE s.pc = "accept"        -> IF r.dataset # "none" THEN Fail(s) ELSE Goto(s, nxt)  \* net/http answers 400 itself
    [] s.pc = "auth"          -> IF r.parse = "ctype" THEN Fail(s) ELSE Goto(s, nxt)   \* Validate{Traces,Logs}Headers: 415
    [] s.pc = "readBody"      -> IF r.body # "none" THEN Fail(s) ELSE Goto(s, nxt)
    [] s.pc = "decodeDataset" -> Goto(s, nxt)   \* cannot fail behind net/http and the mux
    [] s.pc = "lookupEnv"     ->
         LET l == LookupEnv(r, s, 1 + c.extra) IN
         IF l.ok THEN Goto(l.st, nxt)
         ELSE IF c.dev /\ IsBatch(r.ep)
              THEN [Answer(l.st, "err") EXCEPT !.pc = nxt, !.devs = @ \cup {DevName(r.ep)}]
         ELSE IF c.dev /\ IsOTLP(r.ep)
              THEN [l.st EXCEPT !.pc = "respond", !.devs = @ \cup {DevName(r.ep)}]
         ELSE Fail(l.st)
    [] s.pc = "parse"         -> IF r.parse # "none" THEN Fail(s)
                                 ELSE IF c.strict = "request" /\ IsBatch(r.ep) /\ HasNeg(r) THEN Fail(s)
                                 ELSE Goto(s, nxt)
    [] s.pc = "validate"      -> IF r.shape[1] = "empty" THEN Fail(s) ELSE Goto(s, nxt)
    [] s.pc = "batch"         -> IF s.grp > Len(r.split) THEN Goto(s, "respond") ELSE Goto(s, "process")
    [] s.pc = "process"       -> IF IsOTLP(r.ep)
                                 THEN IF s.idx > EndOf(r, s.grp) THEN [s EXCEPT !.grp = @ + 1, !.pc = "batch"]
                                      ELSE Process(r, s, c)
                                 ELSE IF s.idx > Len(r.shape) THEN Goto(s, nxt) ELSE Process(r, s, c)
    [] s.pc = "respond"       -> [Answer(s, "ok") EXCEPT !.pc = "done"]

RECURSIVE Run(_, _, _)
Run(r, s, c) == IF s.pc = "done" THEN s ELSE Run(r, StepFn(r, s, c), c)

Choices == [dev : IF Faithful THEN BOOLEAN ELSE {FALSE}, lenient : BOOLEAN, strict : {"accept", "event", "request"}, extra : 0 .. 2]

---------------------------------------------------------------------------
Cur == [pc |-> pc, idx |-> idx, grp |-> grp, calls |-> calls, cached |-> cached,
        status |-> status, writes |-> writes, perEvent |-> perEvent,
        effects |-> effects, refused |-> refused, devs |-> devs]

Become(n) == /\ pc' = n.pc /\ idx' = n.idx /\ status' = n.status /\ writes' = n.writes
             /\ grp' = n.grp /\ calls' = n.calls /\ cached' = n.cached
             /\ perEvent' = n.perEvent /\ effects' = n.effects /\ refused' = n.refused /\ devs' = n.devs
             /\ UNCHANGED req

Init == /\ req \in Requests
        /\ pc = "accept" /\ idx = 1 /\ grp = 1 /\ calls = 0 /\ cached = FALSE /\ status = "none" /\ writes = 0
        /\ perEvent = <<>> /\ effects = {} /\ refused = {} /\ devs = {}
        /\ act = [name |-> "Init"]

Label(name, n) == IF n.devs # devs THEN [name |-> name, dev |-> DevName(req.ep)] ELSE [name |-> name]

\* a choice is offered only where it makes a difference: further lookups only
\* when exactly the last of them reaches the call from which the auth API fails
Differs(f(_), c) == /\ (c.extra > 0 => req.key = "es" /\ req.ttl = "tiny" /\ req.envAt = c.extra + 1)
                    /\ (c.lenient => req.ep = "event" /\ f(c) # f([c EXCEPT !.lenient = FALSE]))
                    /\ (c.strict # "accept" => IsBatch(req.ep) /\ f(c) # f([c EXCEPT !.strict = "accept"]))
                    /\ (c.dev => req.envAt > 0 /\ f(c) # f([c EXCEPT !.dev = FALSE]))

\* one step of the handler
Step(c) == /\ ~Macro
           /\ pc # "done"
           /\ LET F(x) == StepFn(req, Cur, x) IN
              /\ Differs(F, c)
              /\ Become(F(c))
              /\ act' = Label(pc, F(c))

\* the whole request, as its client sees it
Serve(c) == /\ Macro
            /\ pc = "accept"
            /\ LET F(x) == Run(req, Cur, x) IN
               /\ Differs(F, c)
               /\ Become(F(c))
               /\ act' = Label("Serve", F(c))

Next == \E c \in Choices : Step(c) \/ Serve(c)

Spec     == Init /\ [][Next]_vars
FairSpec == Spec /\ WF_vars(Next)

---------------------------------------------------------------------------
(* Properties (of the ideal behaviours)                                    *)

Ideal  == devs = {}
N      == Len(req.shape)
Done   == pc = "done"
Handed == {x.e : x \in effects}
Tried  == Handed \cup refused

TypeOK == /\ req.ep \in Endpoints /\ req.enc \in Encodings(req.ep) /\ req.shape \in Shapes(req.ep)
          /\ req.split \in (IF IsOTLP(req.ep) THEN Splits(N) ELSE {<<N>>})
          /\ req.key \in {"es", "classic"} /\ req.ttl \in {"hour", "tiny"} /\ req.envAt \in 0 .. 3
          /\ (req.envAt = 0 <=> req.env = "none")
          /\ pc \in {"accept", "auth", "readBody", "decodeDataset", "lookupEnv", "parse", "validate", "batch", "process", "respond", "done"}
          /\ idx \in 1 .. N + 1
          /\ grp \in 1 .. Len(req.split) + 1
          /\ calls \in 0 .. 3
          /\ cached \in BOOLEAN
          /\ status \in {"none", "ok", "err"}
          /\ writes \in 0 .. 3
          /\ perEvent \in Seq({202, 400, 429}) /\ Len(perEvent) <= N
          /\ effects \subseteq [e : 1 .. N, to : {"collector", "upstream", "peer"}]
          /\ refused \subseteq 1 .. N
          /\ (devs # {} => Faithful)

\* C23: an error status for the request as a whole => nothing was forwarded or buffered
ErrorMeansNoEffects == Ideal => (status = "err" => effects = {})

\* C23: success is never answered for a request whose events were discarded before
\* processing was tried (an empty event of a batch is answered per event)
SuccessMeansAllTried ==
  Ideal => (Done /\ status = "ok" =>
              \A i \in 1 .. N : i \in Tried \/ (IsBatch(req.ep) /\ MayBeInvalid(req.shape[i]) /\ i <= Len(perEvent) /\ perEvent[i] = 400))

\* C23: the batch list says 202 exactly for accepted events, 429 exactly for events
\* the collector queue refused, 400 for invalid ones; no list next to an error
PerEventExact ==
  Ideal => (Done /\ IsBatch(req.ep) =>
              IF status = "ok"
              THEN /\ Len(perEvent) = N
                   /\ \A i \in 1 .. N : /\ (perEvent[i] = 202 <=> i \in Handed)
                                        /\ (perEvent[i] = 429 <=> i \in refused)
                                        /\ (perEvent[i] = 400 <=> i \notin Tried)
                                        /\ (perEvent[i] = 400 => MayBeInvalid(req.shape[i]))
                                        /\ (MustBeInvalid(req.shape[i]) => perEvent[i] = 400)
              ELSE perEvent = <<>>)
NoListElsewhere == ~IsBatch(req.ep) => perEvent = <<>>

\* C23: every request receives exactly one status
ExactlyOneStatus == Ideal => /\ writes <= 1
                             /\ (Done <=> writes = 1)
                             /\ (Done <=> status # "none")

\* what is handed on are the request's events, each to the place its kind
\* prescribes, and queue refusals are exactly of the "full" events
EffectsAreTheEvents ==
  /\ \A x \in effects : req.shape[x.e] \in {"span", "peer", "plain", "neg"} /\ x.to = Dest(req.shape[x.e])
  /\ \A i \in refused : req.shape[i] = "full"
  /\ Handed \cap refused = {}

\* a fault-free request is answered with success and every event was tried
FaultFreeSucceeds ==
  Ideal => (Done /\ req.dataset = "none" /\ req.envAt = 0 /\ req.body = "none" /\ req.parse = "none"
              /\ (req.ep = "event" => req.shape[1] \notin {"empty", "full"})
              /\ ~HasNeg(req)
            => status = "ok")
\* a request-level fault is answered with an error (a fault of a later auth
\* call only if the handler made that call)
FaultMeansError ==
  Ideal => (Done /\ (req.dataset # "none" \/ req.envAt = 1 \/ req.body # "none" \/ req.parse # "none")
            => status = "err")
\* the events of a resource batch are processed while that batch is open, in order
BatchesInOrder == (IsOTLP(req.ep) /\ pc = "process") => (grp <= Len(req.split) /\ idx > EndOf(req, grp - 1) /\ idx <= EndOf(req, grp) + 1)

\* once something was answered nothing more happens to the data
NothingAfterAnswer == [][(devs' = {} /\ status # "none") => (effects' = effects /\ refused' = refused)]_vars
\* the status the client gets never changes, answers are never taken back
StatusStable == [][(status # "none" => status' = status) /\ writes' >= writes]_vars
\* every request is answered
Answered == <>Done

\* what the deviations break (MC_Responses_code_cex.cfg: TLC must report a violation)
CodeErrorMeansNoEffects == status = "err" => effects = {}
CodeExactlyOneStatus    == writes <= 1
CodeSuccessMeansTried   == Done /\ status = "ok" => \A i \in 1 .. N : (IsBatch(req.ep) /\ MayBeInvalid(req.shape[i])) \/ i \in Tried

---------------------------------------------------------------------------
(* Plumbing for the conformance replay                                     *)

\* what a client and the router's neighbours can observe.  The refusals are
\* compared only under a success answer (the property says nothing about
\* tries that preceded an error answer).
Abs == [ep |-> req.ep, enc |-> req.enc, dataset |-> req.dataset, key |-> req.key, ttl |-> req.ttl,
        env |-> req.env, envAt |-> req.envAt, body |-> req.body,
        parse |-> req.parse, shape |-> req.shape, split |-> req.split,
        status |-> status, writes |-> writes, perEvent |-> perEvent,
        effectsSet |-> effects,
        refusedSet |-> IF status = "ok" THEN refused ELSE {}]
St  == [req |-> req, pc |-> pc, idx |-> idx, grp |-> grp, calls |-> calls, cached |-> cached, status |-> status, writes |-> writes, perEvent |-> perEvent,
        effectsSet |-> effects, refusedAllSet |-> refused, devsSet |-> devs]
Dump == PrintT(ToJson([fs |-> St, fa |-> act.name, act |-> act', ts |-> St', fabs |-> Abs, tabs |-> Abs']))
View == <<req, pc, idx, grp, calls, cached, status, writes, perEvent, effects, refused, devs>>
=============================================================================
