//go:build verif

package route

// Deterministic concretisation of the body-shape classes of spec/InputClasses.tla
// (property C28). Nothing here is random: a class is turned into a fixed list
// of byte strings derived from one small valid document per document family
// (single event, batch, OTLP traces, OTLP logs) and encoding (JSON, msgpack,
// protobuf).
//
// Structural position = a byte that is not an ASCII letter or digit. All string
// contents of the valid documents are alphanumeric on purpose, so the
// non-alphanumeric bytes are exactly the punctuation of JSON, the type/length
// bytes of msgpack and the tag/length bytes of protobuf (plus the dots and
// underscores of field names).

import (
	"bytes"
	"encoding/binary"
	"encoding/json"
	"fmt"
	"math"
	"strings"
	"time"

	"github.com/tinylib/msgp/msgp"
	collectorlogs "go.opentelemetry.io/proto/otlp/collector/logs/v1"
	collectortrace "go.opentelemetry.io/proto/otlp/collector/trace/v1"
	common "go.opentelemetry.io/proto/otlp/common/v1"
	logs "go.opentelemetry.io/proto/otlp/logs/v1"
	resource "go.opentelemetry.io/proto/otlp/resource/v1"
	trace "go.opentelemetry.io/proto/otlp/trace/v1"
	"google.golang.org/protobuf/encoding/protojson"
	"google.golang.org/protobuf/encoding/protowire"
	"google.golang.org/protobuf/proto"
)

// c28Body is one concrete request body.
type c28Body struct {
	Enc   string // encoding the bytes were derived from: json | msgpack | protobuf
	Label string // which member of the class this is (goes into the replay file)
	Data  []byte
}

// --- a tiny ordered document model ---------------------------------------------

type c28KV struct {
	K any // string, or any other value for the non-string-key classes
	V any
}
type c28Map []c28KV
type c28Raw struct{ JSON, Msgp []byte } // pre-encoded fragment, put in as it is
type c28Ext struct {
	Type int8
	Data []byte
}
type c28F32 float32
type c28U64 uint64
type c28Bin []byte

func c28JSON(v any) []byte {
	var b bytes.Buffer
	c28JSONInto(&b, v)
	return b.Bytes()
}

func c28JSONInto(b *bytes.Buffer, v any) {
	switch x := v.(type) {
	case nil:
		b.WriteString("null")
	case c28Raw:
		b.Write(x.JSON)
	case c28Map:
		b.WriteByte('{')
		for i, kv := range x {
			if i > 0 {
				b.WriteByte(',')
			}
			if ks, ok := kv.K.(string); ok {
				c28JSONInto(b, ks)
			} else {
				c28JSONInto(b, kv.K) // not JSON any more: that is the point of the class
			}
			b.WriteByte(':')
			c28JSONInto(b, kv.V)
		}
		b.WriteByte('}')
	case []any:
		b.WriteByte('[')
		for i, e := range x {
			if i > 0 {
				b.WriteByte(',')
			}
			c28JSONInto(b, e)
		}
		b.WriteByte(']')
	case string:
		q, _ := json.Marshal(x)
		b.Write(q)
	case float64:
		switch {
		case math.IsNaN(x):
			b.WriteString("NaN")
		case math.IsInf(x, 1):
			b.WriteString("Infinity")
		case math.IsInf(x, -1):
			b.WriteString("-Infinity")
		default:
			q, _ := json.Marshal(x)
			b.Write(q)
		}
	case c28F32:
		c28JSONInto(b, float64(x))
	case c28U64:
		fmt.Fprintf(b, "%d", uint64(x))
	case c28Bin:
		c28JSONInto(b, string(x))
	case c28Ext:
		fmt.Fprintf(b, `{"ext":%d}`, x.Type)
	case time.Time:
		c28JSONInto(b, x.UTC().Format(time.RFC3339Nano))
	default:
		q, err := json.Marshal(x)
		if err != nil {
			panic(err)
		}
		b.Write(q)
	}
}

func c28Msgp(v any) []byte { return c28MsgpInto(nil, v) }

func c28MsgpInto(b []byte, v any) []byte {
	switch x := v.(type) {
	case nil:
		return msgp.AppendNil(b)
	case c28Raw:
		return append(b, x.Msgp...)
	case c28Map:
		b = msgp.AppendMapHeader(b, uint32(len(x)))
		for _, kv := range x {
			b = c28MsgpInto(b, kv.K)
			b = c28MsgpInto(b, kv.V)
		}
		return b
	case []any:
		b = msgp.AppendArrayHeader(b, uint32(len(x)))
		for _, e := range x {
			b = c28MsgpInto(b, e)
		}
		return b
	case string:
		return msgp.AppendString(b, x)
	case bool:
		return msgp.AppendBool(b, x)
	case int:
		return msgp.AppendInt64(b, int64(x))
	case int64:
		return msgp.AppendInt64(b, x)
	case c28U64:
		return msgp.AppendUint64(b, uint64(x))
	case float64:
		return msgp.AppendFloat64(b, x)
	case c28F32:
		return msgp.AppendFloat32(b, float32(x))
	case c28Bin:
		return msgp.AppendBytes(b, []byte(x))
	case time.Time:
		return msgp.AppendTime(b, x)
	case c28Ext:
		n := len(x.Data)
		switch n {
		case 1:
			b = append(b, 0xd4, byte(x.Type))
		case 2:
			b = append(b, 0xd5, byte(x.Type))
		case 4:
			b = append(b, 0xd6, byte(x.Type))
		case 8:
			b = append(b, 0xd7, byte(x.Type))
		case 16:
			b = append(b, 0xd8, byte(x.Type))
		default:
			b = append(b, 0xc7, byte(n), byte(x.Type))
		}
		return append(b, x.Data...)
	}
	panic(fmt.Sprintf("c28: cannot encode %T", v))
}

func c28Encode(enc string, v any) []byte {
	if enc == "json" {
		return c28JSON(v)
	}
	return c28Msgp(v)
}

// --- the valid documents ---------------------------------------------------------

var c28Time = time.Date(2024, 1, 2, 3, 4, 5, 0, time.UTC)

// the fields of one event; svc, kind and dur are sampler key fields of the
// configuration the routers run on
func c28Fields(i int) c28Map {
	return c28Map{
		{"trace.trace_id", fmt.Sprintf("c28trace%d", i)},
		{"trace.span_id", fmt.Sprintf("c28span%d", i)},
		{"trace.parent_id", "c28parent"},
		{"name", "c28op"},
		{"svc", "c28svc"},
		{"kind", "server"},
		{"dur", int64(12)},
		{"ratio", 1.5},
		{"ok", true},
		{"tags", []any{"a", "b"}},
		{"nest", c28Map{{"k", "v"}}},
	}
}

func c28With(m c28Map, extra ...c28KV) c28Map {
	out := append(c28Map(nil), m...)
	return append(out, extra...)
}

// c28Set replaces the value of key k (appends if missing).
func c28Set(m c28Map, k string, v any) c28Map {
	out := append(c28Map(nil), m...)
	for i := range out {
		if out[i].K == k {
			out[i].V = v
			return out
		}
	}
	return append(out, c28KV{k, v})
}

func c28BatchDoc(enc string) []any {
	var t1, t2 any = c28Time, int64(1704164645)
	if enc == "json" {
		t1 = c28Time.Format(time.RFC3339)
	}
	return []any{
		c28Map{{"time", t1}, {"samplerate", int64(2)}, {"data", c28Fields(1)}},
		c28Map{{"time", t2}, {"data", c28Set(c28Fields(2), "trace.parent_id", "")}},
	}
}

// the document of family fam (event | batch) in encoding enc
func c28ValidDoc(fam, enc string) any {
	if fam == "event" {
		return c28Fields(1)
	}
	if enc == "msgpack" {
		// msgp reads "time" as a msgpack timestamp only
		d := c28BatchDoc(enc)
		d[1] = c28Map{{"time", c28Time}, {"data", c28Set(c28Fields(2), "trace.parent_id", "")}}
		return d
	}
	return c28BatchDoc(enc)
}

func c28StrKV(k, v string) *common.KeyValue {
	return &common.KeyValue{Key: k, Value: &common.AnyValue{Value: &common.AnyValue_StringValue{StringValue: v}}}
}

func c28Attrs() []*common.KeyValue {
	return []*common.KeyValue{
		c28StrKV("svc", "c28svc"),
		{Key: "dur", Value: &common.AnyValue{Value: &common.AnyValue_IntValue{IntValue: 12}}},
		{Key: "ratio", Value: &common.AnyValue{Value: &common.AnyValue_DoubleValue{DoubleValue: 1.5}}},
		{Key: "ok", Value: &common.AnyValue{Value: &common.AnyValue_BoolValue{BoolValue: true}}},
		{Key: "blob", Value: &common.AnyValue{Value: &common.AnyValue_BytesValue{BytesValue: []byte("c28")}}},
		{Key: "tags", Value: &common.AnyValue{Value: &common.AnyValue_ArrayValue{ArrayValue: &common.ArrayValue{Values: []*common.AnyValue{
			{Value: &common.AnyValue_StringValue{StringValue: "a"}}, {Value: &common.AnyValue_IntValue{IntValue: 2}}}}}}},
		{Key: "nest", Value: &common.AnyValue{Value: &common.AnyValue_KvlistValue{KvlistValue: &common.KeyValueList{Values: []*common.KeyValue{c28StrKV("k", "v")}}}}},
	}
}

func c28TraceID(i int) []byte {
	return []byte{0xc2, 0x8a, 1, 2, 3, 4, 5, 6, 7, 8, 9, 10, 11, 12, 13, byte(i)}
}

func c28TraceReq() *collectortrace.ExportTraceServiceRequest {
	sp := &trace.Span{
		TraceId: c28TraceID(1), SpanId: []byte{0xc2, 0x8b, 0, 0, 0, 0, 0, 1}, ParentSpanId: []byte{0xc2, 0x8c, 9, 9, 9, 9, 9, 9},
		Name: "c28op", Kind: trace.Span_SPAN_KIND_SERVER, StartTimeUnixNano: 1704164645000000000, EndTimeUnixNano: 1704164646000000000,
		Attributes: c28Attrs(),
		Events:     []*trace.Span_Event{{TimeUnixNano: 1704164645500000000, Name: "c28ev", Attributes: []*common.KeyValue{c28StrKV("e", "v")}}},
		Links:      []*trace.Span_Link{{TraceId: c28TraceID(2), SpanId: []byte{0xc2, 0x8d, 0, 0, 0, 0, 0, 2}, Attributes: []*common.KeyValue{c28StrKV("l", "v")}}},
		Status:     &trace.Status{Code: trace.Status_STATUS_CODE_ERROR, Message: "c28err"},
	}
	root := &trace.Span{TraceId: c28TraceID(1), SpanId: []byte{0xc2, 0x8c, 9, 9, 9, 9, 9, 9}, Name: "c28root", Kind: trace.Span_SPAN_KIND_CLIENT,
		StartTimeUnixNano: 1704164645000000000, EndTimeUnixNano: 1704164647000000000, Attributes: []*common.KeyValue{c28StrKV("kind", "server")}}
	return &collectortrace.ExportTraceServiceRequest{ResourceSpans: []*trace.ResourceSpans{{
		Resource:   &resource.Resource{Attributes: []*common.KeyValue{c28StrKV("service.name", "c28svc")}},
		ScopeSpans: []*trace.ScopeSpans{{Scope: &common.InstrumentationScope{Name: "c28lib", Version: "v1"}, Spans: []*trace.Span{sp, root}}},
	}}}
}

func c28LogsReq() *collectorlogs.ExportLogsServiceRequest {
	rec := &logs.LogRecord{
		TimeUnixNano: 1704164645000000000, ObservedTimeUnixNano: 1704164645000000001, SeverityNumber: logs.SeverityNumber_SEVERITY_NUMBER_WARN, SeverityText: "WARN",
		Body:       &common.AnyValue{Value: &common.AnyValue_StringValue{StringValue: "c28body"}},
		Attributes: c28Attrs(), TraceId: c28TraceID(3), SpanId: []byte{0xc2, 0x8e, 0, 0, 0, 0, 0, 3},
	}
	plain := &logs.LogRecord{TimeUnixNano: 1704164645000000000,
		Body: &common.AnyValue{Value: &common.AnyValue_KvlistValue{KvlistValue: &common.KeyValueList{Values: []*common.KeyValue{c28StrKV("k", "v")}}}}}
	return &collectorlogs.ExportLogsServiceRequest{ResourceLogs: []*logs.ResourceLogs{{
		Resource:  &resource.Resource{Attributes: []*common.KeyValue{c28StrKV("service.name", "c28svc")}},
		ScopeLogs: []*logs.ScopeLogs{{Scope: &common.InstrumentationScope{Name: "c28lib"}, LogRecords: []*logs.LogRecord{rec, plain}}},
	}}}
}

func c28OTLPValid(fam, enc string) []byte {
	var m proto.Message = c28TraceReq()
	if fam == "otlp-logs" {
		m = c28LogsReq()
	}
	var b []byte
	var err error
	if enc == "json" {
		b, err = protojson.MarshalOptions{}.Marshal(m)
		if err == nil { // protojson's output is deliberately unstable in its whitespace
			var cb bytes.Buffer
			if err = json.Compact(&cb, b); err == nil {
				b = cb.Bytes()
			}
		}
	} else {
		b, err = proto.MarshalOptions{Deterministic: true}.Marshal(m)
	}
	if err != nil {
		panic(err)
	}
	return b
}

// c28Valid returns the valid body of the family in the encoding.
func c28Valid(fam, enc string) []byte {
	switch fam {
	case "event", "batch":
		return c28Encode(enc, c28ValidDoc(fam, enc))
	}
	return c28OTLPValid(fam, enc)
}

// c28Encodings lists the encodings a document family exists in.
func c28Encodings(fam string) []string {
	if fam == "event" || fam == "batch" {
		return []string{"json", "msgpack"}
	}
	return []string{"protobuf", "json"}
}

// --- structural positions -----------------------------------------------------------

func c28Alnum(c byte) bool {
	return (c >= '0' && c <= '9') || (c >= 'a' && c <= 'z') || (c >= 'A' && c <= 'Z')
}

// c28Density says how much of a class is concretised.
type c28Density struct {
	Dense     bool   // every offset of the valid body (thorough tier, base combination, body in the declared encoding)
	DenseEnc  string // the encoding Dense applies to
	Positions int    // otherwise: this many structural positions ...
	Members   int    // ... and at most this many members of an enumerated class per encoding (0 = all)
	Seed      int    // shifts which positions / members are taken
}

// c28Pick takes n of the k items 0..k-1, evenly spread, shifted by seed.
func c28Pick(k, n, seed int) []int {
	if n <= 0 || k <= n {
		out := make([]int, k)
		for i := range out {
			out[i] = i
		}
		return out
	}
	out := make([]int, 0, n)
	stride := k / n
	shift := 0
	if stride > 0 {
		shift = seed % stride
	}
	for i := 0; i < n; i++ {
		out = append(out, i*k/n+shift)
	}
	return out
}

// c28Positions: dense = every offset; otherwise d.Positions structural ones (first and last always)
func c28Positions(b []byte, enc string, d c28Density) []int {
	var out []int
	dense := d.Dense && enc == d.DenseEnc
	for i := range b {
		if dense || !c28Alnum(b[i]) {
			out = append(out, i)
		}
	}
	if dense || len(out) <= d.Positions {
		return out
	}
	picked := []int{out[0]}
	for _, i := range c28Pick(len(out)-2, d.Positions-2, d.Seed) {
		picked = append(picked, out[1+i])
	}
	return append(picked, out[len(out)-1])
}

// --- protobuf fragments ------------------------------------------------------------

func c28PBytes(num int, data []byte) []byte {
	return protowire.AppendBytes(protowire.AppendTag(nil, protowire.Number(num), protowire.BytesType), data)
}
func c28PVarint(num int, v uint64) []byte {
	return protowire.AppendVarint(protowire.AppendTag(nil, protowire.Number(num), protowire.VarintType), v)
}
func c28PFixed64(num int, v uint64) []byte {
	return protowire.AppendFixed64(protowire.AppendTag(nil, protowire.Number(num), protowire.Fixed64Type), v)
}
func c28PCat(parts ...[]byte) []byte { return bytes.Join(parts, nil) }

// AnyValue encodings
func c28PAnyString(s string) []byte { return c28PBytes(1, []byte(s)) }
func c28PAnyDouble(f float64) []byte {
	return c28PFixed64(4, math.Float64bits(f))
}
func c28PKeyValue(k string, anyValue []byte) []byte {
	return c28PCat(c28PBytes(1, []byte(k)), c28PBytes(2, anyValue))
}

// c28PSpan builds a Span message from raw field fragments on top of the ids.
func c28PSpan(extra ...[]byte) []byte {
	return c28PCat(append([][]byte{c28PBytes(1, c28TraceID(1)), c28PBytes(2, []byte{0xc2, 0x8b, 0, 0, 0, 0, 0, 1}), c28PBytes(5, []byte("c28op")),
		c28PFixed64(7, 1704164645000000000), c28PFixed64(8, 1704164646000000000)}, extra...)...)
}

// c28PLogRecord builds a LogRecord from raw fragments.
func c28PLogRecord(extra ...[]byte) []byte {
	return c28PCat(append([][]byte{c28PFixed64(1, 1704164645000000000), c28PBytes(5, c28PAnyString("c28body")), c28PBytes(9, c28TraceID(3))}, extra...)...)
}

// c28PRequest wraps one span / log record (raw bytes) into a whole export request.
func c28PRequest(fam string, item []byte) []byte {
	res := c28PBytes(1, c28PBytes(1, c28PKeyValue("service.name", c28PAnyString("c28svc")))) // resource{attributes}
	scope := c28PBytes(2, item)                                                              // scope_spans{spans} / scope_logs{log_records}
	return c28PBytes(1, c28PCat(res, c28PBytes(2, scope)))                                   // resource_spans / resource_logs
}

// attribute field number of the item (span: 9, log record: 6)
func c28PAttrNum(fam string) int {
	if fam == "otlp-logs" {
		return 6
	}
	return 9
}

func c28PItem(fam string, extra ...[]byte) []byte {
	if fam == "otlp-logs" {
		return c28PLogRecord(extra...)
	}
	return c28PSpan(extra...)
}

// nested AnyValue: depth levels of array_value (5) or kvlist_value (6) around a string
// (built outside-in from the sizes, so that it is linear in the depth)
func c28PDeepAny(depth int, kv bool) []byte {
	core := c28PAnyString("x")
	hdr := func(num, n int) []byte {
		return protowire.AppendVarint(protowire.AppendTag(nil, protowire.Number(num), protowire.BytesType), uint64(n))
	}
	key := c28PBytes(1, []byte("k"))
	// size[i] = size of the AnyValue at nesting level i (0 = the core)
	size := make([]int, depth+1)
	size[0] = len(core)
	for i := 1; i <= depth; i++ {
		if kv { // AnyValue{6: KeyValueList{1: KeyValue{1: "k", 2: inner}}}
			kvSize := len(key) + len(hdr(2, size[i-1])) + size[i-1]
			listSize := len(hdr(1, kvSize)) + kvSize
			size[i] = len(hdr(6, listSize)) + listSize
		} else { // AnyValue{5: ArrayValue{1: inner}}
			arrSize := len(hdr(1, size[i-1])) + size[i-1]
			size[i] = len(hdr(5, arrSize)) + arrSize
		}
	}
	out := make([]byte, 0, size[depth])
	for i := depth; i >= 1; i-- {
		if kv {
			kvSize := len(key) + len(hdr(2, size[i-1])) + size[i-1]
			listSize := len(hdr(1, kvSize)) + kvSize
			out = append(out, hdr(6, listSize)...)
			out = append(out, hdr(1, kvSize)...)
			out = append(out, key...)
			out = append(out, hdr(2, size[i-1])...)
		} else {
			arrSize := len(hdr(1, size[i-1])) + size[i-1]
			out = append(out, hdr(5, arrSize)...)
			out = append(out, hdr(1, size[i-1])...)
		}
	}
	return append(out, core...)
}

// --- the classes -----------------------------------------------------------------------

// nesting depths; the extreme ones only in the thorough tier at the base combination
func c28Depths(thorough, full bool) []int {
	switch {
	case thorough && full:
		return []int{64, 1000, 20000, 1000000}
	case thorough:
		return []int{64, 1000, 20000}
	}
	return []int{64, 3000}
}

func c28Repeat(s string, n int) []byte { return bytes.Repeat([]byte(s), n) }

// c28Bodies returns the concrete bodies of class shape for document family
// fam (event | batch | otlp-traces | otlp-logs).
func c28Bodies(fam, shape string, thorough bool, d c28Density) []c28Body {
	var out []c28Body
	for _, enc := range c28Encodings(fam) {
		out = append(out, c28BodiesEnc(fam, shape, enc, thorough, d)...)
	}
	return out
}

func c28BodiesEnc(fam, shape, enc string, thorough bool, d c28Density) []c28Body {
	var out []c28Body
	add := func(enc, label string, data []byte) { out = append(out, c28Body{Enc: enc, Label: label, Data: data}) }
	full := d.Members == 0 // the base combination gets the expensive members too
	valid := c28Valid(fam, enc)
	switch shape {
	case "valid":
		add(enc, "valid", valid)
	case "empty":
		add(enc, "zero-bytes", nil)
		switch enc {
		case "json":
			add(enc, "null", []byte("null"))
			add(enc, "blank", []byte(" \n\t"))
			add(enc, "empty-object", []byte("{}"))
			add(enc, "empty-array", []byte("[]"))
		case "msgpack":
			add(enc, "nil", []byte{0xc0})
			add(enc, "empty-map", []byte{0x80})
			add(enc, "empty-array", []byte{0x90})
		case "protobuf":
			add(enc, "empty-resource", c28PBytes(1, nil))
		}
	case "truncated":
		for _, p := range c28Positions(valid, enc, d) {
			add(enc, fmt.Sprintf("prefix[:%d]", p), valid[:p])
			if p+1 < len(valid) {
				add(enc, fmt.Sprintf("prefix[:%d]", p+1), valid[:p+1])
			}
		}
	case "subst":
		for _, p := range c28Positions(valid, enc, d) {
			subs := []byte{0x00, 0xff, valid[p] + 1}
			if d.Dense && enc == d.DenseEnc && !c28Alnum(valid[p]) {
				subs = []byte{0x00, 0xff, valid[p] + 1, valid[p] - 1, 0xc1, 0x80, '"', '[', '{'}
			}
			seen := map[byte]bool{valid[p]: true}
			for _, s := range subs {
				if seen[s] {
					continue
				}
				seen[s] = true
				m := append([]byte(nil), valid...)
				m[p] = s
				add(enc, fmt.Sprintf("byte[%d]=0x%02x", p, s), m)
			}
		}
	default:
		if fam == "event" || fam == "batch" {
			c28DocClass(fam, enc, shape, thorough, full, add)
		} else {
			c28OTLPClass(fam, enc, shape, thorough, full, add)
		}
		// away from the base combination only a seed-shifted sample of an enumerated class is sent
		if shape != "lenbomb" && d.Members > 0 && len(out) > d.Members {
			var kept []c28Body
			for _, i := range c28Pick(len(out), d.Members, d.Seed) {
				kept = append(kept, out[i])
			}
			return kept
		}
	}
	return out
}

// wrapper of the batch family around the data of one event
func c28Wrap(fam string, data any, extra ...c28KV) any {
	if fam == "event" {
		return data
	}
	w := c28Map{{"time", c28Raw{JSON: []byte(`"2024-01-02T03:04:05Z"`), Msgp: msgp.AppendTime(nil, c28Time)}}, {"samplerate", int64(2)}, {"data", data}}
	return []any{append(w, extra...)}
}

func c28DocClass(fam, enc, shape string, thorough, full bool, add func(enc, label string, data []byte)) {
	longLen := 1 << 16
	if thorough {
		longLen = 1 << 20
	}
	doc := func(label string, v any) { add(enc, label, c28Encode(enc, v)) }
	raw := func(label string, b []byte) { add(enc, label, b) }
	f := c28Fields(1)
	switch shape {
	case "wrongtop":
		for i, v := range []any{[]any{}, c28Map{}, "c28", int64(5), true, nil, 1.5, []any{nil}, []any{int64(5)}, []any{[]any{}}, []any{"c28"},
			[]any{c28Fields(1)}, c28Map{{"data", c28Fields(1)}}} {
			doc(fmt.Sprintf("top%d", i), v)
		}
		if fam == "batch" {
			for i, w := range []c28Map{
				{{"data", int64(5)}}, {{"data", nil}}, {{"data", []any{}}}, {{"data", "c28"}}, {{"data", c28Map{}}},
				{{"time", c28Map{}}, {"samplerate", "x"}, {"data", c28Map{}}},
				{{"time", int64(5)}, {"samplerate", true}, {"data", c28Map{{"a", int64(1)}}}},
				{{"time", nil}, {"samplerate", nil}, {"data", f}},
				{{"samplerate", int64(-1)}, {"data", f}},
				{{"samplerate", c28U64(math.MaxUint64)}, {"data", f}},
				{{"samplerate", int64(math.MinInt64)}, {"data", f}},
				{{"samplerate", 2.5}, {"data", f}},
				{{"time", "c28notatime"}, {"data", f}},
				{{"time", ""}, {"data", f}},
				{{"time", "99999999999999999999999999"}, {"data", f}},
				{{"time", []any{}}, {"data", f}},
				{{"unknown", c28Map{{"a", []any{int64(1)}}}}, {"data", f}},
			} {
				doc(fmt.Sprintf("event%d", i), []any{w})
			}
		}
	case "deep":
		for _, d := range c28Depths(thorough, full) {
			arr := c28Raw{JSON: c28PCat(c28Repeat("[", d), c28Repeat("]", d)), Msgp: append(c28Repeat("\x91", d), 0xc0)}
			mp := c28Raw{JSON: c28PCat(c28Repeat(`{"k":`, d), []byte("1"), c28Repeat("}", d)), Msgp: append(c28Repeat("\x81\xa1k", d), 0x01)}
			raw(fmt.Sprintf("top-arrays-%d", d), c28Encode(enc, arr))
			raw(fmt.Sprintf("top-maps-%d", d), c28Encode(enc, mp))
			doc(fmt.Sprintf("field-arrays-%d", d), c28Wrap(fam, c28Set(f, "nest", arr)))
			doc(fmt.Sprintf("field-maps-%d", d), c28Wrap(fam, c28Set(f, "nest", mp)))
			doc(fmt.Sprintf("keyfield-arrays-%d", d), c28Wrap(fam, c28Set(f, "svc", arr)))
			doc(fmt.Sprintf("keyfield-maps-%d", d), c28Wrap(fam, c28Set(f, "svc", mp)))
			doc(fmt.Sprintf("traceid-arrays-%d", d), c28Wrap(fam, c28Set(f, "trace.trace_id", arr)))
			if fam == "batch" {
				doc(fmt.Sprintf("wrapper-unknown-%d", d), c28Wrap(fam, f, c28KV{"other", arr}))
				doc(fmt.Sprintf("wrapper-time-%d", d), []any{c28Map{{"time", arr}, {"data", f}}})
			}
		}
	case "hugelen":
		if enc == "msgpack" {
			// (the 32-bit element counts are a class of their own: lenbomb)
			hdrs := map[string][]byte{
				"str32-max": {0xdb, 0xff, 0xff, 0xff, 0xff}, "bin32-max": {0xc6, 0xff, 0xff, 0xff, 0xff}, "ext32-max": {0xc9, 0xff, 0xff, 0xff, 0xff, 0x01},
				"map16-max": {0xde, 0xff, 0xff}, "array16-max": {0xdc, 0xff, 0xff}, "str16-max": {0xda, 0xff, 0xff}, "str8-max": {0xd9, 0xff},
			}
			for _, name := range []string{"str32-max", "bin32-max", "ext32-max", "map16-max", "array16-max", "str16-max", "str8-max"} {
				h := hdrs[name]
				frag := c28Raw{Msgp: append(append([]byte(nil), h...), 0xa1, 'x', 0x01)}
				raw("top-"+name, frag.Msgp)
				doc("field-"+name, c28Wrap(fam, c28Set(f, "nest", frag)))
				doc("keyfield-"+name, c28Wrap(fam, c28Set(f, "svc", frag)))
				doc("traceid-"+name, c28Wrap(fam, c28Set(f, "trace.trace_id", frag)))
				doc("key-"+name, c28Wrap(fam, c28With(f, c28KV{frag, int64(1)})))
				if fam == "batch" {
					doc("data-"+name, []any{c28Map{{"data", frag}}})
					doc("time-"+name, []any{c28Map{{"time", frag}, {"data", f}}})
					doc("samplerate-"+name, []any{c28Map{{"samplerate", frag}, {"data", f}}})
				}
			}
		} else {
			long := strings.Repeat("a", longLen)
			doc("long-value", c28Wrap(fam, c28Set(f, "svc", long)))
			doc("long-key", c28Wrap(fam, c28With(f, c28KV{long, int64(1)})))
			doc("long-traceid", c28Wrap(fam, c28Set(f, "trace.trace_id", long)))
			doc("long-number", c28Wrap(fam, c28Set(f, "dur", c28Raw{JSON: c28Repeat("9", longLen/8)})))
			doc("long-exponent", c28Wrap(fam, c28Set(f, "dur", c28Raw{JSON: []byte("1e" + strings.Repeat("9", 1000))})))
			if full {
				pad := c28Repeat(" ", HTTPMessageSizeMax)
				one := c28Encode(enc, c28Wrap(fam, f))
				raw("over-the-size-limit", append(append([]byte(nil), pad...), one...))
				raw("at-the-size-limit", append(append([]byte(nil), pad[:HTTPMessageSizeMax-len(one)]...), one...))
			}
		}
		if full && thorough {
			m := c28Fields(1)
			for i := 0; i < 70000; i++ { // more fields than a msgpack map16 holds
				m = append(m, c28KV{fmt.Sprintf("f%d", i), int64(i)})
			}
			doc("many-fields", c28Wrap(fam, m))
		}
		if full && enc == "msgpack" {
			raw("over-the-size-limit", c28Encode(enc, c28Wrap(fam, c28Set(f, "svc", strings.Repeat("a", HTTPMessageSizeMax)))))
		}
	case "lenbomb":
		// counts a decoder may allocate from before it has seen the elements
		if enc != "msgpack" {
			return
		}
		for _, h := range []struct {
			name string
			b    []byte
		}{{"array32-65535", []byte{0xdd, 0, 0, 0xff, 0xff}}, {"map32-65535", []byte{0xdf, 0, 0, 0xff, 0xff}},
			{"array32-max", []byte{0xdd, 0xff, 0xff, 0xff, 0xff}}, {"array32-2^31", []byte{0xdd, 0x80, 0, 0, 0}},
			{"map32-max", []byte{0xdf, 0xff, 0xff, 0xff, 0xff}}, {"map32-2^31", []byte{0xdf, 0x80, 0, 0, 0}}} {
			frag := c28Raw{Msgp: append(append([]byte(nil), h.b...), 0xa1, 'x', 0x01)}
			raw("top-"+h.name, frag.Msgp)
			doc("field-"+h.name, c28Wrap(fam, c28Set(f, "nest", frag)))
			doc("keyfield-"+h.name, c28Wrap(fam, c28Set(f, "svc", frag)))
			doc("traceid-"+h.name, c28Wrap(fam, c28Set(f, "trace.trace_id", frag)))
			if fam == "batch" {
				doc("data-"+h.name, []any{c28Map{{"data", frag}}})
				doc("time-"+h.name, []any{c28Map{{"time", frag}, {"data", f}}})
				doc("other-"+h.name, []any{c28Map{{"other", frag}, {"data", f}}})
			}
		}
	case "dupkeys":
		doc("dup-field", c28Wrap(fam, c28With(f, c28KV{"svc", "other"}, c28KV{"svc", int64(3)})))
		doc("dup-traceid", c28Wrap(fam, c28With(f, c28KV{"trace.trace_id", "c28other"}, c28KV{"traceId", "c28third"}, c28KV{"meta.trace_id", "c28meta"})))
		doc("dup-meta", c28Wrap(fam, c28With(f, c28KV{"meta.refinery.probe", true}, c28KV{"meta.refinery.probe", "x"}, c28KV{"meta.refinery.root", int64(1)},
			c28KV{"meta.span_count", "x"}, c28KV{"meta.span_count", int64(3)}, c28KV{"meta.signal_type", int64(5)}, c28KV{"meta.signal_type", "log"})))
		doc("dup-parent", c28Wrap(fam, c28With(f, c28KV{"trace.parent_id", ""}, c28KV{"parentId", "p"}, c28KV{"trace.parent_id", int64(1)})))
		if fam == "batch" {
			doc("dup-wrapper", []any{c28Map{{"data", f}, {"data", c28Fields(2)}, {"time", c28Raw{JSON: []byte(`"2024-01-02T03:04:05Z"`), Msgp: msgp.AppendTime(nil, c28Time)}},
				{"time", c28Raw{JSON: []byte("5"), Msgp: msgp.AppendNil(nil)}}, {"samplerate", int64(1)}, {"samplerate", int64(9)}}})
		}
	case "nonstrkeys":
		for i, k := range []any{int64(1), nil, []any{"svc"}, c28Bin("svc"), 1.5, true, c28Map{{"a", int64(1)}}, c28Ext{Type: 1, Data: []byte{1}}} {
			doc(fmt.Sprintf("field-key%d", i), c28Wrap(fam, c28With(f, c28KV{k, "v"})))
			doc(fmt.Sprintf("first-key%d", i), c28Wrap(fam, append(c28Map{{k, "v"}}, f...)))
			if fam == "batch" {
				doc(fmt.Sprintf("wrapper-key%d", i), []any{c28Map{{k, "v"}, {"data", f}}})
			}
		}
		if fam == "batch" {
			doc("wrapper-bin-keys", []any{c28Map{{c28Bin("time"), c28Time}, {c28Bin("samplerate"), int64(2)}, {c28Bin("data"), f}}})
		}
		doc("bin-keys", c28Wrap(fam, c28Map{{c28Bin("trace.trace_id"), "c28trace1"}, {c28Bin("svc"), "c28svc"}, {c28Bin("meta.refinery.probe"), true}}))
	case "badutf8":
		bad := "\xff\xfe\xc3\x28"
		q := func(s string) c28Raw { return c28Raw{JSON: []byte("\"" + s + "\""), Msgp: msgp.AppendString(nil, s)} }
		doc("value", c28Wrap(fam, c28Set(f, "name", q(bad))))
		doc("keyfield-value", c28Wrap(fam, c28Set(f, "svc", q(bad))))
		doc("traceid", c28Wrap(fam, c28Set(f, "trace.trace_id", q(bad))))
		doc("meta-value", c28Wrap(fam, c28With(f, c28KV{"meta.signal_type", q(bad)}, c28KV{"meta.annotation_type", q(bad)})))
		doc("key", c28Wrap(fam, c28With(f, c28KV{q(bad), "v"})))
		doc("nul", c28Wrap(fam, c28Set(f, "svc", q("a\x00b"))))
		if enc == "json" {
			doc("escapes", c28Wrap(fam, c28Set(f, "svc", c28Raw{JSON: []byte(`"\ud800 \udc00 \u0000 \x41 \uZZZZ"`)})))
			doc("lone-surrogate", c28Wrap(fam, c28Set(f, "svc", c28Raw{JSON: []byte(`"\ud800"`)})))
			raw("bom", append([]byte("\xef\xbb\xbf"), c28Encode(enc, c28Wrap(fam, f))...))
			raw("utf16", []byte("\xff\xfe{\x00}\x00"))
		}
	case "naninf":
		vals := []c28KV{{"nan", math.NaN()}, {"inf", math.Inf(1)}, {"neginf", math.Inf(-1)}, {"f32nan", c28F32(float32(math.NaN()))},
			{"u64max", c28U64(math.MaxUint64)}, {"i64min", int64(math.MinInt64)}, {"negzero", math.Copysign(0, -1)}, {"maxfloat", math.MaxFloat64},
			{"bigint", c28Raw{JSON: []byte("123456789012345678901234567890"), Msgp: msgp.AppendUint64(nil, math.MaxUint64)}},
			{"overflow", c28Raw{JSON: []byte("1e999"), Msgp: msgp.AppendFloat64(nil, math.Inf(1))}},
			{"denormal", 5e-324}}
		for _, kv := range vals {
			n := kv.K.(string)
			doc("field-"+n, c28Wrap(fam, c28Set(f, "ratio", kv.V)))
			doc("keyfield-"+n, c28Wrap(fam, c28Set(f, "dur", kv.V)))
			doc("meta-"+n, c28Wrap(fam, c28With(f, c28KV{"meta.span_count", kv.V}, c28KV{"meta.refinery.original_sample_rate", kv.V})))
			if fam == "batch" {
				doc("samplerate-"+n, []any{c28Map{{"samplerate", kv.V}, {"data", f}}})
				doc("time-"+n, []any{c28Map{{"time", kv.V}, {"data", f}}})
			}
		}
	case "exttypes":
		if enc == "msgpack" {
			exts := []c28KV{
				{"fixext1", c28Ext{1, []byte{1}}}, {"fixext2", c28Ext{2, []byte{1, 2}}}, {"ts32", c28Ext{-1, []byte{0x65, 0x93, 0x7d, 0x25}}},
				{"ts64", c28Ext{-1, []byte{0, 0, 0, 0, 0x65, 0x93, 0x7d, 0x25}}}, {"ts96", c28Ext{-1, []byte{0, 0, 0, 1, 0, 0, 0, 0, 0x65, 0x93, 0x7d, 0x25}}},
				{"ts-badlen", c28Ext{-1, []byte{1, 2, 3}}}, {"ts-empty", c28Ext{-1, nil}}, {"ts96-nsec-overflow", c28Ext{-1, []byte{0xff, 0xff, 0xff, 0xff, 0x7f, 0xff, 0xff, 0xff, 0xff, 0xff, 0xff, 0xff}}},
				{"msgp-time", c28Ext{5, []byte{0, 0, 0, 0, 0x65, 0x93, 0x7d, 0x25, 0, 0, 0, 1}}}, {"msgp-time-short", c28Ext{5, []byte{0, 0, 0, 0}}},
				{"complex64", c28Ext{3, []byte{0, 0, 0, 0, 0, 0, 0, 0}}}, {"complex128", c28Ext{4, make([]byte, 16)}}, {"ext8-empty", c28Ext{7, nil}},
				{"fixext16", c28Ext{9, make([]byte, 16)}}, {"never-used", c28Raw{Msgp: []byte{0xc1}}},
			}
			for _, kv := range exts {
				n := kv.K.(string)
				doc("field-"+n, c28Wrap(fam, c28Set(f, "nest", kv.V)))
				doc("keyfield-"+n, c28Wrap(fam, c28Set(f, "svc", kv.V)))
				doc("traceid-"+n, c28Wrap(fam, c28Set(f, "trace.trace_id", kv.V)))
				doc("meta-"+n, c28Wrap(fam, c28With(f, c28KV{"meta.refinery.probe", kv.V}, c28KV{"meta.trace_id", kv.V}, c28KV{"meta.span_count", kv.V})))
				doc("key-"+n, c28Wrap(fam, c28With(f, c28KV{kv.V, int64(1)})))
				if fam == "batch" {
					doc("time-"+n, []any{c28Map{{"time", kv.V}, {"data", f}}})
					doc("samplerate-"+n, []any{c28Map{{"samplerate", kv.V}, {"data", f}}})
					doc("data-"+n, []any{c28Map{{"data", kv.V}}})
				}
				raw("top-"+n, c28Msgp(kv.V))
			}
		} else {
			j := string(c28Encode(enc, c28Wrap(fam, f)))
			raw("trailing-comma", []byte(strings.Replace(j, "}", ",}", 1)))
			raw("comment", []byte("/* c28 */"+j))
			raw("single-quotes", []byte(strings.ReplaceAll(j, "\"", "'")))
			raw("trailing-garbage", []byte(j+"c28"))
			raw("two-documents", []byte(j+j))
			raw("unquoted-keys", []byte(strings.Replace(j, `"svc"`, "svc", 1)))
			raw("hex-number", []byte(strings.Replace(j, "12", "0x0c", 1)))
			raw("leading-zero", []byte(strings.Replace(j, "12", "012", 1)))
			raw("plus-number", []byte(strings.Replace(j, "12", "+12", 1)))
			raw("control-char", []byte(strings.Replace(j, "c28svc", "c28\x01svc", 1)))
			raw("TRUE", []byte(strings.Replace(j, "true", "TRUE", 1)))
		}
	}
}

func c28OTLPClass(fam, enc, shape string, thorough, full bool, add func(enc, label string, data []byte)) {
	longLen := 1 << 16
	if thorough {
		longLen = 1 << 20
	}
	raw := func(label string, b []byte) { add(enc, label, b) }
	attr := c28PAttrNum(fam)
	listKey := "resourceSpans"
	if fam == "otlp-logs" {
		listKey = "resourceLogs"
	}
	// jsonItem builds a JSON export request around one span / log record given as JSON text
	jsonReq := func(item string) []byte {
		inner, scope := "spans", "scopeSpans"
		if fam == "otlp-logs" {
			inner, scope = "logRecords", "scopeLogs"
		}
		return []byte(fmt.Sprintf(`{"%s":[{"resource":{"attributes":[{"key":"service.name","value":{"stringValue":"c28svc"}}]},"%s":[{"%s":[%s]}]}]}`, listKey, scope, inner, item))
	}
	jsonItem := func(extra string) string {
		if fam == "otlp-logs" {
			return `{"timeUnixNano":"1704164645000000000","body":{"stringValue":"c28body"},"traceId":"c28a0102030405060708090a0b0c0d03"` + extra + `}`
		}
		return `{"traceId":"c28a0102030405060708090a0b0c0d01","spanId":"c28b000000000001","name":"c28op","startTimeUnixNano":"1704164645000000000","endTimeUnixNano":"1704164646000000000"` + extra + `}`
	}
	switch shape {
	case "wrongtop":
		if enc == "protobuf" {
			other := "otlp-logs"
			if fam == "otlp-logs" {
				other = "otlp-traces"
			}
			raw("other-signal", c28OTLPValid(other, "protobuf"))
			raw("bare-keyvalue", c28PKeyValue("k", c28PAnyString("v")))
			raw("field1-varint", c28PVarint(1, 5))
			raw("field1-fixed64", c28PFixed64(1, 5))
			raw("field1-string-not-message", c28PBytes(1, []byte("c28 this is not a message")))
			raw("resource-as-varint", c28PBytes(1, c28PVarint(1, 5)))
			raw("scope-as-varint", c28PBytes(1, c28PVarint(2, 5)))
			raw("item-as-varint", c28PBytes(1, c28PBytes(2, c28PVarint(2, 5))))
			raw("json-as-protobuf", c28OTLPValid(fam, "json"))
		} else {
			for i, s := range []string{`[]`, `"c28"`, `5`, `true`, `null`, `{"` + listKey + `":5}`, `{"` + listKey + `":[5]}`, `{"` + listKey + `":[null]}`, `{"` + listKey + `":{}}`,
				`{"` + listKey + `":[{"resource":5}]}`, `{"` + listKey + `":[{"resource":{"attributes":[5]}}]}`, `{"` + listKey + `":[{"scopeSpans":[null],"scopeLogs":[null]}]}`,
				`{"` + listKey + `":[{"scopeSpans":[{"spans":[null]}],"scopeLogs":[{"logRecords":[null]}]}]}`, `{"unknownField":1}`} {
				raw(fmt.Sprintf("top%d", i), []byte(s))
			}
			raw("protobuf-as-json", c28OTLPValid(fam, "protobuf"))
		}
	case "deep":
		depths := []int{50, 101, 3000}
		if thorough {
			depths = []int{50, 98, 101, 200, 5000}
			if full {
				depths = append(depths, 20000, 200000)
			}
		}
		for _, d := range depths {
			if enc == "protobuf" {
				raw(fmt.Sprintf("attr-arrays-%d", d), c28PRequest(fam, c28PItem(fam, c28PBytes(attr, c28PKeyValue("nest", c28PDeepAny(d, false))))))
				raw(fmt.Sprintf("attr-kvlists-%d", d), c28PRequest(fam, c28PItem(fam, c28PBytes(attr, c28PKeyValue("svc", c28PDeepAny(d, true))))))
				raw(fmt.Sprintf("resource-arrays-%d", d), c28PBytes(1, c28PBytes(1, c28PBytes(1, c28PKeyValue("svc", c28PDeepAny(d, false))))))
				if fam == "otlp-logs" {
					raw(fmt.Sprintf("body-kvlists-%d", d), c28PRequest(fam, c28PLogRecord(c28PBytes(5, c28PDeepAny(d, true)))))
				}
			} else {
				arr := strings.Repeat(`{"arrayValue":{"values":[`, d) + `{"stringValue":"x"}` + strings.Repeat(`]}}`, d)
				kvl := strings.Repeat(`{"kvlistValue":{"values":[{"key":"k","value":`, d) + `{"stringValue":"x"}` + strings.Repeat(`}]}}`, d)
				raw(fmt.Sprintf("attr-arrays-%d", d), jsonReq(jsonItem(`,"attributes":[{"key":"nest","value":`+arr+`}]`)))
				raw(fmt.Sprintf("attr-kvlists-%d", d), jsonReq(jsonItem(`,"attributes":[{"key":"svc","value":`+kvl+`}]`)))
				raw(fmt.Sprintf("brackets-%d", d), c28PCat(c28Repeat("[", d), c28Repeat("]", d)))
			}
		}
	case "hugelen":
		if enc == "protobuf" {
			lens := map[string]uint64{"2^32-1": math.MaxUint32, "2^31": 1 << 31, "2^63": 1 << 63, "2^64-1": math.MaxUint64, "65535": 65535}
			for _, name := range []string{"2^32-1", "2^31", "2^63", "2^64-1", "65535"} {
				lv := protowire.AppendVarint(nil, lens[name])
				tag := func(num int) []byte { return protowire.AppendTag(nil, protowire.Number(num), protowire.BytesType) }
				raw("top-len-"+name, c28PCat(tag(1), lv, []byte("xx")))
				raw("resource-len-"+name, c28PBytes(1, c28PCat(tag(1), lv, []byte("xx"))))
				raw("item-len-"+name, c28PBytes(1, c28PBytes(2, c28PCat(tag(2), lv, []byte("xx")))))
				raw("name-len-"+name, c28PRequest(fam, c28PCat(c28PItem(fam), tag(5), lv, []byte("xx"))))
				raw("attr-len-"+name, c28PRequest(fam, c28PCat(c28PItem(fam), tag(attr), lv, []byte("xx"))))
				raw("traceid-len-"+name, c28PRequest(fam, c28PCat(tag(1), lv, []byte("xx"))))
			}
			raw("varint-11-bytes", c28PCat(protowire.AppendTag(nil, 1, protowire.BytesType), bytes.Repeat([]byte{0xff}, 11)))
			raw("tag-11-bytes", bytes.Repeat([]byte{0xff}, 11))
			raw("long-name", c28PRequest(fam, c28PItem(fam, c28PBytes(5, c28Repeat("a", longLen)))))
			if full && thorough {
				many := [][]byte{}
				for i := 0; i < 70000; i++ {
					many = append(many, c28PBytes(attr, c28PKeyValue(fmt.Sprintf("f%d", i), c28PAnyString("v"))))
				}
				raw("many-attributes", c28PRequest(fam, c28PItem(fam, many...)))
			}
		} else {
			raw("long-name", jsonReq(jsonItem(`,"attributes":[{"key":"svc","value":{"stringValue":"`+strings.Repeat("a", longLen)+`"}}]`)))
			raw("long-number", jsonReq(jsonItem(`,"attributes":[{"key":"dur","value":{"intValue":`+strings.Repeat("9", longLen/8)+`}}]`)))
			raw("long-traceid", jsonReq(strings.Replace(jsonItem(""), "c28a0102030405060708090a0b0c0d0", strings.Repeat("ab", longLen/16), 1)))
		}
	case "dupkeys":
		if enc == "protobuf" {
			a := c28PBytes(attr, c28PKeyValue("svc", c28PAnyString("one")))
			b := c28PBytes(attr, c28PKeyValue("svc", c28PVarint(3, 7)))
			raw("dup-attribute", c28PRequest(fam, c28PItem(fam, a, b, a)))
			raw("dup-singular", c28PRequest(fam, c28PItem(fam, c28PBytes(1, c28TraceID(2)), c28PBytes(5, []byte("again")), c28PBytes(1, c28TraceID(1)))))
			raw("dup-resource", c28PBytes(1, c28PCat(c28PBytes(1, c28PBytes(1, c28PKeyValue("service.name", c28PAnyString("a")))), c28PBytes(1, c28PBytes(1, c28PKeyValue("service.name", c28PAnyString("b")))),
				c28PBytes(2, c28PBytes(2, c28PItem(fam))))))
			raw("oneof-twice", c28PRequest(fam, c28PItem(fam, c28PBytes(attr, c28PKeyValue("svc", c28PCat(c28PAnyString("s"), c28PVarint(3, 7), c28PAnyDouble(1.5)))))))
			raw("meta-attributes", c28PRequest(fam, c28PItem(fam, c28PBytes(attr, c28PKeyValue("meta.refinery.probe", c28PVarint(2, 1))), c28PBytes(attr, c28PKeyValue("meta.trace_id", c28PAnyString("c28other"))),
				c28PBytes(attr, c28PKeyValue("meta.signal_type", c28PVarint(3, 9))), c28PBytes(attr, c28PKeyValue("trace.trace_id", c28PAnyString("c28third"))),
				c28PBytes(attr, c28PKeyValue("meta.span_count", c28PAnyString("x"))), c28PBytes(attr, c28PKeyValue("meta.annotation_type", c28PAnyString("link"))))))
		} else {
			raw("dup-attribute", jsonReq(jsonItem(`,"attributes":[{"key":"svc","value":{"stringValue":"a"}},{"key":"svc","value":{"intValue":"3"}}]`)))
			raw("dup-member", jsonReq(jsonItem(`,"name":"again","name":"third"`)))
			raw("oneof-twice", jsonReq(jsonItem(`,"attributes":[{"key":"svc","value":{"stringValue":"a","intValue":"3"}}]`)))
			raw("meta-attributes", jsonReq(jsonItem(`,"attributes":[{"key":"meta.refinery.probe","value":{"boolValue":true}},{"key":"meta.trace_id","value":{"stringValue":"c28other"}},{"key":"meta.signal_type","value":{"intValue":"9"}},{"key":"meta.span_count","value":{"stringValue":"x"}}]`)))
		}
	case "nonstrkeys":
		if enc == "protobuf" {
			// wire-type confusion: the same field numbers with the other wire types
			for _, wt := range []protowire.Type{protowire.VarintType, protowire.Fixed32Type, protowire.Fixed64Type, protowire.StartGroupType, protowire.EndGroupType, 6, 7} {
				frag := func(num int) []byte {
					t := protowire.AppendVarint(nil, uint64(num)<<3|uint64(wt))
					switch wt {
					case protowire.VarintType:
						return protowire.AppendVarint(t, 300)
					case protowire.Fixed32Type:
						return protowire.AppendFixed32(t, 7)
					case protowire.Fixed64Type:
						return protowire.AppendFixed64(t, 7)
					}
					return t
				}
				raw(fmt.Sprintf("top-wiretype%d", wt), frag(1))
				raw(fmt.Sprintf("traceid-wiretype%d", wt), c28PRequest(fam, c28PCat(frag(1), c28PItem(fam))))
				raw(fmt.Sprintf("name-wiretype%d", wt), c28PRequest(fam, c28PCat(c28PItem(fam), frag(5))))
				raw(fmt.Sprintf("attr-wiretype%d", wt), c28PRequest(fam, c28PCat(c28PItem(fam), frag(attr))))
				raw(fmt.Sprintf("attrkey-wiretype%d", wt), c28PRequest(fam, c28PItem(fam, c28PBytes(attr, c28PCat(frag(1), c28PBytes(2, c28PAnyString("v")))))))
				raw(fmt.Sprintf("anyvalue-wiretype%d", wt), c28PRequest(fam, c28PItem(fam, c28PBytes(attr, c28PCat(c28PBytes(1, []byte("svc")), c28PBytes(2, frag(1)))))))
			}
			raw("time-as-bytes", c28PRequest(fam, c28PCat(c28PItem(fam), c28PBytes(7, []byte("12345678")), c28PBytes(8, []byte("1")))))
			raw("group", c28PCat(protowire.AppendTag(nil, 1, protowire.StartGroupType), c28PVarint(2, 1), protowire.AppendTag(nil, 1, protowire.EndGroupType)))
		} else {
			raw("key-number", jsonReq(jsonItem(`,"attributes":[{"key":5,"value":{"stringValue":"a"}}]`)))
			raw("key-null", jsonReq(jsonItem(`,"attributes":[{"key":null,"value":{"stringValue":"a"}}]`)))
			raw("key-object", jsonReq(jsonItem(`,"attributes":[{"key":{},"value":{"stringValue":"a"}}]`)))
			raw("value-scalar", jsonReq(jsonItem(`,"attributes":[{"key":"svc","value":"a"}]`)))
			raw("value-null", jsonReq(jsonItem(`,"attributes":[{"key":"svc","value":null}]`)))
			raw("value-empty", jsonReq(jsonItem(`,"attributes":[{"key":"svc","value":{}}]`)))
			raw("member-number", []byte(`{5:[]}`))
			raw("times-as-numbers", jsonReq(jsonItem(`,"startTimeUnixNano":1704164645000000000,"endTimeUnixNano":1.7e18,"timeUnixNano":5`)))
			raw("ids-as-numbers", jsonReq(strings.Replace(jsonItem(""), `"c28a0102030405060708090a0b0c0d0`, `5,"x":"`, 1)))
		}
	case "badutf8":
		bad := "\xff\xfe\xc3\x28"
		ids := [][]byte{nil, {1}, bytes.Repeat([]byte{7}, 15), bytes.Repeat([]byte{7}, 17), bytes.Repeat([]byte{7}, 32), bytes.Repeat([]byte{0}, 16), bytes.Repeat([]byte{0xff}, 16), bytes.Repeat([]byte{7}, 8)}
		if enc == "protobuf" {
			raw("name", c28PRequest(fam, c28PItem(fam, c28PBytes(5, []byte(bad)))))
			raw("attr-key", c28PRequest(fam, c28PItem(fam, c28PBytes(attr, c28PKeyValue(bad, c28PAnyString("v"))))))
			raw("attr-value", c28PRequest(fam, c28PItem(fam, c28PBytes(attr, c28PKeyValue("svc", c28PAnyString(bad))))))
			raw("resource-value", c28PBytes(1, c28PCat(c28PBytes(1, c28PBytes(1, c28PKeyValue("service.name", c28PAnyString(bad)))), c28PBytes(2, c28PBytes(2, c28PItem(fam))))))
			raw("scope-name", c28PBytes(1, c28PBytes(2, c28PCat(c28PBytes(1, c28PBytes(1, []byte(bad))), c28PBytes(2, c28PItem(fam))))))
			raw("nul-in-key", c28PRequest(fam, c28PItem(fam, c28PBytes(attr, c28PKeyValue("a\x00b", c28PAnyString("a\x00b"))))))
			for i, id := range ids {
				raw(fmt.Sprintf("traceid-len%d-%d", len(id), i), c28PRequest(fam, c28PCat(c28PItem(fam), c28PBytes(1, id))))
				raw(fmt.Sprintf("spanid-len%d-%d", len(id), i), c28PRequest(fam, c28PCat(c28PItem(fam), c28PBytes(2, id))))
				if fam == "otlp-traces" {
					raw(fmt.Sprintf("parentid-len%d-%d", len(id), i), c28PRequest(fam, c28PCat(c28PItem(fam), c28PBytes(4, id))))
					raw(fmt.Sprintf("link-traceid-len%d-%d", len(id), i), c28PRequest(fam, c28PCat(c28PItem(fam), c28PBytes(13, c28PCat(c28PBytes(1, id), c28PBytes(2, id))))))
				} else {
					raw(fmt.Sprintf("log-traceid-len%d-%d", len(id), i), c28PRequest(fam, c28PCat(c28PLogRecord(), c28PBytes(9, id), c28PBytes(10, id))))
				}
			}
		} else {
			raw("attr-value", jsonReq(jsonItem(`,"attributes":[{"key":"svc","value":{"stringValue":"`+bad+`"}}]`)))
			raw("attr-key", jsonReq(jsonItem(`,"attributes":[{"key":"`+bad+`","value":{"stringValue":"v"}}]`)))
			raw("lone-surrogate", jsonReq(jsonItem(`,"attributes":[{"key":"svc","value":{"stringValue":"\ud800"}}]`)))
			raw("bytes-not-base64", jsonReq(jsonItem(`,"attributes":[{"key":"blob","value":{"bytesValue":"***"}}]`)))
			for i, id := range []string{"", "zz", "c28", strings.Repeat("ab", 15), strings.Repeat("ab", 17), strings.Repeat("0", 32), "AQIDBAUGBwgJCgsMDQ4PEA==", "not hex at all!!"} {
				raw(fmt.Sprintf("traceid-%d", i), jsonReq(strings.Replace(jsonItem(""), "c28a0102030405060708090a0b0c0d01", id, 1)))
				raw(fmt.Sprintf("spanid-%d", i), jsonReq(strings.Replace(jsonItem(`,"parentSpanId":"`+id+`"`), "c28b000000000001", id, 1)))
			}
		}
	case "naninf":
		if enc == "protobuf" {
			for _, kv := range []c28KV{{"nan", math.NaN()}, {"inf", math.Inf(1)}, {"neginf", math.Inf(-1)}, {"negzero", math.Copysign(0, -1)}, {"max", math.MaxFloat64}} {
				raw("double-"+kv.K.(string), c28PRequest(fam, c28PItem(fam, c28PBytes(attr, c28PKeyValue("dur", c28PAnyDouble(kv.V.(float64)))))))
			}
			for _, kv := range []c28KV{{"i64min", uint64(1 << 63)}, {"minus1", uint64(math.MaxUint64)}, {"i64max", uint64(math.MaxInt64)}} {
				raw("int-"+kv.K.(string), c28PRequest(fam, c28PItem(fam, c28PBytes(attr, c28PKeyValue("dur", c28PVarint(3, kv.V.(uint64)))))))
				raw("sampleRate-"+kv.K.(string), c28PRequest(fam, c28PItem(fam, c28PBytes(attr, c28PKeyValue("sampleRate", c28PVarint(3, kv.V.(uint64)))))))
			}
			for _, kv := range []c28KV{{"nan", math.NaN()}, {"neg", -5.0}, {"huge", 1e300}, {"zero", 0.0}} {
				raw("sampleRate-double-"+kv.K.(string), c28PRequest(fam, c28PItem(fam, c28PBytes(attr, c28PKeyValue("sampleRate", c28PAnyDouble(kv.V.(float64)))))))
			}
			raw("sampleRate-string", c28PRequest(fam, c28PItem(fam, c28PBytes(attr, c28PKeyValue("sampleRate", c28PAnyString("NaN"))))))
			for _, kv := range []c28KV{{"zero", uint64(0)}, {"max", uint64(math.MaxUint64)}, {"i64max+1", uint64(1 << 63)}} {
				t := kv.V.(uint64)
				if fam == "otlp-traces" {
					raw("times-"+kv.K.(string), c28PRequest(fam, c28PCat(c28PItem(fam), c28PFixed64(7, t), c28PFixed64(8, t))))
					raw("end-before-start-"+kv.K.(string), c28PRequest(fam, c28PCat(c28PItem(fam), c28PFixed64(7, math.MaxUint64), c28PFixed64(8, t))))
					raw("event-time-"+kv.K.(string), c28PRequest(fam, c28PItem(fam, c28PBytes(11, c28PCat(c28PFixed64(1, t), c28PBytes(2, []byte("ev")))))))
				} else {
					raw("times-"+kv.K.(string), c28PRequest(fam, c28PCat(c28PItem(fam), c28PFixed64(1, t), c28PFixed64(11, t))))
				}
			}
		} else {
			for i, v := range []string{`{"doubleValue":"NaN"}`, `{"doubleValue":"Infinity"}`, `{"doubleValue":"-Infinity"}`, `{"doubleValue":NaN}`, `{"doubleValue":1e999}`, `{"doubleValue":"1e999"}`,
				`{"intValue":"9223372036854775808"}`, `{"intValue":"-9223372036854775809"}`, `{"intValue":1.5}`, `{"intValue":"1e3"}`, `{"intValue":"abc"}`, `{"boolValue":"true"}`, `{"doubleValue":-0.0}`} {
				raw(fmt.Sprintf("attr%d", i), jsonReq(jsonItem(`,"attributes":[{"key":"dur","value":`+v+`},{"key":"sampleRate","value":`+v+`}]`)))
			}
			for i, v := range []string{`"0"`, `"18446744073709551615"`, `"18446744073709551616"`, `"-1"`, `"abc"`, `1e30`, `null`} {
				raw(fmt.Sprintf("times%d", i), jsonReq(jsonItem(`,"startTimeUnixNano":`+v+`,"endTimeUnixNano":`+v+`,"timeUnixNano":`+v)))
			}
		}
	case "exttypes":
		if enc == "protobuf" {
			for _, num := range []int{0, 1000, 19000, 1<<29 - 1, 1 << 29} {
				t := protowire.AppendVarint(nil, uint64(num)<<3|uint64(protowire.BytesType))
				raw(fmt.Sprintf("unknown-field-%d-top", num), c28PCat(c28OTLPValid(fam, "protobuf"), t, []byte{2, 'x', 'y'}))
				raw(fmt.Sprintf("unknown-field-%d-item", num), c28PRequest(fam, c28PCat(c28PItem(fam), t, []byte{2, 'x', 'y'})))
				raw(fmt.Sprintf("unknown-field-%d-anyvalue", num), c28PRequest(fam, c28PItem(fam, c28PBytes(attr, c28PKeyValue("svc", c28PCat(t, []byte{2, 'x', 'y'}))))))
			}
			raw("empty-anyvalue", c28PRequest(fam, c28PItem(fam, c28PBytes(attr, c28PKeyValue("svc", nil)))))
			raw("attribute-without-value", c28PRequest(fam, c28PItem(fam, c28PBytes(attr, c28PBytes(1, []byte("svc"))))))
			raw("attribute-without-key", c28PRequest(fam, c28PItem(fam, c28PBytes(attr, c28PBytes(2, c28PAnyString("v"))))))
			raw("empty-attribute", c28PRequest(fam, c28PItem(fam, c28PBytes(attr, nil))))
			raw("empty-array-and-kvlist", c28PRequest(fam, c28PItem(fam, c28PBytes(attr, c28PKeyValue("tags", c28PBytes(5, nil))), c28PBytes(attr, c28PKeyValue("nest", c28PBytes(6, nil))),
				c28PBytes(attr, c28PKeyValue("svc", c28PBytes(5, c28PBytes(1, nil)))))))
			raw("empty-item", c28PRequest(fam, nil))
			raw("empty-scope", c28PBytes(1, c28PBytes(2, nil)))
			if fam == "otlp-traces" {
				raw("enum-out-of-range", c28PRequest(fam, c28PItem(fam, c28PVarint(6, 99), c28PBytes(15, c28PCat(c28PVarint(3, 99), c28PBytes(2, []byte("m")))), c28PVarint(16, math.MaxUint32), c28PVarint(10, math.MaxUint32))))
				raw("enum-negative", c28PRequest(fam, c28PItem(fam, c28PVarint(6, math.MaxUint64), c28PBytes(15, c28PVarint(3, math.MaxUint64)))))
				raw("empty-event-and-link", c28PRequest(fam, c28PItem(fam, c28PBytes(11, nil), c28PBytes(13, nil), c28PBytes(15, nil))))
				raw("trace-state", c28PRequest(fam, c28PItem(fam, c28PBytes(3, []byte("k=v,,=,\xff")))))
			} else {
				raw("enum-out-of-range", c28PRequest(fam, c28PItem(fam, c28PVarint(2, 99), c28PBytes(3, []byte("LOUD")), c28PVarint(8, math.MaxUint32), c28PVarint(7, math.MaxUint32))))
				raw("enum-negative", c28PRequest(fam, c28PItem(fam, c28PVarint(2, math.MaxUint64))))
				raw("no-body", c28PRequest(fam, c28PFixed64(1, 5)))
				raw("body-each-kind", c28PRequest(fam, c28PCat(c28PLogRecord(c28PBytes(5, c28PVarint(2, 1))), c28PBytes(5, c28PAnyDouble(1.5)), c28PBytes(5, c28PBytes(7, []byte("blob"))), c28PBytes(5, c28PBytes(5, nil)))))
			}
		} else {
			raw("unknown-members", jsonReq(jsonItem(`,"c28unknown":{"a":[1,2]},"attributes":[{"key":"svc","value":{"c28Value":"x"}}]`)))
			raw("enum-strings", jsonReq(jsonItem(`,"kind":"SPAN_KIND_BOGUS","severityNumber":"SEVERITY_NUMBER_BOGUS","status":{"code":"STATUS_CODE_BOGUS"}`)))
			raw("enum-numbers", jsonReq(jsonItem(`,"kind":99,"severityNumber":99,"status":{"code":99},"flags":4294967295,"droppedAttributesCount":4294967296`)))
			raw("snake-case", jsonReq(jsonItem(`,"start_time_unix_nano":"5","parent_span_id":"c28b000000000001","severity_text":"x"`)))
			raw("empty-values", jsonReq(jsonItem(`,"attributes":[{},{"key":"svc"},{"value":{"stringValue":"v"}},{"key":"tags","value":{"arrayValue":{}}},{"key":"nest","value":{"kvlistValue":{}}}],"events":[{}],"links":[{}],"status":{}`)))
			raw("trailing-garbage", append(jsonReq(jsonItem("")), []byte("c28")...))
			raw("two-documents", append(jsonReq(jsonItem("")), jsonReq(jsonItem(""))...))
		}
	}
}

// c28GRPCFrame puts a message into a gRPC length-prefixed frame.
func c28GRPCFrame(flag byte, msg []byte) []byte {
	b := make([]byte, 5, 5+len(msg))
	b[0] = flag
	binary.BigEndian.PutUint32(b[1:], uint32(len(msg)))
	return append(b, msg...)
}
