//go:build verif

package route

// Binding of spec/IdentityLive.tla (property C21 on a live, hot-reloaded node)
// to real Routers.
//
// One walk = one process life: Reset writes config.yaml + rules.yaml for the
// initial ID-field configuration, loads them with config.NewConfig (the real
// file-backed configuration object) and builds the node's two routers
// (incoming and peer, Router.LnS) around that ONE object, the way app wiring
// does. The routers live until the next Reset.
//
//	Reload{tn, pn, keysSet}  rewrites the file(s) that change and calls
//	                         Config.Reload() on the object the routers hold.
//	Send{path, evSet}        delivers one event through the named ingest path
//	                         into the router's own mux (+ middleware) or gRPC
//	                         server and reports what the router made of it.
//	Ack                      the observation has been noted (requests are
//	                         served one at a time; nothing is outstanding).
//
// Observation (Project): the ID-field lists and the destination's sampler key
// fields are read back from the configuration object; the classification is
// what the router's neighbours saw - a stub collector (AddSpan /
// AddSpanFromPeer: Span.TraceID, Span.IsRoot) or the upstream transmission
// (EnqueueEvent: the event was not part of a trace). The trace ID is reported
// as the NAME of the field whose value it is (every field has its own value).

import (
	"bytes"
	"context"
	"encoding/hex"
	"encoding/json"
	"fmt"
	"net"
	"net/http"
	"net/http/httptest"
	"os"
	"path/filepath"
	"sort"
	"strings"
	"sync"
	"testing"
	"time"

	"github.com/honeycombio/refinery/config"
	"github.com/honeycombio/refinery/internal/health"
	"github.com/honeycombio/refinery/internal/verifkit"
	"github.com/honeycombio/refinery/logger"
	"github.com/honeycombio/refinery/metrics"
	"github.com/honeycombio/refinery/sharder"
	"github.com/honeycombio/refinery/types"
	"github.com/vmihailenco/msgpack/v5"
	"go.opentelemetry.io/otel/trace/noop"
	collectorlogs "go.opentelemetry.io/proto/otlp/collector/logs/v1"
	collectortrace "go.opentelemetry.io/proto/otlp/collector/trace/v1"
	common "go.opentelemetry.io/proto/otlp/common/v1"
	logs "go.opentelemetry.io/proto/otlp/logs/v1"
	resource "go.opentelemetry.io/proto/otlp/resource/v1"
	trace "go.opentelemetry.io/proto/otlp/trace/v1"
	"google.golang.org/grpc"
	"google.golang.org/grpc/codes"
	"google.golang.org/grpc/credentials/insecure"
	"google.golang.org/grpc/metadata"
	"google.golang.org/grpc/status"
	"google.golang.org/protobuf/encoding/protojson"
	"google.golang.org/protobuf/proto"
)

const (
	c21LiveKey     = "c21-live-ingest-key" // an Environments & Services key: the sampler key is the environment
	c21LiveEnv     = "c21env"
	c21LiveDataset = "c21ds"
	c21LiveSvc     = "c21.svc" // the ordinary key field of the destination's sampler
	c21LiveTimeout = 60 * time.Second

	c21T1 = "trace.trace_id"
	c21T2 = "traceId"
	c21P1 = "trace.parent_id"
	c21P2 = "parentId"
)

var (
	c21LiveTraceBytes  = []byte{0xc2, 0x10, 1, 2, 3, 4, 5, 6, 7, 8, 9, 10, 11, 12, 13, 14}
	c21LiveParentBytes = []byte{0xc2, 0x1a, 9, 8, 7, 6, 5, 4}
	c21LiveSpanBytes   = []byte{0xc2, 0x15, 1, 1, 1, 1, 1, 1}
	// the value each ID field holds when present (OTLP renders its IDs in hex, so
	// the same values are used on every path)
	c21LiveValue = map[string]string{
		c21T1: hex.EncodeToString(c21LiveTraceBytes),
		c21T2: "c21-value-of-traceId",
		c21P1: hex.EncodeToString(c21LiveParentBytes),
		c21P2: "c21-value-of-parentId",
	}
)

// --- the router's neighbours ---------------------------------------------------

type c21LiveSeen struct {
	Where string // "collector" | "collector-peer" | "upstream" | "peer"
	Tid   string
	Root  bool
}

type c21LiveSink struct {
	mu   sync.Mutex
	seen []c21LiveSeen
}

func (s *c21LiveSink) add(x c21LiveSeen) {
	s.mu.Lock()
	s.seen = append(s.seen, x)
	s.mu.Unlock()
}

func (s *c21LiveSink) take() []c21LiveSeen {
	s.mu.Lock()
	defer s.mu.Unlock()
	out := s.seen
	s.seen = nil
	return out
}

type c21LiveCollector struct{ sink *c21LiveSink }

func (c *c21LiveCollector) AddSpan(sp *types.Span) error {
	c.sink.add(c21LiveSeen{Where: "collector", Tid: sp.TraceID, Root: sp.IsRoot})
	return nil
}
func (c *c21LiveCollector) AddSpanFromPeer(sp *types.Span) error {
	c.sink.add(c21LiveSeen{Where: "collector-peer", Tid: sp.TraceID, Root: sp.IsRoot})
	return nil
}
func (c *c21LiveCollector) Stressed() bool { return false }
func (c *c21LiveCollector) GetStressedSampleRate(string) (uint, bool, string) {
	return 1, false, ""
}
func (c *c21LiveCollector) ProcessSpanImmediately(*types.Span) (bool, bool) { return false, false }

type c21LiveTransmission struct {
	sink  *c21LiveSink
	where string
}

func (t *c21LiveTransmission) EnqueueEvent(ev *types.Event) {
	t.sink.add(c21LiveSeen{Where: t.where, Tid: ev.Data.MetaTraceID})
}
func (t *c21LiveTransmission) EnqueueSpan(sp *types.Span) {
	t.sink.add(c21LiveSeen{Where: t.where + "-span", Tid: sp.TraceID, Root: sp.IsRoot})
}
func (t *c21LiveTransmission) RegisterMetrics() {}

// --- configuration files ---------------------------------------------------------

func c21LiveList(names []string) string {
	q := make([]string, len(names))
	for i, n := range names {
		q[i] = fmt.Sprintf("%q", n)
	}
	return "[" + strings.Join(q, ", ") + "]"
}

func c21LiveConfigYAML(tn, pn []string) string {
	return "General:\n  ConfigurationVersion: 2\n" +
		"Network:\n  ListenAddr: 127.0.0.1:0\n  PeerListenAddr: 127.0.0.1:0\n  HoneycombAPI: http://127.0.0.1:9\n" +
		"GRPCServerParameters:\n  Enabled: true\n  ListenAddr: 127.0.0.1:0\n" +
		"IDFields:\n  TraceNames: " + c21LiveList(tn) + "\n  ParentNames: " + c21LiveList(pn) + "\n"
}

// the destination's sampler uses an ordinary field and, per keys, some of the ID
// fields themselves as key fields
func c21LiveRulesYAML(keys []string) string {
	s := "RulesVersion: 2\nSamplers:\n  __default__:\n    DynamicSampler:\n      SampleRate: 1\n      ClearFrequency: 1000h\n      FieldList:\n        - " + c21LiveSvc + "\n"
	for _, k := range keys {
		s += fmt.Sprintf("        - %q\n", k)
	}
	return s
}

// --- the node ----------------------------------------------------------------------

type c21LiveHarness struct {
	root   string
	nreset int
	dir    string

	cfg      config.Config
	sink     *c21LiveSink
	incoming *Router
	peer     *Router
	grpcConn *grpc.ClientConn
	stop     func()

	tn, pn, keys []string // what the files on disk say
	out          map[string]any
}

func c21LiveNoOut() map[string]any { return map[string]any{"tid": "-", "root": "-"} }

func (h *c21LiveHarness) newRouter(rt types.RouterType) (*Router, error) {
	mm := &metrics.MockMetrics{}
	mm.Start()
	hr := &health.MockHealthReporter{}
	hr.SetAlive(true)
	hr.SetReady(true)
	r := &Router{
		Config:               h.cfg,
		Logger:               &logger.NullLogger{},
		Health:               hr,
		HTTPTransport:        &http.Transport{},
		UpstreamTransmission: &c21LiveTransmission{sink: h.sink, where: "upstream"},
		PeerTransmission:     &c21LiveTransmission{sink: h.sink, where: "peer"},
		Sharder:              &sharder.MockSharder{Self: &sharder.TestShard{Addr: "http://c21-self:8081"}}, // every trace is this node's
		Collector:            &c21LiveCollector{sink: h.sink},
		Metrics:              mm,
		Tracer:               noop.Tracer{},
	}
	r.SetVersion("c21")
	r.SetType(rt)
	r.LnS()
	if r.server == nil {
		return nil, fmt.Errorf("Router.LnS did not build its HTTP server")
	}
	// stands for Honeycomb's /1/auth
	r.SetEnvironmentCache(time.Hour, func(key string) (string, error) {
		if key == c21LiveKey {
			return c21LiveEnv, nil
		}
		return "", fmt.Errorf("unknown key %q", key)
	})
	return r, nil
}

func (h *c21LiveHarness) writeFiles(main, rules bool) error {
	if main {
		if err := os.WriteFile(filepath.Join(h.dir, "config.yaml"), []byte(c21LiveConfigYAML(h.tn, h.pn)), 0o600); err != nil {
			return err
		}
	}
	if rules {
		if err := os.WriteFile(filepath.Join(h.dir, "rules.yaml"), []byte(c21LiveRulesYAML(h.keys)), 0o600); err != nil {
			return err
		}
	}
	return nil
}

func (h *c21LiveHarness) Reset(init map[string]any) error {
	if h.stop != nil {
		h.stop()
		h.stop = nil
	}
	// the initial state is cfg = 1, rv = 1 of the specification; its content is
	// the projection the walker compares right after Reset
	ci, ri := verifkit.Int(init, "cfg"), verifkit.Int(init, "rv")
	if ci != 1 || ri != 1 {
		return fmt.Errorf("c21live: initial state with cfg=%d rv=%d", ci, ri)
	}
	h.tn, h.pn, h.keys = []string{c21T1}, []string{c21P1}, nil
	h.nreset++
	h.dir = filepath.Join(h.root, fmt.Sprintf("r%d", h.nreset))
	if err := os.MkdirAll(h.dir, 0o700); err != nil {
		return err
	}
	if err := h.writeFiles(true, true); err != nil {
		return err
	}
	cfg, err := config.NewConfig(&config.CmdEnv{ConfigLocations: []string{filepath.Join(h.dir, "config.yaml")}, RulesLocations: []string{filepath.Join(h.dir, "rules.yaml")}})
	if err != nil || cfg == nil {
		return fmt.Errorf("c21live: the loader refused the generated configuration (%v):\n%s\n%s", err, c21LiveConfigYAML(h.tn, h.pn), c21LiveRulesYAML(h.keys))
	}
	h.cfg = cfg
	h.sink = &c21LiveSink{}
	if h.incoming, err = h.newRouter(types.RouterTypeIncoming); err != nil {
		return err
	}
	if h.peer, err = h.newRouter(types.RouterTypePeer); err != nil {
		return err
	}
	if h.incoming.grpcServer == nil {
		return fmt.Errorf("c21live: Router.LnS did not build its gRPC server")
	}
	// the incoming router's own gRPC server, also on a listener whose address we know
	lis, err := net.Listen("tcp", "127.0.0.1:0")
	if err != nil {
		return err
	}
	go h.incoming.grpcServer.Serve(lis)
	h.grpcConn, err = grpc.NewClient(lis.Addr().String(), grpc.WithTransportCredentials(insecure.NewCredentials()))
	if err != nil {
		return err
	}
	inc, peer, conn := h.incoming, h.peer, h.grpcConn
	h.stop = func() {
		conn.Close()
		inc.Stop()
		peer.Stop()
	}
	h.out = c21LiveNoOut()
	return nil
}

// --- Reload ------------------------------------------------------------------------

func c21LiveStrings(v any) []string {
	out := []string{}
	if l, ok := v.([]any); ok {
		for _, x := range l {
			s, _ := x.(string)
			out = append(out, s)
		}
	}
	return out
}

func c21LiveSame(a, b []string) bool {
	if len(a) != len(b) {
		return false
	}
	for i := range a {
		if a[i] != b[i] {
			return false
		}
	}
	return true
}

func (h *c21LiveHarness) reload(a map[string]any) error {
	tn, pn, keys := c21LiveStrings(a["tn"]), c21LiveStrings(a["pn"]), c21LiveStrings(a["keysSet"])
	sort.Strings(keys)
	main := !c21LiveSame(tn, h.tn) || !c21LiveSame(pn, h.pn)
	rules := !c21LiveSame(keys, h.keys)
	if !main && !rules {
		return fmt.Errorf("c21live: Reload that changes nothing: %v", a)
	}
	h.tn, h.pn, h.keys = tn, pn, keys
	// only the file whose content changes is rewritten: a main-only reload leaves
	// rules.yaml byte-identical (and the other way round)
	if err := h.writeFiles(main, rules); err != nil {
		return err
	}
	if err := h.cfg.Reload(); err != nil {
		// warnings only: the configuration has been applied all the same
		if w, ok := err.(interface{ HasErrors() bool }); !ok || w.HasErrors() {
			return fmt.Errorf("c21live: Reload refused the generated files: %v", err)
		}
	}
	return nil
}

// --- Send ----------------------------------------------------------------------------

// the event as a field map, for the Honeycomb-format endpoints
func c21LiveData(ev map[string]bool) map[string]any {
	d := map[string]any{c21LiveSvc: "c21-service", "name": "c21 live", "duration_ms": 12}
	for f := range ev {
		d[f] = c21LiveValue[f]
	}
	return d
}

func c21LiveStr(k, v string) *common.KeyValue {
	return &common.KeyValue{Key: k, Value: &common.AnyValue{Value: &common.AnyValue_StringValue{StringValue: v}}}
}

func c21LiveResource() *resource.Resource {
	return &resource.Resource{Attributes: []*common.KeyValue{c21LiveStr("service.name", c21LiveDataset)}}
}

// fields that OTLP carries in the record itself (T1 = trace ID, P1 = parent span
// ID); T2 / P2 travel as string attributes
func c21LiveAttrs(ev map[string]bool) []*common.KeyValue {
	at := []*common.KeyValue{c21LiveStr(c21LiveSvc, "c21-service")}
	for _, f := range []string{c21T2, c21P2} {
		if ev[f] {
			at = append(at, c21LiveStr(f, c21LiveValue[f]))
		}
	}
	return at
}

func c21LiveTraceReq(ev map[string]bool) (*collectortrace.ExportTraceServiceRequest, error) {
	if !ev[c21T1] {
		return nil, fmt.Errorf("c21live: an OTLP span always has a trace ID: %v", ev)
	}
	sp := &trace.Span{TraceId: c21LiveTraceBytes, SpanId: c21LiveSpanBytes, Name: "c21 live",
		StartTimeUnixNano: 1700000000000000000, EndTimeUnixNano: 1700000001000000000, Attributes: c21LiveAttrs(ev)}
	if ev[c21P1] {
		sp.ParentSpanId = c21LiveParentBytes
	}
	return &collectortrace.ExportTraceServiceRequest{ResourceSpans: []*trace.ResourceSpans{{Resource: c21LiveResource(), ScopeSpans: []*trace.ScopeSpans{{Spans: []*trace.Span{sp}}}}}}, nil
}

func c21LiveLogsReq(ev map[string]bool) *collectorlogs.ExportLogsServiceRequest {
	rec := &logs.LogRecord{TimeUnixNano: 1700000000000000000,
		Body: &common.AnyValue{Value: &common.AnyValue_StringValue{StringValue: "c21 live"}}, Attributes: c21LiveAttrs(ev)}
	if ev[c21T1] {
		rec.TraceId = c21LiveTraceBytes
	}
	if ev[c21P1] { // husky: a log record's span ID becomes trace.parent_id
		rec.SpanId = c21LiveParentBytes
	}
	return &collectorlogs.ExportLogsServiceRequest{ResourceLogs: []*logs.ResourceLogs{{Resource: c21LiveResource(), ScopeLogs: []*logs.ScopeLogs{{LogRecords: []*logs.LogRecord{rec}}}}}}
}

// post runs one request through the router's own mux and middleware.
func c21LivePost(r *Router, path, ctype string, hdr map[string]string, body []byte) (int, string) {
	req := httptest.NewRequest("POST", path, bytes.NewReader(body))
	req.Header.Set("Content-Type", ctype)
	req.Header.Set("X-Honeycomb-Team", c21LiveKey)
	for k, v := range hdr {
		req.Header.Set(k, v)
	}
	w := httptest.NewRecorder()
	r.server.Handler.ServeHTTP(w, req)
	return w.Code, w.Body.String()
}

func c21LiveBatchOK(body string) error {
	var resp []struct {
		Status int    `json:"status"`
		Error  string `json:"error"`
	}
	if err := json.Unmarshal([]byte(body), &resp); err != nil {
		return fmt.Errorf("batch response %q: %v", body, err)
	}
	if len(resp) != 1 || resp[0].Status != http.StatusAccepted {
		return fmt.Errorf("batch response %q", body)
	}
	return nil
}

// deliver sends the event through the path; a refusal by the router is part of
// the observation (the specification has no refusing successor), anything
// wrong with the harness itself is an error.
func (h *c21LiveHarness) deliver(path string, ev map[string]bool) (refused string, err error) {
	data := c21LiveData(ev)
	batchDoc := func(ts any) []map[string]any {
		return []map[string]any{{"time": ts, "samplerate": 1, "data": data}}
	}
	when := time.Date(2024, 1, 2, 3, 4, 5, 0, time.UTC)
	var code int
	var body string
	switch path {
	case "event-json":
		b, _ := json.Marshal(data)
		code, body = c21LivePost(h.incoming, "/1/events/"+c21LiveDataset, "application/json", nil, b)
	case "event-msgp":
		b, e := msgpack.Marshal(data)
		if e != nil {
			return "", e
		}
		code, body = c21LivePost(h.incoming, "/1/events/"+c21LiveDataset, "application/msgpack", nil, b)
	case "batch-json", "peer-batch-json":
		b, _ := json.Marshal(batchDoc(when.Format(time.RFC3339)))
		r := h.incoming
		if path == "peer-batch-json" {
			r = h.peer
		}
		code, body = c21LivePost(r, "/1/batch/"+c21LiveDataset, "application/json", nil, b)
		if code == http.StatusOK {
			if e := c21LiveBatchOK(body); e != nil {
				return e.Error(), nil
			}
		}
	case "batch-msgp", "peer-batch":
		b, e := msgpack.Marshal(batchDoc(when))
		if e != nil {
			return "", e
		}
		r := h.incoming
		if path == "peer-batch" {
			r = h.peer
		}
		code, body = c21LivePost(r, "/1/batch/"+c21LiveDataset, "application/msgpack", nil, b)
		if code == http.StatusOK {
			if e := c21LiveBatchOK(body); e != nil {
				return e.Error(), nil
			}
		}
	case "otlp-http", "otlp-httpjson":
		q, e := c21LiveTraceReq(ev)
		if e != nil {
			return "", e
		}
		var b []byte
		ctype := "application/protobuf"
		if path == "otlp-httpjson" {
			b, e = protojson.Marshal(q)
			ctype = "application/json"
		} else {
			b, e = proto.Marshal(q)
		}
		if e != nil {
			return "", e
		}
		code, body = c21LivePost(h.incoming, "/v1/traces", ctype, nil, b)
	case "otlp-logs":
		b, e := proto.Marshal(c21LiveLogsReq(ev))
		if e != nil {
			return "", e
		}
		code, body = c21LivePost(h.incoming, "/v1/logs", "application/protobuf", nil, b)
	case "otlp-grpc":
		q, e := c21LiveTraceReq(ev)
		if e != nil {
			return "", e
		}
		ctx, cancel := context.WithTimeout(context.Background(), c21LiveTimeout)
		defer cancel()
		ctx = metadata.NewOutgoingContext(ctx, metadata.New(map[string]string{"x-honeycomb-team": c21LiveKey}))
		if _, e := collectortrace.NewTraceServiceClient(h.grpcConn).Export(ctx, q); e != nil {
			if c := status.Code(e); c == codes.DeadlineExceeded || c == codes.Unavailable || c == codes.Canceled {
				return "", fmt.Errorf("c21live: gRPC transport: %w", e) // the loopback connection, not the router
			}
			return "grpc: " + e.Error(), nil
		}
		return "", nil
	default:
		return "", fmt.Errorf("c21live: unknown path %q", path)
	}
	if code != http.StatusOK {
		return fmt.Sprintf("http %d %s", code, body), nil
	}
	return "", nil
}

func (h *c21LiveHarness) send(a map[string]any) error {
	path := verifkit.Str(a, "path")
	ev := map[string]bool{}
	for _, f := range c21LiveStrings(a["evSet"]) {
		if _, ok := c21LiveValue[f]; !ok {
			return fmt.Errorf("c21live: unknown field %q", f)
		}
		ev[f] = true
	}
	h.sink.take()
	refused, err := h.deliver(path, ev)
	if err != nil {
		return err
	}
	seen := h.sink.take()
	if refused != "" {
		h.out = map[string]any{"tid": "refused: " + refused, "root": "-"}
		return nil
	}
	if len(seen) != 1 {
		h.out = map[string]any{"tid": fmt.Sprintf("handed on %d times: %+v", len(seen), seen), "root": "-"}
		return nil
	}
	s := seen[0]
	wantCollector := "collector"
	if strings.HasPrefix(path, "peer-") {
		wantCollector = "collector-peer"
	}
	switch {
	case s.Where == "upstream" && s.Tid == "":
		// not part of a trace: passed upstream unsampled, the root flag is never looked at
		h.out = map[string]any{"tid": "", "root": "n/a"}
	case s.Where == wantCollector && s.Tid != "":
		name := "value of no ID field: " + s.Tid
		for f, v := range c21LiveValue {
			if v == s.Tid {
				name = f
			}
		}
		root := "no"
		if s.Root {
			root = "yes"
		}
		h.out = map[string]any{"tid": name, "root": root}
	default:
		h.out = map[string]any{"tid": fmt.Sprintf("handed to %s with trace ID %q", s.Where, s.Tid), "root": "-"}
	}
	return nil
}

func (h *c21LiveHarness) Apply(a map[string]any) (err error) {
	defer func() {
		if r := recover(); r != nil {
			h.out = map[string]any{"tid": "-", "root": "-", "panic": fmt.Sprint(r)}
			err = nil
		}
	}()
	switch verifkit.Str(a, "name") {
	case "Send":
		return h.send(a)
	case "Reload":
		return h.reload(a)
	case "Ack": // the answer has been delivered and noted; nothing is outstanding
		if extra := h.sink.take(); len(extra) != 0 {
			h.out = map[string]any{"tid": fmt.Sprintf("handed on after the request was answered: %+v", extra), "root": "-"}
			return nil
		}
		h.out = c21LiveNoOut()
		return nil
	}
	return fmt.Errorf("c21live: unknown action %v", a)
}

func (h *c21LiveHarness) Project() (any, error) {
	idFields := map[string]bool{c21T1: true, c21T2: true, c21P1: true, c21P2: true}
	keys := []any{}
	for _, f := range h.cfg.GetSamplingKeyFieldsForDestName(h.cfg.DetermineSamplerKey(c21LiveKey, c21LiveEnv, c21LiveDataset)) {
		if idFields[f] {
			keys = append(keys, f)
		}
	}
	return map[string]any{
		"tn":      append([]string{}, h.cfg.GetTraceIdFieldNames()...),
		"pn":      append([]string{}, h.cfg.GetParentIdFieldNames()...),
		"keysSet": keys,
		"out":     h.out,
	}, nil
}

func TestVerifC21Live(t *testing.T) {
	h := &c21LiveHarness{root: t.TempDir()}
	err := verifkit.Main(h)
	if h.stop != nil {
		h.stop()
	}
	if err != nil {
		t.Fatal(err)
	}
}
