SPECIFICATION Spec
CONSTANTS
  Families = {"wire", "frac", "mix2"}
  Big = FALSE
  Faithful = TRUE
INVARIANTS TypeOK CarriesSame RefIsEncoding ViewDiffLocal DevOnlyWhereViewsDiffer DeviationsConfined DecoderFacts
CHECK_DEADLOCK FALSE
ACTION_CONSTRAINT Dump
VIEW View
