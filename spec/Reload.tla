------------------------------- MODULE Reload -------------------------------
(***************************************************************************)
(* config.fileConfig.Reload and its triggers (property C27).               *)
(*                                                                         *)
(* Files.  The config file and the rules file have abstract contents:      *)
(*   "A" "B"  valid, no warnings, different settings                       *)
(*   "Bw"     valid; carries a key that is deprecated but still only       *)
(*            warns at the running version (startup accepts, with warning) *)
(*   "Br"     carries a key that has been removed as of the running        *)
(*            version and has no deprecation text: startup rejects it; a   *)
(*            validation that does not know the running version is silent  *)
(*   "Brw"    the same with a deprecation text: startup rejects it; a      *)
(*            version-less validation only warns                           *)
(*   "X"      invalid (unknown key, bad type, broken syntax)               *)
(*   "U"      unreadable (file missing)                                    *)
(* Rules files have no warning class in the code (rulesMeta carries no     *)
(* deprecations), so rules contents are "A" "B" "X" "U".                   *)
(* The acceptance oracle is STARTUP: config.NewConfig(opts, version) on    *)
(* the same pair of files returns a non-nil config  <=>  StartupAccepts.   *)
(*                                                                         *)
(* A reload is the step sequence of file_config.go Reload:                 *)
(*   Start -> ReadC -> ReadR -> Validate -> Compare -> Apply               *)
(*         -> BeginCallbacks -> Callback(l)* -> Return                     *)
(* one action per system call / critical section.  Two modes:              *)
(*   Atomic = TRUE   a whole Reload() call is one action `Reload`          *)
(*                   (sequential histories; this is the graph the Go       *)
(*                   walker replays on a real fileConfig over temp files)  *)
(*   Atomic = FALSE  the steps of the reloaders in Procs (the timer        *)
(*                   goroutine of configwatcher.monitor and the pubsub     *)
(*                   goroutine of SubscriptionListener) interleave with    *)
(*                   each other, with file writes and with                 *)
(*                   RegisterReloadCallback.                               *)
(*                   Exclusive = TRUE restricts the schedule to one        *)
(*                   reloader at a time with a quiet environment and       *)
(*                   checks that the steps compose to exactly the atomic   *)
(*                   outcome (SeqEquivalent) - the link between the two    *)
(*                   modes.                                                *)
(*                                                                         *)
(* Switches for known departures of the code from the ideal design:        *)
(*   Faithful   TRUE: validation as in the code - without the running      *)
(*              version ("Br" passes silently, "Brw" only warns) and a     *)
(*              warning makes Reload return before the hash compare.       *)
(*              In Atomic mode the graph then contains BOTH the ideal      *)
(*              successors and the code's, the latter tagged               *)
(*              dev |-> "warn-not-applied" / "reload-ignores-version".     *)
(*   Serialized TRUE (ideal): Read..Apply of one Reload is a critical      *)
(*              section (a reload lock); FALSE (code as is): only the      *)
(*              assignment in Apply is protected (f.mux), the hash compare *)
(*              reads the running hashes unprotected.                      *)
(***************************************************************************)
EXTENDS Integers, FiniteSets, TLC, Json

CONSTANTS CContents,      \* config contents the environment may write
          RContents,      \* rules contents the environment may write
          Procs,          \* reload triggers, e.g. {"timer", "pubsub"}
          Listeners,      \* every listener that is ever registered
          InitListeners,  \* those registered before the first reload
          MaxWrites,      \* bound on the number of file writes
          Atomic, Exclusive, Serialized, Faithful

VARIABLES fileC, fileR,        \* what is on disk
          verC, verR,          \* ghost: number of writes to each file so far
          runC, runR,          \* the running configuration (what getters answer from)
          runVC, runVR,        \* ghost: file versions the running contents were read at
          registered,          \* f.callbacks
          lastNotif, lastRes,  \* Atomic mode: notifications per listener / result of the last step
          pc, rdC, rdR, rdVC, rdVR, verdict, real, cbLeft, res,   \* per reloader
          lock,                \* the reload lock (Serialized only): "free" or its holder
          expected, notified,  \* ghost counters per listener
          snap,                \* ghost: what a reloader saw when it started (Exclusive check)
          act

fvars == <<fileC, fileR, verC, verR>>
rvars == <<runC, runR, runVC, runVR>>
ovars == <<lastNotif, lastRes>>
pvars == <<pc, rdC, rdR, rdVC, rdVR, verdict, real, cbLeft, res, lock, snap>>
gvars == <<expected, notified>>
vars  == <<fvars, rvars, registered, ovars, pvars, gvars, act>>

(***************************************************************************)
(* Content classes                                                         *)
(***************************************************************************)
CAccept == {"A", "B", "Bw"}   \* startup returns a config (possibly with a warning)
CWarn   == {"Bw"}
RAccept == {"A", "B"}
StartupAccepts(c, r) == c \in CAccept /\ r \in RAccept
Unreadable(c, r) == c = "U" \/ r = "U"

\* what validation concludes about a readable pair
VerdictWithVersion(c, r) == IF ~StartupAccepts(c, r) THEN "err"
                            ELSE IF c \in CWarn THEN "warn" ELSE "ok"
\* the code: newFileConfig(f.opts, configs, rules) is called without currentVersion
VerdictNoVersion(c, r) == IF c = "X" \/ r = "X" THEN "err"
                          ELSE IF c \in {"Bw", "Brw"} THEN "warn" ELSE "ok"
Verdict(c, r) == IF Faithful THEN VerdictNoVersion(c, r) ELSE VerdictWithVersion(c, r)

\* the settings the harness reads back through the getters
Delay(c) == CASE c = "A" -> 1 [] c = "B" -> 2 [] c = "Bw" -> 3 [] c = "Br" -> 4 [] c = "Brw" -> 5 [] OTHER -> 0
Batch(c) == 100 * Delay(c)
Rate(r)  == CASE r = "A" -> 5 [] r = "B" -> 7 [] OTHER -> 0

Zero == [l \in Listeners |-> 0]
Max(a, b) == IF a >= b THEN a ELSE b

(***************************************************************************)
(* The outcome of one whole Reload() call that finds (fc, fr) on disk      *)
(* while (rc, rr) is running: is it applied, and what does Reload return   *)
(* ("nil" / "err"; the C27 statement does not say whether a warning is     *)
(* reported as an error value, so for warning-only content both are        *)
(* allowed).                                                               *)
(***************************************************************************)
Out(a, e) == [apply |-> a, res |-> e]

IdealOutcomes(fc, fr, rc, rr) ==
  IF Unreadable(fc, fr) \/ ~StartupAccepts(fc, fr) THEN {Out(FALSE, "err")}
  ELSE LET changed == fc # rc \/ fr # rr
           results == IF fc \in CWarn THEN {"nil", "err"} ELSE {"nil"}
       IN {Out(changed, e) : e \in results}

CodeOutcomes(fc, fr, rc, rr) ==
  IF Unreadable(fc, fr) THEN {Out(FALSE, "err")}
  ELSE LET v == VerdictNoVersion(fc, fr) IN
       IF v \in {"err", "warn"} THEN {Out(FALSE, "err")}   \* `if err != nil { return err }` also on warnings
       ELSE {Out(fc # rc \/ fr # rr, "nil")}

DevName(fc) == IF fc \in {"Br", "Brw"} THEN "reload-ignores-version" ELSE "warn-not-applied"

(***************************************************************************)
(* Init: startup (NewConfig) read an acceptable pair.                      *)
(***************************************************************************)
Init == /\ fileC \in CContents \cap CAccept
        /\ fileR \in RContents \cap RAccept
        /\ verC = 0 /\ verR = 0
        /\ runC = fileC /\ runR = fileR
        /\ runVC = 0 /\ runVR = 0
        /\ registered = InitListeners
        /\ lastNotif = Zero /\ lastRes = "none"
        /\ pc = [p \in Procs |-> "idle"]
        /\ rdC = [p \in Procs |-> "-"] /\ rdR = [p \in Procs |-> "-"]
        /\ rdVC = [p \in Procs |-> 0] /\ rdVR = [p \in Procs |-> 0]
        /\ verdict = [p \in Procs |-> "-"]
        /\ real = [p \in Procs |-> FALSE]
        /\ cbLeft = [p \in Procs |-> {}]
        /\ res = [p \in Procs |-> "none"]
        /\ lock = "free"
        /\ expected = Zero /\ notified = Zero
        /\ snap = [p \in Procs |-> [fc |-> "-", fr |-> "-", rc |-> "-", rr |-> "-", reg |-> {}, n |-> Zero]]
        /\ act = [name |-> "Init"]

AllIdle == \A p \in Procs : pc[p] = "idle"
Quiet == ~Exclusive \/ AllIdle      \* may the environment move?

(***************************************************************************)
(* Environment                                                             *)
(***************************************************************************)
WriteC(c) == /\ Quiet
             /\ Atomic \/ verC + verR < MaxWrites
             /\ c \in CContents /\ c # fileC
             /\ fileC' = c /\ verC' = IF Atomic THEN verC ELSE verC + 1
             /\ lastNotif' = Zero /\ lastRes' = "none"
             /\ UNCHANGED <<fileR, verR, rvars, registered, pvars, gvars>>
             /\ act' = [name |-> "WriteC", c |-> c]

WriteR(r) == /\ Quiet
             /\ Atomic \/ verC + verR < MaxWrites
             /\ r \in RContents /\ r # fileR
             /\ fileR' = r /\ verR' = IF Atomic THEN verR ELSE verR + 1
             /\ lastNotif' = Zero /\ lastRes' = "none"
             /\ UNCHANGED <<fileC, verC, rvars, registered, pvars, gvars>>
             /\ act' = [name |-> "WriteR", r |-> r]

\* fileConfig.RegisterReloadCallback (under f.mux)
Register(l) == /\ Quiet
               /\ l \in Listeners \ registered
               /\ registered' = registered \cup {l}
               /\ lastNotif' = Zero /\ lastRes' = "none"
               /\ UNCHANGED <<fvars, rvars, pvars, gvars>>
               /\ act' = [name |-> "Register", l |-> l]

(***************************************************************************)
(* Atomic mode: one action per Reload() call                               *)
(***************************************************************************)
ReloadOutcome(o, dev) ==
  /\ IF o.apply THEN /\ runC' = fileC /\ runR' = fileR
                     /\ lastNotif' = [l \in Listeners |-> IF l \in registered THEN 1 ELSE 0]
                ELSE /\ UNCHANGED <<runC, runR>> /\ lastNotif' = Zero
  /\ lastRes' = o.res
  /\ UNCHANGED <<fvars, runVC, runVR, registered, pvars, gvars>>   \* the ghosts are frozen in Atomic mode
  /\ act' = IF dev = "" THEN [name |-> "Reload"] ELSE [name |-> "Reload", dev |-> dev]

Reload ==
  LET ideal == IdealOutcomes(fileC, fileR, runC, runR)
      code  == CodeOutcomes(fileC, fileR, runC, runR)
  IN \/ \E o \in ideal : ReloadOutcome(o, "")
     \/ /\ Faithful
        /\ \E o \in code \ ideal : ReloadOutcome(o, DevName(fileC))

(***************************************************************************)
(* Step mode: the reloaders                                                *)
(***************************************************************************)
\* leave Reload with result e before anything was applied
ReturnEarly(p, e) == /\ pc' = [pc EXCEPT ![p] = "idle"]
                     /\ res' = [res EXCEPT ![p] = IF Exclusive THEN e ELSE "none"]   \* only the Exclusive check looks at it
                     /\ lock' = IF Serialized THEN "free" ELSE lock

\* Reload() is called (the ideal design takes the reload lock here)
Start(p) == /\ pc[p] = "idle"
            /\ Exclusive => AllIdle
            /\ Serialized => lock = "free"
            /\ lock' = IF Serialized THEN p ELSE lock
            /\ pc' = [pc EXCEPT ![p] = "readC"]
            /\ res' = [res EXCEPT ![p] = "none"]
            /\ snap' = [snap EXCEPT ![p] = [fc |-> fileC, fr |-> fileR, rc |-> runC, rr |-> runR, reg |-> registered, n |-> notified]]
            /\ UNCHANGED <<fvars, rvars, registered, ovars, rdC, rdR, rdVC, rdVR, verdict, real, cbLeft, gvars>>
            /\ act' = [name |-> "Start", p |-> p]

\* getConfigDataForLocations(opts.ConfigLocations): os.ReadFile of the config file
ReadC(p) == /\ pc[p] = "readC"
            /\ rdC' = [rdC EXCEPT ![p] = fileC] /\ rdVC' = [rdVC EXCEPT ![p] = verC]
            /\ IF fileC = "U" THEN ReturnEarly(p, "err")
                              ELSE pc' = [pc EXCEPT ![p] = "readR"] /\ UNCHANGED <<res, lock>>
            /\ UNCHANGED <<fvars, rvars, registered, ovars, rdR, rdVR, verdict, real, cbLeft, snap, gvars>>
            /\ act' = [name |-> "ReadC", p |-> p]

\* ... and of the rules file (a second system call: the pair may be torn by a write in between)
ReadR(p) == /\ pc[p] = "readR"
            /\ rdR' = [rdR EXCEPT ![p] = fileR] /\ rdVR' = [rdVR EXCEPT ![p] = verR]
            /\ IF fileR = "U" THEN ReturnEarly(p, "err")
                              ELSE pc' = [pc EXCEPT ![p] = "validate"] /\ UNCHANGED <<res, lock>>
            /\ UNCHANGED <<fvars, rvars, registered, ovars, rdC, rdVC, verdict, real, cbLeft, snap, gvars>>
            /\ act' = [name |-> "ReadR", p |-> p]

\* newFileConfig: validateConfigs / validateRules / applyConfigInto on the bytes read (local)
Validate(p) == /\ pc[p] = "validate"
               /\ LET v == Verdict(rdC[p], rdR[p]) IN
                  /\ verdict' = [verdict EXCEPT ![p] = v]
                  /\ IF v = "err" \/ (Faithful /\ v = "warn")
                       THEN ReturnEarly(p, "err")
                       ELSE pc' = [pc EXCEPT ![p] = "compare"] /\ UNCHANGED <<res, lock>>
               /\ UNCHANGED <<fvars, rvars, registered, ovars, rdC, rdR, rdVC, rdVR, real, cbLeft, snap, gvars>>
               /\ act' = [name |-> "Validate", p |-> p]

\* `if f.mainHash == cfg.mainHash && f.rulesHash == cfg.rulesHash { return nil }`
Compare(p) == /\ pc[p] = "compare"
              /\ IF rdC[p] = runC /\ rdR[p] = runR
                   THEN /\ ReturnEarly(p, IF verdict[p] = "warn" THEN "warn" ELSE "nil")
                        \* ghost only: what is running IS the content of the version just read
                        /\ runVC' = Max(runVC, rdVC[p]) /\ runVR' = Max(runVR, rdVR[p])
                   ELSE pc' = [pc EXCEPT ![p] = "apply"] /\ UNCHANGED <<res, lock, runVC, runVR>>
              /\ UNCHANGED <<fvars, runC, runR, registered, ovars, rdC, rdR, rdVC, rdVR, verdict, real, cbLeft, snap, gvars>>
              /\ act' = [name |-> "Compare", p |-> p]

\* f.mux.Lock(); f.mainConfig = ...; f.mux.Unlock()   (the reload lock ends here:
\* callbacks run outside every lock, "we don't want callbacks to deadlock")
Apply(p) == /\ pc[p] = "apply"
            /\ runC' = rdC[p] /\ runR' = rdR[p] /\ runVC' = rdVC[p] /\ runVR' = rdVR[p]
            /\ real' = [real EXCEPT ![p] = (rdC[p] # runC \/ rdR[p] # runR)]
            /\ lock' = IF Serialized THEN "free" ELSE lock
            /\ pc' = [pc EXCEPT ![p] = "cbstart"]
            /\ UNCHANGED <<fvars, registered, ovars, rdC, rdR, rdVC, rdVR, verdict, cbLeft, res, snap, gvars>>
            /\ act' = [name |-> "Apply", p |-> p]

\* `for _, cb := range f.callbacks`: the slice is evaluated once, now
BeginCallbacks(p) == /\ pc[p] = "cbstart"
                     /\ cbLeft' = [cbLeft EXCEPT ![p] = registered]
                     /\ expected' = [l \in Listeners |-> expected[l] + (IF l \in registered /\ real[p] THEN 1 ELSE 0)]
                     /\ pc' = [pc EXCEPT ![p] = "callbacks"]
                     /\ UNCHANGED <<fvars, rvars, registered, ovars, rdC, rdR, rdVC, rdVR, verdict, real, res, lock, snap, notified>>
                     /\ act' = [name |-> "BeginCallbacks", p |-> p]

Callback(p, l) == /\ pc[p] = "callbacks" /\ l \in cbLeft[p]
                  /\ cbLeft' = [cbLeft EXCEPT ![p] = @ \ {l}]
                  /\ notified' = [notified EXCEPT ![l] = @ + 1]
                  /\ UNCHANGED <<fvars, rvars, registered, ovars, pc, rdC, rdR, rdVC, rdVR, verdict, real, res, lock, snap, expected>>
                  /\ act' = [name |-> "Callback", p |-> p, l |-> l]

Return(p) == /\ pc[p] = "callbacks" /\ cbLeft[p] = {}
             /\ pc' = [pc EXCEPT ![p] = "idle"]
             /\ res' = [res EXCEPT ![p] = IF verdict[p] = "warn" THEN "warn" ELSE "nil"]
             /\ UNCHANGED <<fvars, rvars, registered, ovars, rdC, rdR, rdVC, rdVR, verdict, real, cbLeft, lock, snap, gvars>>
             /\ act' = [name |-> "Return", p |-> p]

Step(p) == \/ ReadC(p) \/ ReadR(p) \/ Validate(p) \/ Compare(p) \/ Apply(p)
           \/ BeginCallbacks(p) \/ (\E l \in Listeners : Callback(p, l)) \/ Return(p)

Env == \/ \E c \in CContents : WriteC(c)
       \/ \E r \in RContents : WriteR(r)
       \/ \E l \in Listeners : Register(l)

Next == \/ Env
        \/ Atomic /\ Reload
        \/ ~Atomic /\ \E p \in Procs : Start(p) \/ Step(p)

Spec == Init /\ [][Next]_vars

\* Liveness: a started Reload runs to completion, and triggers keep firing
\* (the timer). No fairness for the environment: writes stop by themselves.
FairSpec == /\ Spec
            /\ \A p \in Procs : WF_vars(Step(p))
            /\ WF_vars(\E p \in Procs : Start(p))

(***************************************************************************)
(* Properties                                                              *)
(***************************************************************************)
Pcs == {"idle", "readC", "readR", "validate", "compare", "apply", "cbstart", "callbacks"}
TypeOK == /\ fileC \in CContents /\ fileR \in RContents
          /\ runC \in CContents /\ runR \in RContents
          /\ verC \in 0 .. MaxWrites /\ verR \in 0 .. MaxWrites
          /\ runVC \in 0 .. MaxWrites /\ runVR \in 0 .. MaxWrites
          /\ registered \subseteq Listeners
          /\ lastNotif \in [Listeners -> 0 .. 1]
          /\ lastRes \in {"none", "nil", "err"}
          /\ pc \in [Procs -> Pcs]
          /\ res \in [Procs -> {"none", "nil", "warn", "err"}]
          /\ lock \in {"free"} \cup Procs
          /\ \A p \in Procs : cbLeft[p] \subseteq Listeners

\* C27 "anything startup would reject is never applied": no getter ever answers
\* from content startup rejects (holds in the ideal design only: see Faithful)
AcceptedRunning == StartupAccepts(runC, runR)

\* C27 in Atomic mode, per Reload() call: applied <=> changed and startup accepts;
\* otherwise the running configuration stays as it was; an applied change
\* notifies every registered listener exactly once, anything else nobody.
ReloadCorrect ==
  [][(act'.name = "Reload" /\ "dev" \notin DOMAIN act') =>
       LET shouldApply == StartupAccepts(fileC, fileR) /\ (fileC # runC \/ fileR # runR) IN
       /\ shouldApply => /\ runC' = fileC /\ runR' = fileR
                         /\ \A l \in Listeners : lastNotif'[l] = IF l \in registered THEN 1 ELSE 0
       /\ ~shouldApply => /\ runC' = runC /\ runR' = runR
                          /\ lastNotif' = Zero
       /\ ~StartupAccepts(fileC, fileR) => lastRes' = "err"]_vars

\* nobody but a Reload changes what is running or notifies anybody
OnlyReloadApplies ==
  [][(act'.name \notin {"Reload", "Apply"}) => UNCHANGED <<runC, runR>>]_vars

\* C27 "overlapping triggers do not apply a change twice": every Apply changes the running content
NoDoubleApply == [][(act'.name = "Apply") => (runC' # runC \/ runR' # runR)]_vars

\* C27 "each applied change notifies every registered listener exactly once":
\* notifications delivered + still owed by a reloader inside its callback loop
\* = number of real changes of the running configuration since the listener
\* was registered
Owed(l) == Cardinality({p \in Procs : pc[p] = "callbacks" /\ l \in cbLeft[p]})
NotifiedOncePerChange == \A l \in Listeners : notified[l] + Owed(l) = expected[l]

\* C27 "... nor lose one", safety half: the running contents never go back to an
\* older version of a file, and when a Reload() that read an acceptable pair
\* returns, what is running is at least as new as what it read
NoRegress == [][runVC' >= runVC /\ runVR' >= runVR]_vars
FreshAtReturn ==
  [][\A p \in Procs :
       (pc[p] # "idle" /\ pc'[p] = "idle" /\ pc[p] \notin {"readC", "readR"} /\ StartupAccepts(rdC[p], rdR[p]))
         => (runVC' >= rdVC[p] /\ runVR' >= rdVR[p])]_vars

\* the reload lock is a lock
LockOK == /\ Serialized => \A p \in Procs : (pc[p] \in {"readC", "readR", "validate", "compare", "apply"}) <=> (lock = p)
          /\ ~Serialized => lock = "free"

\* C27 "... nor lose one", liveness half: if triggers keep firing, the last
\* acceptable content is eventually running (and stays)
Converges == <>[](StartupAccepts(fileC, fileR) => (runC = fileC /\ runR = fileR))
\* a started reload always finishes and every owed notification is delivered
Quiesces == \A p \in Procs : []<>(pc[p] = "idle")

\* Exclusive schedule: the steps of one Reload() compose to an atomic outcome
ResMatches(stepRes, atomicRes) == \/ stepRes = atomicRes
                                  \/ stepRes = "warn" /\ atomicRes \in {"nil", "err"}
SeqEquivalent ==
  [][\A p \in Procs : (pc[p] # "idle" /\ pc'[p] = "idle") =>
       LET s == snap[p]
           allowed == IF Faithful THEN CodeOutcomes(s.fc, s.fr, s.rc, s.rr) ELSE IdealOutcomes(s.fc, s.fr, s.rc, s.rr)
       IN \E o \in allowed :
            /\ IF o.apply THEN runC' = s.fc /\ runR' = s.fr ELSE runC' = s.rc /\ runR' = s.rr
            /\ \A l \in Listeners : notified'[l] - s.n[l] = IF o.apply /\ l \in s.reg THEN 1 ELSE 0
            /\ ResMatches(res'[p], o.res)]_vars

(***************************************************************************)
(* Conformance plumbing (Atomic mode)                                      *)
(***************************************************************************)
Abs == [ sendDelay |-> Delay(runC), batch |-> Batch(runC), rate |-> Rate(runR),
         hashC |-> runC, hashR |-> runR,
         notified |-> lastNotif, res |-> lastRes ]
St == [ fileC |-> fileC, fileR |-> fileR, runC |-> runC, runR |-> runR,
        registeredSet |-> registered, lastNotif |-> lastNotif, lastRes |-> lastRes ]
Dump == PrintT(ToJson([fs |-> St, fa |-> act.name, act |-> act', ts |-> St', fabs |-> Abs, tabs |-> Abs']))
\* the ghosts (versions, counters) are hidden: they only grow
View == <<fileC, fileR, runC, runR, registered, lastNotif, lastRes>>
=============================================================================
