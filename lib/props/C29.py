"""C29 Settings resolve with documented precedence and env expansion."""

PROP = dict(
    level="model_checking",
    technique="TLA+ spec Settings.tla (Effective = first defined of <flag, env, file2, file1, default>; one-pass Expand of set ${VAR}s; "
              "Verdict = validity of the effective value) model-checked by TLC as a function-vector specification: Init enumerates the input vectors, "
              "the action Eval is the whole load; every generated vector is loaded through the real NewCmdEnvOptions + NewConfig for every setting of "
              "its class (classes and members discovered by reflection over the yaml/cmdenv/default struct tags) and the resolved struct values, the "
              "getters and the validation verdict are compared with the model's (B3 function vectors)",
    design_ref="DESIGN.md §5 C29",
    level_text="TLC enumerates, per class of setting (string, listen address, string list, string map, int, duration, memory size, bool; with and without "
               "flag+environment variable; with and without documented default), every presence combination of flag / environment variable / second "
               "config file / first config file crossed with the placement of the literal and of ${VAR} in each source (plain, whole value, infix, "
               "unset variable whole and infix, a variable whose text is itself ${V1}, inside a list element, inside a map value, an explicit zero "
               "value in a file, and text with a dollar that is NOT a ${NAME} reference - bare $NAME set and unset, $$, $5, a trailing $, an "
               "unterminated ${, an empty ${}, $(X) - next to well-formed references, as scalar, list element and map value, through flag, "
               "variable and files) and checks on the model that nothing of a losing source shows, the winner's text shows in full, the default applies "
               "only when no source defines the setting, references to set variables are replaced exactly once, references to unset variables stay, every other piece of text with a dollar is in the result exactly as written, "
               "non-string kinds are taken verbatim, and the validation verdict is the validity of the applied value. Each vector is then executed "
               "on the real loader: args, environment and two YAML files are generated for ALL settings of the class at once (100 settings found by "
               "reflection, every setting with a cmdenv tag among them, both CmdEnv names of a two-name tag), loaded with validation (and without it "
               "when validation rejects the text), and the value read back from the resolved configuration, re-tokenised, must equal the model's for "
               "every member; every no-argument getter of the Config implementation must answer with the resolved value; the struct default must "
               "equal the default configMeta.yaml documents. Listen-address settings are loaded one at a time and the verdict of validation "
               "(valid only after expansion / invalid only after expansion included) must be the validity of the value that is applied.",
    level_note="Bounded structural enumeration, not all strings: one literal per source, five variables (four set, one unset), at most two list "
               "elements / map entries, two config files, YAML only (TOML/JSON loaders and URL locations are not driven). Quick tier: in class "
               "string all present sources use the same placement (1713 vectors); thorough: every placement per source, a literal-dollar placement only together with itself or plain text (7965 vectors). "
               "Readings adopted: an explicit empty flag / empty environment variable counts as undefined (only files may set the zero value); "
               "validation also judges file values that a flag or variable overrides, so for the verdict clause the sources below the winner are "
               "absent or plainly valid; a map given by two files may be replaced by the later file or merged per key (the statement leaves it open; a map given by flag/variable replaces); the flag "
               "form of a list is the repeated flag. Values that validation would reject for unrelated reasons (choice lists, API key format, "
               "minimum sizes) are observed through the same loader with --no-validate. The validation verdict is only modelled for host:port "
               "settings (exactly one colon). Known deviations reported as KNOWN-FINDING: cmdenv-slice-first-only, explicit-zero-gets-default.",
    assumptions=["process environment is private to the test process (REFINERY_* and C29_* are cleared and restored)",
                 "the struct tags of configContents/CmdEnv and configMeta.yaml are the documentation of names and defaults",
                 "bounded: 1 literal per source, 5 variables, <=2 list elements/map entries, 2 YAML files"],
    stages=[
        dict(kind="walk", name="Settings", module="Settings", pkg="config", test="TestVerifC29Settings",
             harness=["config/c29_settings_test.go"],
             cfg={"quick": "MC_Settings_q.cfg", "thorough": "MC_Settings_t.cfg"},
             budget={"quick": 120, "thorough": 480}, maxwalk=2),
        dict(kind="tlc", name="SettingsIdeal", module="Settings",
             cfg={"quick": None, "thorough": "MC_Settings_ideal.cfg"}, workers=4, tiers=("thorough",)),
    ],
)
