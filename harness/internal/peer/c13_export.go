//go:build verif

package peer

// Used by the C13 harness in package sample (harness/sample/c13_peergoal_test.go),
// which drives real RedisPubsubPeers instances from outside this package. This
// file is NOT a test file: it is compiled into package peer only with -tags
// verif, only through the go test -overlay of /verif.

import (
	"time"

	"github.com/jonboulle/clockwork"
)

// C13SeatClock moves the peer map of a started RedisPubsubPeers, and whatever
// Start stored in it, onto the given clock (NewMapWithTTL builds the map on the
// wall clock whatever clock was injected) and returns the entry timeout.
// Call it after Start and before Ready.
func C13SeatClock(p *RedisPubsubPeers, c clockwork.Clock) time.Duration {
	p.peers.Clock = c
	for k, it := range p.peers.Items {
		it.Expiration = c.Now().Add(p.peers.TTL)
		p.peers.Items[k] = it
	}
	return p.peers.TTL
}

// C13Unsubscribe closes the subscription of a process that is gone.
func C13Unsubscribe(p *RedisPubsubPeers) {
	if p.sub != nil {
		p.sub.Close()
	}
}

// C13Hash is the hash of the peer list that checkHash stored last (checkHash
// starts the change callbacks exactly when it stores a new one). The harness
// uses it only as a barrier: it waits for the callbacks after a step in which
// the value changed. Read it only while no listen() is running.
func C13Hash(p *RedisPubsubPeers) uint64 { return p.hash }
