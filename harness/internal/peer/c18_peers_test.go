//go:build verif

package peer

import (
	"context"
	"errors"
	"fmt"
	"sort"
	"strings"
	"sync"
	"sync/atomic"
	"testing"
	"time"

	"github.com/honeycombio/refinery/config"
	"github.com/honeycombio/refinery/internal/verifkit"
	"github.com/honeycombio/refinery/logger"
	"github.com/honeycombio/refinery/metrics"
	"github.com/honeycombio/refinery/pubsub"
	"github.com/jonboulle/clockwork"
)

// c18Harness binds spec/Peers.tla (property C18) to real RedisPubsubPeers
// instances, one per model node, that share
//   - one clockwork fake clock (the TTL of every peer map runs on it), and
//   - a harness pubsub hub in place of Redis: every published message is queued
//     per subscriber and handed to the subscriber's callback only when the model
//     takes the corresponding Deliver step, so the model's delivery orders and
//     delays are forced.
// The Ready goroutine of every node is real. The only thing interposed is its
// ticker channel (c18Ticker): the goroutine receives a tick exactly when the
// model takes PublishTick(n), and the harness checks that the period the code
// asked the clock for lies inside the gap envelope the model assumes. Barriers:
// the hub signals every Publish call; Chan() is called each time the goroutine
// (re-)enters its select, so its call count tells when the goroutine is parked
// again. Wall-clock time is used only as a hang detector on failure paths.
// Environment fault: on the model's PublishFail / GracefulStopFail step the hub
// makes exactly that Publish call return an error and queues nothing. The
// period the node currently asks the clock for (NewTicker and every Reset) is
// part of the projection at every step (offSet).
// A history may start from a running cluster (model constant Boot, see boot):
// the mixed histories - a crash, clean unregisters, joins and restarts of
// DIFFERENT peers inside one timeout window - are then replayed tick by tick,
// and GetPeers() of every running node is compared with the model at every
// instant, in particular at each entry's deadline and the tick after it.

const c18Hang = 5 * time.Second

type c18Ticker struct {
	d     atomic.Int64
	out   chan time.Time
	calls atomic.Int64
	sig   chan struct{}
}

func (t *c18Ticker) Chan() <-chan time.Time {
	t.calls.Add(1)
	select {
	case t.sig <- struct{}{}:
	default:
	}
	return t.out
}
func (t *c18Ticker) Reset(d time.Duration) { t.d.Store(int64(d)) }
func (t *c18Ticker) Stop()                 {}

// c18Clock is the clock injected into one node: the shared fake clock with
// NewTicker intercepted.
type c18Clock struct {
	*clockwork.FakeClock
	mu      sync.Mutex
	tickers []*c18Ticker
	sig     chan struct{}
}

func (c *c18Clock) NewTicker(d time.Duration) clockwork.Ticker {
	t := &c18Ticker{out: make(chan time.Time), sig: c.sig}
	t.d.Store(int64(d))
	c.mu.Lock()
	c.tickers = append(c.tickers, t)
	c.mu.Unlock()
	return t
}

// waitUntil re-evaluates cond whenever a ticker's Chan() is called.
func (c *c18Clock) waitUntil(cond func() bool) bool {
	deadline := time.After(c18Hang)
	for !cond() {
		select {
		case <-c.sig:
		case <-deadline:
			return cond()
		}
	}
	return true
}

// pubTicker is the ticker with the shortest period (the refresh ticker; the
// other one only drives a debug log line every 25-35 s and is never fired).
func (c *c18Clock) pubTicker() *c18Ticker {
	c.mu.Lock()
	defer c.mu.Unlock()
	var best *c18Ticker
	for _, t := range c.tickers {
		if best == nil || t.d.Load() < best.d.Load() {
			best = t
		}
	}
	return best
}

func (c *c18Clock) parked() bool {
	c.mu.Lock()
	defer c.mu.Unlock()
	for _, t := range c.tickers {
		if t.calls.Load() > 0 {
			return true
		}
	}
	return false
}

type c18Msg struct{ from, kind, payload string }

type c18Sub struct {
	topic string
	cb    pubsub.SubscriptionCallback
}

// c18Hub stands in for Redis.
type c18Hub struct {
	mu     sync.Mutex
	subs   map[string]c18Sub   // by node id
	queue  map[string][]c18Msg // by receiver id
	expect map[string]string   // label of the next publish of a node ("R" by a tick, "U" by a stop)
	recv   map[string]bool     // node currently receives (it is up)
	muted  map[string]bool     // node crashed: whatever it still says is lost
	fail   map[string]bool     // the next Publish of this node fails (transient backend error)
	dead   bool
	pubSig chan string
}

var c18ErrPublish = errors.New("c18: injected transient publish failure")

func (h *c18Hub) publish(from, topic, msg string) (err error) {
	h.mu.Lock()
	if h.fail[from] && !h.dead {
		h.fail[from] = false
		h.expect[from] = ""
		err = c18ErrPublish
	} else if !h.dead && !h.muted[from] {
		kind := h.expect[from]
		if kind == "" {
			// a publish the harness did not trigger (an eager announcement, ...):
			// classify it with the code's own decoder; what it does to a receiver
			// is checked when the model delivers it
			cmd := &peerCommand{}
			if cmd.unmarshal(msg) && (cmd.action == Register || cmd.action == Unregister) {
				kind = string(cmd.action)
			} else {
				kind = "unexpected:" + msg
			}
		}
		h.expect[from] = ""
		for id, s := range h.subs {
			if h.recv[id] && s.topic == topic {
				h.queue[id] = append(h.queue[id], c18Msg{from: from, kind: kind, payload: msg})
			}
		}
	}
	h.mu.Unlock()
	select {
	case h.pubSig <- from:
	default:
	}
	return err
}

func (h *c18Hub) waitPublish(from string) bool {
	deadline := time.After(c18Hang)
	for {
		select {
		case f := <-h.pubSig:
			if f == from {
				return true
			}
		case <-deadline:
			return false
		}
	}
}

// c18Bus is the pubsub.PubSub one node sees.
type c18Bus struct {
	hub *c18Hub
	id  string
}

type c18Subscription struct{}

func (c18Subscription) Close() {}

func (b *c18Bus) Publish(ctx context.Context, topic, message string) error {
	return b.hub.publish(b.id, topic, message)
}
func (b *c18Bus) Subscribe(ctx context.Context, topic string, cb pubsub.SubscriptionCallback) pubsub.Subscription {
	b.hub.mu.Lock()
	b.hub.subs[b.id] = c18Sub{topic: topic, cb: cb}
	b.hub.mu.Unlock()
	return c18Subscription{}
}
func (b *c18Bus) FormatTopic(topic string) string { return "c18:" + topic }
func (b *c18Bus) Close()                          {}
func (b *c18Bus) Start() error                    { return nil }
func (b *c18Bus) Stop() error                     { return nil }

type c18Node struct {
	id, tok, addr string
	p             *RedisPubsubPeers
	clock         *c18Clock
	pub           *c18Ticker // the refresh ticker
	met           *metrics.MockMetrics
	done          chan struct{}
	doneClosed    bool
	cbCount       atomic.Int64
	cbSig         chan struct{}
	cbSeen        int64
}

type c18Harness struct {
	fc        *clockwork.FakeClock
	hub       *c18Hub
	ids       []string
	addrTok   map[string]string // model id -> address token
	nodes     map[string]*c18Node
	status    map[string]string
	unit      time.Duration
	T, D      int
	rlo, rhi  int
	closed    bool
	observeCb bool
	timing    string
	panicked  string
}

func c18Address(tok string) string { return "http://host-" + strings.ToLower(tok) + ":8081" }

func (h *c18Harness) shutdown() {
	if h.hub != nil {
		h.hub.mu.Lock()
		h.hub.dead = true
		h.hub.mu.Unlock()
	}
	for _, n := range h.nodes {
		if !n.doneClosed {
			n.doneClosed = true
			close(n.done) // the goroutine publishes its unregister into the dead hub and returns
		}
	}
}

func (h *c18Harness) Reset(init map[string]any) error {
	h.shutdown()
	params, _ := init["params"].(map[string]any)
	if params == nil {
		return fmt.Errorf("initial state carries no params")
	}
	addr, _ := params["addr"].(map[string]any)
	h.addrTok = map[string]string{}
	h.ids = nil
	for id, a := range addr {
		h.ids = append(h.ids, id)
		h.addrTok[id], _ = a.(string)
	}
	sort.Strings(h.ids)
	h.unit = time.Duration(verifkit.Int(params, "unitMs")) * time.Millisecond
	h.T, h.D = verifkit.Int(params, "T"), verifkit.Int(params, "D")
	h.rlo, h.rhi = verifkit.Int(params, "rlo"), verifkit.Int(params, "rhi")
	h.closed = verifkit.Bool(params, "closed")
	h.observeCb = verifkit.Bool(params, "observeCb")
	if h.unit <= 0 || h.T <= 0 || len(h.ids) == 0 {
		return fmt.Errorf("bad params %v", params)
	}
	h.fc = clockwork.NewFakeClock()
	h.hub = &c18Hub{subs: map[string]c18Sub{}, queue: map[string][]c18Msg{}, expect: map[string]string{},
		recv: map[string]bool{}, muted: map[string]bool{}, fail: map[string]bool{}, pubSig: make(chan string, 256)}
	h.nodes = map[string]*c18Node{}
	h.status = map[string]string{}
	for _, id := range h.ids {
		h.status[id] = "new"
	}
	h.timing, h.panicked = "", ""
	return h.boot(params)
}

// boot builds the running cluster the model's Init describes (constant Boot):
// the nodes are started one after the other, then each one's refresh ticker
// fires once and every node handles that register - all at the same instant
// of the fake clock, through the same code paths as the model's Start,
// PublishTick and Deliver steps. Afterwards every node lists every node.
func (h *c18Harness) boot(params map[string]any) (err error) {
	defer func() {
		if r := recover(); r != nil {
			err = fmt.Errorf("boot: panic: %v", r)
		}
	}()
	var ids []string
	bs, _ := params["bootSet"].([]any)
	for _, b := range bs {
		if id, ok := b.(string); ok {
			ids = append(ids, id)
		}
	}
	sort.Strings(ids)
	for _, id := range ids {
		if err := h.Apply(map[string]any{"name": "Start", "n": id}); err != nil {
			return fmt.Errorf("boot: start %s: %w", id, err)
		}
	}
	for _, from := range ids {
		if err := h.Apply(map[string]any{"name": "PublishTick", "n": from}); err != nil {
			return fmt.Errorf("boot: tick %s: %w", from, err)
		}
		for _, to := range ids {
			if err := h.Apply(map[string]any{"name": "Deliver", "to": to, "from": from, "kind": "R"}); err != nil {
				return fmt.Errorf("boot: deliver %s -> %s: %w", from, to, err)
			}
		}
	}
	if h.panicked != "" {
		return fmt.Errorf("boot: panic: %s", h.panicked)
	}
	for _, n := range h.nodes {
		n.cbSeen = n.cbCount.Load() // the history starts here: no callback firing belongs to Init
	}
	return nil
}

func (h *c18Harness) start(id string) error {
	tok := h.addrTok[id]
	n := &c18Node{id: id, tok: tok, addr: c18Address(tok), done: make(chan struct{}), cbSig: make(chan struct{}, 64)}
	n.clock = &c18Clock{FakeClock: h.fc, sig: make(chan struct{}, 1)}
	n.met = &metrics.MockMetrics{}
	n.met.Start()
	cfg := &config.MockConfig{
		GetPeerListenAddrVal: "0.0.0.0:8081",
		RedisIdentifier:      "host-" + strings.ToLower(tok),
		PeerManagementType:   "redis",
		PeerTimeout:          5 * time.Second,
	}
	n.p = &RedisPubsubPeers{
		Config:     cfg,
		Metrics:    n.met,
		Logger:     &logger.NullLogger{},
		PubSub:     &c18Bus{hub: h.hub, id: id},
		Clock:      n.clock,
		InstanceID: id + id + id + id, // 8 characters like the real ones
		Done:       n.done,
	}
	h.nodes[id] = n
	if err := n.p.Start(); err != nil {
		return err
	}
	h.hub.mu.Lock()
	h.hub.recv[id] = true // subscribed from here on (an announcement made by Ready reaches the node itself too)
	h.hub.mu.Unlock()
	// RedisPubsubPeers builds its TTL map on the wall clock (NewMapWithTTL does
	// not take the injected clock); move it, and whatever Start stored in it, to
	// the fake clock before anything else happens.
	n.p.peers.Clock = h.fc
	for k, it := range n.p.peers.Items {
		it.Expiration = h.fc.Now().Add(n.p.peers.TTL)
		n.p.peers.Items[k] = it
	}
	n.p.RegisterUpdatedPeersCallback(func() {
		n.cbCount.Add(1)
		select {
		case n.cbSig <- struct{}{}:
		default:
		}
	})
	if err := n.p.Ready(); err != nil {
		return err
	}
	if !n.clock.waitUntil(n.clock.parked) {
		return fmt.Errorf("node %s: the Ready goroutine never waits on a ticker of the injected clock", id)
	}
	// do the code's constants fit the model's?
	n.pub = n.clock.pubTicker()
	d := time.Duration(n.pub.d.Load())
	ttl := n.p.peers.TTL
	delay := time.Duration(h.D) * h.unit
	switch {
	case d+delay > ttl || (!h.closed && d+delay == ttl):
		h.timing = fmt.Sprintf("refresh interval %v + delivery delay %v is not below the entry timeout %v: live entries expire between refreshes", d, delay, ttl)
	case d > time.Duration(h.rhi)*h.unit || ttl != time.Duration(h.T)*h.unit: // a shorter period only refreshes more often
		return fmt.Errorf("the specification's constants (gap %d..%d, timeout %d ticks of %v) do not cover the code's (refresh %v, timeout %v)", h.rlo, h.rhi, h.T, h.unit, d, ttl)
	}
	h.status[id] = "up"
	return nil
}

func (h *c18Harness) leave(id, how string) {
	h.hub.mu.Lock()
	h.hub.recv[id] = false
	delete(h.hub.queue, id)
	if how == "crashed" {
		h.hub.muted[id] = true
	}
	h.hub.mu.Unlock()
	h.status[id] = how
}

func (h *c18Harness) deliver(to, from, kind string) error {
	n := h.nodes[to]
	h.hub.mu.Lock()
	// registers of one sender that are in flight together travel together (in publish order)
	var msgs, rest []c18Msg
	for _, m := range h.hub.queue[to] {
		if m.from == from && m.kind == kind {
			msgs = append(msgs, m)
		} else {
			rest = append(rest, m)
		}
	}
	h.hub.queue[to] = rest
	sub, ok := h.hub.subs[to]
	h.hub.mu.Unlock()
	if len(msgs) == 0 || n == nil || !ok {
		return fmt.Errorf("no %s message from %s queued for %s", kind, from, to)
	}
	h0, ok0 := n.met.Get("peer_hash")
	before := n.cbCount.Load()
	for _, msg := range msgs {
		sub.cb(context.Background(), msg.payload)
	}
	// callbacks run in goroutines of their own: wait for them exactly when the
	// node reports a new peer hash
	if h1, ok1 := n.met.Get("peer_hash"); ok1 != ok0 || h1 != h0 {
		deadline := time.After(c18Hang)
		for n.cbCount.Load() == before {
			select {
			case <-n.cbSig:
			case <-deadline:
				return nil // no callback: the projection will say so
			}
		}
	}
	return nil
}

func (h *c18Harness) Apply(a map[string]any) (err error) {
	defer func() {
		if r := recover(); r != nil {
			h.panicked = fmt.Sprint(r)
			err = nil
		}
	}()
	for _, n := range h.nodes {
		n.cbSeen = n.cbCount.Load()
	}
	for drained := false; !drained; { // publish signals of earlier steps
		select {
		case <-h.hub.pubSig:
		default:
			drained = true
		}
	}
	id := verifkit.Str(a, "n")
	switch verifkit.Str(a, "name") {
	case "Start":
		return h.start(id)
	case "PublishTick", "PublishFail":
		n := h.nodes[id]
		t := n.pub
		c0 := t.calls.Load()
		h.hub.mu.Lock()
		h.hub.expect[id] = "R"
		h.hub.fail[id] = verifkit.Str(a, "name") == "PublishFail"
		h.hub.mu.Unlock()
		select {
		case t.out <- h.fc.Now():
		case <-time.After(c18Hang):
			return fmt.Errorf("node %s: the Ready goroutine does not receive from its refresh ticker", id)
		}
		h.hub.waitPublish(id) // no publish within the hang time: the projection will say so
		if !n.clock.waitUntil(func() bool { return t.calls.Load() > c0 }) {
			return fmt.Errorf("node %s: the Ready goroutine did not come back to its select after a tick", id)
		}
	case "Deliver":
		return h.deliver(verifkit.Str(a, "to"), verifkit.Str(a, "from"), verifkit.Str(a, "kind"))
	case "GracefulStop", "GracefulStopFail":
		n := h.nodes[id]
		h.leave(id, "stopped")
		h.hub.mu.Lock()
		h.hub.expect[id] = "U"
		h.hub.fail[id] = verifkit.Str(a, "name") == "GracefulStopFail"
		h.hub.mu.Unlock()
		n.doneClosed = true
		close(n.done)
		h.hub.waitPublish(id)
	case "Crash":
		h.leave(id, "crashed")
	case "Advance":
		h.fc.Advance(h.unit)
	default:
		return fmt.Errorf("unknown action %v", a)
	}
	return nil
}

func (h *c18Harness) Project() (out any, err error) {
	m := map[string]any{}
	defer func() {
		if r := recover(); r != nil {
			m["panic"] = fmt.Sprint(r)
			out, err = m, nil
		}
	}()
	back := map[string]string{}
	for _, tok := range h.addrTok {
		back[c18Address(tok)] = tok
	}
	peers := map[string]any{}
	cbs := []string{}
	off := []string{}
	for _, id := range h.ids {
		set := []string{}
		count := 0
		if n := h.nodes[id]; n != nil && h.status[id] == "up" {
			list, err := n.p.GetPeers()
			if err != nil {
				return nil, err
			}
			count = len(list)
			seen := map[string]bool{}
			for _, a := range list {
				if t, ok := back[a]; ok {
					a = t
				}
				if !seen[a] {
					seen[a] = true
					set = append(set, a)
				}
			}
		}
		peers[id] = map[string]any{"addrSet": set, "len": count}
		// the refresh period the node currently asks the clock for (NewTicker or a
		// later Reset) must not be longer than the envelope the model's ticker firings assume
		if n := h.nodes[id]; n != nil && n.pub != nil && h.status[id] == "up" {
			if d := time.Duration(n.pub.d.Load()); d > time.Duration(h.rhi)*h.unit {
				off = append(off, id)
			}
		}
		if n := h.nodes[id]; n != nil && h.observeCb && n.cbCount.Load() > n.cbSeen {
			cbs = append(cbs, id)
		}
	}
	pending := []any{}
	h.hub.mu.Lock()
	seenMsg := map[string]bool{}
	for to, q := range h.hub.queue {
		for _, msg := range q {
			if k := to + "|" + msg.from + "|" + msg.kind; !seenMsg[k] {
				seenMsg[k] = true
				pending = append(pending, map[string]any{"to": to, "from": msg.from, "kind": msg.kind})
			}
		}
	}
	h.hub.mu.Unlock()
	st := map[string]any{}
	for id, s := range h.status {
		st[id] = s
	}
	m["status"], m["peers"], m["pendingSet"], m["cbSet"], m["offSet"] = st, peers, pending, cbs, off
	if h.timing != "" {
		m["timing"] = h.timing
	}
	if h.panicked != "" {
		m["panic"] = h.panicked
	}
	return m, nil
}

func TestVerifC18Peers(t *testing.T) {
	h := &c18Harness{}
	err := verifkit.Main(h)
	h.shutdown()
	if err != nil {
		t.Fatal(err)
	}
}
