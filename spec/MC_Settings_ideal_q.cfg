SPECIFICATION Spec
CONSTANTS
  Classes = {"string", "hostport", "stringlist", "stringmap", "int", "duration", "memsize", "bool"}
  Uniform = TRUE
  Faithful = FALSE
INVARIANTS TypeOK LosersDoNotShow WinnerShows DefaultWhenUndefined SetVarsExpanded UnsetLeftAlone OtherKindsVerbatim ValidatedIsApplied DeviationsDiffer MapMergePerKey
PROPERTY InputsUntouched
CHECK_DEADLOCK FALSE
