//go:build verif

package route

// Binding of spec/Responses.tla (property C23) to real Routers.
//
// One specification walk = one request: Reset remembers the request (endpoint,
// encoding, injected faults, events), the single action Serve sends it for
// real and Project reports what a client and the router's neighbours saw:
//
//   - the request goes over loopback HTTP into the mux + middleware that
//     Router.LnS built (incoming router; the peer router for "peer-batch"), or
//     over loopback gRPC into the gRPC server LnS built;
//   - a recording http.ResponseWriter sits in front of the mux and counts the
//     WriteHeader calls and keeps the body bytes; the status is the one the
//     HTTP client / gRPC client received;
//   - faults come from outside: an invalid percent-escape in the dataset
//     path (raw TCP, no Go client will send it), a fake Honeycomb /1/auth
//     that answers 401 / 500 from its k-th call for the request on (every
//     request has a fresh API key; routers with an EnvironmentCacheTTL of
//     one hour and of one nanosecond, so that a cached environment has or
//     has not expired by the next lookup), corrupt gzip / zstd
//     bodies, malformed JSON / msgpack / protobuf, events without fields, batch
//     events with a negative samplerate (kind "neg") among valid ones, and
//     a stub collector that answers collect.ErrWouldBlock for the "full"
//     events;
//   - the stub collector and the two recording transmissions report which
//     event (field "eid") was handed where.

import (
	"bufio"
	"bytes"
	"compress/gzip"
	"context"
	"encoding/json"
	"fmt"
	"io"
	"log"
	"net"
	"net/http"
	"net/http/httptest"
	"strings"
	"sync"
	"testing"
	"time"

	huskyotlp "github.com/honeycombio/husky/otlp"
	"github.com/honeycombio/refinery/collect"
	"github.com/honeycombio/refinery/config"
	"github.com/honeycombio/refinery/internal/health"
	"github.com/honeycombio/refinery/internal/verifkit"
	"github.com/honeycombio/refinery/logger"
	"github.com/honeycombio/refinery/metrics"
	"github.com/honeycombio/refinery/sharder"
	"github.com/honeycombio/refinery/types"
	"github.com/vmihailenco/msgpack/v5"
	"go.opentelemetry.io/otel/trace/noop"
	collectorlogs "go.opentelemetry.io/proto/otlp/collector/logs/v1"
	collectortrace "go.opentelemetry.io/proto/otlp/collector/trace/v1"
	common "go.opentelemetry.io/proto/otlp/common/v1"
	logs "go.opentelemetry.io/proto/otlp/logs/v1"
	resource "go.opentelemetry.io/proto/otlp/resource/v1"
	trace "go.opentelemetry.io/proto/otlp/trace/v1"
	"google.golang.org/grpc"
	"google.golang.org/grpc/codes"
	"google.golang.org/grpc/credentials/insecure"
	"google.golang.org/grpc/metadata"
	"google.golang.org/grpc/status"
	"google.golang.org/protobuf/encoding/protojson"
	"google.golang.org/protobuf/proto"
)

const (
	c23MaxEvents = 4
	c23Dataset   = "c23ds"
	c23Timeout   = 60 * time.Second
)

// A classic key (32 hex digits): the router never looks its environment up.
const c23ClassicKey = "c23c23c23c23c23c23c23c23c23c23c2"

// Every request with an Environments & Services key uses a key of its own, so
// that no earlier request has left its environment in a router's cache and
// the request's first lookup always reaches the fake auth API.
var c23KeySeq int

func c23FreshESKey() string {
	c23KeySeq++
	return fmt.Sprintf("c23Key%016d", c23KeySeq)
}

// --- trace identities ------------------------------------------------------

// the kind of an event is carried by its trace ID
func c23JSONTraceID(kind string, i int) string { return fmt.Sprintf("c23%s%d", kind, i) }

func c23OTLPTraceIDBytes(kind string, i int) []byte {
	b := make([]byte, 16)
	b[0] = map[string]byte{"span": 0xa1, "peer": 0xe1, "full": 0xf1}[kind]
	b[1] = 0x23
	b[15] = byte(i)
	return b
}

func c23KindTable() (kinds map[string]string, peerIDs []string) {
	kinds = map[string]string{}
	for _, k := range []string{"span", "peer", "full"} {
		for i := 1; i <= c23MaxEvents; i++ {
			ids := []string{c23JSONTraceID(k, i), huskyotlp.BytesToTraceID(c23OTLPTraceIDBytes(k, i))}
			for _, id := range ids {
				kinds[id] = k
				if k == "peer" {
					peerIDs = append(peerIDs, id)
				}
			}
		}
	}
	return kinds, peerIDs
}

// --- what the router's neighbours see ----------------------------------------

type c23Effect struct {
	E  int    `json:"e"`
	To string `json:"to"`
}

type c23Sink struct {
	mu      sync.Mutex
	effects []c23Effect
	refused []int
	strange []string
}

func (s *c23Sink) reset() {
	s.mu.Lock()
	s.effects, s.refused, s.strange = nil, nil, nil
	s.mu.Unlock()
}

func c23EventID(p *types.Payload) (int, bool) {
	v, _ := p.Get("eid").(string)
	var i int
	if n, err := fmt.Sscanf(v, "e%d", &i); err != nil || n != 1 {
		return 0, false
	}
	return i, true
}

func (s *c23Sink) hand(p *types.Payload, to string) {
	s.mu.Lock()
	defer s.mu.Unlock()
	if i, ok := c23EventID(p); ok {
		s.effects = append(s.effects, c23Effect{E: i, To: to})
	} else {
		s.strange = append(s.strange, fmt.Sprintf("event without eid handed to %s", to))
	}
}

func (s *c23Sink) refuse(p *types.Payload) {
	s.mu.Lock()
	defer s.mu.Unlock()
	if i, ok := c23EventID(p); ok {
		s.refused = append(s.refused, i)
	} else {
		s.strange = append(s.strange, "event without eid refused by the collector")
	}
}

type c23Collector struct {
	sink  *c23Sink
	kinds map[string]string
}

func (c *c23Collector) add(sp *types.Span) error {
	if c.kinds[sp.TraceID] == "full" {
		c.sink.refuse(&sp.Data)
		return collect.ErrWouldBlock
	}
	c.sink.hand(&sp.Data, "collector")
	return nil
}
func (c *c23Collector) AddSpan(sp *types.Span) error         { return c.add(sp) }
func (c *c23Collector) AddSpanFromPeer(sp *types.Span) error { return c.add(sp) }
func (c *c23Collector) Stressed() bool                       { return false }
func (c *c23Collector) GetStressedSampleRate(string) (uint, bool, string) {
	return 1, true, ""
}
func (c *c23Collector) ProcessSpanImmediately(*types.Span) (bool, bool) { return false, false }

type c23Transmission struct {
	sink  *c23Sink
	where string
}

func (t *c23Transmission) EnqueueEvent(ev *types.Event) { t.sink.hand(&ev.Data, t.where) }
func (t *c23Transmission) EnqueueSpan(sp *types.Span)   { t.sink.hand(&sp.Data, t.where) }

// --- fake Honeycomb ---------------------------------------------------------

// c23Honeycomb is the fake auth API with a per-request fault schedule: from
// its failAt-th call since arm() on (0 = never) it answers failCode.
type c23Honeycomb struct {
	srv      *httptest.Server
	mu       sync.Mutex
	calls    int
	failAt   int
	failCode int
	strange  []string
}

func (h *c23Honeycomb) arm(failAt, failCode int) {
	h.mu.Lock()
	h.calls, h.failAt, h.failCode, h.strange = 0, failAt, failCode, nil
	h.mu.Unlock()
}

func c23NewHoneycomb() *c23Honeycomb {
	h := &c23Honeycomb{}
	h.srv = httptest.NewServer(http.HandlerFunc(func(w http.ResponseWriter, req *http.Request) {
		if req.URL.Path != "/1/auth" {
			w.WriteHeader(http.StatusNotFound)
			return
		}
		h.mu.Lock()
		h.calls++
		fail := h.failAt > 0 && h.calls >= h.failAt
		code := h.failCode
		if req.Header.Get("X-Honeycomb-Team") == c23ClassicKey {
			h.strange = append(h.strange, "environment of a classic key looked up")
		}
		h.mu.Unlock()
		if fail {
			w.WriteHeader(code)
			return
		}
		w.Header().Set("Content-Type", "application/json")
		json.NewEncoder(w).Encode(AuthInfo{
			APIKeyAccess: map[string]bool{"events": true},
			Team:         TeamInfo{Slug: "c23team"},
			Environment:  EnvironmentInfo{Slug: "c23env", Name: "c23env"},
			ID:           "c23keyid",
		})
	}))
	return h
}

// --- the recording front of the mux ------------------------------------------

type c23Rec struct {
	mu      sync.Mutex
	entered bool
	headers []int
	body    bytes.Buffer
	done    chan struct{}
}

type c23Writer struct {
	http.ResponseWriter
	rec *c23Rec
}

func (w *c23Writer) WriteHeader(code int) {
	w.rec.mu.Lock()
	w.rec.headers = append(w.rec.headers, code)
	w.rec.mu.Unlock()
	w.ResponseWriter.WriteHeader(code)
}

func (w *c23Writer) Write(b []byte) (int, error) {
	w.rec.mu.Lock()
	w.rec.body.Write(b)
	w.rec.mu.Unlock()
	return w.ResponseWriter.Write(b)
}

func (w *c23Writer) Flush() {
	if f, ok := w.ResponseWriter.(http.Flusher); ok {
		f.Flush()
	}
}

type c23Front struct {
	inner http.Handler
	mu    sync.Mutex
	cur   *c23Rec
}

func (f *c23Front) arm() *c23Rec {
	rec := &c23Rec{done: make(chan struct{})}
	f.mu.Lock()
	f.cur = rec
	f.mu.Unlock()
	return rec
}

func (f *c23Front) ServeHTTP(w http.ResponseWriter, req *http.Request) {
	f.mu.Lock()
	rec := f.cur
	f.cur = nil
	f.mu.Unlock()
	if rec == nil { // not one of ours
		f.inner.ServeHTTP(w, req)
		return
	}
	rec.mu.Lock()
	rec.entered = true
	rec.mu.Unlock()
	defer close(rec.done)
	f.inner.ServeHTTP(&c23Writer{ResponseWriter: w, rec: rec}, req)
}

// --- the environment: two routers and their front doors ---------------------

type c23Env struct {
	sink      *c23Sink
	honey     *c23Honeycomb
	routers   []*Router
	fronts    map[string]*c23Front // "incoming/hour", "peer/hour", "incoming/tiny", "peer/tiny"
	servers   map[string]*httptest.Server
	grpcConns map[string]*grpc.ClientConn // by ttl
}

// the environment cache TTLs behind the specification's names: with "tiny"
// an entry has expired by the time it is looked at again
var c23TTLs = map[string]time.Duration{"hour": time.Hour, "tiny": time.Nanosecond}

func c23NewRouter(rt types.RouterType, honeyURL string, sink *c23Sink, ttl time.Duration) (*Router, error) {
	kinds, peerIDs := c23KindTable()
	cfg := &config.MockConfig{
		GetHoneycombAPIVal:   honeyURL,
		GetListenAddrVal:     "127.0.0.1:0",
		GetPeerListenAddrVal: "127.0.0.1:0",
		GetGRPCEnabledVal:    true,
		GetGRPCListenAddrVal: "127.0.0.1:0",
		GetGRPCServerParameters: config.GRPCServerParameters{
			MaxSendMsgSize: 15_000_000,
			MaxRecvMsgSize: 15_000_000,
		},
		EnvironmentCacheTTL: ttl,
		TraceIdFieldNames:   []string{"trace.trace_id", "traceId"},
		ParentIdFieldNames:  []string{"trace.parent_id", "parentId"},
		GetSamplerTypeVal:   &config.DeterministicSamplerConfig{SampleRate: 1},
	}
	mm := &metrics.MockMetrics{}
	mm.Start()
	hr := &health.MockHealthReporter{}
	hr.SetAlive(true)
	hr.SetReady(true)
	r := &Router{
		Config:               cfg,
		Logger:               &logger.NullLogger{},
		Health:               hr,
		HTTPTransport:        &http.Transport{},
		UpstreamTransmission: &c23Transmission{sink: sink, where: "upstream"},
		PeerTransmission:     &c23Transmission{sink: sink, where: "peer"},
		Sharder: &sharder.MockSharder{
			Self:  &sharder.TestShard{Addr: "http://c23-self:8081"},
			Other: &sharder.TestShard{Addr: "http://c23-other:8081", TraceIDs: peerIDs},
		},
		Collector: &c23Collector{sink: sink, kinds: kinds},
		Metrics:   mm,
		Tracer:    noop.Tracer{},
	}
	r.SetVersion("c23")
	r.SetType(rt)
	r.LnS()
	if r.server == nil {
		return nil, fmt.Errorf("Router.LnS did not build its HTTP server")
	}
	return r, nil
}

func c23NewEnv(honey *c23Honeycomb) (*c23Env, error) {
	e := &c23Env{sink: &c23Sink{}, honey: honey, fronts: map[string]*c23Front{}, servers: map[string]*httptest.Server{}, grpcConns: map[string]*grpc.ClientConn{}}
	for ttlName, ttl := range c23TTLs {
		for name, rt := range map[string]types.RouterType{"incoming": types.RouterTypeIncoming, "peer": types.RouterTypePeer} {
			r, err := c23NewRouter(rt, honey.srv.URL, e.sink, ttl)
			if err != nil {
				return nil, err
			}
			e.routers = append(e.routers, r)
			f := &c23Front{inner: r.server.Handler}
			e.fronts[name+"/"+ttlName] = f
			srv := httptest.NewUnstartedServer(f)
			srv.Config.ErrorLog = log.New(io.Discard, "", 0) // "superfluous WriteHeader" is counted, not printed
			srv.Start()
			e.servers[name+"/"+ttlName] = srv
			if name == "incoming" {
				if r.grpcServer == nil {
					return nil, fmt.Errorf("Router.LnS did not build its gRPC server")
				}
				lis, err := net.Listen("tcp", "127.0.0.1:0")
				if err != nil {
					return nil, err
				}
				go r.grpcServer.Serve(lis)
				e.grpcConns[ttlName], err = grpc.NewClient(lis.Addr().String(), grpc.WithTransportCredentials(insecure.NewCredentials()))
				if err != nil {
					return nil, err
				}
			}
		}
	}
	return e, nil
}

func (e *c23Env) close() {
	for _, c := range e.grpcConns {
		c.Close()
	}
	for _, s := range e.servers {
		s.Close()
	}
	for _, r := range e.routers {
		r.Stop()
	}
}

// arm sets the auth API's fault schedule for the next request and returns the
// API key to send.
func (e *c23Env) arm(q *c23Req) (string, error) {
	code := 0
	switch q.Env {
	case "none":
		if q.EnvAt != 0 {
			return "", fmt.Errorf("schedule without a flavour: %+v", q)
		}
	case "401":
		code = http.StatusUnauthorized
	case "500":
		code = http.StatusInternalServerError
	default:
		return "", fmt.Errorf("env fault %q", q.Env)
	}
	if _, ok := c23TTLs[q.TTL]; !ok {
		return "", fmt.Errorf("ttl %q", q.TTL)
	}
	e.honey.arm(q.EnvAt, code)
	switch q.Key {
	case "es":
		return c23FreshESKey(), nil
	case "classic":
		return c23ClassicKey, nil
	}
	return "", fmt.Errorf("key class %q", q.Key)
}

// --- request bodies -----------------------------------------------------------

type c23Req struct {
	Ep, Enc, Dataset, Key, TTL, Env, Body, Parse string
	EnvAt                                        int
	Shape                                        []string
	Split                                        []int
}

// groups cuts the events into the resources of an OTLP request; every group
// is a list of (kind, global event number)
type c23Ev struct {
	kind string
	i    int
}

func (q *c23Req) groups() ([][]c23Ev, error) {
	out := [][]c23Ev{}
	n := 0
	for _, size := range q.Split {
		g := []c23Ev{}
		for k := 0; k < size; k++ {
			if n >= len(q.Shape) {
				return nil, fmt.Errorf("split %v does not fit shape %v", q.Split, q.Shape)
			}
			g = append(g, c23Ev{q.Shape[n], n + 1})
			n++
		}
		out = append(out, g)
	}
	if n != len(q.Shape) || len(out) == 0 {
		return nil, fmt.Errorf("split %v does not fit shape %v", q.Split, q.Shape)
	}
	return out, nil
}

func c23EventData(kind string, i int) map[string]any {
	if kind == "empty" {
		return map[string]any{}
	}
	d := map[string]any{"eid": fmt.Sprintf("e%d", i), "name": "c23 " + kind}
	if kind != "plain" {
		d["trace.trace_id"] = c23JSONTraceID(kind, i)
		d["trace.span_id"] = fmt.Sprintf("c23s%d", i)
		d["trace.parent_id"] = "c23parent"
	}
	return d
}

func c23Str(k, v string) *common.KeyValue {
	return &common.KeyValue{Key: k, Value: &common.AnyValue{Value: &common.AnyValue_StringValue{StringValue: v}}}
}

// every resource is a service of its own (husky: one batch, one dataset per resource)
func c23Resource(g int) *resource.Resource {
	return &resource.Resource{Attributes: []*common.KeyValue{c23Str("service.name", fmt.Sprintf("c23svc%d", g))}}
}

// a resource is present even without spans, so that the body is never zero bytes long
func c23TraceReq(groups [][]c23Ev) *collectortrace.ExportTraceServiceRequest {
	out := &collectortrace.ExportTraceServiceRequest{}
	for g, evs := range groups {
		spans := []*trace.Span{}
		for _, ev := range evs {
			spans = append(spans, &trace.Span{
				TraceId: c23OTLPTraceIDBytes(ev.kind, ev.i), SpanId: []byte{0xc2, 3, 0, 0, 0, 0, 0, byte(ev.i)}, ParentSpanId: []byte{0xc2, 3, 9, 9, 9, 9, 9, 9},
				Name: "c23 " + ev.kind, StartTimeUnixNano: 1700000000000000000, EndTimeUnixNano: 1700000001000000000,
				Attributes: []*common.KeyValue{c23Str("eid", fmt.Sprintf("e%d", ev.i))},
			})
		}
		out.ResourceSpans = append(out.ResourceSpans, &trace.ResourceSpans{Resource: c23Resource(g + 1), ScopeSpans: []*trace.ScopeSpans{{Spans: spans}}})
	}
	return out
}

func c23LogsReq(groups [][]c23Ev) *collectorlogs.ExportLogsServiceRequest {
	out := &collectorlogs.ExportLogsServiceRequest{}
	for g, evs := range groups {
		recs := []*logs.LogRecord{}
		for _, ev := range evs {
			rec := &logs.LogRecord{
				TimeUnixNano: 1700000000000000000,
				Body:         &common.AnyValue{Value: &common.AnyValue_StringValue{StringValue: "c23 " + ev.kind}},
				Attributes:   []*common.KeyValue{c23Str("eid", fmt.Sprintf("e%d", ev.i))},
			}
			if ev.kind != "plain" {
				rec.TraceId = c23OTLPTraceIDBytes(ev.kind, ev.i)
				rec.SpanId = []byte{0xc2, 3, 0, 0, 0, 0, 0, byte(ev.i)}
			}
			recs = append(recs, rec)
		}
		out.ResourceLogs = append(out.ResourceLogs, &logs.ResourceLogs{Resource: c23Resource(g + 1), ScopeLogs: []*logs.ScopeLogs{{LogRecords: recs}}})
	}
	return out
}

func c23Marshal(enc string, v any) ([]byte, string, error) {
	switch enc {
	case "json":
		if m, ok := v.(proto.Message); ok {
			b, err := protojson.Marshal(m)
			return b, "application/json", err
		}
		b, err := json.Marshal(v)
		return b, "application/json", err
	case "msgpack":
		b, err := msgpack.Marshal(v)
		return b, "application/msgpack", err
	case "protobuf", "grpc":
		b, err := proto.Marshal(v.(proto.Message))
		return b, "application/protobuf", err
	}
	return nil, "", fmt.Errorf("encoding %q", enc)
}

// the well-formed document of the request
func (q *c23Req) document() (any, error) {
	switch q.Ep {
	case "event":
		if len(q.Shape) != 1 {
			return nil, fmt.Errorf("/1/events takes one event, got %v", q.Shape)
		}
		return c23EventData(q.Shape[0], 1), nil
	case "batch", "peer-batch":
		evs := []map[string]any{}
		for n, kind := range q.Shape {
			// "neg": an otherwise ordinary span of this node whose envelope carries a
			// negative sample rate (an individually questionable event among valid ones)
			rate := 1
			if kind == "neg" {
				rate = -1
			}
			evs = append(evs, map[string]any{"samplerate": rate, "data": c23EventData(kind, n+1)})
		}
		return evs, nil
	case "otlp-http-traces", "otlp-grpc-traces":
		groups, err := q.groups()
		if err != nil {
			return nil, err
		}
		return c23TraceReq(groups), nil
	case "otlp-http-logs", "otlp-grpc-logs":
		groups, err := q.groups()
		if err != nil {
			return nil, err
		}
		return c23LogsReq(groups), nil
	}
	return nil, fmt.Errorf("unknown endpoint %q", q.Ep)
}

// payload applies the parse fault and then the body (compression) fault
func (q *c23Req) payload() (body []byte, ctype, cenc string, err error) {
	doc, err := q.document()
	if err != nil {
		return nil, "", "", err
	}
	body, ctype, err = c23Marshal(q.Enc, doc)
	if err != nil {
		return nil, "", "", err
	}
	switch q.Parse {
	case "none":
	case "garbage":
		body = []byte{0xff, 0xff, 0xff, 0xff, 0xff, 0xff, 0xff}
	case "ctype": // a content type OTLP/HTTP does not speak
		if !strings.HasPrefix(q.Ep, "otlp-http-") {
			return nil, "", "", fmt.Errorf("parse fault ctype on %s", q.Ep)
		}
		ctype = "text/plain"
	case "truncated":
		if len(body) == 0 {
			return nil, "", "", fmt.Errorf("cannot truncate an empty body (%s/%s)", q.Ep, q.Enc)
		}
		body = body[:len(body)-1]
	default:
		return nil, "", "", fmt.Errorf("parse fault %q", q.Parse)
	}
	switch q.Body {
	case "none":
	case "gzip": // announced as gzip, is not
		cenc = "gzip"
		body = append([]byte("c23 this is not a gzip stream "), body...)
	case "gziptrunc": // a gzip stream cut in the middle
		cenc = "gzip"
		var zb bytes.Buffer
		zw := gzip.NewWriter(&zb)
		zw.Write(body)
		zw.Write(bytes.Repeat([]byte("c23 padding "), 64))
		zw.Close()
		body = zb.Bytes()[:zb.Len()/2]
	case "zstd": // announced as zstd, is not
		cenc = "zstd"
		body = append([]byte("c23 this is not a zstd frame "), body...)
	default:
		return nil, "", "", fmt.Errorf("body fault %q", q.Body)
	}
	return body, ctype, cenc, nil
}

// --- sending ---------------------------------------------------------------

type c23Obs struct {
	status   string
	writes   int
	perEvent []int
	anomaly  string
}

// c23Docs splits a JSON response body into its top-level documents.
func c23Docs(body []byte) ([]any, bool) {
	docs := []any{}
	dec := json.NewDecoder(bytes.NewReader(body))
	for {
		var v any
		err := dec.Decode(&v)
		if err == io.EOF {
			return docs, true
		}
		if err != nil {
			return docs, false
		}
		docs = append(docs, v)
	}
}

func (e *c23Env) sendHTTP(q *c23Req) (*c23Obs, error) {
	which, path := "incoming", ""
	switch q.Ep {
	case "event":
		path = "/1/events/"
	case "batch":
		path = "/1/batch/"
	case "peer-batch":
		which, path = "peer", "/1/batch/"
	case "otlp-http-traces":
		path = "/v1/traces"
	case "otlp-http-logs":
		path = "/v1/logs"
	}
	if strings.HasPrefix(path, "/1/") {
		switch q.Dataset {
		case "none":
			path += c23Dataset
		case "badescape":
			path += "c23%zzds"
		default:
			return nil, fmt.Errorf("dataset fault %q", q.Dataset)
		}
	} else if q.Dataset != "none" {
		return nil, fmt.Errorf("dataset fault on %s", q.Ep)
	}
	body, ctype, cenc, err := q.payload()
	if err != nil {
		return nil, err
	}
	key, err := e.arm(q)
	if err != nil {
		return nil, err
	}
	srv := e.servers[which+"/"+q.TTL]
	rec := e.fronts[which+"/"+q.TTL].arm()

	var code int
	var rctype string
	var rb []byte
	if q.Dataset == "none" {
		hreq, err := http.NewRequest("POST", srv.URL+path, bytes.NewReader(body))
		if err != nil {
			return nil, err
		}
		hreq.Header.Set("Content-Type", ctype)
		hreq.Header.Set("User-Agent", "c23-client")
		hreq.Header.Set("X-Honeycomb-Team", key)
		hreq.Header.Set("X-Honeycomb-Dataset", c23Dataset)
		if cenc != "" {
			hreq.Header.Set("Content-Encoding", cenc)
		}
		ctx, cancel := context.WithTimeout(context.Background(), c23Timeout)
		defer cancel()
		resp, err := srv.Client().Do(hreq.WithContext(ctx))
		if err != nil {
			return nil, fmt.Errorf("POST %s: %w", path, err)
		}
		rb, err = io.ReadAll(resp.Body)
		resp.Body.Close()
		if err != nil {
			return nil, fmt.Errorf("reading the response body of %s: %w", path, err)
		}
		code, rctype = resp.StatusCode, resp.Header.Get("Content-Type")
	} else {
		// the request is written by hand: no Go client sends an invalid escape
		conn, err := net.Dial("tcp", srv.Listener.Addr().String())
		if err != nil {
			return nil, err
		}
		if tc, ok := conn.(*net.TCPConn); ok {
			tc.SetLinger(0) // no TIME_WAIT: thousands of these connections are made
		}
		defer conn.Close()
		conn.SetDeadline(time.Now().Add(c23Timeout))
		var head bytes.Buffer
		fmt.Fprintf(&head, "POST %s HTTP/1.1\r\nHost: c23\r\nUser-Agent: c23-client\r\nConnection: close\r\n", path)
		fmt.Fprintf(&head, "Content-Type: %s\r\nContent-Length: %d\r\n", ctype, len(body))
		fmt.Fprintf(&head, "X-Honeycomb-Team: %s\r\nX-Honeycomb-Dataset: %s\r\n", key, c23Dataset)
		if cenc != "" {
			fmt.Fprintf(&head, "Content-Encoding: %s\r\n", cenc)
		}
		head.WriteString("\r\n")
		if _, err := conn.Write(append(head.Bytes(), body...)); err != nil {
			return nil, err
		}
		resp, err := http.ReadResponse(bufio.NewReader(conn), nil)
		if err != nil {
			return nil, fmt.Errorf("reading the response of %s: %w", path, err)
		}
		rb, err = io.ReadAll(resp.Body)
		resp.Body.Close()
		if err != nil {
			return nil, fmt.Errorf("reading the response body of %s: %w", path, err)
		}
		code, rctype = resp.StatusCode, resp.Header.Get("Content-Type")
	}
	rec.mu.Lock()
	entered := rec.entered
	rec.mu.Unlock()
	if entered {
		select {
		case <-rec.done:
		case <-time.After(c23Timeout):
			return nil, fmt.Errorf("handler of %s did not return", path)
		}
	}

	o := &c23Obs{perEvent: []int{}}
	if code >= 200 && code < 300 {
		o.status = "ok"
	} else {
		o.status = "err"
	}
	if !entered {
		// answered by net/http itself: one status, by construction
		o.writes = 1
		return o, nil
	}
	rec.mu.Lock()
	defer rec.mu.Unlock()
	o.writes = len(rec.headers)
	if o.writes == 0 {
		o.writes = 1 // net/http writes the 200 when the handler returns
	}
	if !bytes.Equal(rec.body.Bytes(), rb) {
		o.anomaly = fmt.Sprintf("client read %q, handler wrote %q", rb, rec.body.Bytes())
	}
	if strings.Contains(rctype, "json") {
		docs, clean := c23Docs(rb)
		if !clean {
			o.anomaly = fmt.Sprintf("response announced as JSON is not: %q", rb)
		}
		// every document after the first is one more answer
		if len(docs) > o.writes {
			o.writes = len(docs)
		}
		for _, d := range docs {
			arr, isArr := d.([]any)
			if !isArr {
				continue
			}
			per := []int{}
			for _, x := range arr {
				m, _ := x.(map[string]any)
				st, _ := m["status"].(float64)
				per = append(per, int(st))
			}
			if len(o.perEvent) > 0 {
				o.anomaly = "two per-event lists in one response"
			}
			o.perEvent = per
		}
	}
	return o, nil
}

// c23RawCodec sends bytes as they are (to deliver malformed protobuf) and
// ignores the response message.
type c23RawCodec struct{}

func (c23RawCodec) Marshal(v any) ([]byte, error) { return v.([]byte), nil }
func (c23RawCodec) Unmarshal([]byte, any) error   { return nil }
func (c23RawCodec) Name() string                  { return "proto" }

func (e *c23Env) sendGRPC(q *c23Req) (*c23Obs, error) {
	if q.Dataset != "none" || q.Body != "none" {
		return nil, fmt.Errorf("fault not applicable to gRPC: %+v", q)
	}
	body, _, _, err := q.payload()
	if err != nil {
		return nil, err
	}
	key, err := e.arm(q)
	if err != nil {
		return nil, err
	}
	method := "/opentelemetry.proto.collector.trace.v1.TraceService/Export"
	if q.Ep == "otlp-grpc-logs" {
		method = "/opentelemetry.proto.collector.logs.v1.LogsService/Export"
	}
	md := metadata.New(map[string]string{"x-honeycomb-dataset": c23Dataset, "x-honeycomb-team": key})
	ctx, cancel := context.WithTimeout(context.Background(), c23Timeout)
	defer cancel()
	var out []byte
	err = e.grpcConns[q.TTL].Invoke(metadata.NewOutgoingContext(ctx, md), method, body, &out, grpc.ForceCodec(c23RawCodec{}))
	if c := status.Code(err); c == codes.DeadlineExceeded || c == codes.Unavailable || c == codes.Canceled {
		return nil, fmt.Errorf("gRPC transport: %w", err)
	}
	o := &c23Obs{perEvent: []int{}, writes: 1} // a unary call is answered once, by construction
	if err == nil {
		o.status = "ok"
	} else {
		o.status = "err"
	}
	return o, nil
}

// --- verifkit.Harness --------------------------------------------------------

type c23Harness struct {
	env     *c23Env
	req     c23Req
	obs     *c23Obs
	effects []c23Effect
	refused []int
	strange []string
}

func (h *c23Harness) Reset(init map[string]any) error {
	r, _ := init["req"].(map[string]any)
	if r == nil {
		return fmt.Errorf("initial state without req: %v", init)
	}
	h.req = c23Req{Ep: verifkit.Str(r, "ep"), Enc: verifkit.Str(r, "enc"), Dataset: verifkit.Str(r, "dataset"),
		Key: verifkit.Str(r, "key"), TTL: verifkit.Str(r, "ttl"), Env: verifkit.Str(r, "env"), EnvAt: verifkit.Int(r, "envAt"),
		Body: verifkit.Str(r, "body"), Parse: verifkit.Str(r, "parse"), Shape: []string{}, Split: []int{}}
	sh, _ := r["shape"].([]any)
	for _, k := range sh {
		h.req.Shape = append(h.req.Shape, k.(string))
	}
	sp, _ := r["split"].([]any)
	for _, n := range sp {
		f, _ := n.(float64)
		h.req.Split = append(h.req.Split, int(f))
	}
	if len(h.req.Shape) > c23MaxEvents {
		return fmt.Errorf("request with %d events, the harness knows %d trace identities", len(h.req.Shape), c23MaxEvents)
	}
	h.obs = nil
	h.effects, h.refused, h.strange = nil, nil, nil
	return nil
}

func (h *c23Harness) Apply(a map[string]any) error {
	if verifkit.Str(a, "name") != "Serve" {
		return fmt.Errorf("unknown action %v", a)
	}
	h.env.sink.reset()
	var err error
	if strings.HasPrefix(h.req.Ep, "otlp-grpc-") {
		h.obs, err = h.env.sendGRPC(&h.req)
	} else {
		h.obs, err = h.env.sendHTTP(&h.req)
	}
	if err != nil {
		return err
	}
	s := h.env.sink
	s.mu.Lock()
	h.effects = append([]c23Effect(nil), s.effects...)
	h.refused = append([]int(nil), s.refused...)
	h.strange = append([]string(nil), s.strange...)
	s.mu.Unlock()
	h.env.honey.mu.Lock()
	h.strange = append(h.strange, h.env.honey.strange...)
	h.env.honey.mu.Unlock()
	return nil
}

func (h *c23Harness) Project() (any, error) {
	out := map[string]any{"ep": h.req.Ep, "enc": h.req.Enc, "dataset": h.req.Dataset, "key": h.req.Key, "ttl": h.req.TTL,
		"env": h.req.Env, "envAt": h.req.EnvAt, "body": h.req.Body, "parse": h.req.Parse, "shape": h.req.Shape, "split": h.req.Split,
		"status": "none", "writes": 0, "perEvent": []int{}, "effectsSet": []c23Effect{}, "refusedSet": []int{}}
	if h.obs == nil {
		return out, nil
	}
	out["status"] = h.obs.status
	out["writes"] = h.obs.writes
	out["perEvent"] = h.obs.perEvent
	if len(h.effects) > 0 {
		out["effectsSet"] = h.effects
	}
	// refusals are compared only under a success answer (see Abs in Responses.tla)
	if h.obs.status == "ok" && len(h.refused) > 0 {
		out["refusedSet"] = h.refused
	}
	if h.obs.anomaly != "" {
		out["anomaly"] = h.obs.anomaly
	} else if len(h.strange) > 0 {
		out["anomaly"] = strings.Join(h.strange, "; ")
	}
	return out, nil
}

func TestVerifC23Responses(t *testing.T) {
	honey := c23NewHoneycomb()
	defer honey.srv.Close()
	env, err := c23NewEnv(honey)
	if err != nil {
		t.Fatal(err)
	}
	defer env.close()
	if err := verifkit.Main(&c23Harness{env: env}); err != nil {
		t.Fatal(err)
	}
}
