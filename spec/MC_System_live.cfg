SPECIFICATION FairSpec
CONSTANTS
  Nodes <- mc_Nodes2
  Traces <- mc_Traces4
  Owner <- mc_Owner4
  Keep <- mc_Keep4
  SamplerRate = 2
  CRates = {0, 3}
  Shapes = {"root-msgpack"}
  MaxSpans = 2
  StressNodes = {}
  SKeep = {}
  StressRate = 5
  WithPlain = TRUE
  Epochs = FALSE
  Compress = TRUE
INVARIANTS TypeOK
PROPERTIES Delivered ComesToRest
VIEW View
CHECK_DEADLOCK FALSE
