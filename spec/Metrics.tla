------------------------------ MODULE Metrics ------------------------------
(***************************************************************************)
(* metrics.MultiMetrics as a value store (property C33).                   *)
(*                                                                         *)
(* The real object keeps, per metric family, a sync.Map  name -> *atomic   *)
(* cell, plus a sync.Map name -> type written by Register.  The model is   *)
(* implementation shaped so that "Register replaces the cell" is           *)
(* expressible:                                                            *)
(*   reg[n]    TRUE once metricTypes has an entry for n                    *)
(*   gen[n]    0 = the value map has no cell for n; k = the k-th cell that *)
(*             was ever stored for n is the one the map points at          *)
(*   heap[n]   the cells ever allocated for n (cell k holds heap[n][k])    *)
(*   ideal[n]  ghost: what the property says Get(n) must return: the sum   *)
(*             of increments (counter), the last value (gauge, Store), ups *)
(*             minus downs (updown), 0 (histogram: not stored)             *)
(*                                                                         *)
(* Two grains share the state:                                             *)
(*   Spec (atomic grain): one action per public call (Register, RegisterAll,*)
(*     Increment, Count, Gauge, Up, Down, Store, Histogram).  This is the  *)
(*     graph the Go walker replays into a real MultiMetrics.               *)
(*   SpecFine: every public call is split into the sub-steps the           *)
(*     code performs on shared memory (sync.Map Load, LoadOrStore / Store, *)
(*     the atomic Add/Store/Load on the cell) and Threads interleave them. *)
(*     Pure model checking (no replay: the real sub-steps have no hooks).  *)
(*                                                                         *)
(* RegisterReplaces = FALSE is the behaviour the property demands (Register*)
(* keeps an existing cell: LoadOrStore).  RegisterReplaces = TRUE is what  *)
(* multi_metrics.go did before pending_fixes/C33-*.diff (Store of a fresh  *)
(* cell on every registration); TLC then reports ReadBack violated after   *)
(* Increment ; Register (MC_Metrics_unpatched.cfg, not part of the check). *)
(***************************************************************************)
EXTENDS Integers, FiniteSets, TLC, Json

CONSTANTS Counters, Gauges, UpDowns, Hists, Stores,  \* disjoint sets of strings
          MaxCount,          \* counters stay <= MaxCount (atomic grain)
          MaxNet,            \* updowns stay within -MaxNet .. MaxNet (atomic grain)
          Vals,              \* values given to Gauge / Store (positive integers)
          MaxGen,            \* cells per name (1 unless RegisterReplaces)
          Threads,           \* set of strings (fine grain), {} for atomic
          MaxOps,            \* public calls begun in total (fine grain)
          RegisterReplaces   \* FALSE: property / patched code; TRUE: unpatched code

VARIABLES reg, gen, heap, ideal,           \* the store
          pc, tn, top, tk, tp, gotOK, ops, \* fine grain: per thread program state
          act

store == <<reg, gen, heap, ideal>>
thr   == <<pc, tn, top, tk, tp, gotOK, ops>>
vars  == <<store, thr, act>>

Registrable == Counters \cup Gauges \cup UpDowns \cup Hists
Names       == Registrable \cup Stores
Stored      == Names \ Hists            \* names that have a value map

\* what Get(n) answers: 0 if there is no cell (never registered, never used), else the cell
CurVal(n) == IF gen[n] = 0 THEN 0 ELSE heap[n][gen[n]]

Abs == [ val |-> [n \in Names |-> CurVal(n)] ]

Init == /\ reg = [n \in Names |-> FALSE]
        /\ gen = [n \in Names |-> 0]
        /\ heap = [n \in Names |-> [g \in 1 .. MaxGen |-> 0]]
        /\ ideal = [n \in Names |-> 0]
        /\ pc = [t \in Threads |-> "idle"]
        /\ tn = [t \in Threads |-> ""]
        /\ top = [t \in Threads |-> ""]
        /\ tk = [t \in Threads |-> 0]
        /\ tp = [t \in Threads |-> 0]
        /\ gotOK = [t \in Threads |-> TRUE]
        /\ ops = 0
        /\ act = [name |-> "Init"]

-----------------------------------------------------------------------------
(* effects on the value map *)

\* sync.Map.LoadOrStore(n, fresh cell): keeps an existing cell
EnsuredGen(n) == IF gen[n] = 0 THEN 1 ELSE gen[n]

\* what Register does to the value map of a stored name
RegGen(n) == IF RegisterReplaces THEN gen[n] + 1 ELSE EnsuredGen(n)
RegHeap(h, n) == IF RegisterReplaces THEN [h EXCEPT ![n][gen[n] + 1] = 0] ELSE h
CanRegister(n) == RegisterReplaces /\ n \in Stored => gen[n] < MaxGen

\* the new value of a cell under an operation
NewVal(op, old, k) == IF op = "add" THEN old + k ELSE k

InRange(n, v) == /\ n \in Counters => v <= MaxCount
                 /\ n \in UpDowns => (v <= MaxNet /\ v >= 0 - MaxNet)

-----------------------------------------------------------------------------
(* atomic grain: one action per public call *)

Write(n, op, k) ==
  LET g == EnsuredGen(n) IN
  /\ gen' = [gen EXCEPT ![n] = g]
  /\ heap' = [heap EXCEPT ![n][g] = NewVal(op, heap[n][g], k)]
  /\ ideal' = [ideal EXCEPT ![n] = NewVal(op, ideal[n], k)]
  /\ UNCHANGED <<reg, thr>>

Register(n) ==
  /\ CanRegister(n)
  /\ reg' = [reg EXCEPT ![n] = TRUE]
  /\ IF n \in Hists THEN UNCHANGED <<gen, heap>>
     ELSE /\ gen' = [gen EXCEPT ![n] = RegGen(n)]
          /\ heap' = RegHeap(heap, n)
  /\ UNCHANGED <<ideal, thr>>
  /\ act' = [name |-> "Register", n |-> n]

\* one component registering its whole block of metrics (SamplerFactory.Start,
\* sample.newSamplerMetricNames, ...): Register(n) for every registrable name
RegisterAll ==
  /\ \A n \in Registrable : CanRegister(n)
  /\ reg' = [n \in Names |-> IF n \in Registrable THEN TRUE ELSE reg[n]]
  /\ gen' = [n \in Names |-> IF n \in Registrable \ Hists THEN RegGen(n) ELSE gen[n]]
  /\ heap' = [n \in Names |-> IF n \in Registrable \ Hists /\ RegisterReplaces
                                THEN [heap[n] EXCEPT ![gen[n] + 1] = 0] ELSE heap[n]]
  /\ UNCHANGED <<ideal, thr>>
  /\ act' = [name |-> "RegisterAll"]

Increment(n) == /\ InRange(n, ideal[n] + 1) /\ Write(n, "add", 1)
                /\ act' = [name |-> "Increment", n |-> n]
Count(n, k)  == /\ InRange(n, ideal[n] + k) /\ Write(n, "add", k)
                /\ act' = [name |-> "Count", n |-> n, k |-> k]
Up(n)        == /\ InRange(n, ideal[n] + 1) /\ Write(n, "add", 1)
                /\ act' = [name |-> "Up", n |-> n]
Down(n)      == /\ InRange(n, ideal[n] - 1) /\ Write(n, "add", 0 - 1)
                /\ act' = [name |-> "Down", n |-> n]
Gauge(n, v)  == /\ Write(n, "set", v)
                /\ act' = [name |-> "Gauge", n |-> n, v |-> v]
StoreVal(n, v) == /\ Write(n, "set", v)
                  /\ act' = [name |-> "Store", n |-> n, v |-> v]
\* histograms are forwarded to the children only; nothing is kept
Histogram(n, v) == /\ UNCHANGED <<store, thr>>
                   /\ act' = [name |-> "Histogram", n |-> n, v |-> v]

AtomicNext ==
  \/ \E n \in Registrable : Register(n)
  \/ RegisterAll
  \/ \E n \in Counters : Increment(n) \/ Count(n, 2)
  \/ \E n \in UpDowns : Up(n) \/ Down(n)
  \/ \E n \in Gauges, v \in Vals \cup {0} : Gauge(n, v)
  \/ \E n \in Stores, v \in Vals : StoreVal(n, v)
  \/ \E n \in Hists, v \in Vals : Histogram(n, v)

-----------------------------------------------------------------------------
(* fine grain: the shared-memory sub-steps of each call, interleaved *)

Idle(t) == pc[t] = "idle"
Goto(t, l) == pc' = [pc EXCEPT ![t] = l]

\* a thread enters Increment/Count/Up/Down (op "add"), Gauge/Store (op "set"),
\* Register (op "reg") or Get (op "get")
Begin(t, op, n, k) ==
  /\ Idle(t) /\ ops < MaxOps
  /\ ops' = ops + 1
  /\ tn' = [tn EXCEPT ![t] = n] /\ top' = [top EXCEPT ![t] = op] /\ tk' = [tk EXCEPT ![t] = k]
  /\ Goto(t, CASE op = "reg" -> "regtype" [] op = "get" -> "getload" [] OTHER -> "load")
  /\ UNCHANGED <<store, tp, gotOK>>
  /\ act' = [name |-> "Begin", t |-> t, op |-> op, n |-> n, k |-> k]

\* fast path: m.<map>.Load(name)
FLoad(t) ==
  /\ pc[t] = "load"
  /\ IF gen[tn[t]] # 0 THEN tp' = [tp EXCEPT ![t] = gen[tn[t]]] /\ Goto(t, "apply")
                       ELSE UNCHANGED tp /\ Goto(t, "los")
  /\ UNCHANGED <<store, tn, top, tk, gotOK, ops>>
  /\ act' = [name |-> "Load", t |-> t]

\* slow path: m.<map>.LoadOrStore(name, fresh)
FLoadOrStore(t) ==
  /\ pc[t] = "los"
  /\ gen' = [gen EXCEPT ![tn[t]] = EnsuredGen(tn[t])]
  /\ tp' = [tp EXCEPT ![t] = EnsuredGen(tn[t])]
  /\ Goto(t, "apply")
  /\ UNCHANGED <<reg, heap, ideal, tn, top, tk, gotOK, ops>>
  /\ act' = [name |-> "LoadOrStore", t |-> t]

\* the atomic Add / Store on the cell the thread holds a pointer to; this is
\* the linearization point of the recording, so the ghost moves here
FApply(t) ==
  /\ pc[t] = "apply"
  /\ heap' = [heap EXCEPT ![tn[t]][tp[t]] = NewVal(top[t], @, tk[t])]
  /\ ideal' = [ideal EXCEPT ![tn[t]] = NewVal(top[t], @, tk[t])]
  /\ Goto(t, "idle")
  /\ UNCHANGED <<reg, gen, tn, top, tk, tp, gotOK, ops>>
  /\ act' = [name |-> "Apply", t |-> t]

\* Register: m.metricTypes.Store(name, type) ...
FRegType(t) ==
  /\ pc[t] = "regtype"
  /\ reg' = [reg EXCEPT ![tn[t]] = TRUE]
  /\ Goto(t, IF tn[t] \in Hists THEN "idle" ELSE "regstore")
  /\ UNCHANGED <<gen, heap, ideal, tn, top, tk, tp, gotOK, ops>>
  /\ act' = [name |-> "RegType", t |-> t]

\* ... then the value map: LoadOrStore (property) or Store of a fresh cell (unpatched)
FRegStore(t) ==
  /\ pc[t] = "regstore" /\ CanRegister(tn[t])
  /\ gen' = [gen EXCEPT ![tn[t]] = RegGen(tn[t])]
  /\ heap' = RegHeap(heap, tn[t])
  /\ Goto(t, "idle")
  /\ UNCHANGED <<reg, ideal, tn, top, tk, tp, gotOK, ops>>
  /\ act' = [name |-> "RegStore", t |-> t]

\* Get: <map>.Load(name) ...
FGetLoad(t) ==
  /\ pc[t] = "getload"
  /\ IF gen[tn[t]] = 0
       THEN /\ gotOK' = [gotOK EXCEPT ![t] = (ideal[tn[t]] = 0)]   \* answers 0 / not found
            /\ UNCHANGED tp /\ Goto(t, "idle")
       ELSE /\ tp' = [tp EXCEPT ![t] = gen[tn[t]]] /\ UNCHANGED gotOK /\ Goto(t, "getread")
  /\ UNCHANGED <<store, tn, top, tk, ops>>
  /\ act' = [name |-> "GetLoad", t |-> t]

\* ... then the atomic Load of the cell: the value returned must be the recorded one
FGetRead(t) ==
  /\ pc[t] = "getread"
  /\ gotOK' = [gotOK EXCEPT ![t] = (heap[tn[t]][tp[t]] = ideal[tn[t]])]
  /\ Goto(t, "idle")
  /\ UNCHANGED <<store, tn, top, tk, tp, ops>>
  /\ act' = [name |-> "GetRead", t |-> t]

FineNext ==
  \E t \in Threads :
    \/ \E n \in Counters, k \in {1, 2} : Begin(t, "add", n, k)
    \/ \E n \in UpDowns, k \in {1, 0 - 1} : Begin(t, "add", n, k)
    \/ \E n \in Gauges \cup Stores, v \in Vals : Begin(t, "set", n, v)
    \/ \E n \in Registrable : Begin(t, "reg", n, 0)
    \/ \E n \in Stored : Begin(t, "get", n, 0)
    \/ FLoad(t) \/ FLoadOrStore(t) \/ FApply(t)
    \/ FRegType(t) \/ FRegStore(t) \/ FGetLoad(t) \/ FGetRead(t)

-----------------------------------------------------------------------------

\* two specifications over the same state (choose one in the .cfg)
Spec     == Init /\ [][AtomicNext]_vars
SpecFine == Init /\ [][FineNext]_vars

TypeOK == /\ reg \in [Names -> BOOLEAN]
          /\ gen \in [Names -> 0 .. MaxGen]
          /\ \A n \in Names : DOMAIN heap[n] = 1 .. MaxGen
          /\ \A n \in Names : ideal[n] \in Int
          /\ \A t \in Threads : pc[t] \in {"idle", "load", "los", "apply", "regtype", "regstore", "getload", "getread"}
          /\ ops \in 0 .. MaxOps
          /\ \A n \in Hists : gen[n] = 0

\* C33: what Get returns is what was recorded, whatever Register calls happened
ReadBack == \A n \in Names : CurVal(n) = ideal[n]

\* C33: a counter never decreases
CounterMonotone == [][\A n \in Counters : CurVal(n)' >= CurVal(n)]_vars

\* C33 (fine grain): every concurrent Get returns the recorded value of the instant it reads
GetLinearizable == \A t \in Threads : gotOK[t]

\* there is only ever one cell per name (what makes the fast path's stale pointer harmless)
SingleCell == \A n \in Names : gen[n] <= 1

\* edge dump used by the conformance replay (atomic grain cfgs only)
St == [reg |-> reg, gen |-> gen, val |-> [n \in Names |-> CurVal(n)], ideal |-> ideal]
Dump == PrintT(ToJson([fs |-> St, fa |-> act.name, act |-> act', ts |-> St', fabs |-> Abs, tabs |-> Abs']))
View == <<reg, gen, heap, ideal, pc, tn, top, tk, tp, gotOK, ops>>
=============================================================================
