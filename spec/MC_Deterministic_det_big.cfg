SPECIFICATION Spec
CONSTANTS
  Kind = "det"
  H = 31
  Rates = {1, 2, 3, 4, 5, 8, 16}
  Insts = {"A", "B"}
  Tables = {"small", "large", "extreme"}
  ExtremeFrom = 8
  Profiles = {"default"}
  Rejectable = {}
INVARIANTS TypeOK BoundIsThreshold KeepIsThreshold RateLE1KeepsAll InstancesAgree NestedAnswers
PROPERTIES AskingIsPure ConfigureIsLocal ConfigureTakesEffect
ACTION_CONSTRAINT Dump
VIEW View
