SPECIFICATION Spec
CONSTANTS
  Mode = "pipeline"
  Shapes <- ShapesPipe
  Names = {"prod", "web"}
  Prefixes = {"", "cls"}
  RuleSets <- RuleSetsAll
  DefaultKinds = {"det", "dyn"}
  DetRuleSets <- RuleSetsQuick
  Encs = {"json", "msgpack", "event"}
  Auths = {"ok", "fail"}
  WithReload = TRUE
  Faithful = FALSE
  UpperHexIsClassic = FALSE
INVARIANTS TypeOK EnvKeyUsesEnvironment ClassicKeyUsesDataset DocumentedShapes NeverWithoutSampler PrefixSeparates ExtractedIsWhatDeciderReads DecisionOfOneTarget NoUnknownEnvironmentIngested
PROPERTY DecisionFollowsRules
ACTION_CONSTRAINT Dump
VIEW View
CHECK_DEADLOCK FALSE
