SPECIFICATION Spec
CONSTANTS
  Kind = "det"
  H = 15
  Rates = {1, 2, 3, 8}
  Insts = {"A", "B"}
  Tables = {"small", "large", "extreme"}
  ExtremeFrom = 3
  Profiles = {"default"}
  Rejectable = {}
INVARIANTS TypeOK BoundIsThreshold KeepIsThreshold RateLE1KeepsAll InstancesAgree NestedAnswers
PROPERTIES AskingIsPure ConfigureIsLocal ConfigureTakesEffect
ACTION_CONSTRAINT Dump
VIEW View
