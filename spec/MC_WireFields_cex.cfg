SPECIFICATION Spec
CONSTANTS
  Spans <- mc_Spans
  Root = "r"
  ClientNames <- mc_ClientNames
  PathNames <- mc_PathNames
  Under <- mc_Under
  Shapes <- mc_Shapes
  Samplers <- mc_Samplers
  Profiles <- mc_Profiles
  IngestPaths = {"msgp", "map"}
  Crate <- mc_Crate
  Variants = {1}
  DecideHows = {"timer", "eject"}
  CacheNested = TRUE
CHECK_DEADLOCK FALSE
INVARIANTS TypeOK C20ExactlyClient C20BufferedUntouched C20OnlyDocumented C20Forwarding MemoSound MissingSound
PROPERTIES C20ReadsArePure C20Monotone
