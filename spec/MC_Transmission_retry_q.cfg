SPECIFICATION Spec
CONSTANTS
  Dests = {"B"}
  Sizes = {200, 1000001}
  EventMax = 1000000
  BodyMax = 5000000
  MaxBatch = 2
  Sub = 1
  MaxEvents = 2
  MaxNow = 1
  MaxFaults = 2
  Behaviours = {"ok", "evErr", "short", "undec", "e500", "r429_1", "r503_2", "r429_0", "r429_60", "timeout"}
  Coarse = TRUE
  Loose = TRUE
INVARIANTS TypeOK OwnDestination ExactlyOneBatch OversizeCounted BodyWithinLimit CountWithinLimit AtMostTwice Timely StopFlushes GaugeExact Conservation
VIEW View
CHECK_DEADLOCK FALSE
ACTION_CONSTRAINT Dump
