---------------------------- MODULE Transmission ----------------------------
(***************************************************************************)
(* transmit.DirectTransmission (property C26).                             *)
(*                                                                         *)
(* The whole component state is one record `s`, every critical section of  *)
(* direct_transmit.go is a function on that record:                        *)
(*                                                                         *)
(*   EnqueueF    EnqueueEvent: append to the batch of the event's          *)
(*               (host,key,dataset), start a batch clock on the first      *)
(*               event, cut the batch at MaxBatch, Up the gauge            *)
(*   AdvanceF    the clock moves one unit; the stale checker may run       *)
(*   CutF        one iteration of dispatchStaleBatches.  The statement     *)
(*               only bounds the latency (<= 1.25 x BatchTimeout), it does *)
(*               not fix how often the checker runs: a batch MAY be cut at *)
(*               any grid instant at which it is >= BatchTimeout old and   *)
(*               MUST be cut by the one at which it is 1.25 x BatchTimeout *)
(*               old (the code: first BatchTimeout/4 tick at or after      *)
(*               BatchTimeout; any check period <= BatchTimeout/4 fits)    *)
(*   PackF       head of the sendBatch loop: greedy in-order packing of    *)
(*               the remaining events into one request body, dropping      *)
(*               events that alone exceed EventMax, then the first attempt *)
(*   RespondF    the server's answer to the outstanding attempt: retry     *)
(*               decision, per-event outcomes, metrics                     *)
(*   WakeF       return from Clock.Sleep(Retry-After)                      *)
(*   StopBeginF  Stop: stale goroutine exits, all pending batches are cut  *)
(*   (StopEnd)   dispatch pool drained, Stop returns                       *)
(*                                                                         *)
(* Sizes are bytes of one serialized event (the quantity sendBatch         *)
(* compares with apiMaxEventSize); the harness pads real payloads to       *)
(* exactly these sizes.  Time is in units of BatchTimeout/(4*Sub).         *)
(*                                                                         *)
(* Two next-state relations over the same functions:                       *)
(*   Coarse = FALSE  every critical section is its own step, sendBatch     *)
(*                   goroutines interleave freely (pure model checking);   *)
(*   Coarse = TRUE   only the environment acts (Enqueue, Tick, Respond,    *)
(*                   Stop) and the component runs to quiescence after      *)
(*                   each (every sendBatch goroutine is blocked on the     *)
(*                   server, asleep on the clock, or finished).  This is   *)
(*                   the graph replayed into the real DirectTransmission;  *)
(*                   it is deterministic because sendBatch goroutines only *)
(*                   share commutative counters.                           *)
(* Loose = TRUE adds, under the same labels, every behaviour the C26       *)
(* statement leaves open (see "conventions left open" below).              *)
(***************************************************************************)
EXTENDS Integers, Sequences, FiniteSets, TLC, Json

CONSTANTS Dests,       \* subset of {"A","B","C","D"}: destinations in play
          Sizes,       \* serialized event sizes (bytes) Enqueue may choose
          EventMax,    \* apiMaxEventSize  (1000000)
          BodyMax,     \* apiMaxBatchSize  (5000000)
          MaxBatch,    \* MaxBatchSize
          Sub,         \* grid resolution: BatchTimeout = 4*Sub clock units
          MaxEvents,   \* bound: events enqueued in one run
          MaxNow,      \* bound: horizon in units
          MaxFaults,   \* bound: server answers other than plain success
          Behaviours,  \* server behaviours in play (names below)
          Coarse,      \* see above
          Loose        \* see above

VARIABLES s, act
vars == <<s, act>>

\* concretisation of the destinations: each differs from A in exactly one component
Triples == [ A |-> [host |-> "h1", key |-> "k1", ds |-> "d1"],
             B |-> [host |-> "h1", key |-> "k1", ds |-> "d 2/x%"],
             C |-> [host |-> "h1", key |-> "k2", ds |-> "d1"],
             D |-> [host |-> "h2", key |-> "k1", ds |-> "d1"] ]

TU    == 4 * Sub      \* BatchTimeout
Limit == 5 * Sub      \* 1.25 x BatchTimeout
Slack == 5            \* bytes sendBatch reserves for the array header

\* ---- server behaviours -------------------------------------------------
OkB       == {"ok", "ok_m"}              \* 200, every event 202 (JSON / msgpack body)
EvErrB    == {"evErr", "evErr_m"}        \* 200, first event 400, others 202
ShortB    == {"short", "short_m"}        \* 200, one response too few (last event missing)
UndecB    == {"undec", "undec_m"}        \* 200, undecodable body
HttpErrB  == {"e400", "e401", "e500"}    \* other statuses
ThrottleB == {"r429_1", "r503_1", "r503_2", "r429_none", "r429_date", "r429_junk",
              "r429_0", "r429_past", "r429_60"}
TimeoutB  == {"timeout"}
AllB      == OkB \cup EvErrB \cup ShortB \cup UndecB \cup HttpErrB \cup ThrottleB \cup TimeoutB

\* what sendBatch computes as the sleep before a retry, in units (1 unit = 1 s):
\* absent header or junk -> default 1 s; HTTP-date -> Clock.Until
Delay(b) == CASE b \in {"r429_1", "r503_1", "r429_none", "r429_date", "r429_junk"} -> 1
              [] b = "r503_2"    -> 2
              [] b = "r429_0"    -> 0
              [] b = "r429_past" -> 0 - 1
              [] b = "r429_60"   -> 60
              [] OTHER           -> 0
CodeRetries(b) == b \in ThrottleB /\ Delay(b) > 0 /\ Delay(b) < 60
\* C26: a second attempt is licensed only by a timeout or a 429/503 whose
\* Retry-After is under 60 s (absent / unparsable / past values are not "60 s or more")
Licensed(b) == b \in TimeoutB \/ (b \in ThrottleB /\ Delay(b) < 60)

\* ---- helpers -------------------------------------------------------------
Range(q) == {q[i] : i \in 1..Len(q)}
Max2(a, b) == IF a >= b THEN a ELSE b
RECURSIVE SumSz(_, _)
SumSz(evs, q) == IF q = <<>> THEN 0 ELSE evs[Head(q)].sz + SumSz(evs, Tail(q))
HdrLen(n) == IF n <= 15 THEN 1 ELSE 3           \* msgpack array header
Body(evs, q) == HdrLen(Len(q)) + SumSz(evs, q)  \* the request body really sent
Bump(c, f, n) == [c EXCEPT ![f] = @ + n]
SetOut(out, S, o) == [i \in 1..Len(out) |-> IF i \in S THEN o ELSE out[i]]
EmptyBatch == [ids |-> <<>>, start |-> 0 - 1]
MinOf(S) == CHOOSE x \in S : \A y \in S : x <= y

NewJob(t, k) == [id |-> t.pend[k].ids[1], key |-> k, dest |-> "", rest |-> t.pend[k].ids,
                 sub |-> <<>>, try |-> 0, pc |-> "pack", wake |-> 0, why |-> ""]
Req(j, why) == [tag |-> j.sub[1], ids |-> j.sub, dest |-> j.dest, try |-> j.try, why |-> why]
Replace(t, j, j2) == [t EXCEPT !.jobs = (@ \ {j}) \cup {j2}]

Init == /\ s = [ evs   |-> <<>>,                       \* [k, sz] of event i (enqueue order)
                 out   |-> <<>>,                       \* outcome of event i
                 pend  |-> [k \in Dests |-> EmptyBatch],
                 now   |-> 0,
                 tickDue |-> FALSE,                    \* (interleaved model) the stale checker has not yet looked at this instant
                 jobs  |-> {},                         \* running sendBatch calls
                 c     |-> [r20x |-> 0, respErr |-> 0, sendErr |-> 0, retries |-> 0, ups |-> 0, downs |-> 0],
                 errLog |-> {},                        \* events named in an error log line
                 reqs  |-> {},                         \* history: every request put on the wire
                 stop  |-> "no",
                 faults |-> 0,
                 maxCutAge |-> 0 ]
        /\ act = [name |-> "Init"]

\* ---- EnqueueEvent ------------------------------------------------------
EnqueueF(t, k, z) ==
  LET id == Len(t.evs) + 1
      p  == t.pend[k]
      p2 == [ids |-> Append(p.ids, id), start |-> IF p.ids = <<>> THEN t.now ELSE p.start]
      t1 == [t EXCEPT !.evs = Append(@, [k |-> k, sz |-> z]), !.out = Append(@, "none"),
                      !.pend[k] = p2, !.c = Bump(@, "ups", 1)]
  IN IF Len(p2.ids) >= MaxBatch
       THEN [t1 EXCEPT !.jobs = @ \cup {NewJob(t1, k)}, !.pend[k] = EmptyBatch,
                       !.maxCutAge = Max2(@, t.now - p2.start)]
       ELSE t1

\* ---- clock and stale dispatch -----------------------------------------
AdvanceF(t) == [t EXCEPT !.now = @ + 1, !.tickDue = (t.stop = "no")]

Age(t, k)      == t.now - t.pend[k].start
Eligible(t)    == {k \in Dests : t.pend[k].ids # <<>> /\ Age(t, k) >= TU}
MustCut(t)     == {k \in Eligible(t) : Age(t, k) >= Limit}
CutSets(t)     == {C \in SUBSET Eligible(t) : MustCut(t) \subseteq C}
CutF(t, C) ==
  LET ages == {Age(t, k) : k \in C}
  IN [t EXCEPT !.pend = [k \in Dests |-> IF k \in C THEN EmptyBatch ELSE @[k]],
               !.jobs = @ \cup {NewJob(t, k) : k \in C},
               !.maxCutAge = IF ages = {} THEN @ ELSE Max2(@, CHOOSE a \in ages : \A b \in ages : a >= b),
               !.tickDue = FALSE]

\* ---- Stop ----------------------------------------------------------------
StopBeginF(t) ==
  LET due == {k \in Dests : t.pend[k].ids # <<>>}
  IN [t EXCEPT !.pend = [k \in Dests |-> EmptyBatch],
               !.jobs = @ \cup {NewJob(t, k) : k \in due},
               !.tickDue = FALSE, !.stop = "stopping"]

\* ---- sendBatch: packing ------------------------------------------------
\* the inner for-loop: i index into rest, size bytes packed so far
RECURSIVE Scan(_, _, _, _, _, _)
Scan(evs, rest, i, size, sub, drop) ==
  IF i > Len(rest) THEN [sub |-> sub, drop |-> drop, next |-> i]
  ELSE LET e == rest[i] IN
       IF evs[e].sz > EventMax THEN Scan(evs, rest, i + 1, size, sub, Append(drop, e))
       ELSE IF size + evs[e].sz > BodyMax THEN [sub |-> sub, drop |-> drop, next |-> i]
       ELSE Scan(evs, rest, i + 1, size + evs[e].sz, Append(sub, e), drop)

PackF(t, j) ==
  LET r  == Scan(t.evs, j.rest, 1, Slack, <<>>, <<>>)
      D  == Range(r.drop)
      n  == Cardinality(D)
      t1 == [t EXCEPT !.out = SetOut(@, D, "oversize"), !.errLog = @ \cup D,
                      !.c = Bump(Bump(@, "respErr", n), "downs", n)]
      j2 == [j EXCEPT !.rest = SubSeq(j.rest, r.next, Len(j.rest)), !.sub = r.sub, !.try = 1,
                      !.pc = "sent", !.dest = t.evs[j.rest[1]].k]   \* destination read from wholeBatch[0]
  IN IF r.sub = <<>> THEN [t1 EXCEPT !.jobs = @ \ {j}]
     ELSE [Replace(t1, j, j2) EXCEPT !.reqs = @ \cup {Req(j2, "first")}]

\* the sub-batch has its outcomes: next sub-batch or end of sendBatch
NextSub(t, j) == IF j.rest = <<>> THEN [t EXCEPT !.jobs = @ \ {j}]
                 ELSE Replace(t, j, [j EXCEPT !.sub = <<>>, !.try = 0, !.pc = "pack", !.why = ""])

\* outcomes of one sub-batch: okS succeed, errS are per-event errors, failS fail with the batch
Effect(t, j, okS, errS, failS, sendErr) ==
  LET n == Len(j.sub)
      c1 == Bump(Bump(Bump(t.c, "r20x", Cardinality(okS)), "respErr", Cardinality(errS)), "sendErr", sendErr)
      c2 == Bump(c1, "downs", n)
  IN NextSub([t EXCEPT !.c = c2,
                       !.out = SetOut(SetOut(SetOut(@, okS, "ok"), errS, "err"), failS, "fail"),
                       !.errLog = @ \cup errS \cup (IF failS = {} THEN {} ELSE {j.sub[1]})], j)

Reattempt(t, j, why) ==
  LET j2 == [j EXCEPT !.try = 2, !.pc = "sent", !.why = ""]
  IN [Replace(t, j, j2) EXCEPT !.c = Bump(@, "retries", 1), !.reqs = @ \cup {Req(j2, why)}]

HttpError(t, j) == Effect(t, j, {}, Range(j.sub), {}, 1)

\* what the code does with answer b
RespondCode(t, j, b) ==
  LET all == Range(j.sub)
      n   == Len(j.sub)
  IN CASE b \in TimeoutB  -> IF j.try = 1 THEN Reattempt(t, j, b)
                             ELSE Effect(t, j, {}, {}, all, 1)      \* handleBatchFailure
       [] b \in ThrottleB -> IF CodeRetries(b)
                               THEN Replace(t, j, [j EXCEPT !.pc = "sleep", !.wake = t.now + Delay(b), !.why = b])
                               ELSE HttpError(t, j)
       [] b \in HttpErrB  -> HttpError(t, j)
       [] b \in OkB       -> Effect(t, j, all, {}, {}, 0)
       [] b \in EvErrB    -> Effect(t, j, all \ {j.sub[1]}, {j.sub[1]}, {}, 0)
       [] b \in ShortB    -> Effect(t, j, all \ {j.sub[n]}, {j.sub[n]}, {}, 0)
       [] b \in UndecB    -> Effect(t, j, {}, all, {}, 0)

\* return from Clock.Sleep: first attempt -> retry; second attempt -> the loop is over, the
\* (already closed) throttle response is processed as an HTTP error
WakeCode(t, j) == IF j.try = 1 THEN Reattempt(t, j, j.why) ELSE HttpError(t, j)

\* ---- conventions the statement leaves open (Loose) -----------------------
\* after a licensed answer the batch may or may not be retried, with or without
\* sleeping; after the second attempt the outcome may come before or after a sleep
Sleep(t, j, b, d) == Replace(t, j, [j EXCEPT !.pc = "sleep", !.wake = t.now + d, !.why = b])
RespondSet(t, j, b) ==
  IF ~Loose THEN {RespondCode(t, j, b)}
  ELSE {RespondCode(t, j, b)}
       \* first attempt, licensed throttle: retry (after the sleep the code computes, or at once
       \* when it computes none) or give up
       \cup (IF b \in ThrottleB /\ j.try = 1 /\ Licensed(b)
               THEN {HttpError(t, j), IF CodeRetries(b) THEN Sleep(t, j, b, Delay(b)) ELSE Reattempt(t, j, b)}
               ELSE {})
       \* second attempt throttled: outcome at once or after another sleep
       \cup (IF b \in ThrottleB /\ j.try = 2
               THEN {HttpError(t, j)} \cup (IF CodeRetries(b) THEN {Sleep(t, j, b, Delay(b))} ELSE {})
               ELSE {})
       \* first attempt timed out: retry or fail the batch
       \cup (IF b \in TimeoutB /\ j.try = 1 THEN {Effect(t, j, {}, {}, Range(j.sub), 1)} ELSE {})

\* ---- run to quiescence ---------------------------------------------------
Packing(t)  == {j \in t.jobs : j.pc = "pack"}
Waking(t)   == {j \in t.jobs : j.pc = "sleep" /\ j.wake <= t.now}
ById(J)     == CHOOSE j \in J : \A i \in J : j.id <= i.id
RECURSIVE Close(_)
Close(t) == IF Packing(t) # {} THEN Close(PackF(t, ById(Packing(t))))
            ELSE IF Waking(t) # {} THEN Close(WakeCode(t, ById(Waking(t))))
            ELSE IF t.stop = "stopping" /\ t.jobs = {} THEN [t EXCEPT !.stop = "stopped"]
            ELSE t

\* what the harness waits for before it reads the projection
W(t) == [pendSet |-> UNION {Range(t.pend[k].ids) : k \in Dests}, reqs |-> Cardinality(t.reqs), downs |-> t.c.downs,
         sleepers |-> Cardinality({j \in t.jobs : j.pc = "sleep"}), stopped |-> t.stop = "stopped"]

Step(T, a) == \E t \in T : s' = t /\ act' = a @@ [wait |-> {W(u) : u \in T}]

Sent(t) == {j \in t.jobs : j.pc = "sent"}
FaultOK(t, b) == b \in OkB \/ t.faults < MaxFaults
CountFault(t, b) == IF b \in OkB THEN t ELSE [t EXCEPT !.faults = @ + 1]
TickOK(t) == t.stop # "stopped" /\ (t.now < MaxNow \/ \E j \in t.jobs : j.pc = "sleep")

CoarseNext ==
  \/ \E k \in Dests, z \in Sizes :
       /\ s.stop = "no" /\ Len(s.evs) < MaxEvents
       /\ Step({Close(EnqueueF(s, k, z))}, [name |-> "Enqueue", k |-> k, sz |-> z])
  \/ /\ TickOK(s)
     /\ LET a == AdvanceF(s)
        IN Step({Close(CutF(a, C)) : C \in (IF s.stop = "no" THEN CutSets(a) ELSE {{}})}, [name |-> "Tick"])
  \/ \E j \in Sent(s), b \in Behaviours :
       /\ FaultOK(s, b)
       /\ Step({Close(t) : t \in RespondSet(CountFault(s, b), j, b)}, [name |-> "Respond", m |-> j.sub[1], b |-> b])
  \/ /\ s.stop = "no"
     /\ Step({Close(StopBeginF(s))}, [name |-> "Stop"])

FineNext ==
  \/ \E k \in Dests, z \in Sizes :
       /\ s.stop = "no" /\ Len(s.evs) < MaxEvents
       /\ s' = EnqueueF(s, k, z) /\ act' = [name |-> "Enqueue"]
  \* assumption: the stale checker looks at every grid instant, and a goroutine whose sleep
  \* is over resumes, before the clock moves on
  \/ /\ TickOK(s) /\ ~s.tickDue /\ Waking(s) = {}
     /\ s' = AdvanceF(s) /\ act' = [name |-> "Advance"]
  \/ /\ s.tickDue
     /\ \E C \in CutSets(s) : s' = CutF(s, C)
     /\ act' = [name |-> "StalePass"]
  \/ \E j \in Packing(s) : s' = PackF(s, j) /\ act' = [name |-> "Pack"]
  \/ \E j \in Sent(s), b \in Behaviours :
       /\ FaultOK(s, b)
       /\ \E t \in RespondSet(CountFault(s, b), j, b) : s' = t
       /\ act' = [name |-> "Respond"]
  \/ \E j \in Waking(s) : s' = WakeCode(s, j) /\ act' = [name |-> "Wake"]
  \/ /\ s.stop = "no" /\ ~s.tickDue
     /\ s' = StopBeginF(s) /\ act' = [name |-> "StopBegin"]
  \/ /\ s.stop = "stopping" /\ s.jobs = {}
     /\ s' = [s EXCEPT !.stop = "stopped"] /\ act' = [name |-> "StopEnd"]

Next == IF Coarse THEN CoarseNext ELSE FineNext
Spec == Init /\ [][Next]_vars

\* ---- properties (C26) ----------------------------------------------------
N == Len(s.evs)
Outcomes == {"none", "ok", "err", "fail", "oversize"}

TypeOK ==
  /\ Len(s.out) = N /\ N <= MaxEvents
  /\ \A e \in 1..N : s.evs[e].k \in Dests /\ s.evs[e].sz \in Sizes /\ s.out[e] \in Outcomes
  /\ \A k \in Dests : Range(s.pend[k].ids) \subseteq 1..N
  /\ s.now \in 0..(MaxNow + 2 * MaxFaults + 2)
  /\ s.stop \in {"no", "stopping", "stopped"}
  /\ \A j \in s.jobs : /\ j.pc \in {"pack", "sent", "sleep"}
                       /\ j.try \in 0..2
                       /\ Range(j.rest) \cup Range(j.sub) \subseteq 1..N
  /\ \A f \in DOMAIN s.c : s.c[f] \in Nat
  /\ s.faults \in 0..MaxFaults

ReqsOf(e) == {r \in s.reqs : e \in Range(r.ids)}

\* every request is addressed to the destination of each event it carries
OwnDestination == \A r \in s.reqs : \A e \in Range(r.ids) : s.evs[e].k = r.dest

\* an event is placed in at most one batch (attempts of one batch carry the same events to the
\* same place), never if it is oversized; an event with a delivery outcome was in a batch
ExactlyOneBatch ==
  \A e \in 1..N :
    /\ \A r1, r2 \in ReqsOf(e) : r1.tag = r2.tag /\ r1.ids = r2.ids /\ r1.dest = r2.dest
    /\ s.evs[e].sz > EventMax => ReqsOf(e) = {}
    /\ s.out[e] \in {"ok", "err", "fail"} => ReqsOf(e) # {}
    /\ s.out[e] = "oversize" => s.evs[e].sz > EventMax

\* events that alone exceed EventMax are dropped and counted as errors
OversizeCounted ==
  /\ s.c.respErr >= Cardinality({e \in 1..N : s.out[e] = "oversize"})
  /\ \A e \in 1..N : s.out[e] = "oversize" => e \in s.errLog

BodyWithinLimit == \A r \in s.reqs : Body(s.evs, r.ids) <= BodyMax
CountWithinLimit == \A r \in s.reqs : Len(r.ids) \in 1..MaxBatch

\* at most two attempts per batch, the second only when licensed
AtMostTwice ==
  \A r \in s.reqs : /\ r.try \in {1, 2}
                    /\ r.try = 1 => r.why = "first"
                    /\ r.try = 2 => /\ Licensed(r.why)
                                    /\ \E q \in s.reqs : q.tag = r.tag /\ q.try = 1

\* no batch is older than 1.25 x BatchTimeout, neither pending nor when it was cut
Timely == /\ \A k \in Dests : s.pend[k].ids # <<>> => s.now - s.pend[k].start <= Limit
          /\ s.maxCutAge <= Limit

\* after Stop has returned nothing is pending and every event has an outcome
StopFlushes == s.stop = "stopped" =>
                 /\ \A k \in Dests : s.pend[k].ids = <<>>
                 /\ s.jobs = {}
                 /\ \A e \in 1..N : s.out[e] # "none"

\* the gauge counts exactly the events without an outcome
GaugeExact == s.c.ups - s.c.downs = Cardinality({e \in 1..N : s.out[e] = "none"})

\* every event is in exactly one place
Conservation ==
  \A e \in 1..N :
    Cardinality({k \in Dests : e \in Range(s.pend[k].ids)})
      + Cardinality({j \in s.jobs : e \in Range(j.rest) \cup Range(j.sub)})
      + (IF s.out[e] # "none" THEN 1 ELSE 0) = 1

\* ---- plumbing for the conformance replay -----------------------------------
Abs == [ now      |-> s.now,
         pendSet  |-> UNION {Range(s.pend[k].ids) : k \in Dests},
         heldSet  |-> {[dest |-> Triples[j.dest], idsSet |-> Range(j.sub), body |-> Body(s.evs, j.sub), try |-> j.try]
                         : j \in Sent(s)},
         sleepers |-> Cardinality({j \in s.jobs : j.pc = "sleep"}),
         c        |-> [r20x |-> s.c.r20x, respErr |-> s.c.respErr, sendErr |-> s.c.sendErr, retries |-> s.c.retries,
                       gauge |-> s.c.ups - s.c.downs],
         errSet   |-> s.errLog,
         stopped  |-> s.stop = "stopped" ]
\* hidden part of the state (identity of a graph node); sets are rendered through functions so
\* that the JSON text of a state is canonical
Hid == [ evs |-> s.evs, out |-> s.out, pend |-> s.pend, faults |-> s.faults,
         tickDue |-> s.tickDue, stop |-> s.stop, maxCutAge |-> s.maxCutAge,
         jobs |-> [i \in 1..MaxEvents |-> {j \in s.jobs : j.id = i}],
         reqs |-> [i \in 1..MaxEvents |-> [y \in 1..2 |-> {r \in s.reqs : r.tag = i /\ r.try = y}]] ]
ASSUME PrintT(ToJson([params |-> [triples |-> [k \in Dests |-> Triples[k]], maxBatch |-> MaxBatch, sub |-> Sub,
                                  loose |-> Loose]]))
Dump == PrintT(ToJson([fa |-> act.name, act |-> act', fabs |-> Abs, fhid |-> Hid, tabs |-> Abs', thid |-> Hid']))
View == s
=============================================================================
