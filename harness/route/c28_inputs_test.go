//go:build verif

package route

// Binding of spec/InputClasses.tla (property C28: no accepted configuration or
// request input can crash Refinery) to the real code.
//
// One specification walk = one input class (vector): Reset remembers it, the
// single action Eval runs it, Project reports the outcome (ok | crash | hang)
// and, for a failure, a normalised cause ("why": innermost refinery function
// and the panic message).
//
// The walker (this process) is only a supervisor. Everything real runs in a
// CHILD process (this same test binary, C28_CHILD=1), because the failures
// the property is about cannot all be observed from inside: a panic in a
// background goroutine (gRPC handler, sampler ticker), os.Exit and the
// runtime's fatal errors (out of memory, stack overflow) kill the process. The
// child
//   - serves two real Routers (incoming + peer): the mux and middleware chain
//     Router.LnS built, behind an httptest server, and the gRPC server LnS
//     built (trace + logs services) on a loopback listener; the configuration
//     comes from the real loader (config.NewConfig on generated YAML files);
//   - concretises a request class deterministically (c28_bodies_test.go) and
//     sends every member over loopback HTTP/1.1 or, for gRPC, as a hand-made
//     HTTP/2 (h2c) request with a raw length-prefixed frame, so that content
//     type, grpc-encoding and the frame prefix are under its control;
//   - for a configuration class: writes the rules file, loads it with
//     config.NewConfig, and if the loader accepts it, switches the routers to
//     it, sends one valid request to every ingest endpoint, and decides the
//     resulting spans plus a probe trace with the sampler the real
//     SamplerFactory builds, the way collect.makeDecision does;
//   - plays collector and transmissions with stubs that do to an accepted
//     span what the real ones do to its payload (sampler key fields, rule
//     fields, All(), MarshalMsg, JSON);
//   - waits, after every vector, until no goroutine is runnable (a barrier,
//     not a sleep), so that a background panic is attributed to its vector;
//   - runs every vector under an address-space limit of what the process holds
//     + 3 GiB (+ 256 MiB for the 5-30-byte element-count bombs), the stand-in
//     for a deployment's memory limit: an allocation bomb ends in the runtime's
//     "out of memory" instead of taking the machine down. A child that has
//     grown large, or has reported a hang, is replaced before the next vector.
// Debugging aids: C28_LOG=<file> (one line per vector), C28_TRACE=1 (the child
// names every concrete input on stderr), C28_EXPLORE=1 [C28_ONLY=<substring of
// the canonical vector>] (run every vector of the graph once, print failures).
// What counts as a failure: the child dies (crash); a panic leaves the
// router's own handler chain (net/http would log it and drop the connection:
// crash); a panic in the collector/sampler/transmission stand-ins (those run on
// their own goroutines in production: crash); a request or the whole vector
// does not finish within the deadline (hang). A panic that the router's own
// panicCatcher turns into a 500 is an answer, not a failure.

import (
	"bufio"
	"bytes"
	"compress/gzip"
	"context"
	"encoding/json"
	"errors"
	"fmt"
	"io"
	"log"
	"math"
	"net"
	"net/http"
	"net/http/httptest"
	"os"
	"os/exec"
	"path/filepath"
	"regexp"
	"runtime"
	"runtime/debug"
	"strconv"
	"strings"
	"sync"
	"syscall"
	"testing"
	"time"

	"github.com/honeycombio/refinery/config"
	"github.com/honeycombio/refinery/internal/health"
	"github.com/honeycombio/refinery/internal/verifkit"
	"github.com/honeycombio/refinery/logger"
	"github.com/honeycombio/refinery/metrics"
	"github.com/honeycombio/refinery/sample"
	"github.com/honeycombio/refinery/sharder"
	"github.com/honeycombio/refinery/types"
	"github.com/klauspost/compress/zstd"
	"go.opentelemetry.io/otel/trace/noop"
)

const (
	c28Key         = "c28KeyEnvOkAAAAAAAAAAA"
	c28Dataset     = "c28ds"
	c28EnvName     = "c28env"
	c28QueryToken  = "c28querytoken"
	c28ReqDeadline = 60 * time.Second  // one concrete request
	c28VecDeadline = 300 * time.Second // one vector, seen from the supervisor
)

// ---------------------------------------------------------------------------
// failure causes
// ---------------------------------------------------------------------------

var c28Trace = os.Getenv("C28_TRACE") == "1" // debugging aid: the child names every concrete input on stderr

var c28Digits = regexp.MustCompile(`[0-9]+`)
var c28Hex = regexp.MustCompile(`0x[0-9a-f]+`)

// c28Why normalises a panic (message + goroutine stack in the runtime's format)
// into "<innermost refinery function, else innermost non-runtime function>: <message>".
func c28Why(msg, stack string) string {
	first, refinery := "", ""
	for _, l := range strings.Split(stack, "\n") {
		if l == "" || l[0] == '\t' || strings.HasPrefix(l, "goroutine ") || strings.HasPrefix(l, "created by ") {
			continue
		}
		fn := l
		if i := strings.LastIndex(fn, "("); i > 0 {
			fn = fn[:i]
		}
		if strings.HasPrefix(fn, "runtime.") || strings.HasPrefix(fn, "runtime/") || strings.HasPrefix(fn, "panic") || strings.HasPrefix(fn, "testing.") ||
			strings.Contains(fn, "c28") || strings.HasPrefix(fn, "[") {
			continue
		}
		short := fn
		if i := strings.LastIndex(short, "/"); i >= 0 {
			short = short[i+1:]
		}
		if first == "" {
			first = short
		}
		if refinery == "" && strings.Contains(fn, "honeycombio/refinery/") {
			refinery = short
		}
	}
	fn := refinery
	if fn == "" {
		fn = first
	}
	m := strings.TrimPrefix(strings.TrimSpace(msg), "runtime error: ")
	if i := strings.Index(m, "\n"); i >= 0 {
		m = m[:i]
	}
	m = c28Hex.ReplaceAllString(m, "X")
	m = c28Digits.ReplaceAllString(m, "N")
	if len(m) > 120 {
		m = m[:120]
	}
	return fn + ": " + m
}

// c28WhyDead explains the death of the child from what it wrote to stderr.
func c28WhyDead(stderr string, state string) string {
	for _, marker := range []string{"panic: ", "fatal error: "} {
		if i := strings.Index(stderr, marker); i >= 0 {
			rest := stderr[i+len(marker):]
			msg := rest
			if j := strings.Index(msg, "\n"); j >= 0 {
				msg = msg[:j]
			}
			// the stack of the goroutine that died
			stack := rest
			if j := strings.Index(stack, "\ngoroutine "); j >= 0 {
				stack = stack[j+1:]
				if k := strings.Index(stack, "\n\n"); k >= 0 {
					stack = stack[:k]
				}
			}
			if marker == "fatal error: " {
				if strings.Contains(msg, "out of memory") {
					msg = "out of memory" // "runtime: out of memory" (mmap refused) or "out of memory" (limit reached)
				}
				// no function: with the address space exhausted, any goroutine may be the one that fails
				return "fatal: " + c28Digits.ReplaceAllString(msg, "N")
			}
			msg = strings.TrimSuffix(msg, " [recovered]")
			return c28Why(msg, stack)
		}
	}
	return "terminated: " + state
}

// ---------------------------------------------------------------------------
// supervisor side (the walker's harness)
// ---------------------------------------------------------------------------

type c28Result struct {
	ID      int    `json:"id"`
	Outcome string `json:"outcome"`
	Why     string `json:"why"`
	Detail  string `json:"detail,omitempty"` // free text for the replay file, not compared
	Inputs  int    `json:"inputs"`           // concrete inputs executed
	Caught  int    `json:"caught,omitempty"` // panics the router's own panicCatcher turned into a 500 (an answer, not a failure)
	CaughtW string `json:"caught_why,omitempty"`
	Recycle bool   `json:"recycle,omitempty"` // the child leaves after this answer (it holds too much memory to be a fair start for the next vector)
	Err     string `json:"err,omitempty"`     // harness error (not a verdict)
}

type c28Child struct {
	cmd    *exec.Cmd
	toW    *os.File
	fromR  *bufio.Reader
	fromF  *os.File
	stderr *c28Tail
	done   chan struct{}
}

type c28StartDeath struct{ state, stderr string }

func (e *c28StartDeath) Error() string {
	return "child died while starting (" + e.state + "):\n" + c28Last(e.stderr, 4000)
}

type c28Tail struct {
	mu  sync.Mutex
	buf []byte
}

func (t *c28Tail) Write(p []byte) (int, error) {
	t.mu.Lock()
	defer t.mu.Unlock()
	t.buf = append(t.buf, p...)
	if len(t.buf) > 1<<20 { // keep the head (the panic message comes first) and drop the middle
		t.buf = append(t.buf[:1<<19], t.buf[len(t.buf)-(1<<18):]...)
	}
	return len(p), nil
}

func (t *c28Tail) String() string {
	t.mu.Lock()
	defer t.mu.Unlock()
	return string(t.buf)
}

type c28Harness struct {
	child  *c28Child
	seq    int
	vec    map[string]any
	res    *c28Result
	inputs int
	caught int
	starts int
	log    *os.File
}

func (h *c28Harness) start() error {
	toR, toW, err := os.Pipe()
	if err != nil {
		return err
	}
	fromR, fromW, err := os.Pipe()
	if err != nil {
		return err
	}
	cmd := exec.Command(os.Args[0], "-test.run=^TestVerifC28Inputs$", "-test.timeout=0")
	cmd.Env = append(os.Environ(), "C28_CHILD=1", "GOTRACEBACK=all")
	cmd.ExtraFiles = []*os.File{toR, fromW} // fd 3, fd 4
	tail := &c28Tail{}
	cmd.Stderr = tail
	cmd.Stdout = tail
	if err := cmd.Start(); err != nil {
		return err
	}
	toR.Close()
	fromW.Close()
	c := &c28Child{cmd: cmd, toW: toW, fromF: fromR, fromR: bufio.NewReaderSize(fromR, 1<<20), stderr: tail, done: make(chan struct{})}
	h.child = c
	h.starts++
	// the child announces itself once its routers are up
	line, err := h.readLine(c28VecDeadline)
	if err != nil {
		if errors.Is(err, context.DeadlineExceeded) {
			h.kill()
			return fmt.Errorf("child did not start: %v\n%s", err, tail.String())
		}
		state, errText := h.reap()
		return &c28StartDeath{state: state, stderr: errText}
	}
	var hello c28Result
	if json.Unmarshal(line, &hello) != nil || hello.Outcome != "ready" {
		h.kill()
		return fmt.Errorf("child did not start: %s\n%s", line, tail.String())
	}
	return nil
}

func (h *c28Harness) readLine(d time.Duration) ([]byte, error) {
	type rl struct {
		b   []byte
		err error
	}
	ch := make(chan rl, 1)
	c := h.child
	go func() {
		b, err := c.fromR.ReadBytes('\n')
		ch <- rl{b, err}
	}()
	select {
	case r := <-ch:
		return r.b, r.err
	case <-time.After(d):
		return nil, context.DeadlineExceeded
	}
}

func (h *c28Harness) kill() string {
	c := h.child
	if c == nil {
		return ""
	}
	h.child = nil
	c.toW.Close()
	c.cmd.Process.Kill()
	c.cmd.Wait()
	c.fromF.Close()
	state := ""
	if c.cmd.ProcessState != nil {
		state = c.cmd.ProcessState.String()
	}
	return state
}

// reap waits for a child that died by itself.
func (h *c28Harness) reap() (state, stderr string) {
	c := h.child
	h.child = nil
	c.toW.Close()
	c.cmd.Wait()
	c.fromF.Close()
	if c.cmd.ProcessState != nil {
		state = c.cmd.ProcessState.String()
	}
	return state, c.stderr.String()
}

func (h *c28Harness) Reset(init map[string]any) error {
	v, _ := init["v"].(map[string]any)
	if v == nil {
		return fmt.Errorf("initial state without a vector: %v", init)
	}
	h.vec = v
	h.res = nil
	return nil
}

func (h *c28Harness) Apply(a map[string]any) error {
	if verifkit.Str(a, "name") != "Eval" {
		return fmt.Errorf("unknown action %v", a)
	}
	if h.child == nil {
		if err := h.start(); err != nil {
			// A child that dies of a panic while it serves the self-check's valid requests has shown
			// what the property forbids; anything else is a harness problem.
			var sd *c28StartDeath
			if errors.As(err, &sd) && (strings.Contains(sd.stderr, "panic: ") || strings.Contains(sd.stderr, "fatal error: ")) {
				h.res = &c28Result{Outcome: "crash", Why: c28WhyDead(sd.stderr, sd.state),
					Detail: "the process terminated while serving the valid requests of the start-up self-check (" + sd.state + "):\n" + c28Excerpt(sd.stderr)}
				return nil
			}
			return err
		}
	}
	h.seq++
	t0 := time.Now()
	req, _ := json.Marshal(map[string]any{"id": h.seq, "v": h.vec})
	if _, err := h.child.toW.Write(append(req, '\n')); err != nil {
		// the child died between two vectors: that cannot be attributed (the barrier
		// after every vector exists to prevent it), so it is a harness error
		state, errText := h.reap()
		return fmt.Errorf("child died between vectors (%s): %s", state, c28Last(errText, 3000))
	}
	line, err := h.readLine(c28VecDeadline)
	switch {
	case err == nil:
		var r c28Result
		if e := json.Unmarshal(line, &r); e != nil {
			return fmt.Errorf("child answered %q: %v", line, e)
		}
		if r.ID != h.seq {
			return fmt.Errorf("child answered vector %d, asked %d", r.ID, h.seq)
		}
		if r.Err != "" {
			return fmt.Errorf("harness error in the child: %s", r.Err)
		}
		h.res = &r
		if r.Outcome == "hang" || r.Recycle { // the child leaves after reporting a hang or when it has grown too much
			h.reap()
		}
	case errors.Is(err, context.DeadlineExceeded):
		h.kill()
		h.res = &c28Result{Outcome: "hang", Why: "vector not finished within the deadline"}
	default: // EOF: the process is gone
		state, errText := h.reap()
		h.res = &c28Result{Outcome: "crash", Why: c28WhyDead(errText, state), Detail: "the process terminated (" + state + "):\n" + c28Excerpt(errText)}
	}
	h.inputs += h.res.Inputs
	h.caught += h.res.Caught
	if h.log != nil && h.res.Caught > 0 {
		fmt.Fprintf(h.log, "# %d panics caught by the router's panicCatcher in the next vector, first: %s\n", h.res.Caught, h.res.CaughtW)
	}
	if h.log != nil {
		fmt.Fprintf(h.log, "%s %s inputs=%d ms=%d why=%q\n", verifkit.Canon(h.vec), h.res.Outcome, h.res.Inputs, time.Since(t0).Milliseconds(), h.res.Why)
	}
	return nil
}

// c28Excerpt keeps the part of the dead child's stderr that explains its death.
func c28Excerpt(s string) string {
	for _, marker := range []string{"\npanic: ", "\nfatal error: ", "panic: ", "fatal error: "} {
		if i := strings.Index(s, marker); i >= 0 {
			from := i - 600 // with C28_TRACE: the last inputs named before the death
			if from < 0 {
				from = 0
			}
			return c28First(s[from:], 6000)
		}
	}
	return c28Last(s, 3000)
}

func c28First(s string, n int) string {
	if len(s) > n {
		return s[:n] + "\n..."
	}
	return s
}

func c28Last(s string, n int) string {
	if len(s) > n {
		return "...\n" + s[len(s)-n:]
	}
	return s
}

func (h *c28Harness) Project() (any, error) {
	out := map[string]any{"v": h.vec, "phase": "new", "outcome": "none", "why": ""}
	if h.res != nil {
		out["phase"] = "done"
		out["outcome"] = h.res.Outcome
		out["why"] = h.res.Why
		if h.res.Outcome != "ok" && h.res.Detail != "" {
			out["detail"] = h.res.Detail // present only on failures; a known deviation is matched without it (see below)
		}
	}
	return out, nil
}

// c28Matcher strips "detail" when the failure is one the specification lists,
// so that the observed projection equals the deviation successor exactly; an
// unlisted failure keeps its detail and ends up in the replay file.
type c28Matcher struct {
	*c28Harness
	known map[string]bool // canonical (vector, outcome, why) triples of the graph's deviation successors
}

func (m *c28Matcher) Project() (any, error) {
	p, err := m.c28Harness.Project()
	if err != nil {
		return nil, err
	}
	o := p.(map[string]any)
	if _, has := o["detail"]; has {
		k := verifkit.Canon(map[string]any{"v": o["v"], "outcome": o["outcome"], "why": o["why"]})
		if m.known[k] {
			delete(o, "detail")
		}
	}
	return o, nil
}

func c28KnownFromGraph(path string) (map[string]bool, error) {
	raw, err := os.ReadFile(path)
	if err != nil {
		return nil, err
	}
	var g struct {
		States []map[string]any `json:"states"`
	}
	if err := json.Unmarshal(raw, &g); err != nil {
		return nil, err
	}
	known := map[string]bool{}
	for _, s := range g.States {
		if oc, _ := s["outcome"].(string); oc != "" && oc != "ok" && oc != "none" {
			known[verifkit.Canon(map[string]any{"v": s["v"], "outcome": s["outcome"], "why": s["why"]})] = true
		}
	}
	return known, nil
}

func TestVerifC28Inputs(t *testing.T) {
	if os.Getenv("C28_CHILD") == "1" {
		c28ChildMain()
		return
	}
	h := &c28Harness{}
	if p := os.Getenv("C28_LOG"); p != "" {
		h.log, _ = os.Create(p)
		defer h.log.Close()
	}
	defer h.kill()
	known, err := c28KnownFromGraph(os.Getenv("VERIF_GRAPH"))
	if err != nil {
		t.Fatal(err)
	}
	if os.Getenv("C28_EXPLORE") == "1" { // debugging aid: run every vector of the graph once and log the outcome (C28_LOG)
		c28Explore(t, h)
		return
	}
	if err := verifkit.Main(&c28Matcher{c28Harness: h, known: known}); err != nil {
		t.Fatal(err)
	}
	t.Logf("c28: %d concrete inputs, %d child processes, %d panics answered by the router's panicCatcher", h.inputs, h.starts, h.caught)
}

func c28Explore(t *testing.T, h *c28Harness) {
	raw, err := os.ReadFile(os.Getenv("VERIF_GRAPH"))
	if err != nil {
		t.Fatal(err)
	}
	var g struct {
		States []map[string]any `json:"states"`
		Init   []int            `json:"init"`
	}
	if err := json.Unmarshal(raw, &g); err != nil {
		t.Fatal(err)
	}
	only := os.Getenv("C28_ONLY")
	bad := 0
	for _, i := range g.Init {
		if only != "" && !strings.Contains(verifkit.Canon(g.States[i]["v"]), only) {
			continue
		}
		if err := h.Reset(g.States[i]); err != nil {
			t.Fatal(err)
		}
		if err := h.Apply(map[string]any{"name": "Eval"}); err != nil {
			t.Fatal(err)
		}
		if h.res.Outcome != "ok" {
			bad++
			fmt.Printf("C28 %s %s why=%q\n%s\n\n", verifkit.Canon(h.vec), h.res.Outcome, h.res.Why, c28First(h.res.Detail, 1500))
		}
	}
	fmt.Printf("C28 explore: %d vectors not ok, %d concrete inputs, %d child processes, %d panics answered by the router's panicCatcher\n", bad, h.inputs, h.starts, h.caught)
}

// ---------------------------------------------------------------------------
// child side
// ---------------------------------------------------------------------------

// c28Cfg lets the routers follow a configuration switch the way they follow a
// reload: every getter goes to the configuration currently in force.
type c28Cfg struct {
	mu sync.RWMutex
	config.Config
}

func (c *c28Cfg) set(n config.Config) {
	c.mu.Lock()
	c.Config = n
	c.mu.Unlock()
}

type c28Failure struct {
	outcome, why, detail string
}

type c28Env struct {
	dir      string
	thorough bool
	honey    *httptest.Server
	cfg      *c28Cfg
	base     config.Config
	factory  *sample.SamplerFactory
	samplers map[string]sample.Sampler
	routers  []*Router
	urls     map[string]string // incoming | peer
	grpcAddr string
	httpc    *http.Client
	h2c      *http.Client
	zenc     *zstd.Encoder

	seed int

	mu        sync.Mutex
	fail      *c28Failure
	count     int
	spans     int
	seq       int
	caught    int
	caughtWhy string
	cheap     bool // the vector ran nothing but a sampler decision: no barrier, no liveness probe
	cfgCache  map[string]config.Config
}

func (e *c28Env) record(outcome, why, detail string) {
	e.mu.Lock()
	if e.fail == nil {
		e.fail = &c28Failure{outcome, why, detail}
	}
	e.mu.Unlock()
}

func (e *c28Env) failed() bool {
	e.mu.Lock()
	defer e.mu.Unlock()
	return e.fail != nil
}

// guarded runs f the way a goroutine of its own would run it: a panic is a crash.
func (e *c28Env) guarded(where string, f func()) {
	defer func() {
		if r := recover(); r != nil {
			st := string(debug.Stack())
			e.record("crash", c28Why(fmt.Sprint(r), st), where+": panic: "+fmt.Sprint(r)+"\n"+c28First(st, 5000))
		}
	}()
	f()
}

// --- a logger that notices what the router's panicCatcher caught -----------------

type c28Logger struct {
	logger.NullLogger
	env *c28Env
}

type c28LogEntry struct{ env *c28Env }

func (l *c28Logger) Error() logger.Entry { return &c28LogEntry{env: l.env} }

func (e *c28LogEntry) WithField(string, interface{}) logger.Entry { return e }
func (e *c28LogEntry) WithString(string, string) logger.Entry     { return e }
func (e *c28LogEntry) Logf(string, ...interface{})                {}
func (e *c28LogEntry) WithFields(f map[string]interface{}) logger.Entry {
	if f["error.msg"] == ErrCaughtPanic.msg {
		st, _ := f["error.stack_trace"].(string)
		why := c28Why(fmt.Sprint(f["error.err"]), st)
		e.env.mu.Lock()
		e.env.caught++
		if e.env.caughtWhy == "" {
			e.env.caughtWhy = why
		}
		e.env.mu.Unlock()
	}
	return e
}

// --- stand-ins for collector and transmissions ---------------------------------

type c28Collector struct{ env *c28Env }

func (c *c28Collector) AddSpan(sp *types.Span) error         { c.env.consumeSpan(sp); return nil }
func (c *c28Collector) AddSpanFromPeer(sp *types.Span) error { c.env.consumeSpan(sp); return nil }
func (c *c28Collector) Stressed() bool                       { return false }
func (c *c28Collector) GetStressedSampleRate(string) (uint, bool, string) {
	return 1, true, ""
}
func (c *c28Collector) ProcessSpanImmediately(*types.Span) (bool, bool) { return false, false }

type c28Transmission struct{ env *c28Env }

func (t *c28Transmission) EnqueueEvent(ev *types.Event) {
	t.env.guarded("transmission of an accepted event", func() { t.env.serialise(ev) })
}
func (t *c28Transmission) EnqueueSpan(sp *types.Span) {
	t.env.guarded("transmission of an accepted span", func() { t.env.serialise(sp.Event) })
}

// serialise does what transmit.DefaultTransmission / DirectTransmission do with a payload.
func (e *c28Env) serialise(ev *types.Event) {
	_ = ev.GetDataSize()
	for _, k := range []string{"trace.trace_id", "trace.span_id", "trace.parent_id", "meta.signal_type", "name"} {
		if ev.Data.Exists(k) {
			_ = ev.Data.Get(k)
		}
	}
	n := 0
	for range ev.Data.All() {
		n++
	}
	if _, err := ev.Data.MarshalMsg(nil); err != nil {
		_ = err // an error is an answer
	}
	_, _ = json.Marshal(ev.Data)
}

// consumeSpan does what the collector does with an accepted span: it becomes
// (part of) a trace that the sampler configured for its destination decides,
// and it is serialised for Honeycomb.
func (e *c28Env) consumeSpan(sp *types.Span) {
	e.mu.Lock()
	e.spans++
	e.mu.Unlock()
	e.guarded("collector/sampler work on an accepted span", func() {
		tr := &types.Trace{TraceID: sp.TraceID, APIKey: sp.APIKey, Dataset: sp.Dataset, APIHost: sp.APIHost}
		tr.AddSpan(sp)
		if sp.IsRoot {
			tr.RootSpan = sp
		}
		e.decide(tr)
		e.serialise(sp.Event)
	})
}

// decide follows collect.(*CollectorWorker).makeDecision up to the sampler's answer.
func (e *c28Env) decide(tr *types.Trace) {
	key := e.cfg.DetermineSamplerKey(tr.APIKey, tr.Environment, tr.Dataset)
	s, ok := e.samplers[key]
	if !ok {
		s = e.factory.GetSamplerImplementationForKey(key)
		e.samplers[key] = s
	}
	all, nonRoot := s.GetKeyFields()
	for _, sp := range tr.GetSpans() {
		if sp.IsRoot {
			sp.Data.MemoizeFields(all...)
		} else {
			sp.Data.MemoizeFields(nonRoot...)
		}
	}
	for i := 0; i < 3; i++ {
		rate, _, _, _ := s.GetSampleRate(tr)
		tr.SetSampleRate(rate)
	}
}

func (e *c28Env) newFactory() {
	if e.factory != nil {
		e.factory.Stop()
	}
	e.factory = &sample.SamplerFactory{Config: e.cfg, Logger: &logger.NullLogger{}, Metrics: &metrics.NullMetrics{}}
	e.factory.Start()
	e.samplers = map[string]sample.Sampler{}
}

// --- building the environment --------------------------------------------------

func c28MainYAML(honeyURL string) string {
	return "General:\n  ConfigurationVersion: 2\n" +
		"Network:\n  ListenAddr: 127.0.0.1:0\n  PeerListenAddr: 127.0.0.1:0\n  HoneycombAPI: " + honeyURL + "\n" +
		"GRPCServerParameters:\n  Enabled: true\n  ListenAddr: 127.0.0.1:0\n" +
		"Debugging:\n  QueryAuthToken: " + c28QueryToken + "\n"
}

const c28BaseRules = "RulesVersion: 2\nSamplers:\n  __default__:\n    RulesBasedSampler:\n      Rules:\n" +
	"        - Name: errors\n          SampleRate: 1\n          Conditions:\n            - Field: ok\n              Operator: \"=\"\n              Value: false\n              Datatype: bool\n" +
	"        - Name: slow\n          Scope: span\n          SampleRate: 2\n          Conditions:\n            - Fields: [dur, root.dur]\n              Operator: \">\"\n              Value: 100\n" +
	"            - Field: name\n              Operator: matches\n              Value: \"^c28\"\n" +
	"        - Name: tagged\n          SampleRate: 1\n          Conditions:\n            - Field: tags\n              Operator: \"=\"\n              Value: [checkout, payments]\n" +
	"        - Name: nested\n          Scope: span\n          SampleRate: 1\n          Conditions:\n            - Fields: [nest, root.tags]\n              Operator: \">=\"\n              Value: [1]\n" +
	"        - Name: rest\n          Sampler:\n            DynamicSampler:\n              SampleRate: 2\n              ClearFrequency: 1h\n              FieldList: [svc, root.kind, dur, nest, tags]\n"

func (e *c28Env) load(mainYAML, rulesYAML string) (config.Config, error) {
	e.seq++
	cp := filepath.Join(e.dir, fmt.Sprintf("config-%d.yaml", e.seq))
	rp := filepath.Join(e.dir, fmt.Sprintf("rules-%d.yaml", e.seq))
	defer os.Remove(cp)
	defer os.Remove(rp)
	if err := os.WriteFile(cp, []byte(mainYAML), 0o600); err != nil {
		return nil, err
	}
	if err := os.WriteFile(rp, []byte(rulesYAML), 0o600); err != nil {
		return nil, err
	}
	c, err := config.NewConfig(&config.CmdEnv{ConfigLocations: []string{cp}, RulesLocations: []string{rp}}, "v3.0.0")
	if c == nil {
		return nil, err
	}
	return c, nil
}

func (e *c28Env) front(inner http.Handler) http.Handler {
	return http.HandlerFunc(func(w http.ResponseWriter, req *http.Request) {
		defer func() {
			if r := recover(); r != nil {
				if r == http.ErrAbortHandler {
					panic(r)
				}
				st := string(debug.Stack())
				e.record("crash", c28Why(fmt.Sprint(r), st), "a panic left the router's handler chain ("+req.Method+" "+req.URL.Path+"); net/http would log it and drop the connection: "+fmt.Sprint(r)+"\n"+c28First(st, 5000))
				panic(http.ErrAbortHandler)
			}
		}()
		inner.ServeHTTP(w, req)
	})
}

func c28NewEnv() (*c28Env, error) {
	dir, err := os.MkdirTemp("", "c28-")
	if err != nil {
		return nil, err
	}
	e := &c28Env{dir: dir, thorough: os.Getenv("VERIF_TIER") == "thorough", urls: map[string]string{}, cfgCache: map[string]config.Config{}}
	e.seed, _ = strconv.Atoi(os.Getenv("VERIF_SEED"))
	e.honey = httptest.NewServer(http.HandlerFunc(func(w http.ResponseWriter, req *http.Request) {
		io.Copy(io.Discard, req.Body)
		if req.URL.Path == "/1/auth" {
			if req.Header.Get("X-Honeycomb-Team") != c28Key {
				w.WriteHeader(http.StatusUnauthorized)
				return
			}
			w.Header().Set("Content-Type", "application/json")
			json.NewEncoder(w).Encode(AuthInfo{APIKeyAccess: map[string]bool{"events": true}, Team: TeamInfo{Slug: "c28team"},
				Environment: EnvironmentInfo{Slug: c28EnvName, Name: c28EnvName}, ID: "c28keyid"})
			return
		}
		w.Header().Set("Content-Type", "application/json")
		w.Header().Add("Set-Cookie", "a=b")
		w.Write([]byte(`{"c28":"upstream"}`))
	}))
	e.base, err = e.load(c28MainYAML(e.honey.URL), c28BaseRules)
	if e.base == nil {
		return nil, fmt.Errorf("the loader refused the base configuration: %v", err)
	}
	e.cfg = &c28Cfg{Config: e.base}
	e.newFactory()
	for _, name := range []string{"incoming", "peer"} {
		mm := &metrics.MockMetrics{}
		mm.Start()
		hr := &health.MockHealthReporter{}
		hr.SetAlive(true)
		hr.SetReady(true)
		r := &Router{
			Config: e.cfg, Logger: &c28Logger{env: e}, Health: hr, HTTPTransport: &http.Transport{},
			UpstreamTransmission: &c28Transmission{env: e}, PeerTransmission: &c28Transmission{env: e},
			Sharder:   &sharder.MockSharder{Self: &sharder.TestShard{Addr: "http://c28-self:8081"}, Other: &sharder.TestShard{Addr: "http://c28-other:8081", TraceIDs: []string{"c28trace2"}}},
			Collector: &c28Collector{env: e}, Metrics: mm, Tracer: noop.Tracer{},
		}
		r.SetVersion("c28")
		if name == "peer" {
			r.SetType(types.RouterTypePeer)
		} else {
			r.SetType(types.RouterTypeIncoming)
		}
		r.LnS()
		if r.server == nil {
			return nil, fmt.Errorf("Router.LnS did not build its HTTP server")
		}
		srv := httptest.NewUnstartedServer(e.front(r.server.Handler))
		srv.Config.ErrorLog = log.New(io.Discard, "", 0)
		srv.Start()
		e.urls[name] = srv.URL
		e.routers = append(e.routers, r)
		if name == "incoming" {
			if r.grpcServer == nil {
				return nil, fmt.Errorf("Router.LnS did not build its gRPC server")
			}
			lis, err := net.Listen("tcp", "127.0.0.1:0")
			if err != nil {
				return nil, err
			}
			go r.grpcServer.Serve(lis) // the server LnS built, on a listener whose address is known
			e.grpcAddr = lis.Addr().String()
		}
	}
	e.httpc = &http.Client{Transport: &http.Transport{MaxIdleConnsPerHost: 4, DisableCompression: true}, Timeout: c28ReqDeadline,
		CheckRedirect: func(*http.Request, []*http.Request) error { return http.ErrUseLastResponse }}
	h2 := &http.Transport{DisableCompression: true}
	h2.Protocols = new(http.Protocols)
	h2.Protocols.SetUnencryptedHTTP2(true)
	e.h2c = &http.Client{Transport: h2, Timeout: c28ReqDeadline}
	e.zenc, _ = zstd.NewWriter(nil)
	return e, nil
}

// --- quiescence ---------------------------------------------------------------------

var c28GoroutineHead = regexp.MustCompile(`(?m)^goroutine \d+ \[([^\],]+)`)

// c28Quiesce returns when, three times in a row, no goroutine but the caller is
// running or runnable: everything a vector started has blocked or died.
var c28StackBuf = make([]byte, 1<<20)

func c28Quiesce() {
	buf := c28StackBuf
	calm := 0
	for i := 0; i < 5000 && calm < 2; i++ {
		runtime.Gosched()
		n := runtime.Stack(buf, true)
		for n == len(buf) {
			buf = make([]byte, 2*len(buf))
			c28StackBuf = buf
			n = runtime.Stack(buf, true)
		}
		busy := 0
		for _, m := range c28GoroutineHead.FindAllSubmatch(buf[:n], -1) {
			st := string(m[1])
			if st == "running" || st == "runnable" {
				busy++
			}
		}
		if busy <= 1 { // the caller itself is running
			calm++
		} else {
			calm = 0
		}
	}
}

// --- sending ---------------------------------------------------------------------------

type c28Send struct {
	target  string // incoming | peer | grpc
	method  string
	path    string
	headers [][2]string
	body    []byte
	label   string
}

// send delivers one concrete request. Answered (any status) or dropped by the
// server is fine; only a request that does not finish is recorded.
func (e *c28Env) send(s c28Send) (status int, answered bool) {
	e.mu.Lock()
	e.count++
	e.mu.Unlock()
	if c28Trace {
		fmt.Fprintf(os.Stderr, "c28 input %s %s %s [%s] %d bytes\n", s.target, s.method, c28First(s.path, 80), s.label, len(s.body))
	}
	client, base := e.httpc, e.urls[s.target]
	if s.target == "grpc" {
		client, base = e.h2c, "http://"+e.grpcAddr
	}
	req, err := http.NewRequest(s.method, base+s.path, bytes.NewReader(s.body))
	if err != nil {
		e.record("harness", "", fmt.Sprintf("cannot build request %s %s: %v", s.method, s.path, err))
		return 0, false
	}
	for _, h := range s.headers {
		if h[1] == "\x00absent" {
			continue
		}
		req.Header[h[0]] = append(req.Header[h[0]], h[1]) // as given, not canonicalised
	}
	if req.Header.Get("User-Agent") == "" {
		req.Header.Set("User-Agent", "c28-client")
	}
	resp, err := client.Do(req)
	if err != nil {
		var ne net.Error
		if errors.As(err, &ne) && ne.Timeout() {
			e.record("hang", "request not answered within the deadline", fmt.Sprintf("%s %s %s [%s]", s.target, s.method, s.path, s.label))
		}
		return 0, false // dropped by the server: allowed
	}
	_, rerr := io.Copy(io.Discard, resp.Body)
	resp.Body.Close()
	if rerr != nil {
		var ne net.Error
		if errors.As(rerr, &ne) && ne.Timeout() {
			e.record("hang", "response not finished within the deadline", fmt.Sprintf("%s %s %s [%s]", s.target, s.method, s.path, s.label))
		}
	}
	return resp.StatusCode, true
}

func c28Gzip(b []byte) []byte {
	var zb bytes.Buffer
	zw := gzip.NewWriter(&zb)
	zw.Write(b)
	zw.Close()
	return zb.Bytes()
}

// compress applies the compression class; several members for "corrupt".
func (e *c28Env) compress(comp string, body []byte) [][3]any { // {content-encoding, bytes, label}
	switch comp {
	case "none":
		return [][3]any{{"", body, ""}}
	case "gzip":
		return [][3]any{{"gzip", c28Gzip(body), ""}}
	case "zstd":
		return [][3]any{{"zstd", e.zenc.EncodeAll(body, nil), ""}}
	}
	gz := c28Gzip(append(append([]byte(nil), body...), bytes.Repeat([]byte("c28 padding "), 32)...))
	zs := e.zenc.EncodeAll(append(append([]byte(nil), body...), bytes.Repeat([]byte("c28 padding "), 32)...), nil)
	badsum := append([]byte(nil), gz...)
	badsum[len(badsum)-5] ^= 0xff
	return [][3]any{
		{"gzip", append([]byte("c28 not gzip "), body...), "gzip-declared-plain"},
		{"gzip", gz[:len(gz)/2], "gzip-cut"},
		{"gzip", badsum, "gzip-bad-checksum"},
		{"gzip", gz[:10], "gzip-header-only"},
		{"gzip", []byte{}, "gzip-empty"},
		{"zstd", append([]byte("c28 not zstd "), body...), "zstd-declared-plain"},
		{"zstd", zs[:len(zs)/2], "zstd-cut"},
		{"zstd", []byte{0x28, 0xb5, 0x2f, 0xfd, 0xff, 0xff, 0xff, 0xff, 0xff, 0xff, 0xff, 0xff, 0xff}, "zstd-huge-window"},
		{"zstd", []byte{}, "zstd-empty"},
		{"gzip", zs, "zstd-declared-gzip"},
		{"deflate", body, "unknown-encoding"},
	}
}

func c28ContentType(ctype string, grpc bool) string {
	if grpc {
		switch ctype {
		case "protobuf":
			return "application/grpc+proto"
		case "json":
			return "application/grpc+json"
		case "msgpack":
			return "application/grpc+msgpack"
		case "junk":
			return "text/c28junk"
		}
		return "\x00absent"
	}
	switch ctype {
	case "json":
		return "application/json"
	case "msgpack":
		return "application/msgpack"
	case "protobuf":
		return "application/protobuf"
	case "junk":
		return "text/c28junk; charset=\"c28"
	}
	return "\x00absent"
}

// header variants of the class "odd" (key present, odd sample rate / event time / dataset headers)
var c28OddHeaders = [][][2]string{
	{{"X-Honeycomb-Samplerate", "0"}, {"X-Honeycomb-Event-Time", "0"}},
	{{"X-Honeycomb-Samplerate", "-1"}, {"X-Honeycomb-Event-Time", "-1"}},
	{{"X-Honeycomb-Samplerate", "abc"}, {"X-Honeycomb-Event-Time", "abc"}},
	{{"X-Honeycomb-Samplerate", "99999999999999999999"}, {"X-Honeycomb-Event-Time", "99999999999999999999999999"}},
	{{"X-Honeycomb-Samplerate", "1.5"}, {"X-Honeycomb-Event-Time", "1535589382.641"}},
	{{"X-Honeycomb-Samplerate", "9223372036854775807"}, {"X-Honeycomb-Event-Time", "1e400"}},
	{{"X-Honeycomb-Samplerate", ""}, {"X-Honeycomb-Event-Time", "NaN"}},
	{{"X-Honeycomb-Samplerate", "0x10"}, {"X-Honeycomb-Event-Time", "2021-13-45T25:61:61Z"}},
	{{"X-Honeycomb-Samplerate", "1"}, {"X-Honeycomb-Samplerate", "2"}, {"X-Honeycomb-Event-Time", "1535589382"}, {"X-Honeycomb-Event-Time", "1535589383641"}},
	{{"X-Honeycomb-Event-Time", "9999999999999999"}, {"X-Honeycomb-Dataset", ""}},
	{{"X-Honeycomb-Event-Time", "-9223372036854775808"}, {"X-Honeycomb-Dataset", strings.Repeat("d", 70000)}},
	{{"X-Honeycomb-Event-Time", "Inf"}, {"X-Honeycomb-Dataset", "c28\xff\xfeds"}},
	{{"X-Honeycomb-Event-Time", "0001-01-01T00:00:00Z"}, {"X-Hny-Team", c28Key}, {"X-Honeycomb-Team", ""}},
	{{"X-Honeycomb-Event-Time", "9999-12-31T23:59:59.999999999+14:00"}, {"X-Honeycomb-Team", c28Key}, {"X-Honeycomb-Team", "c28second"}},
	{{"X-Honeycomb-Event-Time", ".5"}, {"User-Agent", ""}, {"Content-Type", "application/json"}},
	{{"X-Honeycomb-Team", "k"}, {"X-Honeycomb-Event-Time", "1535589382641000"}},
	{{"X-Honeycomb-Team", strings.Repeat("0123456789abcdef", 2)}, {"X-Honeycomb-Dataset", "c28 classic/ds %2F"}},
	{{"X-Honeycomb-Team", "hcaik_" + strings.Repeat("0123456789abcdefghijklmnopqrstuvwxyz", 2)[:58]}, {"X-Honeycomb-Samplerate", "7"}},
}

func c28Native(ep string) string {
	switch ep {
	case "event", "batch", "peer-batch", "proxy":
		return "json"
	case "query":
		return "absent"
	}
	return "protobuf"
}

func c28SpeaksCtype(ep, ctype string) bool {
	switch ep {
	case "event", "batch", "peer-batch":
		return ctype == "json" || ctype == "msgpack"
	case "otlp-http-traces", "otlp-http-logs":
		return ctype == "json" || ctype == "protobuf"
	case "otlp-grpc-traces", "otlp-grpc-logs":
		return ctype == "protobuf"
	}
	return false
}

func c28Family(ep string) string {
	switch ep {
	case "event":
		return "event"
	case "batch", "peer-batch":
		return "batch"
	case "otlp-http-traces", "otlp-grpc-traces":
		return "otlp-traces"
	case "otlp-http-logs", "otlp-grpc-logs":
		return "otlp-logs"
	}
	return ""
}

func (e *c28Env) headers(hdr string, variant int) [][2]string {
	h := [][2]string{}
	if hdr != "nokey" {
		h = append(h, [2]string{"X-Honeycomb-Team", c28Key})
	}
	h = append(h, [2]string{"X-Honeycomb-Dataset", c28Dataset})
	if hdr == "odd" {
		odd := c28OddHeaders[variant%len(c28OddHeaders)]
		// a variant that carries its own key/dataset replaces the default ones
		for _, o := range odd {
			if o[0] == "X-Honeycomb-Team" || o[0] == "X-Honeycomb-Dataset" {
				kept := h[:0]
				for _, x := range h {
					if x[0] != o[0] {
						kept = append(kept, x)
					}
				}
				h = kept
			}
		}
		h = append(h, odd...)
	}
	return h
}

func (e *c28Env) evalRequest(v map[string]any) {
	ep, ctype, comp, shape, hdr := verifkit.Str(v, "ep"), verifkit.Str(v, "ctype"), verifkit.Str(v, "comp"), verifkit.Str(v, "shape"), verifkit.Str(v, "hdr")
	nvar := 1
	if hdr == "odd" && shape == "valid" {
		nvar = len(c28OddHeaders)
	}
	switch ep {
	case "query":
		e.evalQuery(shape, hdr)
		return
	case "proxy":
		e.evalProxy(ctype, comp, shape, hdr)
		return
	}
	fam := c28Family(ep)
	if fam == "" {
		e.record("harness", "", "unknown endpoint "+ep)
		return
	}
	grpc := strings.HasPrefix(ep, "otlp-grpc-")
	target, path := "incoming", ""
	switch ep {
	case "event":
		path = "/1/events/" + c28Dataset
	case "batch":
		path = "/1/batch/" + c28Dataset
	case "peer-batch":
		target, path = "peer", "/1/batch/"+c28Dataset
	case "otlp-http-traces":
		path = "/v1/traces"
	case "otlp-http-logs":
		path = "/v1/logs"
	case "otlp-grpc-traces":
		target, path = "grpc", "/opentelemetry.proto.collector.trace.v1.TraceService/Export"
	case "otlp-grpc-logs":
		target, path = "grpc", "/opentelemetry.proto.collector.logs.v1.LogsService/Export"
	}
	// how much of the class: everything at the endpoint's base combination, a seed-shifted sample elsewhere
	away := 0
	if ctype != c28Native(ep) {
		away++
	}
	if comp != "none" {
		away++
	}
	if hdr != "key" {
		away++
	}
	d := c28Density{Seed: e.seed, Positions: 4, Members: 8}
	if e.thorough {
		d.Members = 16
	}
	if away == 0 || (comp == "none" && hdr == "key" && c28SpeaksCtype(ep, ctype)) {
		d.Positions, d.Members = 12, 0
		if e.thorough {
			d.Dense, d.DenseEnc = true, ctype
		}
	}
	n := 0
	for _, b := range c28Bodies(fam, shape, e.thorough, d) {
		if grpc && b.Enc != "protobuf" && shape != "valid" && shape != "wrongtop" {
			continue // a gRPC message is protobuf; the JSON members are sent once, as wrong content
		}
		for vi := 0; vi < nvar; vi++ {
			hs := e.headers(hdr, n+vi)
			if grpc {
				e.sendGRPC(path, ctype, comp, hs, b)
			} else {
				cs := e.compress(comp, b.Data)
				if len(cs) > 1 && shape != "valid" { // the corrupt-compression variants take turns
					cs = cs[n%len(cs) : n%len(cs)+1]
				}
				for _, c := range cs {
					h := append(append([][2]string{}, hs...), [2]string{"Content-Type", c28ContentType(ctype, false)})
					if c[0].(string) != "" {
						h = append(h, [2]string{"Content-Encoding", c[0].(string)})
					}
					e.send(c28Send{target: target, method: "POST", path: path, headers: h, body: c[1].([]byte), label: b.Enc + "/" + b.Label + "/" + c[2].(string)})
				}
			}
			if e.failed() {
				e.noteInput(fmt.Sprintf("%s body %s/%s header-variant %d", ep, b.Enc, b.Label, (n+vi)%len(c28OddHeaders)))
				return
			}
		}
		n++
	}
	if shape == "hugelen" && grpc {
		msg := c28Valid(fam, "protobuf")
		for _, f := range []struct {
			label string
			frame []byte
		}{
			{"frame-len-2^32-1", append([]byte{0, 0xff, 0xff, 0xff, 0xff}, msg...)},
			{"frame-len-16MB", append([]byte{0, 0x01, 0, 0, 0}, msg...)},
			{"frame-len-short", append([]byte{0, 0, 0, 0, 5}, msg...)},
			{"frame-len-zero", []byte{0, 0, 0, 0, 0}},
			{"frame-flag-2", append([]byte{2}, c28GRPCFrame(0, msg)[1:]...)},
			{"frame-flag-compressed-without-encoding", c28GRPCFrame(1, msg)},
			{"two-frames", append(c28GRPCFrame(0, msg), c28GRPCFrame(0, msg)...)},
			{"frame-cut", c28GRPCFrame(0, msg)[:7]},
			// not sent: a stream that ends without any DATA frame. grpc-go leaves it unanswered until the client goes
			// away or the connection ages out (no handler of refinery is involved); it is not counted as a hang.
		} {
			h := append(e.headers(hdr, 0), [2]string{"Content-Type", c28ContentType(ctype, true)}, [2]string{"Te", "trailers"})
			e.send(c28Send{target: "grpc", method: "POST", path: path, headers: h, body: f.frame, label: f.label})
			if e.failed() {
				e.noteInput(ep + " " + f.label)
				return
			}
		}
	}
}

// noteInput adds the concrete input to the recorded failure.
func (e *c28Env) noteInput(s string) {
	e.mu.Lock()
	if e.fail != nil && !strings.Contains(e.fail.detail, "concrete input: ") {
		e.fail.detail = "concrete input: " + s + "\n" + e.fail.detail
	}
	e.mu.Unlock()
}

func (e *c28Env) sendGRPC(path, ctype, comp string, hs [][2]string, b c28Body) {
	type fr struct {
		enc, label string
		frame      []byte
	}
	var frames []fr
	switch comp {
	case "none":
		frames = []fr{{"", "", c28GRPCFrame(0, b.Data)}}
	case "gzip":
		frames = []fr{{"gzip", "", c28GRPCFrame(1, c28Gzip(b.Data))}}
	case "zstd":
		frames = []fr{{"zstd", "", c28GRPCFrame(1, e.zenc.EncodeAll(b.Data, nil))}}
	default:
		gz := c28Gzip(append(append([]byte(nil), b.Data...), bytes.Repeat([]byte("c28 padding "), 32)...))
		frames = []fr{
			{"gzip", "gzip-declared-plain", c28GRPCFrame(1, b.Data)},
			{"gzip", "gzip-cut", c28GRPCFrame(1, gz[:len(gz)/2])},
			{"gzip", "gzip-flag-clear", c28GRPCFrame(0, gz)},
			{"gzip", "gzip-empty", c28GRPCFrame(1, nil)},
			{"identity", "identity-flag-set", c28GRPCFrame(1, b.Data)},
			{"c28junk", "unknown-encoding", c28GRPCFrame(1, b.Data)},
		}
	}
	if len(frames) > 1 && b.Label != "valid" {
		frames = frames[e.count%len(frames) : e.count%len(frames)+1]
	}
	for _, f := range frames {
		h := append(append([][2]string{}, hs...), [2]string{"Content-Type", c28ContentType(ctype, true)}, [2]string{"Te", "trailers"})
		if f.enc != "" {
			h = append(h, [2]string{"Grpc-Encoding", f.enc})
		}
		e.send(c28Send{target: "grpc", method: "POST", path: path, headers: h, body: f.frame, label: b.Enc + "/" + b.Label + "/" + f.label})
	}
}

func (e *c28Env) evalQuery(shape, hdr string) {
	tok := [][2]string{}
	switch hdr {
	case "key":
		tok = [][2]string{{"X-Honeycomb-Refinery-Query", c28QueryToken}}
	case "odd":
		tok = [][2]string{{"X-Honeycomb-Refinery-Query", "c28\xffwrong"}, {"X-Honeycomb-Refinery-Query", c28QueryToken}}
	}
	ids := []string{"c28trace1"}
	switch shape {
	case "badutf8":
		ids = []string{"%ff%fe%c3%28", "a%00b", "%2e%2e%2f%2e%2e", "%22%3cscript%3e"}
	case "hugelen":
		ids = []string{strings.Repeat("a", 60000), strings.Repeat("%41", 20000)}
	case "empty":
		ids = []string{"", "%20", "/"}
	}
	for _, id := range ids {
		paths := []string{"/query/trace/" + id, "/query/configmetadata", "/query/configmetadata/" + id}
		for _, f := range []string{"json", "yaml", "toml", "JSON", "xml", id} {
			paths = append(paths, "/query/rules/"+f+"/"+id, "/query/allrules/"+f, "/query/rules/"+f+"/"+c28EnvName)
		}
		for _, p := range paths {
			for _, m := range []string{"GET", "POST", "HEAD"} {
				e.send(c28Send{target: "incoming", method: m, path: p, headers: tok, label: "query " + m})
				if m == "GET" {
					e.send(c28Send{target: "peer", method: m, path: p, headers: tok, label: "query " + m})
				}
				if e.failed() {
					e.noteInput(m + " " + c28First(p, 200))
					return
				}
			}
		}
	}
}

func (e *c28Env) evalProxy(ctype, comp, shape, hdr string) {
	bodies := map[string][][]byte{"valid": {[]byte(`{"message":"c28 marker"}`)}, "empty": {nil}, "hugelen": {bytes.Repeat([]byte("c28 "), 1<<18)},
		"badutf8": {[]byte("\xff\xfe\xc3\x28")}}[shape]
	paths := []string{"/1/markers/" + c28Dataset, "/", "/1/auth", "/2/anything?x=%ff&y=c28", "/1/events", "/1/batch", "/v1/metrics", "/v1/traces/extra", "/alive/x", "/version", "/alive", "/ready",
		"/panic"} // the router's own "intentional panic" route: its panicCatcher has to turn that into an answer
	if shape == "badutf8" {
		paths = []string{"/1/markers/%ff%fe", "/%00", "/1/markers/c28?%ff=%fe", "//1//markers", "/1/markers/../../x", "/%2e%2e/%2e%2e"}
	}
	if shape == "hugelen" {
		paths = []string{"/1/markers/" + strings.Repeat("a", 60000), "/1/markers/c28?" + strings.Repeat("q=1&", 15000)}
	}
	n := 0
	for _, p := range paths {
		for _, body := range bodies {
			for _, c := range e.compress(comp, body) {
				methods := []string{"POST", "GET", "PUT", "DELETE", "OPTIONS", "PATCH", "C28VERB"}
				if shape == "hugelen" {
					methods = []string{"POST", "GET", "C28VERB"}
				}
				for _, m := range methods {
					if m == "GET" && n > 0 && len(body) > 0 {
						continue
					}
					h := append(e.headers(hdr, n), [2]string{"Content-Type", c28ContentType(ctype, false)}, [2]string{"X-Forwarded-For", "10.0.0.1"}, [2]string{"X-Forwarded-For", "c28\xff"})
					if c[0].(string) != "" {
						h = append(h, [2]string{"Content-Encoding", c[0].(string)})
					}
					e.send(c28Send{target: "incoming", method: m, path: p, headers: h, body: c[1].([]byte), label: "proxy " + m + " " + c[2].(string)})
					if e.failed() {
						e.noteInput(m + " " + c28First(p, 200))
						return
					}
				}
				n++
			}
		}
	}
}

// --- configuration classes ---------------------------------------------------------

var c28SamplerBase = map[string][][2]string{
	"DeterministicSampler":      {{"SampleRate", "2"}},
	"DynamicSampler":            {{"SampleRate", "2"}, {"ClearFrequency", "1h"}, {"FieldList", "[svc, root.kind, dur]"}, {"MaxKeys", "100"}, {"UseTraceLength", "true"}},
	"EMADynamicSampler":         {{"GoalSampleRate", "2"}, {"AdjustmentInterval", "1h"}, {"Weight", "0.5"}, {"AgeOutValue", "0.5"}, {"BurstMultiple", "2"}, {"BurstDetectionDelay", "3"}, {"FieldList", "[svc, root.kind, dur]"}, {"MaxKeys", "100"}},
	"EMAThroughputSampler":      {{"GoalThroughputPerSec", "10"}, {"InitialSampleRate", "2"}, {"AdjustmentInterval", "1h"}, {"Weight", "0.5"}, {"AgeOutValue", "0.5"}, {"BurstMultiple", "2"}, {"BurstDetectionDelay", "3"}, {"FieldList", "[svc, root.kind, dur]"}, {"MaxKeys", "100"}},
	"WindowedThroughputSampler": {{"UpdateFrequency", "1h"}, {"LookbackFrequency", "2h"}, {"GoalThroughputPerSec", "10"}, {"FieldList", "[svc, root.kind, dur]"}, {"MaxKeys", "100"}},
	"TotalThroughputSampler":    {{"GoalThroughputPerSec", "10"}, {"ClearFrequency", "1h"}, {"FieldList", "[svc, root.kind, dur]"}, {"MaxKeys", "100"}},
}

// c28Value renders the value class of a parameter kind as YAML ("\x00absent" = leave the parameter out).
func c28Value(val string) (string, bool) {
	switch val {
	case "absent":
		return "\x00absent", true
	case "int-0", "float-0":
		return "0", true
	case "int-1", "float-1":
		return "1", true
	case "int-max":
		return "9223372036854775807", true
	case "int-neg", "float-neg":
		return "-1", true
	case "int-wrap32":
		return "4294967296", true
	case "int-wrap32m":
		return "4294967297", true
	case "dur-0":
		return "0s", true
	case "dur-1":
		return "1ms", true
	case "dur-max":
		return "2562047h", true
	case "dur-neg":
		return "-1s", true
	case "float-max":
		return "1.7976931348623157e308", true
	case "float-nan":
		return ".nan", true
	case "float-inf":
		return ".inf", true
	case "float-half":
		return "0.5", true
	case "list-empty":
		return "[]", true
	case "list-emptyelem":
		return `[""]`, true
	case "list-mixedemptyelem":
		return `[svc, ""]`, true
	case "list-rootonly":
		return `["root."]`, true
	case "list-computed":
		return `["?.", "?.NUM_DESCENDANTS"]`, true
	case "list-dup":
		return `[svc, svc, root.svc, root.svc]`, true
	case "list-null":
		return `[null]`, true
	case "obj-empty":
		return "{}", true
	case "obj-null":
		return "null", true
	case "objs-empty":
		return "[]", true
	case "objs-nullelem":
		return "[null]", true
	case "objs-emptyelem":
		return "[{}]", true
	case "str-empty":
		return `""`, true
	case "str-root":
		return `"root."`, true
	case "str-computed":
		return `"?."`, true
	case "str-descendants":
		return `"?.NUM_DESCENDANTS"`, true
	case "str-span":
		return "span", true
	case "str-trace":
		return "trace", true
	}
	return "", false
}

// c28SamplerYAML renders one sampler (flow style) with parameter param replaced.
func c28SamplerYAML(sampler, param, val string) (string, error) {
	base, ok := c28SamplerBase[sampler]
	if !ok {
		return "", fmt.Errorf("unknown sampler %q", sampler)
	}
	var parts []string
	found := false
	for _, kv := range base {
		v := kv[1]
		if kv[0] == param {
			found = true
			r, ok := c28Value(val)
			if !ok {
				return "", fmt.Errorf("unknown value class %q", val)
			}
			if r == "\x00absent" {
				continue
			}
			v = r
		}
		parts = append(parts, kv[0]+": "+v)
	}
	if !found && param != "-" {
		return "", fmt.Errorf("sampler %s has no parameter %s", sampler, param)
	}
	return sampler + ": {" + strings.Join(parts, ", ") + "}", nil
}

func c28CondValue(valk string) (string, bool) {
	switch valk {
	case "absent":
		return "\x00absent", true
	case "int":
		return "5", true
	case "str":
		return "c28svc", true
	case "numstr":
		return `"12"`, true
	case "bool":
		return "true", true
	case "float":
		return "1.5", true
	case "nan":
		return ".nan", true
	case "null":
		return "null", true
	case "list":
		return "[c28svc, other]", true
	case "intlist":
		return "[12, 5]", true
	case "emptylist":
		return "[]", true
	case "mixedlist":
		return "[c28svc, 5]", true
	case "badregex":
		return `"("`, true
	case "emptystr":
		return `""`, true
	case "nestedlist":
		return "[[c28svc, other], [12]]", true
	case "map":
		return "{c28svc: 12}", true
	}
	return "", false
}

// c28FieldValues: the value classes of the span field that a rule condition or a sampler key reads
var c28FieldValues = []string{"fv-str", "fv-emptystr", "fv-int", "fv-hugenum", "fv-float", "fv-nan", "fv-bool", "fv-nil", "fv-array",
	"fv-nestedarray", "fv-emptyarray", "fv-map", "fv-absent"}

// c28FieldValue returns the value of class fv (absent = false).
func c28FieldValue(fv string) (any, bool, error) {
	switch fv {
	case "", "-", "fv-str":
		return "c28svc", true, nil
	case "fv-emptystr":
		return "", true, nil
	case "fv-int":
		return int64(12), true, nil
	case "fv-hugenum":
		return c28U64(math.MaxUint64), true, nil
	case "fv-float":
		return 1.5, true, nil
	case "fv-nan":
		return math.NaN(), true, nil
	case "fv-bool":
		return true, true, nil
	case "fv-nil":
		return nil, true, nil
	case "fv-array":
		return []any{"c28svc", "other"}, true, nil
	case "fv-nestedarray":
		return []any{[]any{"c28svc", "other"}, []any{int64(12)}}, true, nil
	case "fv-emptyarray":
		return []any{}, true, nil
	case "fv-map":
		return c28Map{{"c28svc", int64(12)}}, true, nil
	case "fv-absent":
		return nil, false, nil
	}
	return nil, false, fmt.Errorf("unknown field-value class %q", fv)
}

// c28RulesYAML renders the rules file of a configuration vector.
func c28RulesYAML(v map[string]any) (string, error) {
	sampler, place, param, val := verifkit.Str(v, "sampler"), verifkit.Str(v, "place"), verifkit.Str(v, "param"), verifkit.Str(v, "val")
	var choice string
	switch sampler {
	case "none": // the sampler choice itself
		switch val {
		case "obj-empty":
			choice = "{}"
		case "two":
			choice = "{DeterministicSampler: {SampleRate: 2}, DynamicSampler: {SampleRate: 2, FieldList: [svc]}}"
		default:
			return "", fmt.Errorf("unknown sampler-choice class %q", val)
		}
	case "RulesBasedSampler":
		rule := map[string]string{"Name": "r1", "SampleRate": "2", "Conditions": `[{Field: svc, Operator: exists}]`}
		order := []string{"Name", "Scope", "SampleRate", "Drop", "Conditions", "Sampler"}
		rules := ""
		switch param {
		case "-":
		case "Rules":
			r, ok := c28Value(val)
			if !ok {
				return "", fmt.Errorf("unknown value class %q", val)
			}
			rules = r
		case "Conditions", "RuleSampleRate", "Scope", "RuleSampler":
			r, ok := c28Value(val)
			if !ok {
				return "", fmt.Errorf("unknown value class %q", val)
			}
			k := map[string]string{"Conditions": "Conditions", "RuleSampleRate": "SampleRate", "Scope": "Scope", "RuleSampler": "Sampler"}[param]
			if param == "RuleSampler" {
				delete(rule, "SampleRate")
			}
			if r == "\x00absent" {
				delete(rule, k)
			} else {
				rule[k] = r
			}
		case "Field", "Fields":
			r, ok := c28Value(val)
			if !ok {
				return "", fmt.Errorf("unknown value class %q", val)
			}
			c := "Operator: \"=\", Value: c28svc"
			if r != "\x00absent" {
				c = param + ": " + r + ", " + c
			}
			rule["Conditions"] = "[{" + c + "}]"
		case "Cond":
			cv, ok := c28CondValue(verifkit.Str(v, "valk"))
			if !ok {
				return "", fmt.Errorf("unknown condition value class %q", verifkit.Str(v, "valk"))
			}
			c := "Fields: [svc, root.dur, \"?.NUM_DESCENDANTS\"], Operator: \"" + val + "\""
			if cv != "\x00absent" {
				c += ", Value: " + cv
			}
			if dt := verifkit.Str(v, "dt"); dt != "absent" {
				c += ", Datatype: " + dt
			}
			rule["Conditions"] = "[{" + c + "}, {Field: dur, Operator: \"" + val + "\"" + func() string {
				if cv != "\x00absent" {
					return ", Value: " + cv
				}
				return ""
			}() + "}]"
			rule["Scope"] = verifkit.Str(v, "place") // span | trace for condition vectors
		default:
			return "", fmt.Errorf("unknown RulesBasedSampler parameter %q", param)
		}
		if rules == "" {
			var parts []string
			for _, k := range order {
				if x, ok := rule[k]; ok {
					parts = append(parts, k+": "+x)
				}
			}
			rules = "[{" + strings.Join(parts, ", ") + "}, {Name: r2, SampleRate: 1}]"
		}
		if rules == "\x00absent" {
			choice = "{RulesBasedSampler: {CheckNestedFields: true}}"
		} else {
			choice = "{RulesBasedSampler: {CheckNestedFields: true, Rules: " + rules + "}}"
		}
	default:
		if param == "KeyFieldValue" { // the sampler as it is; the class is in the probe trace's key fields
			param = "-"
		}
		s, err := c28SamplerYAML(sampler, param, val)
		if err != nil {
			return "", err
		}
		if place == "rule" {
			choice = "{RulesBasedSampler: {Rules: [{Name: r1, Conditions: [{Field: svc, Operator: exists}], Sampler: {" + s + "}}, {Name: r2, Sampler: {" + s + "}}]}}"
		} else {
			choice = "{" + s + "}"
		}
	}
	return "RulesVersion: 2\nSamplers:\n  __default__: " + choice + "\n  " + c28EnvName + ": " + choice + "\n", nil
}

// probe trace: a root and a child span whose payloads went through the real unmarshalling; the
// fields that rule conditions and sampler keys read (svc, kind, dur - also as root.dur, root.kind)
// hold a value of class fv
func (e *c28Env) probeTrace(fv string) (*types.Trace, error) {
	val, present, err := c28FieldValue(fv)
	if err != nil {
		return nil, err
	}
	tr := &types.Trace{TraceID: "c28probe", APIKey: c28Key, Dataset: c28Dataset, Environment: c28EnvName}
	for i := 0; i < 2; i++ {
		f := c28Set(c28Fields(1), "trace.trace_id", "c28probe")
		if i == 0 {
			f = c28Set(f, "trace.parent_id", "")
		}
		if fv != "" && fv != "-" {
			var g c28Map
			for _, kv := range f {
				if kv.K == "svc" || kv.K == "kind" || kv.K == "dur" {
					if !present {
						continue
					}
					kv.V = val
				}
				g = append(g, kv)
			}
			f = g
		}
		f = c28With(f, c28KV{"", "empty-named field"})
		p := types.NewPayload(e.cfg, nil)
		if err := p.UnmarshalMsgpack(c28Msgp(f)); err != nil {
			return nil, err
		}
		sp := &types.Span{Event: &types.Event{APIKey: c28Key, Dataset: c28Dataset, Environment: c28EnvName, Data: p}, TraceID: "c28probe", IsRoot: i == 0}
		tr.AddSpan(sp)
		if i == 0 {
			tr.RootSpan = sp
		}
	}
	return tr, nil
}

// decideProbe decides one probe trace per field-value class in fvs.
func (e *c28Env) decideProbe(fvs []string, rules string) {
	for _, fv := range fvs {
		tr, err := e.probeTrace(fv)
		if err != nil {
			e.record("harness", "", err.Error())
			return
		}
		e.guarded("deciding a probe trace (SamplerFactory + sampler, as collect.makeDecision)", func() { e.decide(tr) })
		if e.failed() {
			e.noteInput("probe trace whose fields svc, kind, dur are of class " + fv + ", under rules file:\n" + rules)
			return
		}
	}
}

func (e *c28Env) evalConfig(v map[string]any) {
	rules, err := c28RulesYAML(v)
	if err != nil {
		e.record("harness", "", err.Error())
		return
	}
	var cfg config.Config
	var lerr error
	isCond := verifkit.Str(v, "param") == "Cond"
	fv := verifkit.Str(v, "fv")
	if cached, ok := e.cfgCache[rules]; ok && isCond {
		cfg = cached // the field-value classes of one condition share its (immutable) loaded configuration
	} else {
		e.guarded("loading the configuration (config.NewConfig)", func() { cfg, lerr = e.load(c28MainYAML(e.honey.URL), rules) })
		if isCond && !e.failed() {
			e.cfgCache[rules] = cfg
		}
	}
	e.mu.Lock()
	e.count++
	e.mu.Unlock()
	if e.failed() {
		e.noteInput("rules file:\n" + rules)
		return
	}
	if cfg == nil {
		_ = lerr // validation (or the YAML decoder) rejected it: that is one of the two allowed answers
		return
	}
	e.cfg.set(cfg)
	e.newFactory()
	defer func() {
		e.guarded("stopping the samplers", func() { e.factory.Stop() })
		e.cfg.set(e.base)
		e.newFactory()
	}()
	// every ingest endpoint once, with a valid body, while this configuration is in force (a rule
	// condition is only ever looked at by the sampler: one request that reaches it is enough)
	eps := []string{"event", "batch", "peer-batch", "otlp-http-traces", "otlp-http-logs", "otlp-grpc-traces", "otlp-grpc-logs"}
	if isCond {
		eps = []string{"batch"}
		if fv != "fv-str" {
			// the condition's other field-value classes only differ in the probe trace: nothing but the
			// sampler decision is run for them (and nothing that could start a goroutine)
			e.cheap = true
			e.decideProbe([]string{fv}, rules)
			return
		}
	}
	for i, ep := range eps {
		encs := c28Encodings(c28Family(ep))
		if !e.thorough { // quick: the endpoint's encodings take turns
			encs = encs[i%len(encs) : i%len(encs)+1]
		}
		for _, enc := range encs {
			if strings.HasPrefix(ep, "otlp-grpc-") {
				enc = "protobuf"
			}
			ct := enc
			e.evalRequestOne(ep, ct, enc)
			if e.failed() {
				e.noteInput("valid " + enc + " request to " + ep + " under rules file:\n" + rules)
				return
			}
		}
	}
	// the debug endpoints marshal the rules
	fmts := []string{"json", "yaml", "toml"}
	if isCond || !e.thorough {
		fmts = fmts[e.seq%3 : e.seq%3+1]
	}
	for _, f := range fmts {
		h := [][2]string{{"X-Honeycomb-Refinery-Query", c28QueryToken}}
		e.send(c28Send{target: "incoming", method: "GET", path: "/query/allrules/" + f, headers: h, label: "allrules"})
		e.send(c28Send{target: "incoming", method: "GET", path: "/query/rules/" + f + "/" + c28EnvName, headers: h, label: "rules"})
	}
	if e.failed() {
		e.noteInput("/query/ of rules file:\n" + rules)
		return
	}
	// and probe traces decided directly (the requests above may all have been refused): the vector's
	// own field-value class, or - where the vector has none - the plain trace and every class
	fvs := append([]string{""}, c28FieldValues...)
	if fv != "" && fv != "-" && !isCond {
		fvs = []string{fv}
	}
	e.decideProbe(fvs, rules)
}

func (e *c28Env) evalRequestOne(ep, ctype, enc string) {
	fam := c28Family(ep)
	body := c28Valid(fam, enc)
	hs := e.headers("key", 0)
	switch ep {
	case "otlp-grpc-traces":
		e.sendGRPC("/opentelemetry.proto.collector.trace.v1.TraceService/Export", "protobuf", "none", hs, c28Body{Enc: enc, Label: "valid", Data: body})
		return
	case "otlp-grpc-logs":
		e.sendGRPC("/opentelemetry.proto.collector.logs.v1.LogsService/Export", "protobuf", "none", hs, c28Body{Enc: enc, Label: "valid", Data: body})
		return
	}
	target, path := "incoming", map[string]string{"event": "/1/events/" + c28Dataset, "batch": "/1/batch/" + c28Dataset, "peer-batch": "/1/batch/" + c28Dataset,
		"otlp-http-traces": "/v1/traces", "otlp-http-logs": "/v1/logs"}[ep]
	if ep == "peer-batch" {
		target = "peer"
	}
	hs = append(hs, [2]string{"Content-Type", c28ContentType(ctype, false)})
	e.send(c28Send{target: target, method: "POST", path: path, headers: hs, body: body, label: "valid " + enc})
}

// selfCheck: the valid body of every endpoint and encoding must be accepted and
// must reach the collector, otherwise the driver is dead (wrong paths, stale documents).
func (e *c28Env) selfCheck() error {
	for _, ep := range []string{"event", "batch", "peer-batch", "otlp-http-traces", "otlp-http-logs", "otlp-grpc-traces", "otlp-grpc-logs"} {
		fam := c28Family(ep)
		for _, enc := range c28Encodings(fam) {
			grpc := strings.HasPrefix(ep, "otlp-grpc-")
			if grpc && enc != "protobuf" {
				continue
			}
			e.mu.Lock()
			before := e.spans
			e.mu.Unlock()
			body := c28Valid(fam, enc)
			hs := e.headers("key", 0)
			var status int
			var ok bool
			if grpc {
				path := "/opentelemetry.proto.collector.trace.v1.TraceService/Export"
				if ep == "otlp-grpc-logs" {
					path = "/opentelemetry.proto.collector.logs.v1.LogsService/Export"
				}
				hs = append(hs, [2]string{"Content-Type", "application/grpc+proto"}, [2]string{"Te", "trailers"})
				req, _ := http.NewRequest("POST", "http://"+e.grpcAddr+path, bytes.NewReader(c28GRPCFrame(0, body)))
				for _, h := range hs {
					req.Header.Add(h[0], h[1])
				}
				resp, err := e.h2c.Do(req)
				if err != nil {
					return fmt.Errorf("self-check %s: %v", ep, err)
				}
				io.Copy(io.Discard, resp.Body)
				resp.Body.Close()
				gs := resp.Trailer.Get("Grpc-Status")
				if gs == "" {
					gs = resp.Header.Get("Grpc-Status")
				}
				if gs != "0" {
					return fmt.Errorf("self-check %s: the valid request got grpc-status %q (%s)", ep, gs, resp.Trailer.Get("Grpc-Message")+resp.Header.Get("Grpc-Message"))
				}
				status, ok = 200, true
			} else {
				target, path := "incoming", map[string]string{"event": "/1/events/" + c28Dataset, "batch": "/1/batch/" + c28Dataset, "peer-batch": "/1/batch/" + c28Dataset,
					"otlp-http-traces": "/v1/traces", "otlp-http-logs": "/v1/logs"}[ep]
				if ep == "peer-batch" {
					target = "peer"
				}
				hs = append(hs, [2]string{"Content-Type", c28ContentType(enc, false)})
				status, ok = e.send(c28Send{target: target, method: "POST", path: path, headers: hs, body: body, label: "self-check"})
			}
			if !ok || status < 200 || status > 299 {
				return fmt.Errorf("self-check %s/%s: the valid request was answered %d (answered=%v)", ep, enc, status, ok)
			}
			e.mu.Lock()
			after := e.spans
			e.fail = nil // a crash on a valid request is a verdict, not a dead driver: the class "valid" will meet it again
			e.mu.Unlock()
			if after == before {
				return fmt.Errorf("self-check %s/%s: the valid request was accepted but no span reached the collector", ep, enc)
			}
		}
	}
	return nil
}

func (e *c28Env) eval(v map[string]any) c28Result {
	e.mu.Lock()
	e.fail, e.count, e.caught, e.caughtWhy, e.cheap = nil, 0, 0, "", false
	e.mu.Unlock()
	switch verifkit.Str(v, "kind") {
	case "req":
		e.evalRequest(v)
	case "cfg":
		e.evalConfig(v)
	default:
		return c28Result{Err: fmt.Sprintf("unknown vector kind in %v", v)}
	}
	if !e.cheap {
		c28Quiesce()
	}
	if !e.failed() && !e.cheap {
		// the process is alive by construction; is the router still answering?
		for _, t := range []string{"incoming", "peer"} {
			if st, ok := e.send(c28Send{target: t, method: "GET", path: "/alive", label: "liveness"}); !ok || st != 200 {
				e.record("hang", "router no longer answers /alive", fmt.Sprintf("%s: status %d answered %v", t, st, ok))
			}
		}
	}
	e.mu.Lock()
	defer e.mu.Unlock()
	r := c28Result{Outcome: "ok", Inputs: e.count, Caught: e.caught, CaughtW: e.caughtWhy}
	if e.fail != nil {
		if e.fail.outcome == "harness" {
			return c28Result{Err: e.fail.detail}
		}
		r.Outcome, r.Why, r.Detail = e.fail.outcome, e.fail.why, e.fail.detail
	}
	return r
}

const (
	c28HardLimit     = uint64(12) << 30
	c28ClassHeadroom = uint64(3) << 30   // address space a class may take on top of what the process holds
	c28BombHeadroom  = uint64(256) << 20 // ... and a class whose members are 5 to 30 bytes long (lenbomb)
)

// c28VSZ is the size of the address space of this process (what RLIMIT_AS limits).
func c28VSZ() uint64 {
	raw, err := os.ReadFile("/proc/self/statm")
	if err != nil {
		return 0
	}
	pages, _ := strconv.ParseUint(strings.Fields(string(raw))[0], 10, 64)
	return pages * uint64(os.Getpagesize())
}

// c28Headroom sets the soft address-space limit for the vector that is about to run.
func c28Headroom(v map[string]any) {
	room := c28ClassHeadroom
	if verifkit.Str(v, "shape") == "lenbomb" {
		room = c28BombHeadroom
	}
	lim := c28VSZ() + room
	if lim > c28HardLimit {
		lim = c28HardLimit
	}
	syscall.Setrlimit(syscall.RLIMIT_AS, &syscall.Rlimit{Cur: lim, Max: c28HardLimit})
}

func c28ChildMain() {
	in := bufio.NewReaderSize(os.NewFile(3, "c28-requests"), 1<<20)
	out := os.NewFile(4, "c28-results")
	reply := func(r c28Result) {
		b, _ := json.Marshal(r)
		out.Write(append(b, '\n'))
	}
	// A bounded address space stands for the memory limit every deployment has: an input that makes
	// Refinery allocate without bound ends in the runtime's "out of memory" here instead of taking
	// the machine down. The bound is set per vector (c28Headroom), relative to what the process
	// already holds, so that one vector is never judged by what earlier ones left behind.
	syscall.Setrlimit(syscall.RLIMIT_AS, &syscall.Rlimit{Cur: c28HardLimit, Max: c28HardLimit})
	env, err := c28NewEnv()
	if err == nil {
		err = env.selfCheck()
	}
	if err != nil {
		reply(c28Result{Outcome: "dead", Err: err.Error()})
		os.Exit(3)
	}
	defer os.RemoveAll(env.dir)
	reply(c28Result{Outcome: "ready"})
	for {
		line, err := in.ReadBytes('\n')
		if err != nil {
			os.RemoveAll(env.dir)
			os.Exit(0) // the supervisor is done
		}
		var req struct {
			ID int            `json:"id"`
			V  map[string]any `json:"v"`
		}
		if err := json.Unmarshal(line, &req); err != nil {
			reply(c28Result{Err: "bad request line: " + err.Error()})
			continue
		}
		c28Headroom(req.V)
		r := env.eval(req.V)
		r.ID = req.ID
		// a child that has grown a lot is replaced rather than carried along
		var ms runtime.MemStats
		runtime.ReadMemStats(&ms)
		if ms.Sys > 512<<20 {
			debug.FreeOSMemory()
		}
		r.Recycle = c28VSZ()+c28ClassHeadroom > c28HardLimit-(1<<30) || ms.Sys > 1<<30
		reply(r)
		if r.Outcome == "hang" || r.Recycle {
			os.RemoveAll(env.dir)
			os.Exit(0) // whatever is still running or held in here must not leak into the next vector
		}
	}
}
