------------------------------ MODULE Collector ------------------------------
(***************************************************************************)
(* The in-memory collector of Refinery: collect/collect.go,                *)
(* collect/collector_worker.go, collect/cache/cache.go and the decision    *)
(* memory it keeps in collect/cache/cuckooSentCache.go.                    *)
(* Properties C01 - C07 (and the collector part of C16).                   *)
(*                                                                         *)
(* Grain of atomicity.  A collector worker is one goroutine that owns its  *)
(* trace buffer and its decision memory, so processSpan, the send tick,    *)
(* sendTracesEarly and the worker's reload branch are atomic with respect  *)
(* to that worker's state.  The pure operators below (ProcessSpanF,        *)
(* DecideF, ForwardTraceF, ...) are those critical sections; the actions   *)
(* of this module compose them at the grain the transition-tour replay can *)
(* force on the real code (worker barrier after every step, sender         *)
(* drained); TraceCollector.tla re-uses the same operators one hook event  *)
(* at a time for traces recorded from really concurrent runs.              *)
(*                                                                         *)
(* Time is in ticks of SendTicker.  The sampler is an oracle               *)
(* Verdicts[epoch][trace]; a rules reload moves to the next epoch.         *)
(***************************************************************************)
EXTENDS Integers, Sequences, FiniteSets, TLC, Json

CONSTANTS
  Traces,        \* set of trace ids (strings)
  WorkerOf,      \* [Traces -> worker number]
  MaxSpans,      \* arrivals per trace are bounded by this
  MaxNow,        \* horizon
  TraceTimeout, SendDelay, SpanLimit, MaxExpired,   \* TracesConfig, in ticks / counts; 0 = unset
  DefTimeout, DefDelay,     \* what the built-in 60 s / 2 s defaults are in ticks
  Verdicts,      \* <<[Traces -> [keep, rate]], ...>> one entry per sampler epoch (1-based)
  Reason,        \* <<reason string per epoch>>
  SpanShapes,    \* set of [kind, root, crate] a client may send
  Cfgs,          \* set of decoration configs reachable by reload
  InitCfg,
  EjectShares,   \* shares (in span-size units) for memory-pressure ejection; {} = off
  StressRates,   \* set of [keep, rate] stress-relief verdicts; {} = no stress path
  ArriveUntil,   \* new (non-late) spans arrive only while now <= ArriveUntil (MaxNow for safety runs)
  ReloadPairs    \* set of <<c1, c2>>: a config change to c2 arriving WHILE the monitor is processing the reload for c1

VARIABLES
  now,      \* clock
  buf,      \* [Traces -> NoBuf or [spans, arrival, sendBy, root]]      (worker caches)
  dec,      \* [Traces -> NoDec or [keep, rate, reason, cnt]]           (decision memory: kept LRU entry / dropped filter)
  fwd,      \* set of forwarded span records (what the upstream transmission received)
  ndec,     \* [Traces -> number of sampler decisions made]             (C01)
  ndrop,    \* [Traces -> number of spans dropped]
  nextId,   \* [Traces -> next span id]
  epoch,    \* current rules epoch
  local,    \* [worker -> epoch of its cached sampler, 0 = none]
  cfg,      \* decoration / dry-run configuration in force
  act

vars == <<now, buf, dec, fwd, ndec, ndrop, nextId, epoch, local, cfg, act>>

Workers == {WorkerOf[t] : t \in Traces}
NoBuf == [n |-> 0]
NoDec == [known |-> FALSE]
IsBuf(t) == buf[t] # NoBuf
IsDec(t) == dec[t] # NoDec

Max(a, b) == IF a > b THEN a ELSE b
Min(a, b) == IF a < b THEN a ELSE b

TT == IF TraceTimeout = 0 THEN DefTimeout ELSE TraceTimeout
SD == IF SendDelay = 0 THEN DefDelay ELSE SendDelay

CountKind(spans, k) == Cardinality({i \in DOMAIN spans : spans[i].kind = k})
Counts(spans) == [total |-> Len(spans), span |-> CountKind(spans, "span"),
                  event |-> CountKind(spans, "event"), link |-> CountKind(spans, "link")]
ZeroCnt == [total |-> 0, span |-> 0, event |-> 0, link |-> 0]
BumpCnt(c, k) == [c EXCEPT !.total = @ + 1, ![k] = @ + 1]

(***************************************************************************)
(* Decorations: what a forwarded span carries.  mergeTraceAndSpanSampleRates *)
(* and the meta.* fields set in sendTraces / dealWithSentTrace /           *)
(* ProcessSpanImmediately.                                                 *)
(***************************************************************************)
\* counts decorating a root span; 0 = not set (a present count of zero is indistinguishable downstream)
NoCnt == [sc |-> 0, ec |-> 0, lc |-> 0, tc |-> 0]
RootCounts(c, sp, cnt) ==
  IF ~sp.root THEN NoCnt
  ELSE IF c.addCounts THEN [sc |-> cnt.span, ec |-> cnt.event, lc |-> cnt.link, tc |-> cnt.total]
  ELSE IF c.addSpanCount THEN [sc |-> cnt.total, ec |-> 0, lc |-> 0, tc |-> 0]
  ELSE NoCnt

\* a span forwarded with a trace rate `rate` (merge applied)
Merged(c, t, sp, rate, keep, reason, sreason, cnt, stressed) ==
  LET cr == Max(sp.crate, 1) IN
  [ t |-> t, id |-> sp.id, crate |-> sp.crate,     \* crate: what the client sent (ghost; the harness knows it)
    rate   |-> IF c.dryRun THEN cr ELSE cr * rate,
    final  |-> IF c.dryRun THEN 0 ELSE cr * rate,
    orig   |-> sp.crate,
    dry    |-> IF c.dryRun /\ ~stressed THEN (IF keep THEN "true" ELSE "false") ELSE "",
    dryrate |-> IF c.dryRun THEN cr * rate ELSE 0,
    reason |-> IF c.addReason THEN reason ELSE "",
    sreason |-> IF c.addReason /\ ~stressed THEN sreason ELSE "",
    stressed |-> stressed,
    attrs  |-> c.attrs,
    host   |-> c.addHost,
    cnt    |-> RootCounts(c, sp, cnt) ]

\* a late span of a would-be-dropped trace forwarded under dry run: no merge at all
DryLateDropped(c, t, sp, reason) ==
  [ t |-> t, id |-> sp.id, crate |-> sp.crate, rate |-> Max(sp.crate, 1), final |-> 0, orig |-> 0,
    dry |-> "false", dryrate |-> 0,
    reason |-> IF c.addReason THEN reason ELSE "",
    sreason |-> IF c.addReason THEN "trace_send_late_span" ELSE "",
    stressed |-> FALSE, attrs |-> c.attrs, host |-> c.addHost,
    cnt |-> NoCnt ]

LateReason(r) == IF r = "" THEN "late arriving span" ELSE r \o " - late arriving span"

(***************************************************************************)
(* processSpan (collector_worker.go)                                       *)
(***************************************************************************)
\* the buffer entry after adding span sp at time `now`
AddSpanF(b, sp) ==
  LET b0 == IF b = NoBuf THEN [n |-> 1, spans |-> <<>>, arrival |-> now, sendBy |-> now + TT, root |-> FALSE] ELSE b
      spans1 == Append(b0.spans, sp)
      over == SpanLimit > 0 /\ Len(spans1) > SpanLimit
      mark == sp.root \/ over
      upd == now + (IF over THEN 0 ELSE SD)
  IN [b0 EXCEPT !.spans = spans1, !.n = Len(spans1),
                !.root = b0.root \/ sp.root,
                !.sendBy = IF mark /\ b0.sendBy > upd THEN upd ELSE b0.sendBy]

\* ProcessSpan: buffered / new trace / late span
ProcessSpan(t, shape) ==
  LET sp == [id |-> nextId[t], kind |-> shape.kind, root |-> shape.root, crate |-> shape.crate] IN
  /\ nextId[t] <= MaxSpans
  /\ nextId' = [nextId EXCEPT ![t] = @ + 1]
  /\ act' = [name |-> "Span", t |-> t, id |-> sp.id, kind |-> sp.kind, root |-> sp.root, crate |-> sp.crate]
  /\ UNCHANGED <<now, ndec, epoch, local, cfg>>
  /\ IF ~IsBuf(t) /\ IsDec(t)
     THEN \* late span: dealWithSentTrace obeys the remembered decision
          LET d == dec[t]
              cnt1 == IF d.keep THEN BumpCnt(d.cnt, sp.kind) ELSE d.cnt   \* CheckSpan counts it
          IN /\ dec' = [dec EXCEPT ![t].cnt = cnt1]
             /\ buf' = buf
             /\ IF d.keep
                THEN /\ fwd' = fwd \cup {Merged(cfg, t, sp, d.rate, TRUE, LateReason(d.reason), "trace_send_late_span", cnt1, FALSE)}
                     /\ ndrop' = ndrop
                ELSE IF cfg.dryRun
                THEN /\ fwd' = fwd \cup {DryLateDropped(cfg, t, sp, LateReason(""))}
                     /\ ndrop' = ndrop
                ELSE /\ fwd' = fwd
                     /\ ndrop' = [ndrop EXCEPT ![t] = @ + 1]
     ELSE /\ now <= ArriveUntil
          /\ buf' = [buf EXCEPT ![t] = AddSpanF(buf[t], sp)]
          /\ UNCHANGED <<dec, fwd, ndrop>>

(***************************************************************************)
(* makeDecision + send + sendTraces for one trace (worker w)               *)
(* Returns the new [dec, fwd, ndec, ndrop, local] pieces as a record.      *)
(***************************************************************************)
DecideF(S, t, sreason) ==
  LET w == WorkerOf[t]
      ep == IF S.local[w] = 0 THEN epoch ELSE S.local[w]      \* lazily created sampler
      v == Verdicts[ep][t]
      b == buf[t]
      cnt == Counts(b.spans)
      reason == Reason[ep]
      send == v.keep \/ cfg.dryRun
  IN [ dec   |-> [S.dec EXCEPT ![t] = [known |-> TRUE, keep |-> v.keep, rate |-> v.rate, reason |-> reason, cnt |-> cnt]],
       fwd   |-> IF send
                 THEN S.fwd \cup {Merged(cfg, t, b.spans[i], v.rate, v.keep, reason, sreason, cnt, FALSE) : i \in DOMAIN b.spans}
                 ELSE S.fwd,
       ndec  |-> [S.ndec EXCEPT ![t] = @ + 1],
       ndrop |-> IF send THEN S.ndrop ELSE [S.ndrop EXCEPT ![t] = @ + b.n],
       local |-> [S.local EXCEPT ![w] = ep] ]

RECURSIVE DecideAll(_, _, _)
DecideAll(S, ts, sreasonOf) ==
  IF ts = {} THEN S
  ELSE LET t == CHOOSE x \in ts : TRUE IN DecideAll(DecideF(S, t, sreasonOf[t]), ts \ {t}, sreasonOf)

S0 == [dec |-> dec, fwd |-> fwd, ndec |-> ndec, ndrop |-> ndrop, local |-> local]

ExpiryReason(t) ==
  IF buf[t].root THEN "trace_send_got_root"
  ELSE IF SpanLimit > 0 /\ buf[t].n > SpanLimit THEN "trace_send_span_limit"
  ELSE "trace_send_expired"

(***************************************************************************)
(* The send tick: the clock advances one SendTicker period and every worker*)
(* runs sendExpiredTracesInCache: at most MaxExpired expired traces,       *)
(* earliest deadline first (ties free).                                    *)
(***************************************************************************)
Expired(w, at) == {t \in Traces : WorkerOf[t] = w /\ IsBuf(t) /\ buf[t].sendBy <= at}
Takeable(w, at) ==
  LET ex == Expired(w, at)
      k == IF MaxExpired <= 0 THEN Cardinality(ex) ELSE Min(MaxExpired, Cardinality(ex))
  IN {c \in SUBSET ex : /\ Cardinality(c) = k
                        /\ \A x \in c, y \in ex \ c : buf[x].sendBy <= buf[y].sendBy}

Tick ==
  /\ now < MaxNow
  /\ now' = now + 1
  /\ \E choice \in [Workers -> SUBSET Traces] :
       /\ \A w \in Workers : choice[w] \in Takeable(w, now + 1)
       /\ LET chosen == UNION {choice[w] : w \in Workers}
              S == DecideAll(S0, chosen, [t \in Traces |-> ExpiryReason(t)])
          IN /\ dec' = S.dec /\ fwd' = S.fwd /\ ndec' = S.ndec /\ ndrop' = S.ndrop /\ local' = S.local
             /\ buf' = [t \in Traces |-> IF t \in chosen THEN NoBuf ELSE buf[t]]
  /\ act' = [name |-> "Tick"]
  /\ UNCHANGED <<nextId, epoch, cfg>>

(***************************************************************************)
(* Memory-pressure ejection on worker w with a share of `share` size units *)
(* (sendTracesEarly): heaviest first (ties free), decide until the released*)
(* size EXCEEDS the share or the buffer is empty.  Every span has size 1.  *)
(***************************************************************************)
Buffered(w) == {t \in Traces : WorkerOf[t] = w /\ IsBuf(t)}
\* all orders of the worker's buffer that are sorted by size, heaviest first
RECURSIVE Orders(_)
Orders(ts) ==
  IF ts = {} THEN {<<>>}
  ELSE LET mx == CHOOSE m \in {buf[t].n : t \in ts} : \A t \in ts : buf[t].n <= m
       IN UNION {{<<h>> \o rest : rest \in Orders(ts \ {h})} : h \in {t \in ts : buf[t].n = mx}}
\* the prefix of an order that gets ejected
RECURSIVE EjectPrefix(_, _, _)
EjectPrefix(order, share, released) ==
  IF order = <<>> THEN {}
  ELSE LET t == Head(order)
           r == released + buf[t].n
       IN {t} \cup (IF r > share THEN {} ELSE EjectPrefix(Tail(order), share, r))

Eject(w, share) ==
  /\ Buffered(w) # {}
  /\ \E order \in Orders(Buffered(w)) :
       LET chosen == EjectPrefix(order, share, 0)
           S == DecideAll(S0, chosen, [t \in Traces |-> "trace_send_ejected_memsize"])
       IN /\ dec' = S.dec /\ fwd' = S.fwd /\ ndec' = S.ndec /\ ndrop' = S.ndrop /\ local' = S.local
          /\ buf' = [t \in Traces |-> IF t \in chosen THEN NoBuf ELSE buf[t]]
  /\ act' = [name |-> "Eject", w |-> w, share |-> share]
  /\ UNCHANGED <<now, nextId, epoch, cfg>>

(***************************************************************************)
(* Reloads.  A rules reload clears the sampler registry and every worker's *)
(* cached samplers (atomic here; split into signal / worker steps in       *)
(* TraceCollector).  A config reload changes the decoration options.       *)
(***************************************************************************)
ReloadRules ==
  /\ epoch < Len(Verdicts)
  /\ epoch' = epoch + 1
  /\ local' = [w \in Workers |-> 0]
  /\ act' = [name |-> "ReloadRules"]
  /\ UNCHANGED <<now, buf, dec, fwd, ndec, ndrop, nextId, cfg>>

ReloadCfg(c) ==
  /\ c # cfg
  /\ cfg' = c
  /\ act' = [name |-> "ReloadCfg", cfg |-> c]
  /\ UNCHANGED <<now, buf, dec, fwd, ndec, ndrop, nextId, epoch, local>>

\* A second configuration change arrives while the monitor goroutine is still inside reloadConfigs for the
\* first one (the reload notification channel holds one pending signal): no change may be lost - once the
\* collector is quiescent again the configuration in force is the LAST one.
ReloadCfgDuring(c1, c2) ==
  /\ cfg' = c2
  /\ act' = [name |-> "ReloadCfgDuring", cfg1 |-> c1, cfg2 |-> c2]
  /\ UNCHANGED <<now, buf, dec, fwd, ndec, ndrop, nextId, epoch, local>>

(***************************************************************************)
(* Stress relief: ProcessSpanImmediately for a span of trace t with the    *)
(* stress-relief verdict sv (only for a trace that is not buffered: the    *)
(* router calls it only for traces the collector does not hold).           *)
(***************************************************************************)
StressSpan(t, shape, sv) ==
  LET sp == [id |-> nextId[t], kind |-> shape.kind, root |-> shape.root, crate |-> shape.crate]
      known == IsDec(t)
      keep == IF known THEN dec[t].keep ELSE sv.keep
      rate == IF known THEN (IF dec[t].keep THEN dec[t].rate ELSE 0) ELSE sv.rate
      reason == IF known THEN dec[t].reason ELSE "stress_relief"
      cnt1 == IF known /\ dec[t].keep THEN BumpCnt(dec[t].cnt, sp.kind) ELSE IF known THEN dec[t].cnt ELSE ZeroCnt
  IN
  /\ nextId[t] <= MaxSpans
  /\ ~IsBuf(t)
  /\ nextId' = [nextId EXCEPT ![t] = @ + 1]
  /\ dec' = [dec EXCEPT ![t] = IF known THEN [dec[t] EXCEPT !.cnt = cnt1]
                                ELSE [known |-> TRUE, keep |-> sv.keep, rate |-> sv.rate, reason |-> "stress_relief", cnt |-> ZeroCnt]]
  /\ IF keep
     THEN /\ fwd' = fwd \cup {[Merged(cfg, t, sp, rate, TRUE, reason, "", ZeroCnt, TRUE) EXCEPT !.cnt = NoCnt]}
          /\ ndrop' = ndrop
     ELSE /\ fwd' = fwd
          /\ ndrop' = [ndrop EXCEPT ![t] = @ + 1]
  /\ act' = [name |-> "StressSpan", t |-> t, id |-> sp.id, kind |-> sp.kind, root |-> sp.root, crate |-> sp.crate, keep |-> sv.keep, rate |-> sv.rate]
  /\ UNCHANGED <<now, buf, ndec, epoch, local, cfg>>

Init ==
  /\ now = 0
  /\ buf = [t \in Traces |-> NoBuf]
  /\ dec = [t \in Traces |-> NoDec]
  /\ fwd = {}
  /\ ndec = [t \in Traces |-> 0]
  /\ ndrop = [t \in Traces |-> 0]
  /\ nextId = [t \in Traces |-> 1]
  /\ epoch = 1
  /\ local = [w \in Workers |-> 0]
  /\ cfg = InitCfg
  /\ act = [name |-> "Init"]

Next ==
  \/ \E t \in Traces, sh \in SpanShapes : ProcessSpan(t, sh)
  \/ Tick
  \/ \E w \in Workers, s \in EjectShares : Eject(w, s)
  \/ ReloadRules
  \/ \E c \in Cfgs : ReloadCfg(c)
  \/ \E pr \in ReloadPairs : ReloadCfgDuring(pr[1], pr[2])
  \/ \E t \in Traces, sh \in SpanShapes, sv \in StressRates : StressSpan(t, sh, sv)

Spec == Init /\ [][Next]_vars
FairSpec == Spec /\ WF_vars(Tick)

(***************************************************************************)
(* Properties                                                              *)
(***************************************************************************)
TypeOK ==
  /\ now \in 0 .. MaxNow
  /\ \A t \in Traces : ndec[t] \in 0 .. 1 /\ nextId[t] \in 1 .. MaxSpans + 1
  /\ epoch \in 1 .. Len(Verdicts)

FwdOf(t) == {r \in fwd : r.t = t}
AcceptedIds(t) == 1 .. (nextId[t] - 1)
BufferedIds(t) == IF IsBuf(t) THEN {buf[t].spans[i].id : i \in DOMAIN buf[t].spans} ELSE {}

\* C01: one decision per trace, every accepted span treated according to it
\* (the stress path and dry run are the documented exceptions)
OneDecision ==
  \A t \in Traces :
    /\ ndec[t] <= 1
    /\ (IsDec(t) /\ ~IsBuf(t) /\ StressRates = {} /\ \A c \in Cfgs \cup {InitCfg} : ~c.dryRun) =>
         IF dec[t].keep THEN {r.id : r \in FwdOf(t)} = AcceptedIds(t) /\ ndrop[t] = 0
         ELSE FwdOf(t) = {} /\ ndrop[t] = Cardinality(AcceptedIds(t))

\* C02: every accepted span is buffered, forwarded exactly once, or dropped; never two of those;
\* nothing is forwarded for an undecided trace
ExactlyOnce ==
  \A t \in Traces :
    /\ \A r1, r2 \in FwdOf(t) : r1.id = r2.id => r1 = r2
    /\ {r.id : r \in FwdOf(t)} \cap BufferedIds(t) = {}
    /\ Cardinality(FwdOf(t)) + Cardinality(BufferedIds(t)) + ndrop[t] = Cardinality(AcceptedIds(t))
    /\ (FwdOf(t) # {} => IsDec(t))
    /\ (IsDec(t) /\ IsBuf(t) => FALSE)   \* a decided trace has left the buffer

\* C02 liveness: every buffered trace is eventually decided (checked under FairSpec with the horizon lifted)
EventuallyDecided == \A t \in Traces : IsBuf(t) ~> ~IsBuf(t)

\* C03: timing.  (i) nothing is decided before its deadline except by ejection;
\* (ii) deadlines follow the three rules and never move later; (iii) send reasons.
DecidedOnTime ==
  [][ \A t \in Traces :
        (IsBuf(t) /\ ~IsBuf(t)') =>
           \/ act'.name = "Eject"
           \/ act'.name = "Tick" /\ buf[t].sendBy <= now' ]_vars
DeadlineNeverLater ==
  [][ \A t \in Traces : (IsBuf(t) /\ IsBuf(t)') => buf[t]'.sendBy <= buf[t].sendBy /\ buf[t]'.arrival = buf[t].arrival ]_vars
DeadlineRule ==
  \A t \in Traces : IsBuf(t) =>
    /\ buf[t].sendBy <= buf[t].arrival + TT
    /\ buf[t].sendBy >= buf[t].arrival
\* a tick that leaves an expired trace behind took MaxExpired others that were due no later
BacklogOrder ==
  [][ act'.name = "Tick" =>
        \A w \in Workers :
          LET left == {t \in Traces : WorkerOf[t] = w /\ IsBuf(t) /\ IsBuf(t)' /\ buf[t].sendBy <= now'}
              took == {t \in Traces : WorkerOf[t] = w /\ IsBuf(t) /\ ~IsBuf(t)'}
          IN left # {} => /\ MaxExpired > 0 /\ Cardinality(took) = MaxExpired
                          /\ \A x \in took, y \in left : buf[x].sendBy <= buf[y].sendBy ]_vars
\* send reason: 'got root' iff a root span was present at the decision, else 'span limit' iff over the limit
SendReasonRule ==
  \A r \in fwd :
    LET same == {y \in fwd : y.t = r.t /\ y.sreason = r.sreason} IN
    /\ (r.sreason = "trace_send_span_limit" => SpanLimit > 0 /\ Cardinality(same) > SpanLimit)

\* C04: forwarded sample rates compose
RatesCompose ==
  \A r \in fwd :
    /\ r.rate >= 1
    /\ (r.final # 0 => r.final = r.rate)
    /\ (r.orig # 0 => r.orig = r.crate)
    /\ (r.dry = "" => r.orig = r.crate /\ r.final = r.rate)
    /\ (r.dry = "" /\ ~r.stressed /\ IsDec(r.t) /\ dec[r.t].keep) => r.rate = Max(r.crate, 1) * dec[r.t].rate
    /\ (r.dry = "" /\ r.stressed) => \E k \in 1 .. 1000 : r.rate = Max(r.crate, 1) * k

\* C05: under dry run every processed span is forwarded with the would-be decision
DryRunForwardsAll ==
  (\A c \in Cfgs \cup {InitCfg} : c.dryRun) /\ StressRates = {} =>
    \A t \in Traces :
      /\ ndrop[t] = 0
      /\ \A r \in FwdOf(t) : r.dry = (IF dec[t].keep THEN "true" ELSE "false") /\ r.rate = Max(r.crate, 1)

\* C07: ejected traces are decided like any other and leave the buffer
EjectDecides ==
  [][ act'.name = "Eject" =>
        /\ \E t \in Traces : IsBuf(t) /\ ~IsBuf(t)'
        /\ \A t \in Traces : (IsBuf(t) /\ ~IsBuf(t)') => IsDec(t)' /\ ndec[t]' = ndec[t] + 1 ]_vars

\* --- conformance plumbing -------------------------------------------------
BufAbs(t) == IF IsBuf(t) THEN [n |-> buf[t].n, sendBy |-> buf[t].sendBy, root |-> buf[t].root]
             ELSE [n |-> 0, sendBy |-> -1, root |-> FALSE]
Abs == [ now |-> now,
         buf |-> [t \in Traces |-> BufAbs(t)],
         fwdSet |-> fwd,
         ndec |-> ndec,
         ndrop |-> ndrop,
         hostOn |-> cfg.addHost ]      \* whether spans forwarded now would carry the hostname (the one option the collector caches)
\* constants the harness needs to build the matching real collector
Params == [ tt |-> TraceTimeout, sd |-> SendDelay, sl |-> SpanLimit, me |-> MaxExpired,
            workerOf |-> WorkerOf, verdicts |-> Verdicts, reasons |-> Reason ]
\* hidden part of the state (identity of a graph node = Abs + Hid)
Hid == [ bufFull |-> buf, dec |-> dec, nextId |-> nextId, epoch |-> epoch,
         local |-> {[w |-> w, e |-> local[w]] : w \in Workers}, cfg |-> cfg ]
ASSUME PrintT(ToJson([params |-> Params]))
Dump == PrintT(ToJson([fa |-> act.name, act |-> act', fabs |-> Abs, fhid |-> Hid, tabs |-> Abs', thid |-> Hid']))
View == <<now, buf, dec, fwd, ndec, ndrop, nextId, epoch, local, cfg>>
=============================================================================
