\* C15 pure model checking of the ideal specification (Faithful = FALSE: no deviation edge; both hold variants), quick bound
SPECIFICATION Spec
CONSTANTS
  Peers = {"p1"}
  LocalLevels = {0, 40, 100}
  PeerLevels = {0, 100}
  Sources = {"incoming", "peer", "memory"}
  ModeNames = {"never", "monitor", "always", ""}
  Thresholds <- ThOne
  MinDurs = {0, 1}
  Timeout = 1
  AdvSteps = {1, 2}
  HoldStrict = TRUE
  ExpiryClosed = TRUE
  HoldBy = "either"
  Faithful = FALSE
INVARIANTS TypeOK LevelBounded
PROPERTIES LevelFormula OnlyRecalcSwitches OnOnlyIfReached OnWhenReached OffOnlyAfterHold ModePins
VIEW View
