SPECIFICATION Spec
CONSTANTS
  Gaps <- Gaps3F
  T = 10
  Goals = {12}
  MaxEvents = 4
  MaxClears = 0
  Hosts = {"a"}
  Strict = FALSE
  TrackQuiet = TRUE
  UnitMs = 1000
INVARIANTS TypeOK SeenIsACount MembersConverged GoalConverged

CHECK_DEADLOCK FALSE
ACTION_CONSTRAINT Dump
VIEW View
