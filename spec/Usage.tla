------------------------------- MODULE Usage -------------------------------
(***************************************************************************)
(* agent.usageTracker and Agent.sendUsageReport (property C34).            *)
(*                                                                         *)
(* Per usage signal s the agent samples a cumulative counter cum[s] of the *)
(* metrics store and turns it into deltas:                                 *)
(*   seen[s]  usageTracker.lastUsageData: the last cumulative reading      *)
(*   cur[s]   usageTracker.currentDataPoints: usage not yet put in a report*)
(*   pend[s]  usageTracker.lastDataPoints: usage put in a report whose     *)
(*            delivery is not confirmed yet                                *)
(* sendUsageReport is one goroutine (reportUsagePeriodically) whose steps  *)
(* are separate critical sections; the sampler (healthCheck -> Add) runs   *)
(* concurrently and may interleave anywhere between them:                  *)
(*   NewReport       usageTracker.NewReport under the tracker mutex        *)
(*   RespondFail     SendCustomMessage returns an error: report abandoned  *)
(*   RespondPending  SendCustomMessage returns ErrCustomMessagePending: wait*)
(*                   for the message in the way, or give up with an error  *)
(*                   once the report has been offered Attempts times       *)
(*   PrevSent        the message in the way has been sent; next attempt    *)
(*   Accept          SendCustomMessage accepts the message                 *)
(*   Ack             the accepted message's channel closes: completeSend   *)
(* rep[s] is the usage carried by the report being sent, delivered[s] the  *)
(* ghost total carried by acknowledged reports.                            *)
(*                                                                         *)
(* Overwrite = FALSE is the behaviour the property demands (NewReport adds *)
(* the new deltas to the still unconfirmed ones).  Overwrite = TRUE is what*)
(* usage_report.go did before pending_fixes/C34-*.diff (lastDataPoints =   *)
(* currentDataPoints): TLC then reports Conservation violated after        *)
(* NewReport ; RespondFail ; NewReport (MC_Usage_unpatched.cfg, not part   *)
(* of the check).                                                          *)
(*                                                                         *)
(* Left open by the property: whether a report whose usage is all zero is  *)
(* sent or skipped ("no data").  ZeroReports = "keys" is what the code     *)
(* does (the two maps are Go maps; a report is built iff either has a key, *)
(* and Add creates a key even for a zero delta), so an absent key is       *)
(* modelled as -1; ZeroReports = "never" is the other natural convention   *)
(* (no report unless some usage is non-zero).  The check accepts either.   *)
(* Also open: how often a report is retried after "pending" (the code: one *)
(* retry, Attempts = 2; Attempts = 3 is accepted as well).                 *)
(***************************************************************************)
EXTENDS Integers, FiniteSets, TLC, Json

CONSTANTS Signals,    \* set of strings
          MaxCum,     \* horizon of each cumulative counter
          Steps,      \* growth increments
          Overwrite,  \* FALSE: property / patched code; TRUE: unpatched code
          ZeroReports,\* "keys" | "never"
          Attempts    \* how often one report is offered to the client when it answers "pending"

VARIABLES cum, seen, cur, pend, rep, phase, att, res, delivered, act

vars == <<cum, seen, cur, pend, rep, phase, att, res, delivered, act>>

Zero == [s \in Signals |-> 0]

\* an absent map key, and the usage a map entry stands for
None == IF ZeroReports = "keys" THEN 0 - 1 ELSE 0
Empty == [s \in Signals |-> None]
V(x) == IF x < 0 THEN 0 ELSE x

Phases == {"idle", "offered", "waitprev", "accepted"}
Results == {"none", "nodata", "fail", "ok"}

\* what an observer of the OpAMP client and of sendUsageReport's result sees
Abs == [ phase     |-> phase,
         attempt   |-> att,          \* SendCustomMessage calls made for the report being sent (0 when idle)
         report    |-> rep,          \* usage per signal in the message being sent (zero when idle)
         delivered |-> delivered,    \* usage per signal in acknowledged messages
         res       |-> res ]         \* outcome of the last finished sendUsageReport

Init == /\ cum = Zero /\ seen = Zero /\ cur = Empty /\ pend = Empty /\ rep = Zero
        /\ delivered = Zero
        /\ phase = "idle" /\ att = 0 /\ res = "none"
        /\ act = [name |-> "Init"]

\* the underlying counter of the metrics store grows
Grow(s, d) == /\ cum[s] + d <= MaxCum
              /\ cum' = [cum EXCEPT ![s] = @ + d]
              /\ UNCHANGED <<seen, cur, pend, rep, phase, att, res, delivered>>
              /\ act' = [name |-> "Grow", s |-> s, d |-> d]

\* healthCheck: usageTracker.Add(s, metrics.Get(...)); a zero reading is ignored
Sample(s) == /\ IF cum[s] = 0 THEN UNCHANGED <<cur, seen>>
                ELSE /\ cur' = [cur EXCEPT ![s] = V(@) + (cum[s] - seen[s])]
                     /\ seen' = [seen EXCEPT ![s] = cum[s]]
             /\ UNCHANGED <<cum, pend, rep, phase, att, res, delivered>>
             /\ act' = [name |-> "Sample", s |-> s]

NothingToReport == IF ZeroReports = "keys" THEN cur = Empty /\ pend = Empty
                   ELSE \A s \in Signals : V(cur[s]) + V(pend[s]) = 0

\* sendUsageReport starts: usageTracker.NewReport, then the message is offered to the client
NewReport ==
  /\ phase = "idle"
  /\ \/ /\ NothingToReport                      \* errNoData
        /\ res' = "nodata"
        /\ UNCHANGED <<cur, pend, rep, phase, att>>
     \/ /\ ~NothingToReport
        /\ rep' = [s \in Signals |-> V(cur[s]) + V(pend[s])]
        /\ pend' = IF Overwrite THEN cur
                   ELSE [s \in Signals |-> IF cur[s] = None THEN pend[s] ELSE V(pend[s]) + V(cur[s])]
        /\ cur' = Empty
        /\ phase' = "offered" /\ att' = 1
        /\ res' = "none"
  /\ UNCHANGED <<cum, seen, delivered>>
  /\ act' = [name |-> "NewReport"]

Abandon == /\ phase' = "idle" /\ att' = 0 /\ res' = "fail" /\ rep' = Zero
           /\ UNCHANGED <<cum, seen, cur, pend, delivered>>

\* SendCustomMessage returns an error other than "pending"
RespondFail == /\ phase = "offered"
               /\ Abandon
               /\ act' = [name |-> "RespondFail"]

\* SendCustomMessage returns ErrCustomMessagePending: wait for the message that is
\* in the way and retry; "pending" on the last attempt is an ordinary failure
RespondPending ==
  /\ phase = "offered"
  /\ IF att < Attempts
       THEN /\ phase' = "waitprev"
            /\ UNCHANGED <<cum, seen, cur, pend, rep, att, res, delivered>>
       ELSE Abandon
  /\ act' = [name |-> "RespondPending"]

PrevSent == /\ phase = "waitprev"
            /\ phase' = "offered" /\ att' = att + 1
            /\ UNCHANGED <<cum, seen, cur, pend, rep, res, delivered>>
            /\ act' = [name |-> "PrevSent"]

Accept == /\ phase = "offered"
          /\ phase' = "accepted"
          /\ UNCHANGED <<cum, seen, cur, pend, rep, att, res, delivered>>
          /\ act' = [name |-> "Accept"]

\* the accepted message has been sent: completeSend clears lastDataPoints
Ack == /\ phase = "accepted"
       /\ delivered' = [s \in Signals |-> delivered[s] + rep[s]]
       /\ pend' = Empty
       /\ rep' = Zero
       /\ phase' = "idle" /\ att' = 0 /\ res' = "ok"
       /\ UNCHANGED <<cum, seen, cur>>
       /\ act' = [name |-> "Ack"]

Next == \/ \E s \in Signals, d \in Steps : Grow(s, d)
        \/ \E s \in Signals : Sample(s)
        \/ NewReport \/ RespondFail \/ RespondPending \/ PrevSent \/ Accept \/ Ack

Spec == Init /\ [][Next]_vars

TypeOK == /\ cum \in [Signals -> 0 .. MaxCum] /\ seen \in [Signals -> 0 .. MaxCum]
          /\ cur \in [Signals -> Int] /\ pend \in [Signals -> Int]
          /\ rep \in [Signals -> Int] /\ delivered \in [Signals -> Int]
          /\ phase \in Phases /\ res \in Results /\ att \in 0 .. Attempts
          /\ (phase = "idle") = (att = 0)

\* C34: delivered usage = growth of the counters minus what is still waiting
\* (not sampled yet, not reported yet, reported but unconfirmed)
Conservation ==
  \A s \in Signals : delivered[s] + V(pend[s]) + V(cur[s]) + (cum[s] - seen[s]) = cum[s]

\* C34: no negative usage anywhere, in particular in no report
NonNegative == \A s \in Signals : rep[s] >= 0 /\ cur[s] >= None /\ pend[s] >= None /\ delivered[s] >= 0

\* C34: nothing is counted twice
NoDoubleCount == \A s \in Signals : delivered[s] <= cum[s]

\* the message being sent carries exactly the unconfirmed usage
InFlightIsPending == phase # "idle" => \A s \in Signals : rep[s] = V(pend[s])

DeliveredMonotone == [][\A s \in Signals : delivered'[s] >= delivered[s]]_vars

\* a failed or pending send never changes what was delivered; only Ack does
OnlyAckDelivers == [][delivered' # delivered => act'.name = "Ack"]_vars

\* usage that was put in a report stays unconfirmed until a report carrying it is
\* acknowledged: no client answer (failure, "pending" on the first attempt, "pending"
\* again on the retry) and no sampling clears or changes it
OnlyAckClearsPending == [][pend' # pend => act'.name \in {"NewReport", "Ack"}]_vars

\* in particular the scenario "pending, previous message sent, pending again" (on
\* the last attempt): sendUsageReport gives up with an error and everything stays as it was
PendingTwiceKeeps ==
  [][(phase = "offered" /\ att = Attempts /\ act'.name = "RespondPending")
       => (pend' = pend /\ cur' = cur /\ delivered' = delivered /\ phase' = "idle" /\ res' = "fail")]_vars

\* edge dump used by the conformance replay
\* (map keys are given separately so that the initial state reads the same under both conventions)
HasKey(x) == ZeroReports = "keys" /\ x >= 0
St == [cum |-> cum, seen |-> seen,
       cur |-> [s \in Signals |-> V(cur[s])], curKeySet |-> {s \in Signals : HasKey(cur[s])},
       pend |-> [s \in Signals |-> V(pend[s])], pendKeySet |-> {s \in Signals : HasKey(pend[s])},
       rep |-> rep, phase |-> phase, att |-> att, res |-> res, delivered |-> delivered]
Dump == PrintT(ToJson([fs |-> St, fa |-> act.name, act |-> act', ts |-> St', fabs |-> Abs, tabs |-> Abs']))
View == <<cum, seen, cur, pend, rep, phase, att, res, delivered>>
=============================================================================
