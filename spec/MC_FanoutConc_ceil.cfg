SPECIFICATION Spec
CONSTANTS
  Vals = {1}
  MaxLen = 5
  Pars = {2, 3}
  Chunks = {0, 2, 3}
  CeilWorkers = TRUE
INVARIANTS TypeOK NoSendOnClosed CleanupLast AtReturn Quiescent
PROPERTY Terminates
