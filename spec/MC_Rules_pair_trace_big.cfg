SPECIFICATION Spec
CONSTANTS
  Mode = "pair"
  Big = TRUE
  PairScopes = {"trace"}
  Faithful = TRUE
INVARIANTS TypeOK FirstMatch Decision Delegation OwnSampler AbsentNeverMatches SpanImpliesTrace DevOnlyOnAbsent
ACTION_CONSTRAINT Dump
VIEW View
CHECK_DEADLOCK FALSE
