//go:build verif

package collect

import (
	"encoding/json"
	"fmt"
	"math"
	"math/rand"
	"os"
	"strconv"
	"testing"
	"time"

	"github.com/dgryski/go-wyhash"
	"github.com/honeycombio/refinery/config"
	"github.com/honeycombio/refinery/internal/c10kit"
	"github.com/honeycombio/refinery/internal/verifkit"
	"github.com/honeycombio/refinery/logger"
)

// c10StressHash is the harness' own computation of the stress-relief hash:
// wyhash of the trace ID with the cluster-wide seed, spelled out here on
// purpose (a change of the seed changes every node's decisions).
func c10StressHash(id string) uint64 {
	return wyhash.Hash([]byte(id), 34527861234)
}

var c10StressSpace = &c10kit.Space{
	Name: "stress",
	HMax: math.MaxUint64,
	Hash: c10StressHash,
	Tables: map[string][]uint64{
		"small": {2, 3, 7, 10, 16, 100},
		"large": {10, 100, 1000, 4096, 16384, 65536},
	},
	ExtLo: []uint64{2, 100, 1000, 65536},
	ExtHi: []uint64{1 << 32, 1 << 63, math.MaxUint64},
}

type c10StressAnswer struct {
	rate uint
	keep bool
}

// c10StressNode is one StressRelief with the configuration it reloads from.
type c10StressNode struct {
	cfg *config.MockConfig
	sr  *StressRelief
}

func c10StressNew() *c10StressNode {
	cfg := &config.MockConfig{}
	return &c10StressNode{cfg: cfg, sr: &StressRelief{Config: cfg, Logger: &logger.NullLogger{}}}
}

// c10StressProfiles are the concrete values of the model's Profiles: the rest of
// the StressRelief configuration record that is (re)loaded together with the
// rate. None of them may influence which traces are kept at a given rate.
var c10StressProfiles = map[string]config.StressReliefConfig{
	"default":     {Mode: "never", ActivationLevel: 90, DeactivationLevel: 75, MinimumActivationDuration: config.Duration(10 * time.Second)},
	"inverted":    {Mode: "monitor", ActivationLevel: 60, DeactivationLevel: 90, MinimumActivationDuration: config.Duration(3 * time.Second)},
	"equalAlways": {Mode: "always", ActivationLevel: 80, DeactivationLevel: 80},
	"zero":        {Mode: "", ActivationLevel: 0, DeactivationLevel: 0},
	"monitor":     {Mode: "monitor", ActivationLevel: 100, DeactivationLevel: 1, MinimumActivationDuration: config.Duration(time.Hour)},
}

var c10StressProfileNames = []string{"default", "inverted", "equalAlways", "zero", "monitor"}

// c10StressRefusable mirrors the model constant Rejectable: records an
// implementation may refuse as a whole (then the reported rate and the
// threshold must both stay what they were).
var c10StressRefusable = map[string]bool{"inverted": true}

// c10StressConsistent checks a set of answers about ONE trace ID, each by the
// rate the node reported: the same reported rate means the same decision, and
// decisions are nested in the reported rate.
func c10StressConsistent(obs []c10StressAnswer) (agree, nested bool) {
	agree, nested = true, true
	byRate := map[uint]bool{}
	for _, o := range obs {
		if k, seen := byRate[o.rate]; seen && k != o.keep {
			agree = false
		}
		byRate[o.rate] = o.keep
	}
	for r1, k1 := range byRate {
		for r2, k2 := range byRate {
			if r1 <= r2 && k2 && !k1 {
				nested = false
			}
		}
	}
	return agree, nested
}

func c10StressWantRate(r uint64) uint {
	if r == 0 {
		return 1
	}
	return uint(r)
}

// configure is the reload path: the whole configuration record changes,
// UpdateFromConfig re-reads it.
func (n *c10StressNode) configure(rate uint64, profile string) (err error) {
	defer func() {
		if r := recover(); r != nil {
			err = fmt.Errorf("panic in UpdateFromConfig with rate %d: %v", rate, r)
		}
	}()
	rec, ok := c10StressProfiles[profile]
	if !ok {
		return fmt.Errorf("unknown configuration profile %q", profile)
	}
	rec.SamplingRate = rate
	n.cfg.Mux.Lock()
	n.cfg.StressRelief = rec
	n.cfg.Mux.Unlock()
	n.sr.UpdateFromConfig()
	return nil
}

func (n *c10StressNode) ask(id string) (a c10StressAnswer, err error) {
	defer func() {
		if r := recover(); r != nil {
			err = fmt.Errorf("panic in GetSampleRate: %v", r)
		}
	}()
	rate, keep, _ := n.sr.GetSampleRate(id)
	return c10StressAnswer{rate, keep}, nil
}

func c10StressFresh(rate uint64, profile string) (*c10StressNode, error) {
	n := c10StressNew()
	return n, n.configure(rate, profile)
}

// c10StressHarness binds spec/Deterministic.tla (Kind = "stress") to real
// StressRelief objects.
type c10StressHarness struct {
	model    c10kit.Model
	table    string
	h        int
	id       string
	real     map[int]uint64
	insts    []string
	node     map[string]*c10StressNode
	conf     map[string]uint64
	unstable bool
	panicMsg string
	// results of sweep()
	sweepDisagrees, notNested, twoDiffer bool
}

func (h *c10StressHarness) Reset(init map[string]any) error {
	if k, _ := init["kind"].(string); k != "stress" {
		return fmt.Errorf("this harness serves Kind = stress, got %q", k)
	}
	var err error
	h.model, h.table, h.h, h.insts, err = c10kit.ParseInit(init)
	if err != nil {
		return err
	}
	h.id, h.real, err = c10StressSpace.Concretise(h.model, h.table, h.h)
	if err != nil {
		return err
	}
	h.node = map[string]*c10StressNode{}
	h.conf = map[string]uint64{}
	h.unstable = false
	h.panicMsg = ""
	h.sweepDisagrees, h.notNested, h.twoDiffer = false, false, false
	return nil
}

func (h *c10StressHarness) Apply(a map[string]any) error {
	i := verifkit.Str(a, "i")
	switch verifkit.Str(a, "name") {
	case "Configure":
		r, ok := h.real[verifkit.Int(a, "n")]
		if !ok {
			return fmt.Errorf("no real rate for model rate %d", verifkit.Int(a, "n"))
		}
		if h.node[i] == nil {
			h.node[i] = c10StressNew()
		}
		prof := verifkit.Str(a, "p")
		if _, ok := c10StressProfiles[prof]; !ok {
			return fmt.Errorf("unknown configuration profile %q", prof)
		}
		if err := h.node[i].configure(r, prof); err != nil {
			h.panicMsg = err.Error()
			return nil
		}
		h.conf[i] = r
	case "Decide":
		n := h.node[i]
		if n == nil {
			return fmt.Errorf("Decide on unconfigured instance %s", i)
		}
		first, err := n.ask(h.id)
		if err != nil {
			h.panicMsg = err.Error()
			return nil
		}
		for k := 0; k < 3; k++ {
			again, err := n.ask(h.id)
			if err != nil {
				h.panicMsg = err.Error()
				return nil
			}
			if again != first {
				h.unstable = true
			}
		}
		h.sweep()
	default:
		return fmt.Errorf("unknown action %v", a)
	}
	return nil
}

// sweep asks fresh instances at every rate of the real table (and rates 0, 1)
// about this walk's trace ID: agreement with the independent computation,
// nesting, and agreement of two nodes. Run by the Decide action; sticky flags.
func (h *c10StressHarness) sweep() {
	rates, err := c10StressSpace.TableRates(h.model, h.table)
	if err != nil {
		h.panicMsg = err.Error()
		return
	}
	var obs []c10StressAnswer
	for k, r := range append([]uint64{0, 1}, rates...) {
		// two nodes started with different records that share only the rate
		profs := []string{c10StressProfileNames[k%len(c10StressProfileNames)], c10StressProfileNames[(k+1+h.h)%len(c10StressProfileNames)]}
		for _, prof := range profs {
			n, err := c10StressFresh(r, prof)
			if err != nil {
				h.panicMsg = err.Error()
				return
			}
			a, err := n.ask(h.id)
			if err != nil {
				h.panicMsg = err.Error()
				return
			}
			// the decision is the one of the reported rate; the reported rate is the
			// configured one (a refusable record may leave a fresh node at "keep all, 1")
			if a.keep != c10StressSpace.Expected(uint64(a.rate), h.id) {
				h.sweepDisagrees = true
			}
			if a.rate != c10StressWantRate(r) && !(c10StressRefusable[prof] && a.rate == 1 && a.keep) {
				h.sweepDisagrees = true
			}
			obs = append(obs, a)
		}
	}
	agree, nested := c10StressConsistent(obs)
	if !agree {
		h.twoDiffer = true
	}
	if !nested {
		h.notNested = true
	}
}

func (h *c10StressHarness) modelRate(r uint) int {
	for m, rr := range h.real {
		if rr == uint64(r) && m != 0 {
			return m
		}
	}
	return -2
}

func (h *c10StressHarness) Project() (any, error) {
	ans := map[string]any{}
	agrees := true
	out := map[string]any{"kind": "stress", "table": h.table, "h": h.h}
	for _, i := range h.insts {
		n := h.node[i]
		if n == nil {
			ans[i] = map[string]any{"rate": -1, "keep": false}
			continue
		}
		a, err := n.ask(h.id)
		if err != nil {
			h.panicMsg = err.Error()
			continue
		}
		mr := h.modelRate(a.rate)
		if mr == -2 {
			out["unknownRate_"+i] = a.rate
		}
		ans[i] = map[string]any{"rate": mr, "keep": a.keep}
		// the decision must be the one of the rate the instance REPORTS
		if a.keep != c10StressSpace.Expected(uint64(a.rate), h.id) {
			agrees = false
		}
	}
	out["ans"] = ans
	out["agrees"] = agrees && !h.sweepDisagrees
	out["nested"] = !h.notNested
	out["twoInstancesAgree"] = !h.twoDiffer
	out["repeatable"] = !h.unstable
	if h.panicMsg != "" {
		out["panic"] = h.panicMsg
	}
	return out, nil
}

func TestVerifC10Stress(t *testing.T) {
	if err := verifkit.Main(&c10StressHarness{}); err != nil {
		t.Fatal(err)
	}
}

// ---------------------------------------------------------------------------
// Statistical clause and a seeded stream of IDs (gotest stage). Oracle:
// Keep(hash, N) of Deterministic.tla with H = MaxUint64 on the harness' own
// hash; kept fraction within 6 sigma of 1/N.

type c10StressStatResult struct {
	Evaluations int              `json:"evaluations"`
	Distinct    int              `json:"distinct"`
	Violations  []map[string]any `json:"violations"`
	Samples     []any            `json:"samples"`
	Note        string           `json:"note,omitempty"`
	Error       string           `json:"error,omitempty"`
}

func c10StressWriteResult(res *c10StressStatResult) error {
	if res.Violations == nil {
		res.Violations = []map[string]any{}
	}
	raw, err := json.Marshal(res)
	if err != nil {
		return err
	}
	return os.WriteFile(os.Getenv("VERIF_OUT"), raw, 0o644)
}

func c10StressRandomID(rng *rand.Rand) string {
	a, b := rng.Uint64(), rng.Uint64()
	switch rng.Intn(4) {
	case 0:
		return fmt.Sprintf("%016x%016x", a, b)
	case 1:
		return fmt.Sprintf("%016x", a)
	case 2:
		return fmt.Sprintf("%016X%016X", a, b)
	default:
		return fmt.Sprintf("%d-%x", a%100000, b)
	}
}

func TestVerifC10StressStats(t *testing.T) {
	seed, _ := strconv.ParseInt(os.Getenv("VERIF_SEED"), 10, 64)
	n := 200000
	if os.Getenv("VERIF_TIER") == "thorough" {
		n = 2000000
	}
	res := &c10StressStatResult{}
	rates := []uint64{0, 1, 2, 3, 7, 10, 100, 1000, 1 << 63, math.MaxUint64}
	if rp := os.Getenv("VERIF_REPLAY"); rp != "" {
		var rf struct {
			Violation map[string]any `json:"violation"`
		}
		if raw, err := os.ReadFile(rp); err == nil && json.Unmarshal(raw, &rf) == nil {
			if s, ok := rf.Violation["seed"].(float64); ok {
				seed = int64(s)
			}
		}
	}
	rng := rand.New(rand.NewSource(seed*7919 + 10))
	add := func(v map[string]any) {
		if len(res.Violations) < 5 {
			v["seed"] = seed
			res.Violations = append(res.Violations, v)
		}
	}
	// node a is one object reconfigured through all rates for every ID (the reload
	// path); nodes b[k] are configured once
	a := c10StressNew()
	b := make([]*c10StressNode, len(rates))
	for k, r := range rates {
		var err error
		prof := c10StressProfileNames[k%len(c10StressProfileNames)]
		if c10StressRefusable[prof] {
			prof = "default"
		}
		if b[k], err = c10StressFresh(r, prof); err != nil {
			add(map[string]any{"kind": "panic", "rate": r, "error": err.Error()})
		}
	}
	if len(res.Violations) > 0 {
		res.Evaluations = 1
		if err := c10StressWriteResult(res); err != nil {
			t.Fatal(err)
		}
		return
	}
	kept := make([]int, len(rates))
	prevRate := uint(1) // what the never configured node a reports
	for i := 0; i < n; i++ {
		id := c10StressRandomID(rng)
		dropped := false
		for k, r := range rates {
			if i%16 == 0 {
				if err := a.configure(r, c10StressProfileNames[(i/16+k)%len(c10StressProfileNames)]); err != nil {
					add(map[string]any{"kind": "panic", "rate": r, "error": err.Error()})
					continue
				}
			}
			a1, err := b[k].ask(id)
			if err != nil {
				add(map[string]any{"kind": "panic", "id": id, "rate": r, "error": err.Error()})
				continue
			}
			res.Evaluations++
			want := c10StressSpace.Expected(r, id)
			wantRate := uint(r)
			if r == 0 {
				wantRate = 1
			}
			if a1.keep != want || a1.rate != wantRate {
				add(map[string]any{"kind": "disagrees-with-Keep(hash,N)", "id": id, "rate": r, "hash": c10StressHash(id), "observed_keep": a1.keep, "observed_rate": a1.rate, "expected_keep": want})
			}
			if i%16 == 0 {
				// the reloaded node and a node started with a refusable record: judged by
				// the rate they report
				prof := c10StressProfileNames[(i/16+k)%len(c10StressProfileNames)]
				a2, _ := a.ask(id)
				fresh, ferr := c10StressFresh(r, "inverted")
				if ferr != nil {
					add(map[string]any{"kind": "panic", "rate": r, "error": ferr.Error()})
					continue
				}
				a3, _ := fresh.ask(id)
				for _, o := range []c10StressAnswer{a2, a3} {
					if o.keep != c10StressSpace.Expected(uint64(o.rate), id) {
						add(map[string]any{"kind": "decision-does-not-match-reported-rate", "id": id, "configured_rate": r, "reported_rate": o.rate, "keep": o.keep, "hash": c10StressHash(id)})
					}
				}
				if a2.rate != wantRate && !(c10StressRefusable[prof] && a2.rate == prevRate) {
					add(map[string]any{"kind": "reload-did-not-take-effect", "configured_rate": r, "profile": prof, "reported_rate": a2.rate})
				}
				if a3.rate != wantRate && !(a3.rate == 1 && a3.keep) {
					add(map[string]any{"kind": "start-did-not-take-effect", "configured_rate": r, "reported_rate": a3.rate})
				}
				prevRate = a2.rate
			}
			if a1.keep && dropped {
				add(map[string]any{"kind": "not-nested", "id": id, "rate": r})
			}
			if !a1.keep {
				dropped = true
			}
			if a1.keep {
				kept[k]++
			}
		}
	}
	for k, r := range rates {
		p := 1.0
		if r > 1 {
			p = (float64(uint64(math.MaxUint64)/r) + 1) / math.Pow(2, 64)
		}
		mean := float64(n) * p
		band := 6*math.Sqrt(float64(n)*p*(1-p)) + 1
		if math.Abs(float64(kept[k])-mean) > band {
			add(map[string]any{"kind": "kept-fraction-outside-6-sigma", "rate": r, "n": n, "kept": kept[k], "expected": mean, "band": band})
		}
		if len(res.Samples) < 4 && r > 1 && r <= 100 {
			res.Samples = append(res.Samples, map[string]any{"rate": r, "n": n, "kept": kept[k], "expected": math.Round(mean)})
		}
	}
	res.Distinct = n
	res.Note = fmt.Sprintf("%d seeded trace IDs x %d rates; exact agreement with Keep(wyhash, N), nesting, reloaded vs fresh instance, kept fraction within 6 sigma of 1/N", n, len(rates))
	if err := c10StressWriteResult(res); err != nil {
		t.Fatal(err)
	}
}
