//go:build verif

package sample

import (
	"fmt"
	"testing"

	dynsampler "github.com/honeycombio/dynsampler-go"
	"github.com/honeycombio/refinery/internal/verifkit"
	"github.com/honeycombio/refinery/metrics"
)

// c33SamplerHarness binds spec/Metrics.tla (MC_Metrics_sampler.cfg) to a real
// metrics.MultiMetrics driven through the sampler package's lazy registration
// site: RegisterAll is what getSharedDynsamplerAndRecorder does whenever a
// dynsampler with a new key is created (a fresh dynsamplerMetricsRecorder whose
// RegisterMetrics -> newSamplerMetricNames registers <prefix>_num_kept,
// <prefix>_num_dropped, ... again), and Increment is the recorder's
// RecordMetrics on a sampling decision.
type c33SamplerHarness struct {
	met      *metrics.MultiMetrics
	dyn      dynsampler.Sampler
	recorder *dynsamplerMetricsRecorder
}

const c33Prefix = "dynamic"

var c33Full = map[string]string{
	"kept":    c33Prefix + "_num_kept",
	"dropped": c33Prefix + "_num_dropped",
	"rate":    c33Prefix + "_sample_rate",
}

func (h *c33SamplerHarness) newRecorder() {
	h.recorder = &dynsamplerMetricsRecorder{prefix: c33Prefix, met: h.met}
	h.recorder.RegisterMetrics(h.dyn)
}

func (h *c33SamplerHarness) Reset(init map[string]any) error {
	h.met = metrics.NewMultiMetrics()
	h.dyn = &dynsampler.Static{Default: 1}
	h.recorder = nil
	return nil
}

func (h *c33SamplerHarness) Apply(a map[string]any) (err error) {
	defer func() {
		if r := recover(); r != nil {
			err = fmt.Errorf("panic in %v: %v", a, r)
		}
	}()
	n := verifkit.Str(a, "n")
	full, ok := c33Full[n]
	if n != "" && !ok {
		return fmt.Errorf("unknown metric %q", n)
	}
	switch verifkit.Str(a, "name") {
	case "RegisterAll":
		h.newRecorder()
	case "Register":
		for _, md := range samplerMetrics {
			if c33Prefix+md.Name == full {
				md.Name = full
				h.met.Register(md)
			}
		}
	case "Increment":
		if h.recorder == nil {
			// a sampler records through names it computed itself; before any
			// recorder exists the metric is simply used unregistered
			h.met.Increment(full)
			return nil
		}
		h.recorder.RecordMetrics(h.dyn, n == "kept", 1, 1)
	case "Count":
		h.met.Count(full, int64(verifkit.Int(a, "k")))
	case "Histogram":
		h.met.Histogram(full, float64(verifkit.Int(a, "v")))
	default:
		return fmt.Errorf("unknown action %v", a)
	}
	return nil
}

func (h *c33SamplerHarness) Project() (any, error) {
	val := map[string]any{}
	for n, full := range c33Full {
		v, ok := h.met.Get(full)
		if !ok {
			v = 0
		}
		val[n] = v
	}
	return map[string]any{"val": val}, nil
}

func TestVerifC33Sampler(t *testing.T) {
	if err := verifkit.Main(&c33SamplerHarness{}); err != nil {
		t.Fatal(err)
	}
}
