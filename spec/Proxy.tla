------------------------------- MODULE Proxy -------------------------------
(***************************************************************************)
(* Unhandled paths are proxied to Honeycomb faithfully (property C37).     *)
(*                                                                         *)
(* Code: route/proxy.go Router.proxy, reached through the mux and the      *)
(* middleware Router.LnS sets up (route/route.go: setResponseHeaders,      *)
(* requestLogger, panicCatcher; catch-all route PathPrefix("/")).          *)
(*                                                                         *)
(* Function-vector (B3) module.  A vector is a client request and the      *)
(* response the (fake) Honeycomb API will give to it, and the side of the  *)
(* exchange the walk looks at.  Actions:                                   *)
(*   Forward  Refinery relays the request: `up` becomes what the API saw   *)
(*   Return   Refinery relays the answer: `down` becomes what the client   *)
(*            got back                                                     *)
(*   Fail     the API cannot be reached: `down` is Refinery's own answer   *)
(* The relation of the property:                                           *)
(*   Upstream(req) = req with the client's address appended to             *)
(*                   X-Forwarded-For                                       *)
(*   Client(resp)  = resp                                                  *)
(*                                                                         *)
(* What "the same header values" / "headers unchanged" means here:         *)
(*  - header names are compared case-insensitively (canonical form);       *)
(*  - the values of one header name are compared as the list of its        *)
(*    elements: RFC 9110 5.3 lets a relay combine several field lines of   *)
(*    one name into one line "a, b" without changing the message, so       *)
(*    hdrs[name] is the element list whatever the wire layout (`wire`);    *)
(*    Set-Cookie is the exception of RFC 9110 5.3 (its values contain      *)
(*    commas and cannot be combined): it is compared line by line;         *)
(*  - hop-level fields every HTTP hop rewrites (Date, Content-Length,      *)
(*    Connection, Transfer-Encoding, Accept-Encoding, Host, ...) are not   *)
(*    part of the relation (the harness leaves them out of `hdrs`);        *)
(*  - Refinery's own CORS header (Access-Control-Allow-Origin: *, added to *)
(*    every response by its middleware) may be present when the upstream   *)
(*    response has none: OwnHeaders.  Reading adopted: it does not alter   *)
(*    anything the upstream sent.  An upstream value wins.                 *)
(*                                                                         *)
(* Known deviations of the code (Faithful = TRUE adds them as labelled     *)
(* successors):                                                            *)
(*  "xff-later-lines-dropped"  proxy.go reads X-Forwarded-For with         *)
(*       Header.Get (first line only) and overwrites the header: elements  *)
(*       the client sent on further lines are lost                         *)
(*  "default-content-type"  setResponseHeaders pre-sets Content-Type:      *)
(*       application/json; an upstream response without Content-Type       *)
(*       reaches the client labelled application/json                      *)
(*  "set-cookie-joined"  proxy.go copies with Set(name, Join(values, ","))  *)
(*       so two Set-Cookie lines arrive as one unusable line               *)
(*  "redirect-followed"  the http.Client of the proxy follows a 3xx with   *)
(*       Location itself: the API receives a second request (GET, with a   *)
(*       Referer) and the client gets the answer of that one, not the 3xx  *)
(*                                                                         *)
(* Upstream FAULTS (side "fault", action Faulty): the API is an environment *)
(* that may misbehave - `fault` says how:                                  *)
(*   "close-once"    the first connection is closed after the request was  *)
(*                   read and before any answer; later ones are healthy    *)
(*   "close-always"  every connection is closed that way                   *)
(*   "refused"       the connection is refused (nothing ever arrives)      *)
(*   "cut-body"      status line, headers and half of the announced body   *)
(*                   are sent, then the connection is closed               *)
(*   "hang"          the request is read and never answered (the proxy's   *)
(*                   own timeout ends the call)                            *)
(* The statement leaves open HOW OFTEN Refinery presents the request to    *)
(* the API (0, 1 or more attempts): `up` is the sequence of ALL            *)
(* presentations, its length is chosen nondeterministically.  What C37     *)
(* promises about them: EVERY presentation is the client's request         *)
(* faithfully (FaithfulPresentations), and the client receives either the  *)
(* API's answer to that faithful request - possible only if some           *)
(* presentation could be answered - or Refinery's own gateway error, or    *)
(* (cut-body) the API's status and headers with a body that is a visibly   *)
(* incomplete prefix; never an answer made for another request             *)
(* (OwnAnswerOnly).                                                        *)
(*                                                                         *)
(* Beyond C37: when the API cannot be reached (`rsp.status = 0`) the       *)
(* client must get a gateway error (502/503/504) - action Fail.            *)
(***************************************************************************)
EXTENDS Integers, Sequences, FiniteSets, TLC, Json

CONSTANTS Faithful,      \* TRUE: the graph also contains the known deviations of the code
          CrossResps,    \* the upstream responses EVERY request is combined with (CoreResps / MidResps)
          Sides,         \* which sides of the exchange this run enumerates (subset of {"req", "rsp", "fault"})
          FaultReqs,     \* the requests combined with every upstream fault (FaultReqsQ / FaultReqsBig)
          FaultResps     \* the answers a healthy attempt gets in the fault vectors

VARIABLES side, req, rsp, fault, up, down, devs, act
vars == <<side, req, rsp, fault, up, down, devs, act>>

XFF == "X-Forwarded-For"
CT  == "Content-Type"
COOKIE == "Set-Cookie"
ACAO == "Access-Control-Allow-Origin"

---------------------------------------------------------------------------
(* requests *)

Methods == {"GET", "PUT", "DELETE", "PATCH", "POST"}

\* request targets: path shapes ...
Paths == { "/1/markers/c37ds",          \* an API Refinery does not implement
           "/1/markers/a%2Fb",          \* encoded slash
           "/1/markers/c37ds/",         \* trailing slash
           "/1/markers/a%20b%3Fc",      \* other encoded octets
           "/",                         \* root
           "/1/events/c37ds" }          \* handled for POST only: other methods are proxied
\* ... and query shapes
Queries == { "", "?", "?a=1", "?k=1&k=2&k=1", "?q=a%2Fb%20c&x=%26&y=a+b", "?flag" }

\* header sets: name -> list of elements.  `wire` tells the harness how a
\* two-element list is written: "lines" = two field lines, "comma" = one line "a, b"
Base == (CT :> <<"application/json">>) @@ ("X-Honeycomb-Team" :> <<"c37key">>) @@ ("User-Agent" :> <<"c37-client/1.0">>)
ReqHdrSets ==
  { [name |-> "single", wire |-> "lines", h |-> Base],
    [name |-> "multi",  wire |-> "lines", h |-> Base @@ ("X-C37-Multi" :> <<"alpha", "beta">>)],
    [name |-> "comma",  wire |-> "comma", h |-> Base @@ ("X-C37-Multi" :> <<"alpha", "beta">>)],
    [name |-> "noct",   wire |-> "lines", h |-> ("X-Honeycomb-Team" :> <<"c37key">>) @@ ("User-Agent" :> <<"c37-client/1.0">>)],
    [name |-> "xff",    wire |-> "lines", h |-> Base @@ (XFF :> <<"203.0.113.7">>)],
    [name |-> "xff2",   wire |-> "lines", h |-> Base @@ (XFF :> <<"203.0.113.7", "198.51.100.9">>)],
    [name |-> "xffc",   wire |-> "comma", h |-> Base @@ (XFF :> <<"203.0.113.7", "198.51.100.9">>)] }

Bodies == {"empty", "json", "binary"}

AllReqs == { [method |-> m, path |-> p, query |-> q, hs |-> hs, body |-> b] :
               m \in Methods, p \in Paths, q \in Queries, hs \in ReqHdrSets, b \in Bodies }
Unhandled(r) == ~(r.method = "POST" /\ r.path = "/1/events/c37ds")

CoreReqs == { r \in AllReqs : /\ r.path = "/1/markers/c37ds" /\ r.query = "?a=1" /\ r.hs.name = "single"
                              /\ \/ r.method = "GET" /\ r.body = "empty"
                                 \/ r.method = "POST" /\ r.body = "json" }

---------------------------------------------------------------------------
(* upstream responses *)

\* 0 = the API cannot be reached; 3020 = 302 with a Location header
Statuses == {200, 201, 204, 3020, 304, 400, 401, 404, 429, 500, 503, 0}
Marker == "X-C37-Resp" :> <<"r1">>
RespHdrSets ==
  { [name |-> "ct",      h |-> Marker @@ (CT :> <<"application/json">>)],
    [name |-> "noct",    h |-> Marker],
    [name |-> "ctother", h |-> Marker @@ (CT :> <<"text/plain; charset=utf-8">>)],
    [name |-> "multi",   h |-> Marker @@ (CT :> <<"application/json">>) @@ ("X-C37-Multi" :> <<"one", "two">>)],
    [name |-> "cookie",  h |-> Marker @@ (CT :> <<"application/json">>) @@ (COOKIE :> <<"a=1; Path=/; Expires=Wed, 21 Oct 2037 07:28:00 GMT", "b=2; Path=/">>)],
    [name |-> "acao",    h |-> Marker @@ (CT :> <<"application/json">>) @@ (ACAO :> <<"https://ui.example.com">>) @@ ("Vary" :> <<"Origin">>)] }

NoBody(s) == s \in {204, 304, 0}
AllResps == { [status |-> s, hs |-> hs, body |-> b] : s \in Statuses, hs \in RespHdrSets, b \in Bodies }
ValidResp(r) == /\ NoBody(r.status) => r.body = "empty"
                /\ r.status = 0 => r.hs.name = "ct"
CoreResps == { r \in AllResps : r.status = 200 /\ r.hs.name = "ct" /\ r.body = "json" }
MidResps == { r \in AllResps : \/ r.status = 200 /\ r.body = "json" /\ r.hs.name \in {"ct", "noct", "cookie"}
                               \/ r.status = 404 /\ r.body = "binary" /\ r.hs.name = "ctother"
                               \/ r.status = 204 /\ r.body = "empty" /\ r.hs.name = "noct"
                               \/ r.status = 3020 /\ r.body = "empty" /\ r.hs.name = "ct"
                               \/ r.status = 0 /\ r.body = "empty" /\ r.hs.name = "ct" }

\* The two directions are independent in the code (request copy, response copy) and are
\* observed by separate one-step walks, so that a deviation on one side cannot hide the
\* other side from the replay:
\*   side "req": every request (answered by a plain JSON 200)          -> Forward
\*   side "rsp": two core requests with every upstream response, and
\*               every request with each of CrossResps                 -> Return / Fail
Vectors == ({"req"} \X { r \in AllReqs : Unhandled(r) } \X CoreResps)
      \cup ({"rsp"} \X CoreReqs \X { s \in AllResps : ValidResp(s) })
      \cup ({"rsp"} \X { r \in AllReqs : Unhandled(r) } \X CrossResps)

\* upstream faults
Faults == {"close-once", "close-always", "refused", "cut-body", "hang"}
MaxAttempts == 3
FaultReqsQ == { r \in AllReqs : /\ r.path = "/1/markers/a%2Fb" /\ r.query = "?q=a%2Fb%20c&x=%26&y=a+b"
                                /\ r.hs.name \in {"single", "xff"} }
FaultReqsBig == { r \in AllReqs : /\ Unhandled(r) /\ r.path \in {"/1/markers/a%2Fb", "/1/events/c37ds"}
                                  /\ r.query \in {"", "?q=a%2Fb%20c&x=%26&y=a+b"}
                                  /\ r.hs.name \in {"single", "noct", "xffc"} }
FaultRespsQ == { r \in AllResps : r.status = 201 /\ r.hs.name = "ct" /\ r.body = "json" }
FaultRespsBig == FaultRespsQ \cup { r \in AllResps : r.status = 200 /\ r.hs.name = "ctother" /\ r.body = "binary" }
FaultVectors == {"fault"} \X FaultReqs \X FaultResps \X Faults

---------------------------------------------------------------------------
(* the relation *)

Elems(h, n) == IF n \in DOMAIN h THEN h[n] ELSE <<>>

\* C37: the same request plus X-Forwarded-For
Upstream(r) == [method |-> r.method, target |-> r.path \o r.query, body |-> r.body,
                hdrs |-> (XFF :> (Elems(r.hs.h, XFF) \o <<"CLIENT">>)) @@ r.hs.h]

\* the code: only the first X-Forwarded-For line survives
UpstreamFirstLine(r) == [Upstream(r) EXCEPT !.hdrs = (XFF :> <<Head(r.hs.h[XFF]), "CLIENT">>) @@ r.hs.h]

OwnHeaders == ACAO :> <<"*">>
RealStatus(s) == IF s = 3020 THEN 302 ELSE s
Location == "Location" :> <<"/c37/redirect-target">>
Without(h, n) == [x \in DOMAIN h \ {n} |-> h[x]]
\* the header fields of the upstream response as they are on the wire: a 302 carries its Location;
\* a 304 has no content and net/http (fake API and Refinery alike) sends it without Content-Type
SentHdrs(s) == IF s.status = 3020 THEN s.hs.h @@ Location
               ELSE IF s.status = 304 THEN Without(s.hs.h, CT)
               ELSE s.hs.h

\* C37: status, headers and body unchanged (plus Refinery's own CORS header)
Client(s) == [kind |-> "relayed", status |-> RealStatus(s.status), body |-> s.body, hdrs |-> SentHdrs(s) @@ OwnHeaders, calls |-> 1]

\* what the fake API answers on the redirect target
TargetResp == [status |-> 200, hs |-> [name |-> "target", h |-> Marker @@ (CT :> <<"text/plain; charset=utf-8">>)], body |-> "target"]

Join2(v) == IF Len(v) = 2 THEN << v[1] \o "," \o v[2] >> ELSE v

Failed == [kind |-> "gateway-error", status |-> 0, body |-> "-", hdrs |-> OwnHeaders, calls |-> 0]

Init == /\ \/ \E v \in Vectors : v[1] \in Sides /\ side = v[1] /\ req = v[2] /\ rsp = v[3] /\ fault = "none"
           \/ \E v \in FaultVectors : v[1] \in Sides /\ side = v[1] /\ req = v[2] /\ rsp = v[3] /\ fault = v[4]
        /\ up = <<>> /\ down = <<>> /\ devs = {}
        /\ act = [name |-> "Init"]

Forward == /\ side = "req" /\ up = <<>>
           /\ \/ /\ up' = << Upstream(req) >>
                 /\ act' = [name |-> "Forward"]
                 /\ devs' = devs
              \/ /\ Faithful /\ XFF \in DOMAIN req.hs.h /\ req.hs.wire = "lines" /\ Len(req.hs.h[XFF]) > 1
                 /\ up' = << UpstreamFirstLine(req) >>
                 /\ act' = [name |-> "Forward", dev |-> "xff-later-lines-dropped"]
                 /\ devs' = devs \cup {"xff-later-lines-dropped"}
           /\ UNCHANGED <<side, req, rsp, fault, down>>

Return == /\ side = "rsp" /\ down = <<>> /\ rsp.status # 0
          /\ \/ /\ down' = << Client(rsp) >>
                /\ act' = [name |-> "Return"]
                /\ devs' = devs
             \/ /\ Faithful /\ CT \notin DOMAIN rsp.hs.h /\ rsp.status # 304
                /\ down' = << [Client(rsp) EXCEPT !.hdrs = (CT :> <<"application/json">>) @@ @] >>
                /\ act' = [name |-> "Return", dev |-> "default-content-type"]
                /\ devs' = devs \cup {"default-content-type"}
             \/ /\ Faithful /\ COOKIE \in DOMAIN rsp.hs.h
                /\ down' = << [Client(rsp) EXCEPT !.hdrs = (COOKIE :> Join2(rsp.hs.h[COOKIE])) @@ @] >>
                /\ act' = [name |-> "Return", dev |-> "set-cookie-joined"]
                /\ devs' = devs \cup {"set-cookie-joined"}
             \/ /\ Faithful /\ rsp.status = 3020
                /\ down' = << [Client(TargetResp) EXCEPT !.calls = 2] >>
                /\ act' = [name |-> "Return", dev |-> "redirect-followed"]
                /\ devs' = devs \cup {"redirect-followed"}
          /\ UNCHANGED <<side, req, rsp, fault, up>>

\* beyond C37: the API cannot be reached
Fail == /\ side = "rsp" /\ down = <<>> /\ rsp.status = 0
        /\ down' = << Failed >>
        /\ act' = [name |-> "Fail"]
        /\ UNCHANGED <<side, req, rsp, fault, up, devs>>

\* upstream faults.  n = how many times the request was presented to the API (left open by the
\* statement); every presentation is Upstream(req).  The outcomes the client may see:
Presentations(n) == [i \in 1..n |-> Upstream(req)]
Answered(n) == [Client(rsp) EXCEPT !.calls = n]
CutShort(n) == [kind |-> "relayed-cut", status |-> RealStatus(rsp.status), body |-> "cut", hdrs |-> SentHdrs(rsp) @@ OwnHeaders, calls |-> n]
FaultOutcomes ==
  CASE fault = "close-once"   -> { <<n, Failed>> : n \in 0..1 } \cup { <<n, Answered(n)>> : n \in 2..MaxAttempts }
    [] fault = "close-always" -> { <<n, Failed>> : n \in 0..MaxAttempts }
    [] fault = "refused"      -> { <<0, Failed>> }
    [] fault = "hang"         -> { <<n, Failed>> : n \in 0..MaxAttempts }
    [] fault = "cut-body"     -> { <<n, Failed>> : n \in 0..MaxAttempts } \cup { <<n, CutShort(n)>> : n \in 1..MaxAttempts }
    [] OTHER                  -> {}
Faulty == /\ side = "fault" /\ down = <<>>
          /\ \E o \in FaultOutcomes : up' = Presentations(o[1]) /\ down' = << o[2] >>
          /\ act' = [name |-> "Faulty"]
          /\ UNCHANGED <<side, req, rsp, fault, devs>>

Next == Forward \/ Return \/ Fail \/ Faulty
Spec == Init /\ [][Next]_vars

---------------------------------------------------------------------------
U == up[1]
D == down[1]

TypeOK == /\ side \in {"req", "rsp", "fault"} /\ req \in AllReqs /\ rsp \in AllResps
          /\ fault \in Faults \cup {"none"} /\ (fault # "none" <=> side = "fault")
          /\ Len(up) <= (IF side = "fault" THEN MaxAttempts ELSE 1) /\ Len(down) <= 1
          /\ up # <<>> => side \in {"req", "fault"}
          /\ down # <<>> => side \in {"rsp", "fault"}
          /\ devs \subseteq {"xff-later-lines-dropped", "default-content-type", "set-cookie-joined", "redirect-followed"}

\* C37, request side: same method, path, query, body and header values, plus X-Forwarded-For
RelayedUnchanged ==
  up # <<>> /\ side = "req" /\ "xff-later-lines-dropped" \notin devs =>
     /\ U.method = req.method /\ U.target = req.path \o req.query /\ U.body = req.body
     /\ DOMAIN U.hdrs = DOMAIN req.hs.h \cup {XFF}
     /\ \A n \in DOMAIN req.hs.h \ {XFF} : U.hdrs[n] = req.hs.h[n]
     /\ U.hdrs[XFF] = Elems(req.hs.h, XFF) \o <<"CLIENT">>

\* the deviation loses forwarded-for elements, nothing else
XffDeviationShape ==
  up # <<>> /\ "xff-later-lines-dropped" \in devs =>
     /\ U.method = req.method /\ U.target = req.path \o req.query /\ U.body = req.body
     /\ \A n \in DOMAIN req.hs.h \ {XFF} : U.hdrs[n] = req.hs.h[n]
     /\ Len(U.hdrs[XFF]) < Len(req.hs.h[XFF]) + 1

\* C37, response side: status, headers and body unchanged
ReturnedUnchanged ==
  down # <<>> /\ side = "rsp" /\ rsp.status # 0 /\ devs \cap {"default-content-type", "set-cookie-joined", "redirect-followed"} = {} =>
     /\ D.kind = "relayed" /\ D.status = RealStatus(rsp.status) /\ D.body = rsp.body /\ D.calls = 1
     /\ \A n \in DOMAIN SentHdrs(rsp) : D.hdrs[n] = SentHdrs(rsp)[n]
     /\ DOMAIN D.hdrs \ DOMAIN SentHdrs(rsp) \subseteq DOMAIN OwnHeaders

\* Refinery's own header never replaces one the API sent
UpstreamHeaderWins == down # <<>> /\ ACAO \in DOMAIN rsp.hs.h /\ "redirect-followed" \notin devs /\ rsp.status # 0 => D.hdrs[ACAO] = rsp.hs.h[ACAO]

\* exactly one request reaches the API per client request
OneCall == down # <<>> /\ side = "rsp" /\ rsp.status # 0 /\ "redirect-followed" \notin devs => D.calls = 1

\* an unreachable API is reported as a gateway error, not as a success
FailureIsReported == down # <<>> /\ rsp.status = 0 => D.kind = "gateway-error"

\* C37 under upstream faults: whatever arrives at the API, on ANY attempt, is the client's request
\* faithfully - method, path (raw), query, header values (plus X-Forwarded-For) and the complete body
FaithfulPresentations ==
  side = "fault" => \A i \in 1..Len(up) :
     /\ up[i].method = req.method /\ up[i].target = req.path \o req.query /\ up[i].body = req.body
     /\ DOMAIN up[i].hdrs = DOMAIN req.hs.h \cup {XFF}
     /\ \A n \in DOMAIN req.hs.h \ {XFF} : up[i].hdrs[n] = req.hs.h[n]
     /\ up[i].hdrs[XFF] = Elems(req.hs.h, XFF) \o <<"CLIENT">>

\* which presentation (1, 2, ...) the faulty API is able to answer completely
Answerable(i) == fault = "close-once" /\ i >= 2
\* C37 under upstream faults: the client gets the API's answer to its own faithful request (only
\* possible if one of the presentations could be answered), or Refinery's own error, or - when the
\* API's answer broke off - that answer's status and headers with a visibly incomplete body
OwnAnswerOnly ==
  side = "fault" /\ down # <<>> =>
     \/ D.kind = "gateway-error"
     \/ /\ D.kind = "relayed" /\ \E i \in 1..Len(up) : Answerable(i)
        /\ D.status = RealStatus(rsp.status) /\ D.body = rsp.body
        /\ \A n \in DOMAIN SentHdrs(rsp) : D.hdrs[n] = SentHdrs(rsp)[n]
        /\ DOMAIN D.hdrs \ DOMAIN SentHdrs(rsp) \subseteq DOMAIN OwnHeaders
     \/ /\ D.kind = "relayed-cut" /\ fault = "cut-body" /\ Len(up) >= 1
        /\ D.status = RealStatus(rsp.status)
        /\ \A n \in DOMAIN SentHdrs(rsp) : D.hdrs[n] = SentHdrs(rsp)[n]

\* deviations appear only when asked for
DevsOnlyWhenFaithful == devs # {} => Faithful

\* ideal model only (Faithful = FALSE): no deviation at all
NoDeviation == devs = {}

Hid == [devSet |-> devs]
Abs == [side |-> side, fault |-> fault,
        req |-> [method |-> req.method, path |-> req.path, query |-> req.query, hdrset |-> req.hs.name, wire |-> req.hs.wire, hdrs |-> req.hs.h, body |-> req.body],
        rsp |-> [status |-> rsp.status, hdrset |-> rsp.hs.name, hdrs |-> rsp.hs.h, body |-> rsp.body],
        up |-> up, down |-> down]
\* compact dump: full state = projection + hidden part
Dump == PrintT(ToJson([fabs |-> Abs, fhid |-> Hid, fa |-> act.name, act |-> act', tabs |-> Abs', thid |-> Hid']))
View == <<side, req, rsp, fault, up, down, devs>>
=============================================================================
