SPECIFICATION Spec
CONSTANTS
  Topics = {"cfg_update"}
  Subs = {"w"}
  Pubs = {}
  MaxPub = 0
  MaxStops = 0
  Hows = {"Close", "Stop"}
  Step = FALSE
  Faithful = TRUE
  Revive = TRUE
  Metrics = FALSE
  ParkPlain = FALSE
  Watcher = TRUE
  CwModes = {"normal"}
  MaxNow = 1
PROPERTIES NoReloadAfterStop
VIEW View
CHECK_DEADLOCK FALSE
