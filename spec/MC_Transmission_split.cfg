SPECIFICATION Spec
CONSTANTS
  Dests = {"A"}
  Sizes = {999999, 1000000, 1000001}
  EventMax = 1000000
  BodyMax = 5000000
  MaxBatch = 6
  Sub = 1
  MaxEvents = 6
  MaxNow = 0
  MaxFaults = 1
  Behaviours = {"ok","e500","timeout"}
  Coarse = TRUE
  Loose = TRUE
INVARIANTS TypeOK OwnDestination ExactlyOneBatch OversizeCounted BodyWithinLimit CountWithinLimit AtMostTwice Timely StopFlushes GaugeExact Conservation
VIEW View
CHECK_DEADLOCK FALSE
ACTION_CONSTRAINT Dump
