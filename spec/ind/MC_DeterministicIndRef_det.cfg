SPECIFICATION SpecU
CONSTANTS
  Kind = "det"
  H = 15
  Rates = {1, 2, 3, 8}
  Insts = {"A", "B"}
  Tables = {"small", "large", "extreme"}
  ExtremeFrom = 3
  Profiles = {"default"}
  Rejectable = {}
INVARIANTS InitSame SameInv
PROPERTIES Fwd Bwd SameAct
VIEW View
