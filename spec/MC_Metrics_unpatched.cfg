SPECIFICATION Spec
CONSTANTS
  Counters = {"c"}
  Gauges = {"g"}
  UpDowns = {"u"}
  Hists = {}
  Stores = {}
  MaxCount = 3
  MaxNet = 2
  Vals = {1, 2}
  MaxGen = 3
  Threads = {}
  MaxOps = 0
  RegisterReplaces = TRUE
INVARIANTS TypeOK ReadBack
PROPERTY CounterMonotone
VIEW View
CHECK_DEADLOCK FALSE
