SPECIFICATION Spec
CONSTANTS
  Vals = {1, 2}
  MaxLen = 3
  Pars = {2}
  Chunks = {0, 2}
  CeilWorkers = FALSE
INVARIANTS TypeOK NoSendOnClosed CleanupLast AtReturn Quiescent
PROPERTY Terminates
