SPECIFICATION Spec
CONSTANTS
  Catalogue <- CatNone
  DiskC = "A"
  DiskR = "A"
  Feat = {"usage", "health", "stop"}
  Feeds <- FeedsTwo
  MaxCum = 1
  Steps = {1}
  Outcomes = {"ok", "fail", "pendok", "hold"}
  ZeroReports = "never"
  RetryFailed = TRUE
  Faithful = FALSE
INVARIANTS TypeOK AppliedIsInForce FailedIsRefused EffectiveInForce Conservation NoDoubleCount StopUnhealthy StopEnds
PROPERTIES RefusedKeepsOld StatusProtocol OnlyMessagesApply NoReapply NewHashHandled HealthFollows ReportCarriesAll OnlySentDelivers
CHECK_DEADLOCK FALSE
