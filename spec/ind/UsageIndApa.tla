---------------------------- MODULE UsageIndApa ----------------------------
(* Apalache front end of UsageInd (see TTLIndApa for the command lines).   *)
EXTENDS UsageInd, Apalache

\* MaxCum >= 0, Attempts >= 1: any integers; ZeroReports: either; up to 4 signals
\* of an uninterpreted sort; up to 3 growth steps >= 0
ConstInit == /\ MaxCum \in Int /\ Attempts \in Int
             /\ Overwrite = FALSE /\ ZeroReports \in {"keys", "never"}
             /\ Signals = Gen(4) /\ Steps = Gen(3)
             /\ ConstOK

IndInit == /\ cum \in [Signals -> Int] /\ seen \in [Signals -> Int]
           /\ cur \in [Signals -> Int] /\ pend \in [Signals -> Int]
           /\ rep \in [Signals -> Int] /\ delivered \in [Signals -> Int]
           /\ phase \in Phases /\ res \in Results /\ att \in Int
           /\ IndInv

\* non-vacuity probes (a counterexample is expected)
ProbeKeys == ~(ZeroReports = "keys" /\ Cardinality(Signals) = 4 /\ Attempts > 5 /\ phase = "waitprev" /\ \E s \in Signals : delivered[s] > 1000 /\ cur[s] = -1)
ProbeNever == ~(ZeroReports = "never" /\ Cardinality(Signals) = 4 /\ Attempts > 5 /\ phase = "accepted" /\ \E s \in Signals : rep[s] > 1000)
=============================================================================
