SPECIFICATION Spec
CONSTANTS
  Topics = {"a", "b"}
  Subs = {"s1", "s2"}
  Pubs = {}
  MaxPub = 3
  MaxStops = 1
  Hows = {"Close", "Stop"}
  Step = FALSE
  Faithful = TRUE
  Revive = TRUE
  Metrics = TRUE
  ParkPlain = TRUE
  Watcher = FALSE
  CwModes = {}
  MaxNow = 0
INVARIANTS TypeOK MustDeliver AtMostOnce NoForbidden OwnTopic ClosedIsClosed
ACTION_CONSTRAINT Dump
VIEW ViewReal
CHECK_DEADLOCK FALSE
