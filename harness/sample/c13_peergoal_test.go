//go:build verif

package sample

import (
	"context"
	"fmt"
	"os"
	"sort"
	"sync"
	"sync/atomic"
	"testing"
	"time"

	"github.com/honeycombio/refinery/config"
	"github.com/honeycombio/refinery/internal/peer"
	"github.com/honeycombio/refinery/internal/verifkit"
	"github.com/honeycombio/refinery/logger"
	"github.com/honeycombio/refinery/metrics"
	"github.com/honeycombio/refinery/pubsub"
	"github.com/jonboulle/clockwork"
)

// c13Harness binds spec/PeerGoal.tla (property C13: the goal in force follows the
// current cluster size THROUGH THE REAL MEMBERSHIP COMPONENT) to real objects.
// Every model node is one "process":
//   - a real peer.RedisPubsubPeers (Start, the real Ready goroutine, listen,
//     checkHash, the callbacks it starts with `go cb()`),
//   - a real SamplerFactory whose Peers is that object (through c13Tap, which only
//     counts the completions of the callbacks the factory registers),
//   - throughput samplers of the three types, with and without UseClusterSize,
//     created lazily by the model's Create step from a rules file loaded by the
//     real config package.
// All nodes share one real pubsub.LocalPubSub and one clockwork fake clock (the
// peer maps' TTLs run on it, see peer.C13SeatClock).
// Interposed (deterministic barriers only, copied from the C18 harness):
//   - the refresh ticker's channel: the Ready goroutine gets its tick exactly
//     when the model takes Heartbeat(n); the period the code asked for must lie
//     inside the model's gap envelope;
//   - c13Bus, the PubSub one node sees: forwards to the shared LocalPubSub,
//     counts the subscriber callbacks LocalPubSub starts (`go cb()`) so that the
//     harness knows when every listen() has returned, and cuts a stopped or
//     crashed process off (nothing is delivered to it, a crashed one says nothing).
// A callback is awaited exactly when a node that handled a message stored a new
// peer hash (peer.C13Hash: checkHash starts the callbacks exactly then).
// Wall-clock time is only a hang detector.
//
// Observed after every step, on every running node: len(GetPeers()) (strict
// model only), and GoalThroughputPerSec of the live dynsampler instances.

const c13Hang = 5 * time.Second

type c13Ticker struct {
	d     atomic.Int64
	out   chan time.Time
	calls atomic.Int64
	sig   chan struct{}
}

func (t *c13Ticker) Chan() <-chan time.Time {
	t.calls.Add(1)
	select {
	case t.sig <- struct{}{}:
	default:
	}
	return t.out
}
func (t *c13Ticker) Reset(d time.Duration) { t.d.Store(int64(d)) }
func (t *c13Ticker) Stop()                 {}

// c13Clock is the clock injected into one node: the shared fake clock with
// NewTicker intercepted.
type c13Clock struct {
	*clockwork.FakeClock
	mu      sync.Mutex
	tickers []*c13Ticker
	sig     chan struct{}
}

func (c *c13Clock) NewTicker(d time.Duration) clockwork.Ticker {
	t := &c13Ticker{out: make(chan time.Time), sig: c.sig}
	t.d.Store(int64(d))
	c.mu.Lock()
	c.tickers = append(c.tickers, t)
	c.mu.Unlock()
	return t
}

func (c *c13Clock) waitUntil(cond func() bool) bool {
	deadline := time.After(c13Hang)
	for !cond() {
		select {
		case <-c.sig:
		case <-deadline:
			return cond()
		}
	}
	return true
}

// pubTicker is the ticker with the shortest period (the refresh ticker; the
// other one drives a debug log line every 25-35 s and is never fired).
func (c *c13Clock) pubTicker() *c13Ticker {
	c.mu.Lock()
	defer c.mu.Unlock()
	var best *c13Ticker
	for _, t := range c.tickers {
		if best == nil || t.d.Load() < best.d.Load() {
			best = t
		}
	}
	return best
}

func (c *c13Clock) parked() bool {
	c.mu.Lock()
	defer c.mu.Unlock()
	for _, t := range c.tickers {
		if t.calls.Load() > 0 {
			return true
		}
	}
	return false
}

// c13Hub is what the buses of all nodes share: the real LocalPubSub plus the
// delivery barrier.
type c13Hub struct {
	ps       *pubsub.LocalPubSub
	mu       sync.Mutex
	subs     int             // live subscriptions (LocalPubSub starts one goroutine per subscription and message)
	recv     map[string]bool // the node is a running process
	muted    map[string]bool // the node crashed: whatever its goroutine still says is lost
	dead     bool
	inflight atomic.Int64
	doneSig  chan struct{}
	pubSig   chan string
}

func (h *c13Hub) waitPublish(from string) bool {
	deadline := time.After(c13Hang)
	for {
		select {
		case f := <-h.pubSig:
			if f == from {
				return true
			}
		case <-deadline:
			return false
		}
	}
}

func (h *c13Hub) waitDelivered() bool {
	deadline := time.After(c13Hang)
	for h.inflight.Load() > 0 {
		select {
		case <-h.doneSig:
		case <-deadline:
			return h.inflight.Load() <= 0
		}
	}
	return true
}

type c13Bus struct {
	hub *c13Hub
	id  string
}

type c13Subscription struct {
	hub    *c13Hub
	inner  pubsub.Subscription
	closed bool
}

func (s *c13Subscription) Close() {
	s.hub.mu.Lock()
	if !s.closed {
		s.closed = true
		s.hub.subs--
	}
	s.hub.mu.Unlock()
	s.inner.Close()
}

func (b *c13Bus) Publish(ctx context.Context, topic, message string) (err error) {
	h := b.hub
	h.mu.Lock()
	drop := h.dead || h.muted[b.id]
	if !drop {
		h.inflight.Add(int64(h.subs))
	}
	h.mu.Unlock()
	if !drop {
		err = h.ps.Publish(ctx, topic, message)
	}
	select {
	case h.pubSig <- b.id:
	default:
	}
	return err
}

func (b *c13Bus) Subscribe(ctx context.Context, topic string, cb pubsub.SubscriptionCallback) pubsub.Subscription {
	h := b.hub
	h.mu.Lock()
	h.subs++
	h.mu.Unlock()
	inner := h.ps.Subscribe(ctx, topic, func(ctx context.Context, msg string) {
		defer func() {
			h.inflight.Add(-1)
			select {
			case h.doneSig <- struct{}{}:
			default:
			}
		}()
		h.mu.Lock()
		on := h.recv[b.id] && !h.dead
		h.mu.Unlock()
		if on {
			cb(ctx, msg)
		}
	})
	return &c13Subscription{hub: h, inner: inner}
}
func (b *c13Bus) FormatTopic(topic string) string { return b.hub.ps.FormatTopic(topic) }
func (b *c13Bus) Close()                          {}
func (b *c13Bus) Start() error                    { return nil }
func (b *c13Bus) Stop() error                     { return nil }

// c13Tap is the Peers the factory sees: the real RedisPubsubPeers; callbacks
// registered through it report when they have finished.
type c13Tap struct {
	peer.Peers
	ran atomic.Int64
	sig chan struct{}
}

func (t *c13Tap) RegisterUpdatedPeersCallback(cb func()) {
	t.Peers.RegisterUpdatedPeersCallback(func() {
		cb()
		t.ran.Add(1)
		select {
		case t.sig <- struct{}{}:
		default:
		}
	})
}

type c13Node struct {
	id         string
	p          *peer.RedisPubsubPeers
	clock      *c13Clock
	pub        *c13Ticker
	done       chan struct{}
	doneClosed bool
	tap        *c13Tap
	factory    *SamplerFactory
	scaled     []Sampler
	fixed      []Sampler
	made       bool
}

var (
	c13Types      = []string{"tt", "et", "wt"}
	c13ScaledDest = []string{"s_tt", "s_et", "s_wt"}
	c13FixedDest  = []string{"f_tt", "f_et", "f_wt"}
)

type c13Harness struct {
	dir    string
	loaded map[int]*C12Loaded // by goal

	fc       *clockwork.FakeClock
	hub      *c13Hub
	ids      []string
	nodes    map[string]*c13Node
	status   map[string]string
	cfg      config.Config
	goal     int
	unit     time.Duration
	T        int
	rlo, rhi int
	strict   bool
	timing   string
	panicked string
}

func (h *c13Harness) shutdown() {
	if h.hub == nil {
		return
	}
	h.hub.mu.Lock()
	h.hub.dead = true
	h.hub.mu.Unlock()
	for _, n := range h.nodes {
		if !n.doneClosed {
			n.doneClosed = true
			close(n.done) // the goroutine says its unregister into the dead hub and returns
		}
		if n.factory != nil {
			n.factory.Stop()
		}
	}
	h.hub.ps.Stop()
	h.hub = nil
}

// rules builds (once per goal) a rules file with one destination per sampler
// type, with and without UseClusterSize, and loads it with the real config package.
func (h *c13Harness) rules(goal int) (config.Config, error) {
	if ld, ok := h.loaded[goal]; ok {
		return ld.Cfg, nil
	}
	file := map[string]C12Top{}
	names := map[string]string{}
	var dests []string
	for i, t := range c13Types {
		file[c13ScaledDest[i]] = C12Top{Leaves: []C12Leaf{{T: t, G: goal, U: true, F: "f"}}}
		file[c13FixedDest[i]] = C12Top{Leaves: []C12Leaf{{T: t, G: goal, U: false, F: "f"}}}
		dests = append(dests, c13ScaledDest[i], c13FixedDest[i])
	}
	for _, d := range dests {
		names[d] = d
	}
	sc := &C12Scenario{I: 1000 + goal, A: file, B: file, Names: names}
	ld, err := C12Load(h.dir, sc, dests, "General:\n  ConfigurationVersion: 2\n")
	if err != nil {
		return nil, err
	}
	h.loaded[goal] = ld
	return ld.Cfg, nil
}

func (h *c13Harness) Reset(init map[string]any) error {
	h.shutdown()
	params, _ := init["params"].(map[string]any)
	if params == nil {
		return fmt.Errorf("initial state carries no params")
	}
	if h.dir == "" {
		d, err := os.MkdirTemp("", "c13verif")
		if err != nil {
			return err
		}
		h.dir = d
		h.loaded = map[int]*C12Loaded{}
	}
	gaps, _ := params["gaps"].(map[string]any)
	h.ids = nil
	for id := range gaps {
		h.ids = append(h.ids, id)
	}
	sort.Strings(h.ids)
	h.unit = time.Duration(verifkit.Int(params, "unitMs")) * time.Millisecond
	h.T, h.rlo, h.rhi = verifkit.Int(params, "T"), verifkit.Int(params, "rlo"), verifkit.Int(params, "rhi")
	h.strict = verifkit.Bool(params, "strict")
	h.goal = verifkit.Int(init, "goal")
	if h.unit <= 0 || h.T <= 0 || len(h.ids) == 0 || h.goal <= 0 {
		return fmt.Errorf("bad params %v goal %d", params, h.goal)
	}
	cfg, err := h.rules(h.goal)
	if err != nil {
		return err
	}
	h.cfg = cfg
	h.fc = clockwork.NewFakeClock()
	ps := &pubsub.LocalPubSub{Metrics: &metrics.NullMetrics{}}
	if err := ps.Start(); err != nil {
		return err
	}
	h.hub = &c13Hub{ps: ps, recv: map[string]bool{}, muted: map[string]bool{},
		doneSig: make(chan struct{}, 1), pubSig: make(chan string, 256)}
	h.nodes = map[string]*c13Node{}
	h.status = map[string]string{}
	for _, id := range h.ids {
		h.status[id] = "new"
	}
	h.timing, h.panicked = "", ""
	return nil
}

func (h *c13Harness) start(id string) error {
	n := &c13Node{id: id, done: make(chan struct{})}
	n.clock = &c13Clock{FakeClock: h.fc, sig: make(chan struct{}, 1)}
	n.p = &peer.RedisPubsubPeers{
		Config: &config.MockConfig{
			GetPeerListenAddrVal: "0.0.0.0:8081",
			RedisIdentifier:      "host-" + id,
			PeerManagementType:   "redis",
			PeerTimeout:          5 * time.Second,
		},
		Metrics:    &metrics.NullMetrics{},
		Logger:     &logger.NullLogger{},
		PubSub:     &c13Bus{hub: h.hub, id: id},
		Clock:      n.clock,
		InstanceID: "id-" + id + id + id + id + id, // 8 characters like the real ones
		Done:       n.done,
	}
	h.nodes[id] = n
	if err := n.p.Start(); err != nil {
		return err
	}
	h.hub.mu.Lock()
	h.hub.recv[id] = true
	h.hub.mu.Unlock()
	ttl := peer.C13SeatClock(n.p, h.fc)
	n.tap = &c13Tap{Peers: n.p, sig: make(chan struct{}, 1)}
	n.factory = &SamplerFactory{Config: h.cfg, Logger: &logger.NullLogger{}, Metrics: &metrics.NullMetrics{}, Peers: n.tap}
	if err := n.factory.Start(); err != nil {
		return err
	}
	if err := n.p.Ready(); err != nil {
		return err
	}
	if !n.clock.waitUntil(n.clock.parked) {
		return fmt.Errorf("node %s: the Ready goroutine never waits on a ticker of the injected clock", id)
	}
	// do the code's constants fit the model's?
	n.pub = n.clock.pubTicker()
	d := time.Duration(n.pub.d.Load())
	switch {
	case d > ttl:
		h.timing = fmt.Sprintf("refresh interval %v is above the entry timeout %v: live entries expire between refreshes", d, ttl)
	case d > time.Duration(h.rhi)*h.unit || ttl != time.Duration(h.T)*h.unit: // a shorter period only refreshes more often
		return fmt.Errorf("the specification's constants (gap %d..%d, timeout %d ticks of %v) do not cover the code's (refresh %v, timeout %v)", h.rlo, h.rhi, h.T, h.unit, d, ttl)
	}
	h.status[id] = "up"
	return nil
}

// settle waits until every listen() started by the last publish has returned,
// and then for the callbacks of every node that reported a new peer hash.
func (h *c13Harness) settle(hash map[string]uint64, ran map[string]int64) {
	h.hub.waitDelivered()
	for id, n := range h.nodes {
		if h.status[id] != "up" || peer.C13Hash(n.p) == hash[id] {
			continue
		}
		deadline := time.After(c13Hang)
	wait:
		for n.tap.ran.Load() == ran[id] {
			select {
			case <-n.tap.sig:
			case <-deadline:
				break wait // no callback: the projection will say so
			}
		}
	}
}

func (h *c13Harness) Apply(a map[string]any) (err error) {
	defer func() {
		if r := recover(); r != nil {
			h.panicked = fmt.Sprint(r)
			err = nil
		}
	}()
	for drained := false; !drained; { // publish signals of earlier steps
		select {
		case <-h.hub.pubSig:
		default:
			drained = true
		}
	}
	hash := map[string]uint64{} // no listen() is running between two steps
	ran := map[string]int64{}
	for id, n := range h.nodes {
		hash[id] = peer.C13Hash(n.p)
		ran[id] = n.tap.ran.Load()
	}
	id := verifkit.Str(a, "n")
	n := h.nodes[id]
	switch verifkit.Str(a, "name") {
	case "Start":
		return h.start(id)
	case "Heartbeat":
		t := n.pub
		c0 := t.calls.Load()
		select {
		case t.out <- h.fc.Now():
		case <-time.After(c13Hang):
			return fmt.Errorf("node %s: the Ready goroutine does not receive from its refresh ticker", id)
		}
		h.hub.waitPublish(id) // no publish within the hang time: the projection will say so
		if !n.clock.waitUntil(func() bool { return t.calls.Load() > c0 }) {
			return fmt.Errorf("node %s: the Ready goroutine did not come back to its select after a tick", id)
		}
		h.settle(hash, ran)
	case "Create":
		for i := range c13Types {
			s := n.factory.GetSamplerImplementationForKey(c13ScaledDest[i])
			f := n.factory.GetSamplerImplementationForKey(c13FixedDest[i])
			if s == nil || f == nil {
				return fmt.Errorf("factory returned no sampler")
			}
			n.scaled, n.fixed = append(n.scaled, s), append(n.fixed, f)
		}
		n.made = true
	case "Clear":
		// InMemCollector.reloadConfigs: ClearDynsamplers, then every worker drops its samplers
		n.factory.ClearDynsamplers()
		n.scaled, n.fixed, n.made = nil, nil, false
	case "Stop":
		h.hub.mu.Lock()
		h.hub.recv[id] = false
		h.hub.mu.Unlock()
		h.status[id] = "stopped"
		n.doneClosed = true
		close(n.done)
		h.hub.waitPublish(id)
		h.settle(hash, ran)
	case "Crash":
		h.hub.mu.Lock()
		h.hub.recv[id] = false
		h.hub.muted[id] = true
		h.hub.mu.Unlock()
		peer.C13Unsubscribe(n.p)
		h.status[id] = "crashed"
	case "Advance":
		h.fc.Advance(h.unit)
	default:
		return fmt.Errorf("unknown action %v", a)
	}
	return nil
}

func c13Goals(list []Sampler, bad *[]string) []int {
	seen := map[int]bool{}
	out := []int{}
	for _, s := range list {
		_, slots := C12Slots(s)
		if len(slots) != 1 || !slots[0].Tput {
			*bad = append(*bad, fmt.Sprintf("unexpected sampler %T", s))
			continue
		}
		if slots[0].Bad != "" {
			*bad = append(*bad, slots[0].Bad)
		}
		if g := slots[0].Goal; !seen[g] {
			seen[g] = true
			out = append(out, g)
		}
	}
	return out
}

func (h *c13Harness) Project() (out any, err error) {
	m := map[string]any{}
	defer func() {
		if r := recover(); r != nil {
			m["panic"] = fmt.Sprint(r)
			out, err = m, nil
		}
	}()
	var bad []string
	nodes := map[string]any{}
	for _, id := range h.ids {
		n := h.nodes[id]
		if n == nil || h.status[id] != "up" {
			nodes[id] = map[string]any{"st": h.status[id], "made": false, "cnt": 0, "scaledSet": []int{}, "fixedSet": []int{}}
			continue
		}
		cnt := 0
		if h.strict {
			list, err := n.p.GetPeers()
			if err != nil {
				return nil, err
			}
			cnt = len(list)
		}
		nodes[id] = map[string]any{"st": "up", "made": n.made, "cnt": cnt,
			"scaledSet": c13Goals(n.scaled, &bad), "fixedSet": c13Goals(n.fixed, &bad)}
	}
	m["nodes"] = nodes
	if len(bad) > 0 {
		m["bad"] = bad
	}
	if h.timing != "" {
		m["timing"] = h.timing
	}
	if h.panicked != "" {
		m["panic"] = h.panicked
	}
	return m, nil
}

func TestVerifC13PeerGoal(t *testing.T) {
	h := &c13Harness{}
	err := verifkit.Main(h)
	h.shutdown()
	if h.dir != "" {
		os.RemoveAll(h.dir)
	}
	if err != nil {
		t.Fatal(err)
	}
}
