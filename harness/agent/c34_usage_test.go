//go:build verif

package agent

import (
	"context"
	"errors"
	"fmt"
	"testing"
	"testing/synctest"

	"github.com/honeycombio/refinery/config"
	"github.com/honeycombio/refinery/internal/health"
	"github.com/honeycombio/refinery/internal/verifkit"
	"github.com/honeycombio/refinery/logger"
	"github.com/honeycombio/refinery/metrics"
	"github.com/jonboulle/clockwork"
	"github.com/open-telemetry/opamp-go/client"
	"github.com/open-telemetry/opamp-go/client/types"
	"github.com/open-telemetry/opamp-go/protobufs"
	"go.opentelemetry.io/collector/pdata/pmetric"
)

// c34Client is a scripted OpAMP client: every SendCustomMessage call hands its
// payload to the harness and blocks until the harness tells it what to answer.
type c34Client struct {
	client.OpAMPClient
	calls   chan []byte
	answers chan c34Answer
}

type c34Answer struct {
	ch  chan struct{}
	err error
}

func (c *c34Client) SendCustomMessage(msg *protobufs.CustomMessage) (chan struct{}, error) {
	c.calls <- msg.Data
	a := <-c.answers
	return a.ch, a.err
}

// c34Harness binds spec/Usage.tla to the real usageTracker and
// Agent.sendUsageReport. sendUsageReport runs in its own goroutine (as under
// reportUsagePeriodically); the harness advances it one critical section at a
// time through the scripted client while Grow/Sample actions (the healthCheck
// goroutine's usageTracker.Add) are applied in between.
//
// The harness never assumes which path the real code takes. It runs inside a
// testing/synctest bubble, and after every stimulus (start of
// sendUsageReport, an answer of the client, closing a channel the client
// handed out) settle() lets the real goroutine run until it is durably
// blocked or gone and then OBSERVES which of three things happened: it called
// SendCustomMessage (again), it returned, or it is waiting. The phase, the
// result and the totals reported to the walker are derived from those
// observations only, so code that takes an unexpected path shows up as a
// projection no specification state has (a divergence), never as a hang.
// There is no clock and no sleep: synctest.Wait is deterministic.
type c34Harness struct {
	agent     *Agent
	cancel    context.CancelFunc
	cl        *c34Client
	signals   []usageSignal
	cum       map[usageSignal]int
	delivered map[usageSignal]int // usage in messages the client accepted and sent (environment truth)
	report    map[usageSignal]int // usage in the message being sent
	first     map[usageSignal]int // usage in the first attempt of this report
	accepted  map[usageSignal]int // usage in the message the client accepted
	phase     string
	res       string
	done      chan error    // result of the running sendUsageReport
	running   bool          // a sendUsageReport goroutine exists
	awaiting  bool          // it is inside SendCustomMessage waiting for the client's answer
	ncalls    int           // SendCustomMessage calls of the running sendUsageReport
	last      string        // the client's last answer: "", "fail", "pending", "accept"
	open      chan struct{} // channel handed out by the last answer, still open
	negative  []string
	extra     []string
	leaked    int
}

func c34SignalOf(name, attr string) usageSignal {
	for sig, m := range signalToMetric {
		if m.metricName == name && m.signal == attr {
			return sig
		}
	}
	return usageSignal(name + "/" + attr)
}

// parse sums the usage per signal carried by one report payload.
func (h *c34Harness) parse(data []byte) (map[usageSignal]int, error) {
	m, err := (&pmetric.JSONUnmarshaler{}).UnmarshalMetrics(data)
	if err != nil {
		return nil, err
	}
	out := map[usageSignal]int{}
	rms := m.ResourceMetrics()
	for i := 0; i < rms.Len(); i++ {
		sms := rms.At(i).ScopeMetrics()
		for j := 0; j < sms.Len(); j++ {
			ms := sms.At(j).Metrics()
			for k := 0; k < ms.Len(); k++ {
				met := ms.At(k)
				if met.Type() != pmetric.MetricTypeSum {
					continue
				}
				dps := met.Sum().DataPoints()
				for l := 0; l < dps.Len(); l++ {
					dp := dps.At(l)
					attr := ""
					if v, ok := dp.Attributes().Get("signal"); ok {
						attr = v.Str()
					}
					var val int
					switch dp.ValueType() {
					case pmetric.NumberDataPointValueTypeInt:
						val = int(dp.IntValue())
					case pmetric.NumberDataPointValueTypeDouble:
						val = int(dp.DoubleValue())
						if dp.DoubleValue() < 0 {
							val = -1
						}
					}
					sig := c34SignalOf(met.Name(), attr)
					if val < 0 {
						h.negative = append(h.negative, fmt.Sprintf("%s=%d", sig, val))
					}
					out[sig] += val
				}
			}
		}
	}
	return out, nil
}

var c34ErrRefused = errors.New("verif: connection refused")

// settle lets the real goroutine run until it is durably blocked (or has
// exited) and records what it did.
func (h *c34Harness) settle() error {
	synctest.Wait()
	if !h.running {
		return nil
	}
	select {
	case data := <-h.cl.calls:
		rep, err := h.parse(data)
		if err != nil {
			return fmt.Errorf("unparsable usage report: %w", err)
		}
		h.ncalls++
		h.awaiting = true
		h.phase = "offered"
		if h.ncalls == 1 {
			h.first = rep
		} else {
			for _, s := range h.signals { // a retry must carry the same report
				if rep[s] != h.first[s] {
					h.extra = append(h.extra, fmt.Sprintf("attempt %d carries %v, first attempt carried %v", h.ncalls, rep, h.first))
					break
				}
			}
		}
		h.report = rep
	case err := <-h.done:
		h.finish(err)
	default:
		// neither called nor returned: it waits
		switch {
		case h.open != nil && h.last == "pending":
			h.phase = "waitprev"
		case h.open != nil && h.last == "accept":
			h.phase = "accepted"
		default:
			h.phase = "stuck" // blocked on nothing the client handed out
		}
	}
	return nil
}

func (h *c34Harness) finish(err error) {
	h.running, h.awaiting, h.open, h.ncalls = false, false, nil, 0
	h.phase = "idle"
	h.report = map[usageSignal]int{}
	switch {
	case err == nil:
		h.res = "ok"
	case errors.Is(err, errNoData):
		h.res = "nodata"
	default:
		h.res = "fail"
	}
}

// shutdown ends whatever the previous walk left running, from any state.
func (h *c34Harness) shutdown() {
	if h.agent == nil {
		return
	}
	h.cancel()
	for i := 0; h.running && i < 8; i++ {
		if h.awaiting {
			h.cl.answers <- c34Answer{nil, errors.New("verif: harness reset")}
			h.awaiting = false
		}
		synctest.Wait()
		select {
		case <-h.cl.calls:
			h.awaiting = true
		case <-h.done:
			h.running = false
		default:
			i = 8 // blocked on something cancelling the context does not release
			h.leaked++
		}
	}
	h.agent = nil
}

func (h *c34Harness) Reset(init map[string]any) error {
	h.shutdown()
	cum, ok := init["cum"].(map[string]any)
	if !ok {
		return fmt.Errorf("initial state has no cum: %v", init)
	}
	h.signals = h.signals[:0]
	h.cum = map[usageSignal]int{}
	h.delivered = map[usageSignal]int{}
	h.report = map[usageSignal]int{}
	for s := range cum {
		sig := usageSignal(s)
		if _, known := signalToMetric[sig]; !known {
			return fmt.Errorf("specification signal %q is not a usage signal of the agent", s)
		}
		h.signals = append(h.signals, sig)
	}
	h.phase, h.res = "idle", "none"
	h.running, h.awaiting, h.open, h.ncalls, h.last = false, false, nil, 0, ""
	h.negative, h.extra = nil, nil
	h.cl = &c34Client{calls: make(chan []byte), answers: make(chan c34Answer)}
	ctx, cancel := context.WithCancel(context.Background())
	h.cancel = cancel
	h.agent = &Agent{
		ctx:             ctx,
		cancel:          cancel,
		logger:          Logger{&logger.NullLogger{}},
		agentType:       serviceName,
		agentVersion:    "1.0.0",
		opampClient:     h.cl,
		effectiveConfig: &config.MockConfig{},
		metrics:         &metrics.NullMetrics{},
		health:          &health.MockHealthReporter{},
		usageTracker:    newUsageTracker(),
		clock:           clockwork.NewFakeClock(),
		hostname:        "verif-host",
	}
	return nil
}

// answer gives the client's answer to the SendCustomMessage call in progress.
func (h *c34Harness) answer(kind string, a c34Answer) error {
	if !h.awaiting {
		return fmt.Errorf("%s: the real code is not inside SendCustomMessage (observed phase %s)", kind, h.phase)
	}
	h.awaiting, h.last, h.open = false, kind, a.ch
	h.cl.answers <- a
	return h.settle()
}

func (h *c34Harness) Apply(a map[string]any) error {
	name := verifkit.Str(a, "name")
	sig := usageSignal(verifkit.Str(a, "s"))
	switch name {
	case "Grow":
		h.cum[sig] += verifkit.Int(a, "d")
	case "Sample":
		h.agent.usageTracker.Add(sig, float64(h.cum[sig]))
	case "NewReport":
		if h.running {
			return fmt.Errorf("NewReport while sendUsageReport is running (observed phase %s)", h.phase)
		}
		h.done = make(chan error, 1)
		h.running, h.ncalls, h.last, h.open = true, 0, "", nil
		h.res = "none" // no outcome yet
		ag, done := h.agent, h.done
		go func() { done <- ag.sendUsageReport() }()
		return h.settle()
	case "RespondFail":
		return h.answer("fail", c34Answer{nil, c34ErrRefused})
	case "RespondPending":
		// the channel of the message that is in the way; it stays open until PrevSent
		return h.answer("pending", c34Answer{make(chan struct{}), types.ErrCustomMessagePending})
	case "PrevSent":
		if h.open == nil || h.last != "pending" {
			return fmt.Errorf("PrevSent: no pending message (observed phase %s)", h.phase)
		}
		close(h.open)
		h.open = nil
		return h.settle()
	case "Accept":
		h.accepted = h.report
		return h.answer("accept", c34Answer{make(chan struct{}), nil})
	case "Ack":
		if h.open == nil || h.last != "accept" {
			return fmt.Errorf("Ack: no accepted message (observed phase %s)", h.phase)
		}
		// the client has sent the accepted message: that usage is delivered,
		// whatever the code makes of it
		for s, v := range h.accepted {
			h.delivered[s] += v
		}
		close(h.open)
		h.open = nil
		return h.settle()
	default:
		return fmt.Errorf("unknown action %v", a)
	}
	return nil
}

func (h *c34Harness) Project() (any, error) {
	rep, del := map[string]any{}, map[string]any{}
	for _, s := range h.signals {
		rep[string(s)] = h.report[s]
		del[string(s)] = h.delivered[s]
	}
	// usage reported under a signal the specification does not have
	for s, v := range h.report {
		if _, ok := rep[string(s)]; !ok && v != 0 {
			rep[string(s)] = v
		}
	}
	out := map[string]any{"phase": h.phase, "attempt": h.ncalls, "report": rep, "delivered": del, "res": h.res}
	if len(h.negative) > 0 {
		out["negative"] = h.negative
	}
	if len(h.extra) > 0 {
		out["inconsistent"] = h.extra
	}
	return out, nil
}

// The walker (verifkit.Main) stays outside the synctest bubble so that its
// budget runs on the real clock; it talks to the harness, which lives inside
// the bubble, through c34Proxy.
type c34Req struct {
	kind  string
	arg   map[string]any
	reply chan c34Resp
}

type c34Resp struct {
	v   any
	err error
}

type c34Proxy struct{ reqs chan c34Req }

func (p *c34Proxy) call(kind string, arg map[string]any) (any, error) {
	r := c34Req{kind, arg, make(chan c34Resp, 1)}
	p.reqs <- r
	x := <-r.reply
	return x.v, x.err
}

func (p *c34Proxy) Reset(init map[string]any) error { _, err := p.call("reset", init); return err }
func (p *c34Proxy) Apply(a map[string]any) error    { _, err := p.call("apply", a); return err }
func (p *c34Proxy) Project() (any, error)           { return p.call("project", nil) }

func TestVerifC34Usage(t *testing.T) {
	p := &c34Proxy{reqs: make(chan c34Req)}
	result := make(chan error, 1)
	go func() {
		result <- verifkit.Main(p)
		close(p.reqs)
	}()
	synctest.Test(t, func(t *testing.T) {
		h := &c34Harness{}
		for r := range p.reqs {
			var x c34Resp
			switch r.kind {
			case "reset":
				x.err = h.Reset(r.arg)
			case "apply":
				x.err = h.Apply(r.arg)
			case "project":
				x.v, x.err = h.Project()
			}
			r.reply <- x
		}
		h.shutdown()
	})
	if err := <-result; err != nil {
		t.Fatal(err)
	}
}
