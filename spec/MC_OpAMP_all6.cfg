SPECIFICATION Spec
CONSTANTS
  Catalogue <- CatOne
  DiskC = "A"
  DiskR = "A"
  Feat = {"msg", "health", "usage", "stop"}
  Feeds <- FeedsAll
  MaxCum = 1
  Steps = {1}
  Outcomes = {"ok", "fail"}
  RetryFailed = TRUE
  Faithful = FALSE
INVARIANTS TypeOK AppliedIsInForce FailedIsRefused EffectiveInForce Conservation NoDoubleCount StopUnhealthy StopEnds
PROPERTIES RefusedKeepsOld StatusProtocol OnlyMessagesApply NoReapply NewHashHandled HealthFollows ReportCarriesAll OnlySentDelivers
CHECK_DEADLOCK FALSE
