SPECIFICATION Spec
CONSTANTS
  MaxEvents = 2
  Faithful = FALSE
  Macro = FALSE
  EnvAts = {1, 2}
  EnvFaults = {"401"}
  BodyFaults = {"gzip"}
  ParseFaults = {"garbage"}
INVARIANTS TypeOK ErrorMeansNoEffects SuccessMeansAllTried PerEventExact NoListElsewhere ExactlyOneStatus EffectsAreTheEvents FaultFreeSucceeds FaultMeansError BatchesInOrder
PROPERTIES NothingAfterAnswer StatusStable
CHECK_DEADLOCK FALSE
