SPECIFICATION SpecU
CONSTANTS
  Signals = {"traces", "logs"}
  MaxCum = 2
  Steps = {1, 2}
  Overwrite = FALSE
  ZeroReports = "keys"
  Attempts = 2
INVARIANTS InitSame SameInv
PROPERTIES Fwd Bwd SameAct
VIEW View
