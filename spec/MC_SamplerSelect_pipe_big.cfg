SPECIFICATION Spec
CONSTANTS
  Mode = "pipeline"
  Shapes <- ShapesPipe
  Names = {"prod", "web"}
  Prefixes = {"", "cls"}
  RuleSets <- RuleSetsAll
  DefaultKinds = {"det", "dyn"}
  DetRuleSets <- RuleSetsQuick
  Encs = {"json", "msgpack", "event"}
  Auths = {"ok", "fail"}
  WithReload = TRUE
  Faithful = TRUE
  UpperHexIsClassic = FALSE
INVARIANTS TypeOK EnvKeyUsesEnvironment ClassicKeyUsesDataset DocumentedShapes NeverWithoutSampler PrefixSeparates ExtractedIsWhatDeciderReads DecisionOfOneTarget
PROPERTY DecisionFollowsRulesExceptKnown
ACTION_CONSTRAINT Dump
VIEW View
CHECK_DEADLOCK FALSE
