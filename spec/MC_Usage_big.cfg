SPECIFICATION Spec
CONSTANTS
  Signals = {"traces", "logs"}
  MaxCum = 4
  Steps = {1, 2}
  Overwrite = FALSE
INVARIANTS TypeOK Conservation NonNegative NoDoubleCount InFlightIsPending
PROPERTY DeliveredMonotone OnlyAckDelivers
ACTION_CONSTRAINT Dump
VIEW View
