SPECIFICATION Spec
CONSTANTS
  Mode = "ds"
  Big = TRUE
  PairScopes = {}
  Faithful = TRUE
INVARIANTS TypeOK FirstMatch Decision Delegation OwnSampler AbsentNeverMatches SpanImpliesTrace DevOnlyOnAbsent
ACTION_CONSTRAINT Dump
VIEW View
CHECK_DEADLOCK FALSE
