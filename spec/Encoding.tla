------------------------------ MODULE Encoding ------------------------------
(***************************************************************************)
(* Sampling does not depend on wire encoding or span order (property C09). *)
(*                                                                         *)
(* An ABSTRACT trace is a sequence of spans whose fields f, g carry        *)
(* abstract typed values (absent, string, boolean, NUMBER).  A number is   *)
(* kept in tenths (N(25) is 2.5) and has no Go type: 5 is 5 whether the    *)
(* client wrote it as a JSON literal, a msgpack positive fixint, a uint16, *)
(* a float32 or an OTLP int_value.                                         *)
(*                                                                         *)
(* An ENCODING of a trace chooses                                          *)
(*   - the arrival order of the spans (perm),                              *)
(*   - per span an ingestion path: a base (JSON /1/events, JSON /1/batch,  *)
(*     msgpack /1/events, msgpack /1/batch, OTLP/HTTP protobuf) and        *)
(*     whether the span was received by ANOTHER node and forwarded to this *)
(*     one (the output of transmit's batchedEvent.MarshalMsg re-ingested   *)
(*     by the peer router's /1/batch),                                     *)
(*   - per number a wire type the base offers and that carries the value   *)
(*     EXACTLY (Fits): msgpack fixint / int8-64 / uint8-64 / float32 /     *)
(*     float64, three JSON literal forms, OTLP int_value / double_value.   *)
(*                                                                         *)
(* C09: Outcome(Decode(enc, t)) = Outcome(t) for every encoding enc of t   *)
(* and every sampler configuration.  The OUTCOME (matched rule / reason,   *)
(* keep, rate, sample key) is NOT interpreted here - the meaning of rules  *)
(* is property C08 (Rules.tla), of keys C11 (TraceKey.tla).  The           *)
(* specification carries the equivalence only:                             *)
(*      res = "agree"  : the real outcome of this encoding equals the real *)
(*                       outcome of the REFERENCE encoding RefEnc(t) of    *)
(*                       the same abstract trace (every span by msgpack    *)
(*                       /1/batch in trace order, integral numbers as      *)
(*                       int64, the others as float64 - what a Go client   *)
(*                       sends and what the unit tests build).             *)
(* The harness evaluates the reference once per (configuration, trace)     *)
(* with the same real machinery and fills res by comparison.  Since every  *)
(* encoding is compared with one member of its class, any two encodings    *)
(* that disagree are detected.                                             *)
(*                                                                         *)
(* What IS modelled is the part of the real system the property is about:  *)
(* the DECODERS (GoType: which Go type a sampler sees for a number, per    *)
(* base and wire type) and the VIEW each kind of consumer in a sampler     *)
(* configuration has of a decoded number.  Ideal (Faithful = FALSE): a     *)
(* consumer sees the number.  The code (Faithful = TRUE) is known to       *)
(* deviate, each deviation a named second successor (res = "differ"):      *)
(*   compare / tryConvertToInt / tryConvertToFloat  x  uint64, float32     *)
(*       untyped and int / float typed comparisons and in / not-in do not  *)
(*       recognise these Go types: the condition never matches;            *)
(*   convertToString  x  float64, float32                                  *)
(*       string-coerced matchers print integral values >= 1e6 that were    *)
(*       decoded as floats in exponent form ("1e+06"), as int64 / uint64   *)
(*       in decimal form ("1000000"): JSON carries every number as float64;*)
(*   AddAsString x float32 ; rootkey x float64, float32                    *)
(*       the same difference in dynamic sample keys (plain fields print    *)
(*       float64 in decimal form, root.-prefixed fields use %v).           *)
(* A deviation successor exists only where the modelled views of the       *)
(* encoding and of the reference differ; the real code is accepted on      *)
(* either successor, anything else it does is a violation.                 *)
(*                                                                         *)
(* NON-SCALAR values (family "ns").  A field value may also be nil or a    *)
(* DOCUMENT: a map or an array (empty, flat, nested) - what a JSON object  *)
(* / list attribute is.  JSON and msgpack carry documents as they are      *)
(* (OTLP does not: husky flattens a kvlist into OTHER field names and      *)
(* turns an array into a JSON string, so an OTLP attribute is no encoding  *)
(* of such a field - Carries).  A document has no wire type to choose, but *)
(* the paths differ in WHERE the receiving node keeps a field the sampler  *)
(* will read (Ingestion / Slot): /1/events decodes the whole body into a   *)
(* Go map; /1/batch and everything a peer forwards keeps the serialized    *)
(* event, decodes the destination's sampling key fields while scanning it  *)
(* and records the key fields it did not find in a negative cache that     *)
(* Exists / Get / MemoizeFields trust; OTLP keeps the serialized event and *)
(* memoizes the key fields at decision time.  C09 for them: a consumer     *)
(* (rule condition, key field, a dotted path below the field when the      *)
(* rules have CheckNestedFields) sees the field present exactly if the     *)
(* abstract span has it, and then the same document, on every path and     *)
(* for every kind of value (SlotSound, EncodingIndependent).  No deviation *)
(* of the code is known here: the only successor is "agree".               *)
(***************************************************************************)
EXTENDS Integers, Sequences, SequencesExt, FiniteSets, TLC, Json

CONSTANTS Families,  \* subset of {"wire", "frac", "mix2", "mix3", "ns"}: which vector families Init enumerates
          Big,       \* FALSE: quick bound, TRUE: thorough bound
          Faithful   \* TRUE: views as the code is known to compute them (deviation successors)

VARIABLES vid,       \* index of the vector in VecSeq (what the edge dump carries; VecSeq itself is printed once)
          vec,       \* the vector [cfg |-> sampler configuration, trace |-> abstract trace, fam |-> family]
          enc,       \* the encoding that was ingested (NoEnc before)
          res,       \* "pending" | "agree" | "differ"
          act

vars == <<vid, vec, enc, res, act>>

---------------------------------------------------------------------------
(* Abstract values.                                                        *)
Absent == [k |-> "abs", n |-> 0, s |-> ""]
S(x)   == [k |-> "s",   n |-> 0, s |-> x]
B(x)   == [k |-> "b",   n |-> IF x THEN 1 ELSE 0, s |-> ""]
N(t)   == [k |-> "n",   n |-> t, s |-> ""]          \* t in tenths
NF(t)  == [k |-> "nf",  n |-> t, s |-> ""]          \* rule Values only: the whole number t/10 written as a float literal ("2.0")
Nil    == [k |-> "nil", n |-> 0, s |-> ""]          \* JSON null / msgpack nil: the field is PRESENT
C(d)   == [k |-> "c",   n |-> 0, s |-> d]           \* a document (map or array): d names an entry of Docs

(* The documents, as JSON text (the harness writes them down in JSON and,  *)
(* element by element in this order, in msgpack; inner numbers are small   *)
(* integers: numeric wire types are the business of the other families).   *)
Docs == [emap |-> "{}",
         map  |-> "{\"a\":\"x\",\"b\":1}",
         nest |-> "{\"a\":{\"b\":\"x\"},\"c\":[1,\"y\"]}",
         earr |-> "[]",
         arr  |-> "[\"x\",1]",
         arrm |-> "[{\"a\":\"x\"},[]]"]
DocNames == DOMAIN Docs
DocKind(d) == IF d \in {"emap", "map", "nest"} THEN "map" ELSE "array"
\* the dotted paths below a field holding document d that the configurations use
\* and that lead to something (CheckNestedFields: gjson over the span as JSON)
DocHas(d, p) == \/ d = "map"  /\ p \in {"a", "b"}
                \/ d = "nest" /\ p \in {"a", "a.b", "c"}
NonScalar(v) == v.k \in {"c", "nil"}

Integral(t) == t % 10 = 0
IntVal(t)   == t \div 10
InRange(t, lo, hi) == Integral(t) /\ IntVal(t) >= lo /\ IntVal(t) <= hi
\* exactly representable in an IEEE single: integers up to 2^24, halves below 2^20
F32Exact(t) == \/ InRange(t, -16777216, 16777216)
               \/ t % 10 = 5 /\ t > -10000000 /\ t < 10000000
\* integral and printed in exponent form ("1e+06") by Go's %v of a float
\* (shortest %g switches to %e at decimal exponent 6; 21 digits is encoding/json's rule, not fmt's)
BigInt(t) == Integral(t) /\ (t >= 10000000 \/ t <= -10000000)

---------------------------------------------------------------------------
(* Wire types and ingestion paths.                                         *)
MpInt   == {"fix", "i8", "i16", "i32", "i64"}
MpUint  == {"u8", "u16", "u32", "u64"}
MpFloat == {"f32", "f64"}
MpW     == MpInt \cup MpUint \cup MpFloat
JsonW   == {"jnum", "jalt", "jexp"}   \* 5 | 5.0 | 5e0   (2.5 | 2.50 | -)
OtlpW   == {"oint", "odbl"}
NoWire  == "-"                        \* the value is not a number

\* does wire type w carry the number t (tenths) exactly?  All integral model
\* values are within 32 bits.
Fits(w, t) ==
  CASE w = "fix"  -> InRange(t, -32, 127)
    [] w = "i8"   -> InRange(t, -128, 127)
    [] w = "i16"  -> InRange(t, -32768, 32767)
    [] w \in {"i32", "i64"} -> Integral(t)
    [] w = "u8"   -> InRange(t, 0, 255)
    [] w = "u16"  -> InRange(t, 0, 65535)
    [] w \in {"u32", "u64"} -> Integral(t) /\ t >= 0
    [] w = "f32"  -> F32Exact(t)
    [] w = "f64"  -> TRUE
    [] w \in {"jnum", "jalt"} -> TRUE
    [] w = "jexp" -> Integral(t)
    [] w = "oint" -> Integral(t)
    [] w = "odbl" -> TRUE

Bases == {"jsonEvent", "jsonBatch", "mpEvent", "mpBatch", "otlp"}
WiresOf(base) == CASE base \in {"jsonEvent", "jsonBatch"} -> JsonW
                   [] base \in {"mpEvent", "mpBatch"} -> MpW
                   [] base = "otlp" -> OtlpW

(* THE DECODERS.  Go type of a number as the sampler will see it:          *)
(*  jsonEvent  jsoniter into map[string]interface{}            -> float64  *)
(*  jsonBatch  fastjson, types.AppendJSONValue (AppendFloat64) -> float64  *)
(*  mpBatch    tinylib msgp.ReadIntfBytes: int family int64, uint family   *)
(*             uint64, float32 stays float32                               *)
(*  mpEvent    vmihailenco decoder, loose interface decoding: int64,       *)
(*             uint64, both float widths float64                           *)
(*  otlp       husky writes int_value with AppendInt64, double_value with  *)
(*             AppendFloat64; read back by msgp.ReadIntfBytes              *)
(* Forwarding re-encodes memoized values with msgp.AppendIntf and copies   *)
(* the other fields byte for byte: the Go type is preserved.               *)
GoType(base, w) ==
  CASE w = NoWire -> "-"
    [] base \in {"jsonEvent", "jsonBatch"} -> "float64"
    [] base = "otlp" -> IF w = "oint" THEN "int64" ELSE "float64"
    [] base = "mpBatch" -> (IF w \in MpInt THEN "int64" ELSE IF w \in MpUint THEN "uint64"
                            ELSE IF w = "f32" THEN "float32" ELSE "float64")
    [] base = "mpEvent" -> (IF w \in MpInt THEN "int64" ELSE IF w \in MpUint THEN "uint64" ELSE "float64")
Forwarded(g) == g

(* WHERE the receiving node keeps a field the sampler will read.            *)
(*  "map"      /1/events: the body is decoded into a Go map                 *)
(*             (requestToEvent, NewPayload(map)): every field is there      *)
(*  "extract"  /1/batch (JSON is first rewritten as msgpack) and every      *)
(*             span a peer forwards (re-ingested by the peer's /1/batch):   *)
(*             UnmarshalMsgpFirstEvent keeps the serialized event, decodes  *)
(*             and memoizes the destination's sampling key fields (every    *)
(*             rule-condition field, every FieldList entry) it meets while  *)
(*             scanning, and puts the key fields it did not meet into       *)
(*             missingFields                                                *)
(*  "lazy"     OTLP received directly: serialized event kept, metadata only *)
(*             (UnmarshalMsgpEventMetadataOnly); the collector's            *)
(*             MemoizeFields(key fields) before the decision does the same  *)
(*             scan                                                         *)
Ingestion(base, fwd) ==
  IF fwd THEN "extract"
  ELSE CASE base \in {"jsonEvent", "mpEvent"} -> "map"
         [] base \in {"jsonBatch", "mpBatch"} -> "extract"
         [] base = "otlp" -> "lazy"
(* the state of a sampling key field in the payload when the sampler asks:  *)
(* "memo" decoded value at hand, "missing" negative cache (never looked for *)
(* again), "none" simply not in the map.  The value's KIND plays no part:   *)
(* a nil, a map or an array is met by the scan like a string or a number.   *)
Slot(ing, v) == IF v.k # "abs" THEN "memo" ELSE IF ing = "map" THEN "none" ELSE "missing"
Found(slot) == slot = "memo"

---------------------------------------------------------------------------
(* Sampler configurations.                                                 *)
(*   field : [r |-> BOOLEAN (root. prefix), n |-> "f" | "g",               *)
(*            p |-> "" | dotted path below the field ("f.a" is n "f",      *)
(*            p "a"): only reachable with CheckNestedFields]               *)
(*   cond  : [fields, op, dt, val, list]                                   *)
(*   cfg   : [kind |-> "rules" | "dyn", scope, conds, key, utl,            *)
(*            nested |-> CheckNestedFields]                                *)
(* kind "rules": RulesBasedSampler with rule r1 = (conds, Scope scope;     *)
(*   Drop: true if key = <<>>, else a downstream DynamicSampler over key)  *)
(*   followed by rule r2 = (no condition, SampleRate 1).                   *)
(* kind "dyn": DynamicSampler, FieldList key, UseTraceLength utl.          *)
CmpOps == {"=", "!=", "<", "<=", ">", ">="}
StrOps == {"starts-with", "contains", "does-not-contain"}
Fld(n)  == [r |-> FALSE, n |-> n, p |-> ""]
RFld(n) == [r |-> TRUE,  n |-> n, p |-> ""]
NFld(n, p) == [r |-> FALSE, n |-> n, p |-> p]
NoVal == [k |-> "none", n |-> 0, s |-> ""]
Cond(fields, op, dt, val, list) == [fields |-> fields, op |-> op, dt |-> dt, val |-> val, list |-> list]
RulesCfg(scope, conds, key) == [kind |-> "rules", scope |-> scope, conds |-> conds, key |-> key, utl |-> FALSE, nested |-> FALSE]
NestedCfg(scope, conds, key) == [kind |-> "rules", scope |-> scope, conds |-> conds, key |-> key, utl |-> FALSE, nested |-> TRUE]
DynCfg(key, utl) == [kind |-> "dyn", scope |-> "", conds |-> <<>>, key |-> key, utl |-> utl, nested |-> FALSE]

(* The CONSUMERS of a configuration: every condition and every key field   *)
(* reads one value per span.  ck is the kind of view it takes of a number; *)
(* h the helper of the code that computes it (names the deviations).       *)
CondCons(c) ==
  LET kh == CASE c.op \in {"exists", "not-exists"} -> <<"exists", "exists">>
              [] c.op \in CmpOps ->
                   (CASE c.dt = "none"   -> <<"num", "compare">>
                      [] c.dt = "int"    -> <<"num", "tryConvertToInt">>
                      [] c.dt = "float"  -> <<"num", "tryConvertToFloat">>
                      [] c.dt = "string" -> <<"str", "convertToString">>
                      [] c.dt = "bool"   -> <<"bool", "TryConvertToBool">>)
              [] c.op \in {"in", "not-in"} ->
                   (CASE c.dt = "int"   -> <<"num", "tryConvertToInt">>
                      [] c.dt = "float" -> <<"num", "tryConvertToFloat">>
                      [] OTHER          -> <<"str", "convertToString">>)
              [] c.op \in StrOps \cup {"matches"} -> <<"str", "convertToString">>
  IN [ck |-> kh[1], h |-> kh[2], fields |-> c.fields]
KeyCons(fld) == IF fld.r THEN [ck |-> "str", h |-> "rootkey", fields |-> <<fld>>]
                ELSE [ck |-> "key", h |-> "AddAsString", fields |-> <<fld>>]
\* nest: may this consumer follow a dotted path into a document (conditions of rules with CheckNestedFields; keys never)
Consumers(cfg) == [i \in 1 .. Len(cfg.conds) |-> CondCons(cfg.conds[i]) @@ [nest |-> cfg.nested]]
                  \o [i \in 1 .. Len(cfg.key) |-> KeyCons(cfg.key[i]) @@ [nest |-> FALSE]]

---------------------------------------------------------------------------
(* Traces and encodings.                                                   *)
(*   span  : [f |-> value, g |-> value]                                    *)
(*   trace : [spans |-> Seq(span), root |-> index of the root span or 0]   *)
(*   senc  : [base, fwd, wf, wg]   (wire types of f and g, NoWire if the   *)
(*           value is not a number)                                        *)
(*   enc   : [perm |-> arrival order (a permutation of 1..n), se |-> Seq(senc)] *)
GetF(sp, n) == IF n = "f" THEN sp.f ELSE sp.g
GetW(se, n) == IF n = "f" THEN se.wf ELSE se.wg
NoEnc == [perm |-> <<>>, se |-> <<>>]

RefWire(v) == IF v.k # "n" THEN NoWire ELSE IF Integral(v.n) THEN "i64" ELSE "f64"
RefSpan(sp) == [base |-> "mpBatch", fwd |-> FALSE, wf |-> RefWire(sp.f), wg |-> RefWire(sp.g)]
RefEnc(t) == [perm |-> [i \in 1 .. Len(t.spans) |-> i], se |-> [i \in 1 .. Len(t.spans) |-> RefSpan(t.spans[i])]]

\* the (base, forwarded) combinations and msgpack wire types enumerated per family
AllPaths == Bases \X BOOLEAN
WiresFor(base, v, ws) == IF v.k # "n" THEN {NoWire} ELSE {w \in WiresOf(base) \cap ws : Fits(w, v.n)}
\* can a request of this base carry the span with the same field names and values?  JSON and msgpack carry
\* everything; an OTLP attribute cannot be nil, a kvlist arrives as OTHER fields (f.a, f.b), an array as a string
Carries(base, sp) == base # "otlp" \/ (~NonScalar(sp.f) /\ ~NonScalar(sp.g))
SpanEncsOf(sp, paths, ws) ==
  UNION {{[base |-> p[1], fwd |-> p[2], wf |-> a, wg |-> b] : a \in WiresFor(p[1], sp.f, ws), b \in WiresFor(p[1], sp.g, ws)} : p \in {q \in paths : Carries(q[1], sp)}}
Perms(n) == CASE n = 1 -> {<<1>>}
              [] n = 2 -> {<<1, 2>>, <<2, 1>>}
              [] n = 3 -> {<<1, 2, 3>>, <<1, 3, 2>>, <<2, 1, 3>>, <<2, 3, 1>>, <<3, 1, 2>>, <<3, 2, 1>>}
SeqEncs(t, paths, ws) ==
  CASE Len(t.spans) = 1 -> {<<a>> : a \in SpanEncsOf(t.spans[1], paths, ws)}
    [] Len(t.spans) = 2 -> {<<a, b>> : a \in SpanEncsOf(t.spans[1], paths, ws), b \in SpanEncsOf(t.spans[2], paths, ws)}
    [] Len(t.spans) = 3 -> {<<a, b, c>> : a \in SpanEncsOf(t.spans[1], paths, ws), b \in SpanEncsOf(t.spans[2], paths, ws),
                                          c \in SpanEncsOf(t.spans[3], paths, ws)}
EncsOf(t, paths, ws) == {[perm |-> p, se |-> s] : p \in Perms(Len(t.spans)), s \in SeqEncs(t, paths, ws)}

---------------------------------------------------------------------------
(* Views.                                                                  *)
View0(v, n, s) == [v |-> v, n |-> n, s |-> s]
NumView(g, t) == IF Faithful /\ g \in {"uint64", "float32"} THEN View0("incomparable", 0, "") ELSE View0("num", t, "")
StrView(g, t) == IF Faithful /\ g \in {"float32", "float64"} /\ BigInt(t) THEN View0("exp", t, "") ELSE View0("dec", t, "")
KeyView(g, t) == IF Faithful /\ g = "float32" /\ BigInt(t) THEN View0("exp", t, "") ELSE View0("dec", t, "")
ValView(ck, val, g) ==
  CASE val.k = "abs" -> View0("abs", 0, "")
    [] val.k = "s"   -> View0("s", 0, val.s)
    [] val.k = "b"   -> View0("b", val.n, "")
    [] val.k = "nil" -> View0("nil", 0, "")
    [] val.k = "c"   -> View0("c", 0, val.s)       \* the document itself, whatever the consumer does with it
    [] val.k = "sub" -> View0("sub", 0, val.s)     \* what a dotted path leads to inside a document
    [] val.k = "n"   -> (CASE ck = "num" -> NumView(g, val.n)
                           [] ck = "str" -> StrView(g, val.n)
                           [] ck = "key" -> KeyView(g, val.n)
                           [] OTHER      -> View0("dec", val.n, ""))   \* exists, bool: the Go type plays no part

\* value and Go type a consumer reads for span i: the first of its fields
\* that is present; a root.-prefixed field is read from the root span
\* a plain field is answered by the payload of the span as the path left it
\* (Slot); a dotted path is not a field of the payload at all: it is looked up
\* in the JSON rendering of the whole span (which does not consult the
\* negative cache) and only for a consumer that may (nest)
Sub(v, p) == IF v.k = "c" /\ DocHas(v.s, p) THEN [k |-> "sub", n |-> 0, s |-> v.s \o "/" \o p] ELSE Absent
Cell(t, e, i, fld, nest) ==
  LET j == IF fld.r THEN t.root ELSE i
  IN IF j = 0 THEN [val |-> Absent, g |-> "-"]
     ELSE LET v == GetF(t.spans[j], fld.n)
              slot == Slot(Ingestion(e.se[j].base, e.se[j].fwd), v)
          IN IF fld.p # "" THEN [val |-> IF nest THEN Sub(v, fld.p) ELSE Absent, g |-> "-"]
             ELSE IF ~Found(slot) THEN [val |-> Absent, g |-> "-"]
             ELSE [val |-> v, g |-> Forwarded(GoType(e.se[j].base, GetW(e.se[j], fld.n)))]
\* (the code tries every field plainly before it tries any dotted path; the
\* enumerated consumers with a dotted path have that one field only)
RECURSIVE FirstPresent(_, _, _, _, _, _)
FirstPresent(t, e, i, fs, k, nest) ==
  IF k > Len(fs) THEN [val |-> Absent, g |-> "-"]
  ELSE LET c == Cell(t, e, i, fs[k], nest)
       IN IF c.val.k # "abs" THEN c ELSE FirstPresent(t, e, i, fs, k + 1, nest)
Read(t, e, i, cons) == FirstPresent(t, e, i, cons.fields, 1, cons.nest)
ConsView(t, e, i, cons) == LET c == Read(t, e, i, cons) IN ValView(cons.ck, c.val, c.g)
SpanViewC(cs, t, e, i) == [c \in 1 .. Len(cs) |-> ConsView(t, e, i, cs[c])]
SpanView(cfg, t, e, i) == SpanViewC(Consumers(cfg), t, e, i)
\* what a sampler can depend on: the BAG of span views (not their order),
\* whether there is a root span, the number of spans
TraceView(cfg, t, e) ==
  LET cs  == Consumers(cfg)
      sv  == [i \in 1 .. Len(t.spans) |-> SpanViewC(cs, t, e, i)]
      svs == {sv[i] : i \in 1 .. Len(t.spans)}
  IN [bag |-> [x \in svs |-> Cardinality({i \in 1 .. Len(t.spans) : sv[i] = x})],
      hasRoot |-> t.root # 0, n |-> Len(t.spans)]

\* (consumer, span) pairs whose view under e is not the view under the reference
Hits(v, e) ==
  LET cs == Consumers(v.cfg)
      r  == RefEnc(v.trace)
  IN {p \in (1 .. Len(cs)) \X (1 .. Len(v.trace.spans)) :
        ConsView(v.trace, e, p[2], cs[p[1]]) # ConsView(v.trace, r, p[2], cs[p[1]])}
Differs(v, e) == Hits(v, e) # {}
\* the deviation a vector exercises: helper of the first consumer (then first span) with a different view, and the Go type it was given
DevName(v, e) ==
  LET h == Hits(v, e)
      p == CHOOSE x \in h : \A y \in h : x[1] < y[1] \/ (x[1] = y[1] /\ x[2] <= y[2])
      cons == Consumers(v.cfg)[p[1]]
  IN cons.h \o ":" \o Read(v.trace, e, p[2], cons).g

---------------------------------------------------------------------------
(* The enumerated families.                                                *)

\* numbers: 5, -3, 2.5, 1e6 (quick) + 200, 0.1, 70000, 1, 0 (thorough)
NumQ == {N(50), N(-30), N(25), N(10000000)}
NumT == NumQ \cup {N(2000), N(1), N(700000), N(10), N(0)}
Nums == IF Big THEN NumT ELSE NumQ

FF == <<Fld("f")>>
CondVals == IF Big THEN {N(50), N(10000000), N(25)} ELSE {N(50), N(10000000)}
NumList == <<N(50), N(10000000)>>
ListV == [k |-> "list", n |-> 0, s |-> ""]
SingleConds(fs) ==
       {Cond(fs, op, dt, cv, <<>>) : op \in CmpOps, dt \in {"none", "int", "float", "string"}, cv \in CondVals}
  \cup {Cond(fs, op, "bool", B(TRUE), <<>>) : op \in {"=", "!="}}
  \cup {Cond(fs, op, dt, ListV, NumList) : op \in {"in", "not-in"}, dt \in {"none", "int", "float", "string"}}
  \cup {Cond(fs, op, "none", S("1000"), <<>>) : op \in StrOps}
  \cup {Cond(fs, "matches", "none", S("^[0-9]+$"), <<>>)}
  \cup {Cond(fs, op, "none", NoVal, <<>>) : op \in {"exists", "not-exists"}}

WireCfgs ==
       {RulesCfg("trace", <<c>>, <<>>) : c \in SingleConds(FF)}
  \cup {DynCfg(k, FALSE) : k \in {<<Fld("f")>>, <<RFld("f")>>}}
  \cup (IF Big
        THEN      {RulesCfg("span", <<c>>, <<>>) : c \in SingleConds(FF)}
             \cup {RulesCfg("trace", <<c>>, <<>>) : c \in SingleConds(<<RFld("f")>>)}
             \cup {RulesCfg("trace", <<c>>, <<Fld("f")>>) : c \in {Cond(FF, "exists", "none", NoVal, <<>>), Cond(FF, ">=", "none", N(50), <<>>)}}
             \cup {DynCfg(<<Fld("f")>>, TRUE)}
        ELSE {})
\* a single span that is the root, or (quick bound: for one number only) a span whose root has not arrived
WireTraces == {[spans |-> << [f |-> v, g |-> Absent] >>, root |-> 1] : v \in Nums}
              \cup {[spans |-> << [f |-> v, g |-> Absent] >>, root |-> 0] : v \in (IF Big THEN Nums ELSE {N(50)})}
WireVecs == {[cfg |-> c, trace |-> t, fam |-> "wire"] : c \in WireCfgs, t \in WireTraces}

(* Rule VALUES of every class (fractional, negative fractional, whole number *)
(* written as a float, numeric string, plain and negative integer) against  *)
(* field values at the truncation boundary of those thresholds (trunc(v),   *)
(* trunc(v) + 1, their negatives, the threshold itself) in every numeric    *)
(* wire type: a comparison that converts the rule value to the Go type of   *)
(* the FIELD (int64(2.5) = 2) decides `f >= 2.5` differently for f = 2 sent *)
(* as an integer and f = 2 sent as JSON.                                    *)
FracCondVals == {N(25), N(-25), NF(20), S("2")}
                \cup (IF Big THEN {N(5), N(20), N(-20), NF(-20)} ELSE {})
FracCfgs == {RulesCfg("trace", << Cond(FF, op, dt, cv, <<>>) >>, <<>>) : op \in CmpOps, dt \in {"none", "int", "float"}, cv \in FracCondVals}
FracNums == {N(20), N(30), N(-20)} \cup (IF Big THEN {N(-30), N(0), N(25), N(10)} ELSE {})
FracTraces == {[spans |-> << [f |-> v, g |-> Absent] >>, root |-> 1] : v \in FracNums}
FracVecs == {[cfg |-> c, trace |-> t, fam |-> "frac"] : c \in FracCfgs, t \in FracTraces}

\* several spans: order, mixed paths, mixed wire types of the same or different numbers
MixCfgs ==
  {RulesCfg("trace", << Cond(FF, "=", "none", N(50), <<>>) >>, <<>>),
   RulesCfg("span",  << Cond(FF, ">=", "int", N(50), <<>>), Cond(<<Fld("g"), Fld("f")>>, "exists", "none", NoVal, <<>>) >>, <<>>),
   RulesCfg("trace", << Cond(FF, "in", "none", ListV, NumList) >>, <<>>),
   RulesCfg("trace", << Cond(<<RFld("f")>>, "<", "float", N(10000000), <<>>) >>, <<Fld("f")>>),
   DynCfg(<<Fld("f")>>, FALSE),
   DynCfg(<<Fld("f"), RFld("f")>>, TRUE)}
  \cup (IF Big THEN {RulesCfg("trace", << Cond(FF, "!=", "string", N(10000000), <<>>) >>, <<>>),
                     RulesCfg("span", << Cond(<<Fld("g"), RFld("f")>>, "not-in", "int", ListV, NumList) >>, <<>>),
                     DynCfg(<<RFld("f"), Fld("g")>>, FALSE)}
        ELSE {})
MixVals == {Absent, N(50), N(10000000), S("a")}
MixSpans == {[f |-> a, g |-> Absent] : a \in MixVals}
            \cup (IF Big THEN {[f |-> Absent, g |-> N(50)], [f |-> S("a"), g |-> N(10000000)]} ELSE {})
HasNum(sp) == sp.f.k = "n" \/ sp.g.k = "n"
Mix2Traces == {[spans |-> <<a, b>>, root |-> r] : a \in MixSpans, b \in MixSpans, r \in (IF Big THEN {0, 1, 2} ELSE {0, 1})}
Mix2Vecs == {[cfg |-> c, trace |-> t, fam |-> "mix2"] : c \in MixCfgs, t \in {x \in Mix2Traces : HasNum(x.spans[1]) \/ HasNum(x.spans[2])}}
Mix3Spans == {[f |-> a, g |-> Absent] : a \in {N(50), N(10000000)}}
Mix3Traces == {[spans |-> <<a, b, c>>, root |-> r] : a \in Mix3Spans, b \in Mix3Spans, c \in {[f |-> S("a"), g |-> Absent]} \cup Mix3Spans, r \in {0, 2}}
Mix3Cfgs == {RulesCfg("trace", << Cond(FF, "=", "none", N(50), <<>>) >>, <<Fld("f")>>),
             DynCfg(<<Fld("f"), RFld("f")>>, TRUE)}
Mix3Vecs == {[cfg |-> c, trace |-> t, fam |-> "mix3"] : c \in Mix3Cfgs, t \in Mix3Traces}

(* NON-SCALAR values.  Every kind of consumer of a field (condition         *)
(* operators of each class, untyped and with each Datatype, Field / Fields *)
(* / root., trace and span scope, downstream and top-level dynamic keys,   *)
(* dotted paths with CheckNestedFields) against a field that is nil, an    *)
(* empty / flat / nested map or array - alone, and next to a span that     *)
(* lacks the field or has a scalar or another document in it.              *)
NsDocs == IF Big THEN DocNames ELSE {"map", "arr", "emap"}
NsVals == {C(d) : d \in NsDocs} \cup {Nil}
NsConds(fs) ==
       {Cond(fs, op, "none", NoVal, <<>>) : op \in {"exists", "not-exists"}}
  \cup {Cond(fs, op, "none", S("x"), <<>>) : op \in StrOps}
  \cup {Cond(fs, "matches", "none", S("[a-z]"), <<>>)}
  \cup {Cond(fs, op, "string", S("map[]"), <<>>) : op \in {"=", "!=", "<"}}
  \cup {Cond(fs, op, "none", S("x"), <<>>) : op \in {"=", "!="}}
  \cup {Cond(fs, op, dt, N(10), <<>>) : op \in {"!=", ">="}, dt \in {"int", "float"}}
  \cup {Cond(fs, op, "none", ListV, <<S("[x 1]"), S("map[]")>>) : op \in {"in", "not-in"}}
  \cup (IF Big THEN      {Cond(fs, "=", "bool", B(TRUE), <<>>), Cond(fs, "!=", "none", N(10), <<>>)}
                    \cup {Cond(fs, op, dt, ListV, NumList) : op \in {"in", "not-in"}, dt \in {"int", "string"}}
        ELSE {})
NsExists(fs) == Cond(fs, "exists", "none", NoVal, <<>>)
NsNotExists(fs) == Cond(fs, "not-exists", "none", NoVal, <<>>)
NsNestedConds(fs) == {NsExists(fs), NsNotExists(fs), Cond(fs, "=", "none", S("x"), <<>>), Cond(fs, "contains", "none", S("x"), <<>>)}
NsKeyCfgs == {RulesCfg("trace", << NsExists(FF) >>, <<Fld("f")>>),
              DynCfg(<<Fld("f")>>, FALSE), DynCfg(<<RFld("f")>>, FALSE), DynCfg(<<Fld("f"), RFld("f")>>, TRUE)}
NsNestedCfgs ==
       {NestedCfg("trace", <<c>>, <<>>) : c \in NsNestedConds(<<NFld("f", "a")>>)}
  \cup {NestedCfg("span", << NsExists(<<NFld("f", "a")>>) >>, <<>>),
        NestedCfg("trace", << NsExists(FF) >>, <<>>), NestedCfg("trace", << NsNotExists(FF) >>, <<>>)}
  \cup (IF Big THEN      {NestedCfg("span", <<c>>, <<>>) : c \in NsNestedConds(<<NFld("f", "a")>>)}
                    \cup {NestedCfg("trace", <<c>>, <<>>) : c \in NsNestedConds(<<NFld("f", "a.b")>>)}
                    \cup {NestedCfg("trace", << NsExists(<<NFld("f", "c")>>) >>, <<Fld("f")>>),
                          RulesCfg("trace", << NsExists(<<NFld("f", "a")>>) >>, <<>>)}    \* a dotted path WITHOUT CheckNestedFields
        ELSE {})
NsCfgs1 ==
       {RulesCfg("trace", <<c>>, <<>>) : c \in NsConds(FF)}
  \cup {RulesCfg("span", <<c>>, <<>>) : c \in (IF Big THEN NsConds(FF) ELSE {NsExists(FF), NsNotExists(FF), Cond(FF, "contains", "none", S("x"), <<>>)})}
  \cup {RulesCfg("trace", <<c>>, <<>>) : c \in (IF Big THEN NsConds(<<RFld("f")>>) ELSE {NsExists(<<RFld("f")>>), NsNotExists(<<RFld("f")>>)})}
  \cup {RulesCfg("span", << NsExists(<<Fld("g"), Fld("f")>>) >>, <<>>), RulesCfg("trace", << NsNotExists(<<Fld("g"), RFld("f")>>) >>, <<>>)}
  \cup NsKeyCfgs \cup NsNestedCfgs
NsTraces1 == {[spans |-> << [f |-> v, g |-> Absent] >>, root |-> r] : v \in NsVals, r \in {0, 1}}
             \cup (IF Big THEN {[spans |-> << [f |-> S("a"), g |-> v] >>, root |-> 1] : v \in NsVals} ELSE {})
\* two spans: the document next to a span without the field, with a scalar, with (another) document
NsCfgs2 ==
  {RulesCfg("trace", << NsExists(FF) >>, <<>>), RulesCfg("trace", << NsNotExists(FF) >>, <<>>),
   RulesCfg("span", << NsNotExists(FF) >>, <<>>), RulesCfg("span", << Cond(FF, "contains", "none", S("x"), <<>>), NsExists(<<RFld("f")>>) >>, <<>>),
   RulesCfg("trace", << Cond(FF, "does-not-contain", "none", S("x"), <<>>) >>, <<Fld("f")>>),
   NestedCfg("trace", << NsExists(<<NFld("f", "a")>>) >>, <<>>),
   DynCfg(<<Fld("f")>>, FALSE), DynCfg(<<Fld("f"), RFld("f")>>, TRUE)}
  \cup (IF Big THEN {RulesCfg("trace", << NsNotExists(<<RFld("f")>>) >>, <<>>), RulesCfg("span", << Cond(FF, "=", "string", S("map[]"), <<>>) >>, <<>>),
                     NestedCfg("span", << NsNotExists(<<NFld("f", "a")>>) >>, <<Fld("f")>>), DynCfg(<<RFld("f")>>, FALSE)}
        ELSE {})
NsA == IF Big THEN {C("map"), C("arr"), Nil} ELSE {C("map"), C("arr")}
NsB == IF Big THEN {Absent, S("a"), C("map"), C("nest"), Nil} ELSE {Absent, S("a"), C("map")}
NsTraces2 == {[spans |-> << [f |-> a, g |-> Absent], [f |-> b, g |-> Absent] >>, root |-> r] : a \in NsA, b \in NsB, r \in (IF Big THEN {0, 1, 2} ELSE {0, 1})}
NsVecs == {[cfg |-> c, trace |-> t, fam |-> "ns"] : c \in NsCfgs1, t \in NsTraces1}
          \cup {[cfg |-> c, trace |-> t, fam |-> "ns"] : c \in NsCfgs2, t \in NsTraces2}
\* every path for a single span (Carries leaves the eight that are not OTLP); for two spans the quick bound has
\* one path per decoder, one of them forwarded, the thorough bound every decoder directly and two of them forwarded
NsPaths(t) == IF Len(t.spans) = 1 THEN AllPaths
              ELSE {<<"jsonEvent", FALSE>>, <<"jsonBatch", FALSE>>, <<"mpBatch", FALSE>>, <<"mpEvent", TRUE>>}
                   \cup (IF Big THEN {<<"mpEvent", FALSE>>, <<"jsonBatch", TRUE>>} ELSE {})

\* paths and msgpack widths per family: the single-span family has every
\* width and every path; the multi-span families one width per Go type
WireWs == MpW \cup JsonW \cup OtlpW
MixWs  == IF Big THEN {"i64", "u64", "f32", "f64", "jnum", "oint", "odbl"} ELSE {"i64", "u64", "f32", "jnum", "odbl"}
MixPaths == {<<"jsonBatch", FALSE>>, <<"mpBatch", FALSE>>, <<"mpBatch", TRUE>>, <<"otlp", FALSE>>}
            \cup (IF Big THEN {<<"jsonEvent", TRUE>>, <<"mpEvent", FALSE>>} ELSE {})
Mix3Ws == {"i64", "u64", "f32", "jnum", "odbl"}
Mix3Paths == {<<"jsonBatch", FALSE>>, <<"mpBatch", FALSE>>, <<"mpEvent", TRUE>>, <<"otlp", FALSE>>}

FracWs == IF Big THEN WireWs ELSE {"i64", "u64", "f32", "f64", "jnum", "oint", "odbl"}
FracPaths == IF Big THEN AllPaths
             ELSE {<<b, FALSE>> : b \in Bases} \cup {<<"mpBatch", TRUE>>, <<"otlp", TRUE>>}

FamilyOf(v) == v.fam
Encs(v) == CASE FamilyOf(v) = "wire" -> EncsOf(v.trace, AllPaths, WireWs)
             [] FamilyOf(v) = "frac" -> EncsOf(v.trace, FracPaths, FracWs)
             [] FamilyOf(v) = "mix2" -> EncsOf(v.trace, MixPaths, MixWs)
             [] FamilyOf(v) = "mix3" -> EncsOf(v.trace, Mix3Paths, Mix3Ws)
             [] FamilyOf(v) = "ns"   -> EncsOf(v.trace, NsPaths(v.trace), {})
Vecs == (IF "wire" \in Families THEN WireVecs ELSE {})
        \cup (IF "frac" \in Families THEN FracVecs ELSE {})
        \cup (IF "mix2" \in Families THEN Mix2Vecs ELSE {})
        \cup (IF "mix3" \in Families THEN Mix3Vecs ELSE {})
        \cup (IF "ns" \in Families THEN NsVecs ELSE {})

---------------------------------------------------------------------------
VecSeq == SetToSeq(Vecs)

Init == /\ vid \in 1 .. Len(VecSeq)
        /\ vec = VecSeq[vid]
        /\ enc = NoEnc
        /\ res = "pending"
        /\ act = [name |-> "Init"]

(* JSON shape of an encoding in the action label *)
JEnc(e) == [perm |-> e.perm, se |-> e.se]

\* the spans of the trace reach the node in the order e.perm, each through
\* its path and with its wire types; the sampler decides; the outcome is
\* the outcome of the reference encoding
Ingest(e) ==
  /\ res = "pending"
  /\ enc' = e
  /\ res' = "agree"
  /\ UNCHANGED <<vid, vec>>
  /\ act' = [name |-> "Ingest", enc |-> JEnc(e)]

\* the same, as the code is known to answer it where a consumer's view differs
IngestDev(e) ==
  /\ Faithful
  /\ res = "pending"
  /\ Differs(vec, e)
  /\ enc' = e
  /\ res' = "differ"
  /\ UNCHANGED <<vid, vec>>
  /\ act' = [name |-> "Ingest", enc |-> JEnc(e), dev |-> DevName(vec, e)]

Next == /\ res = "pending"
        /\ \E e \in Encs(vec) : Ingest(e) \/ IngestDev(e)

Spec == Init /\ [][Next]_vars

---------------------------------------------------------------------------
Ingested == res # "pending"
Ideal == "dev" \notin DOMAIN act

TypeOK == /\ res \in {"pending", "agree", "differ"}
          /\ vid \in 1 .. Len(VecSeq) /\ vec = VecSeq[vid]
          /\ vec.cfg.kind \in {"rules", "dyn"}
          /\ vec.trace.root \in 0 .. Len(vec.trace.spans)
          /\ \A i \in 1 .. Len(vec.trace.spans) : \A v \in {vec.trace.spans[i].f, vec.trace.spans[i].g} : v.k = "c" => v.s \in DocNames
          /\ Len(enc.se) \in {0, Len(vec.trace.spans)}

\* every enumerated encoding is an encoding of THIS trace: a permutation of
\* its spans, numbers on a wire type of the span's base that carries them
\* exactly, everything else unchanged ("the same field names and numerically
\* equal values")
WireOK(base, v, w) == IF v.k = "n" THEN w \in WiresOf(base) /\ Fits(w, v.n) ELSE w = NoWire
CarriesSame ==
  Ingested =>
    /\ Len(enc.perm) = Len(vec.trace.spans)
    /\ {enc.perm[i] : i \in 1 .. Len(enc.perm)} = 1 .. Len(vec.trace.spans)
    /\ \A i \in 1 .. Len(vec.trace.spans) :
         /\ enc.se[i].base \in Bases
         /\ Carries(enc.se[i].base, vec.trace.spans[i])
         /\ WireOK(enc.se[i].base, vec.trace.spans[i].f, enc.se[i].wf)
         /\ WireOK(enc.se[i].base, vec.trace.spans[i].g, enc.se[i].wg)

\* the reference is itself an encoding of the trace, so "equal to the
\* reference" is an equivalence inside the class
RefIsEncoding ==
  LET r == RefEnc(vec.trace) IN
  \A i \in 1 .. Len(vec.trace.spans) :
     /\ Carries(r.se[i].base, vec.trace.spans[i])
     /\ WireOK(r.se[i].base, vec.trace.spans[i].f, r.se[i].wf)
     /\ WireOK(r.se[i].base, vec.trace.spans[i].g, r.se[i].wg)

\* C09 on the model: what the sampler can depend on is the same for every
\* encoding and order.  Holds for the ideal views (Faithful = FALSE).
EncodingIndependent ==
  Ingested => TraceView(vec.cfg, vec.trace, enc) = TraceView(vec.cfg, vec.trace, RefEnc(vec.trace))

\* the payload answers "present" for a field exactly if the span carries it,
\* whatever the path did with the event and whatever kind of value it is; the
\* negative cache holds only fields the span does not have
SlotSound ==
  Ingested =>
    \A i \in 1 .. Len(vec.trace.spans), n \in {"f", "g"} :
       LET v == GetF(vec.trace.spans[i], n)
           slot == Slot(Ingestion(enc.se[i].base, enc.se[i].fwd), v)
       IN /\ Found(slot) <=> v.k # "abs"
          /\ slot = "missing" => v.k = "abs"
          /\ Found(slot) <=> Found(Slot(Ingestion("mpBatch", FALSE), v))     \* as for the reference
\* a value without a number in it gives the code no known reason to differ
NoNumber(t) == \A i \in 1 .. Len(t.spans) : t.spans[i].f.k # "n" /\ t.spans[i].g.k # "n"
NonScalarAgree == (Ingested /\ NoNumber(vec.trace)) => (res = "agree" /\ ~Differs(vec, enc))

\* a different trace view needs a consumer that sees a different value on some span
ViewDiffLocal ==
  Ingested => (TraceView(vec.cfg, vec.trace, enc) # TraceView(vec.cfg, vec.trace, RefEnc(vec.trace)) => Differs(vec, enc))

\* deviation successors exist only where a view differs
DevOnlyWhereViewsDiffer == (res = "differ") => (~Ideal /\ Differs(vec, enc))

\* the known deviations are confined to numbers decoded as uint64 / float32
\* and to integers >= 1e6 decoded as a float
AllCells(t, e) == {<<i, n>> \in (1 .. Len(t.spans)) \X {"f", "g"} : GetF(t.spans[i], n).k = "n"}
Handled(t, e) ==
  \A c \in AllCells(t, e) :
     LET g == GoType(e.se[c[1]].base, GetW(e.se[c[1]], c[2])) IN
     \/ g = "int64"
     \/ g = "float64" /\ ~BigInt(GetF(t.spans[c[1]], c[2]).n)
DeviationsConfined == (Ingested /\ Handled(vec.trace, enc)) => ~Differs(vec, enc)

\* JSON never gives the sampler anything but float64; the reference only int64 / float64
DecoderFacts ==
  /\ \A w \in JsonW : GoType("jsonEvent", w) = "float64" /\ GoType("jsonBatch", w) = "float64"
  /\ \A w \in MpW : GoType("mpEvent", w) # "float32"
  /\ Handled(vec.trace, RefEnc(vec.trace))

---------------------------------------------------------------------------
(* What is dumped for the harness: the vectors once (params.vecs, the     *)
(* sequence VecSeq), per transition only the index of the vector, the     *)
(* encoding (in the action label) and res.                                 *)
Abs == [res |-> res]
Hid == [vid |-> vid]
ASSUME PrintT(ToJson([params |-> [vecs |-> VecSeq, docs |-> Docs]]))
Dump == PrintT(ToJson([fa |-> act.name, act |-> act', fabs |-> Abs, fhid |-> Hid, tabs |-> Abs', thid |-> Hid']))
View == <<vid, enc, res>>
=============================================================================
