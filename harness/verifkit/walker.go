// Package verifkit is the Go side of the /verif conformance bindings. It is
// never part of /repo: it is mapped into the module as
// github.com/honeycombio/refinery/internal/verifkit with `go test -overlay`.
//
// walker.go implements binding B1/B3 of DESIGN.md: it loads the labelled
// transition graph that TLC generated from a TLA+ specification (every
// generated transition, dumped by an ACTION_CONSTRAINT), and walks it
// adaptively through a real implementation object: after every action the
// implementation's projected abstract state must equal the projection of some
// successor the specification allows under the same action label.
package verifkit

import (
	"bytes"
	"encoding/json"
	"fmt"
	"math/rand"
	"os"
	"sort"
	"strconv"
	"strings"
	"time"
)

// Harness adapts one real implementation object to the walker.
type Harness interface {
	// Reset builds a fresh real object for the given initial specification
	// state (its projection as decoded JSON).
	Reset(init map[string]any) error
	// Project returns the abstract state of the real object, in the same JSON
	// shape as the specification's Abs record.
	Project() (any, error)
	// Apply performs the action on the real object.
	Apply(act map[string]any) error
}

type graphFile struct {
	Module string            `json:"module"`
	Params any               `json:"params"` // constants of the run, handed to Reset as init["params"]
	States []json.RawMessage `json:"states"` // full specification states (identity)
	Abs    []json.RawMessage `json:"abs"`    // their projections (what is compared); may be empty => same as States
	Init   []int             `json:"init"`
	Edges  []struct {
		From int             `json:"f"`
		To   int             `json:"t"`
		Act  json.RawMessage `json:"a"`
	} `json:"edges"`
}

type edge struct {
	from, to int
	act      map[string]any
	label    string // canonical JSON of act minus "dev"
	dev      string
	group    int
}

// Graph is the specification's labelled transition graph.
type Graph struct {
	Module string
	states []map[string]any // full spec state
	abs    []any            // projection
	canon  []string         // canonical text of the projection
	init   []int
	edges  []edge
	out    [][]int // state -> edge indexes
	groups int     // number of distinct (from,label) pairs
}

// Canon renders v as canonical JSON: object keys sorted; arrays under a key
// whose name ends in "Set" (or "set") are sorted by their canonical text, so
// that TLA+ sets compare equal to Go slices in any order.
func Canon(v any) string {
	var b bytes.Buffer
	canonInto(&b, normalize(v), false)
	return b.String()
}

func normalize(v any) any {
	// round-trip through JSON so that Go structs, ints etc. become generic values
	switch v.(type) {
	case map[string]any, []any, string, float64, bool, nil:
		return v
	}
	raw, err := json.Marshal(v)
	if err != nil {
		panic(err)
	}
	var out any
	d := json.NewDecoder(bytes.NewReader(raw))
	if err := d.Decode(&out); err != nil {
		panic(err)
	}
	return out
}

func canonInto(b *bytes.Buffer, v any, asSet bool) {
	switch x := v.(type) {
	case map[string]any:
		keys := make([]string, 0, len(x))
		for k := range x {
			keys = append(keys, k)
		}
		sort.Strings(keys)
		b.WriteByte('{')
		for i, k := range keys {
			if i > 0 {
				b.WriteByte(',')
			}
			b.WriteString(strconv.Quote(k))
			b.WriteByte(':')
			canonInto(b, normalize(x[k]), strings.HasSuffix(k, "Set") || strings.HasSuffix(k, "set"))
		}
		b.WriteByte('}')
	case []any:
		parts := make([]string, len(x))
		for i, e := range x {
			var eb bytes.Buffer
			canonInto(&eb, normalize(e), asSet)
			parts[i] = eb.String()
		}
		if asSet {
			sort.Strings(parts)
		}
		b.WriteByte('[')
		b.WriteString(strings.Join(parts, ","))
		b.WriteByte(']')
	case float64:
		if x == float64(int64(x)) {
			b.WriteString(strconv.FormatInt(int64(x), 10))
		} else {
			b.WriteString(strconv.FormatFloat(x, 'g', -1, 64))
		}
	case string:
		b.WriteString(strconv.Quote(x))
	case bool:
		if x {
			b.WriteString("true")
		} else {
			b.WriteString("false")
		}
	case nil:
		b.WriteString("null")
	default:
		canonInto(b, normalize(x), asSet)
	}
}

// LoadGraph reads the graph file written by vcheck.
func LoadGraph(path string) (*Graph, error) {
	raw, err := os.ReadFile(path)
	if err != nil {
		return nil, err
	}
	var gf graphFile
	if err := json.Unmarshal(raw, &gf); err != nil {
		return nil, fmt.Errorf("graph %s: %w", path, err)
	}
	g := &Graph{Module: gf.Module, init: gf.Init}
	for i, s := range gf.States {
		var m map[string]any
		if err := json.Unmarshal(s, &m); err != nil {
			return nil, fmt.Errorf("state: %w", err)
		}
		g.states = append(g.states, m)
		var a any = m
		if len(gf.Abs) == len(gf.States) {
			a = nil
			if err := json.Unmarshal(gf.Abs[i], &a); err != nil {
				return nil, fmt.Errorf("abs: %w", err)
			}
		}
		g.abs = append(g.abs, a)
		g.canon = append(g.canon, Canon(a))
	}
	if gf.Params != nil {
		for _, s := range g.init {
			g.states[s]["params"] = gf.Params
		}
	}
	g.out = make([][]int, len(g.states))
	groupIDs := map[string]int{}
	for _, e := range gf.Edges {
		var a map[string]any
		if err := json.Unmarshal(e.Act, &a); err != nil {
			return nil, fmt.Errorf("act: %w", err)
		}
		dev, _ := a["dev"].(string)
		lab := map[string]any{}
		for k, v := range a {
			if k != "dev" {
				lab[k] = v
			}
		}
		label := Canon(lab)
		gk := strconv.Itoa(e.From) + "|" + label
		gid, ok := groupIDs[gk]
		if !ok {
			gid = len(groupIDs)
			groupIDs[gk] = gid
		}
		g.edges = append(g.edges, edge{from: e.From, to: e.To, act: lab, label: label, dev: dev, group: gid})
		g.out[e.From] = append(g.out[e.From], len(g.edges)-1)
	}
	g.groups = len(groupIDs)
	return g, nil
}

// Step is one replayed action.
type Step struct {
	Act      map[string]any `json:"act"`
	Expected any            `json:"expected,omitempty"`
	Observed any            `json:"observed,omitempty"`
	Dev      string         `json:"dev,omitempty"`
	Blind    bool           `json:"blind,omitempty"` // the step was applied without looking at the object afterwards
}

// Divergence is a replayed step on which the real object's projection matched
// no successor the specification allows.
type Divergence struct {
	Kind     string         `json:"kind"` // "mismatch" | "error" | "init"
	Init     map[string]any `json:"init"`
	Prefix   []Step         `json:"prefix"`
	State    any            `json:"spec_state"`
	Act      map[string]any `json:"act"`
	Observed any            `json:"observed"`
	Allowed  []any          `json:"allowed"`
	Diff     []string       `json:"diff_fields"`
	Err      string         `json:"error,omitempty"`
}

// DevHit records that the real object followed a named deviation edge.
type DevHit struct {
	Dev    string         `json:"dev"`
	Init   map[string]any `json:"init"`
	Prefix []Step         `json:"prefix"`
	Act    map[string]any `json:"act"`
	State  any            `json:"spec_state"`
	Obs    any            `json:"observed"`
}

// Result is what the walker writes for vcheck.
type Result struct {
	Module        string         `json:"module"`
	Seed          int64          `json:"seed"`
	States        int            `json:"graph_states"`
	Edges         int            `json:"graph_edges"`
	Groups        int            `json:"groups_total"`
	GroupsCovered int            `json:"groups_covered"`
	EdgesCovered  int            `json:"edges_covered"`
	Walks         int            `json:"walks"`
	Steps         int            `json:"steps"`
	Divergences   []Divergence   `json:"divergences"`
	DevHits       []DevHit       `json:"dev_hits"`
	DevCounts     map[string]int `json:"dev_counts"`
	Samples       [][]Step       `json:"samples"`
	TimedOut      bool           `json:"timed_out"`
	RandomWalks   int            `json:"random_walks,omitempty"`
	RandomSteps   int            `json:"random_steps,omitempty"`
	BlindSteps    int            `json:"blind_steps,omitempty"`
	WallS         float64        `json:"wall_s"`
	Note          string         `json:"note,omitempty"`
}

// Options for Walk.
type Options struct {
	Seed       int64
	Budget     time.Duration
	MaxWalkLen int
	MaxDiv     int // stop after this many divergences
	// RandomFor: after the transition tour, keep walking for this long choosing successors uniformly at random.
	// A tour executes every transition once, after whatever prefix led there; an implementation can carry state the
	// specification does not have (a cached bound, a pooled object), so that a step misbehaves only after a particular
	// HISTORY. Random walks add path diversity on top of edge coverage.
	RandomFor time.Duration
	// BlindProb: in the random phase, the probability that a step is applied WITHOUT projecting the object afterwards
	// (the candidate set then becomes every successor the specification allows under that label). Observing after every
	// step can itself repair the implementation's state (a listing that triggers a cleanup), hiding defects that need
	// two updates in a row with no query in between. Only for harnesses whose Project is not needed as a barrier.
	BlindProb float64
}

// ReplayFile is what `VIOLATION ... replay=<path>` points at.
type ReplayFile struct {
	Property   string           `json:"property"`
	Module     string           `json:"module"`
	Init       map[string]any   `json:"init"`
	Actions    []map[string]any `json:"actions"`
	Divergence *Divergence      `json:"divergence,omitempty"`
}

func diffFields(obs any, allowed []any) []string {
	om, ok := normalize(obs).(map[string]any)
	if !ok || len(allowed) == 0 {
		return nil
	}
	// fields that differ from every allowed successor; report against the
	// closest successor (fewest differing fields)
	best := []string(nil)
	for i, a := range allowed {
		am, ok := normalize(a).(map[string]any)
		if !ok {
			continue
		}
		var d []string
		keys := map[string]bool{}
		for k := range om {
			keys[k] = true
		}
		for k := range am {
			keys[k] = true
		}
		for k := range keys {
			if Canon(map[string]any{k: om[k]}) != Canon(map[string]any{k: am[k]}) {
				d = append(d, k)
			}
		}
		sort.Strings(d)
		if i == 0 || len(d) < len(best) {
			best = d
		}
	}
	return best
}

// Walk covers the graph's edge groups through the harness. The walker keeps
// the SET of specification states consistent with everything observed so far
// (hidden specification variables may make several states share a projection),
// so a step is accepted exactly when some successor of some candidate state
// under the same action label has the observed projection.
func Walk(g *Graph, h Harness, opt Options) *Result {
	start := time.Now()
	res := &Result{Module: g.Module, Seed: opt.Seed, States: len(g.states), Edges: len(g.edges), Groups: g.groups, DevCounts: map[string]int{}}
	if opt.MaxWalkLen == 0 {
		opt.MaxWalkLen = 64
	}
	if opt.MaxDiv == 0 {
		opt.MaxDiv = 5
	}
	rng := rand.New(rand.NewSource(opt.Seed))
	groupDone := make([]bool, g.groups)
	edgeDone := make([]bool, len(g.edges))
	remaining := g.groups
	deadline := start.Add(opt.Budget)

	// an edge the real object refused to follow twice (it took a sibling successor under the
	// same label) is "dead": it is no longer used to plan paths, so the walker does not keep
	// chasing specification successors the implementation never takes
	refused := make([]int, len(g.edges))
	dead := make([]bool, len(g.edges))
	var dist []int
	revEdges := make([][]int, len(g.states)) // incoming edge indexes per state (built once)
	for ei, e := range g.edges {
		revEdges[e.to] = append(revEdges[e.to], ei)
	}
	recompute := func() {
		dist = make([]int, len(g.states))
		for i := range dist {
			dist[i] = -1
		}
		var q []int
		for s := range g.states {
			for _, ei := range g.out[s] {
				if !groupDone[g.edges[ei].group] {
					dist[s] = 0
					q = append(q, s)
					break
				}
			}
		}
		for len(q) > 0 {
			s := q[0]
			q = q[1:]
			for _, ei := range revEdges[s] {
				if dead[ei] {
					continue
				}
				if p := g.edges[ei].from; dist[p] < 0 {
					dist[p] = dist[s] + 1
					q = append(q, p)
				}
			}
		}
	}
	recompute()
	dirty := false
	lastSteps := 0
	markGroup := func(gid int) {
		if !groupDone[gid] {
			groupDone[gid] = true
			remaining--
			dirty = true
		}
	}

	initOrder := append([]int(nil), g.init...)
	rng.Shuffle(len(initOrder), func(i, j int) { initOrder[i], initOrder[j] = initOrder[j], initOrder[i] })
	initPos := 0

	random := false
	hasDeadline := opt.Budget > 0
	goRandom := func() bool {
		if random || opt.RandomFor <= 0 {
			return false
		}
		random = true
		rdl := time.Now().Add(opt.RandomFor)
		if hasDeadline && rdl.After(deadline) {
			rdl = deadline
		}
		deadline, hasDeadline = rdl, true
		return true
	}
	for len(res.Divergences) < opt.MaxDiv {
		if remaining <= 0 && !random && !goRandom() {
			break
		}
		if hasDeadline && time.Now().After(deadline) {
			if !random {
				res.TimedOut = true
			}
			break
		}
		if !random && dirty && lastSteps == 0 {
			// distances are refreshed lazily: only when the previous walk found nothing to do
			recompute()
			dirty = false
		}
		lastSteps = 0
		s0 := -1
		if random {
			s0 = initOrder[rng.Intn(len(initOrder))]
		} else {
			for k := 0; k < len(initOrder); k++ {
				c := initOrder[(initPos+k)%len(initOrder)]
				if dist[c] >= 0 {
					s0 = c
					initPos = (initPos + k + 1) % len(initOrder)
					break
				}
			}
		}
		if s0 < 0 {
			res.Note = fmt.Sprintf("%d edge groups unreachable from Init through matched successors", remaining)
			if goRandom() {
				continue
			}
			break
		}
		init := g.states[s0]
		if err := h.Reset(init); err != nil {
			res.Divergences = append(res.Divergences, Divergence{Kind: "error", Init: init, Err: "reset: " + err.Error()})
			break
		}
		if obs, err := h.Project(); err != nil {
			res.Divergences = append(res.Divergences, Divergence{Kind: "error", Init: init, Err: "project: " + err.Error()})
			break
		} else if Canon(obs) != g.canon[s0] {
			res.Divergences = append(res.Divergences, Divergence{Kind: "init", Init: init, State: g.abs[s0], Observed: normalize(obs), Allowed: []any{g.abs[s0]}, Diff: diffFields(obs, []any{g.abs[s0]})})
			for _, ei := range g.out[s0] {
				markGroup(g.edges[ei].group)
			}
			continue
		}
		res.Walks++
		if random {
			res.RandomWalks++
		}
		cur := []int{s0}
		var prefix []Step
		for len(prefix) < opt.MaxWalkLen {
			if hasDeadline && time.Now().After(deadline) {
				if !random {
					res.TimedOut = true
				}
				break
			}
			// pick next edge from any candidate state: an uncovered group, else
			// one that moves toward an uncovered group (random phase: any edge)
			var cands []int
			for _, s := range cur {
				for _, ei := range g.out[s] {
					if random && !dead[ei] || !random && !groupDone[g.edges[ei].group] {
						cands = append(cands, ei)
					}
				}
			}
			if len(cands) == 0 && !random {
				if dirty {
					recompute()
					dirty = false
				}
				for _, s := range cur {
					if dist[s] < 0 {
						continue
					}
					for _, ei := range g.out[s] {
						t := g.edges[ei].to
						if !dead[ei] && dist[t] >= 0 && dist[t] < dist[s] {
							cands = append(cands, ei)
						}
					}
				}
			}
			if len(cands) == 0 {
				break
			}
			chosenIdx := cands[rng.Intn(len(cands))]
			chosen := g.edges[chosenIdx]
			if random && opt.BlindProb > 0 && rng.Float64() < opt.BlindProb {
				if err := h.Apply(chosen.act); err != nil {
					res.Divergences = append(res.Divergences, Divergence{Kind: "error", Init: init, Prefix: prefix, State: g.abs[cur[0]], Act: chosen.act, Err: err.Error()})
					break
				}
				res.Steps++
				res.RandomSteps++
				res.BlindSteps++
				nextB := map[int]bool{}
				for _, s := range cur {
					for _, ei := range g.out[s] {
						if g.edges[ei].label == chosen.label {
							nextB[g.edges[ei].to] = true
						}
					}
				}
				prefix = append(prefix, Step{Act: chosen.act, Blind: true})
				cur = cur[:0]
				for s := range nextB {
					cur = append(cur, s)
				}
				sort.Ints(cur)
				continue
			}
			err := h.Apply(chosen.act)
			var obs any
			if err == nil {
				obs, err = h.Project()
			}
			res.Steps++
			lastSteps++
			if random {
				res.RandomSteps++
			}
			oc := ""
			if err == nil {
				oc = Canon(obs)
			}
			var allowed []any
			seenAllowed := map[string]bool{}
			var matched []int
			for _, s := range cur {
				for _, ei := range g.out[s] {
					e := g.edges[ei]
					if e.label != chosen.label {
						continue
					}
					markGroup(e.group)
					if !seenAllowed[g.canon[e.to]] {
						seenAllowed[g.canon[e.to]] = true
						allowed = append(allowed, g.abs[e.to])
					}
					if err == nil && g.canon[e.to] == oc {
						matched = append(matched, ei)
					}
				}
			}
			if len(matched) == 0 {
				d := Divergence{Kind: "mismatch", Init: init, Prefix: prefix, State: g.abs[cur[0]], Act: chosen.act, Allowed: allowed}
				if err != nil {
					d.Kind = "error"
					d.Err = err.Error()
				} else {
					d.Observed = normalize(obs)
					d.Diff = diffFields(obs, allowed)
				}
				res.Divergences = append(res.Divergences, d)
				break
			}
			followed := false
			for _, ei := range matched {
				if ei == chosenIdx {
					followed = true
				}
			}
			if !followed {
				refused[chosenIdx]++
				if refused[chosenIdx] >= 2 && !dead[chosenIdx] {
					dead[chosenIdx] = true
					dirty = true
				}
			}
			// a deviation is reported only when no ideal edge explains the step
			dev := ""
			ideal := false
			for _, ei := range matched {
				if g.edges[ei].dev == "" {
					ideal = true
				}
			}
			next := map[int]bool{}
			for _, ei := range matched {
				e := g.edges[ei]
				if ideal && e.dev != "" {
					continue
				}
				if !ideal {
					dev = e.dev
				}
				if !edgeDone[ei] {
					edgeDone[ei] = true
					res.EdgesCovered++
				}
				next[e.to] = true
			}
			if dev != "" {
				res.DevCounts[dev]++
				if len(res.DevHits) < 20 {
					res.DevHits = append(res.DevHits, DevHit{Dev: dev, Init: init, Prefix: append([]Step(nil), prefix...), Act: chosen.act, State: g.abs[cur[0]], Obs: normalize(obs)})
				}
			}
			prefix = append(prefix, Step{Act: chosen.act, Observed: normalize(obs), Dev: dev})
			cur = cur[:0]
			for s := range next {
				cur = append(cur, s)
			}
			sort.Ints(cur)
		}
		if len(res.Samples) < 3 && len(prefix) > 0 {
			res.Samples = append(res.Samples, prefix)
		}
	}
	for _, d := range groupDone {
		if d {
			res.GroupsCovered++
		}
	}
	res.WallS = time.Since(start).Seconds()
	return res
}

// ReplayWalk re-executes exactly one recorded walk and reports whether it
// still diverges.
func ReplayWalk(g *Graph, h Harness, rf *ReplayFile) *Result {
	start := time.Now()
	res := &Result{Module: g.Module, States: len(g.states), Edges: len(g.edges), Groups: g.groups, DevCounts: map[string]int{}}
	ic := Canon(rf.Init)
	var cur []int
	for _, s := range g.init {
		if Canon(g.states[s]) == ic {
			cur = append(cur, s)
		}
	}
	if len(cur) == 0 {
		res.Note = "replay init state not in graph"
		return res
	}
	if err := h.Reset(g.states[cur[0]]); err != nil {
		res.Divergences = append(res.Divergences, Divergence{Kind: "error", Err: err.Error()})
		return res
	}
	res.Walks = 1
	var prefix []Step
	for _, a := range rf.Actions {
		lab := map[string]any{}
		blindStep := false
		for k, v := range a {
			if k == "_blind" {
				blindStep = true
			} else if k != "dev" {
				lab[k] = v
			}
		}
		label := Canon(lab)
		if blindStep {
			if err := h.Apply(lab); err != nil {
				res.Divergences = append(res.Divergences, Divergence{Kind: "error", Init: rf.Init, Prefix: prefix, Act: lab, Err: err.Error()})
				break
			}
			res.Steps++
			nb := map[int]bool{}
			for _, s := range cur {
				for _, ei := range g.out[s] {
					if g.edges[ei].label == label {
						nb[g.edges[ei].to] = true
					}
				}
			}
			prefix = append(prefix, Step{Act: lab, Blind: true})
			cur = cur[:0]
			for s := range nb {
				cur = append(cur, s)
			}
			sort.Ints(cur)
			if len(cur) == 0 {
				res.Note = "replay: blind step has no successor in the graph"
				break
			}
			continue
		}
		err := h.Apply(lab)
		var obs any
		if err == nil {
			obs, err = h.Project()
		}
		res.Steps++
		var allowed []any
		next := map[int]bool{}
		ideal := false
		dev := ""
		for _, s := range cur {
			for _, ei := range g.out[s] {
				e := g.edges[ei]
				if e.label != label {
					continue
				}
				allowed = append(allowed, g.abs[e.to])
				if err == nil && g.canon[e.to] == Canon(obs) {
					next[e.to] = true
					if e.dev == "" {
						ideal = true
					} else {
						dev = e.dev
					}
				}
			}
		}
		if len(next) == 0 {
			d := Divergence{Kind: "mismatch", Init: rf.Init, Prefix: prefix, State: g.abs[cur[0]], Act: lab, Allowed: allowed}
			if err != nil {
				d.Kind, d.Err = "error", err.Error()
			} else {
				d.Observed = normalize(obs)
				d.Diff = diffFields(obs, allowed)
			}
			res.Divergences = append(res.Divergences, d)
			break
		}
		if ideal {
			dev = ""
		}
		if dev != "" {
			res.DevCounts[dev]++
		}
		prefix = append(prefix, Step{Act: lab, Observed: normalize(obs), Dev: dev})
		cur = cur[:0]
		for s := range next {
			cur = append(cur, s)
		}
		sort.Ints(cur)
	}
	res.Samples = [][]Step{prefix}
	res.WallS = time.Since(start).Seconds()
	return res
}

// Main is the common entry point for harness tests: it reads VERIF_GRAPH,
// VERIF_OUT, VERIF_SEED, VERIF_BUDGET_S and VERIF_REPLAY from the environment,
// walks and writes the result.
func Main(h Harness) error {
	gp := os.Getenv("VERIF_GRAPH")
	if gp == "" {
		return fmt.Errorf("VERIF_GRAPH not set")
	}
	g, err := LoadGraph(gp)
	if err != nil {
		return err
	}
	seed, _ := strconv.ParseInt(os.Getenv("VERIF_SEED"), 10, 64)
	budget, _ := strconv.ParseFloat(os.Getenv("VERIF_BUDGET_S"), 64)
	if budget == 0 {
		budget = 60
	}
	maxLen, _ := strconv.Atoi(os.Getenv("VERIF_MAXWALK"))
	var res *Result
	if rp := os.Getenv("VERIF_REPLAY"); rp != "" {
		raw, err := os.ReadFile(rp)
		if err != nil {
			return err
		}
		var rf ReplayFile
		if err := json.Unmarshal(raw, &rf); err != nil {
			return err
		}
		res = ReplayWalk(g, h, &rf)
	} else {
		rnd, _ := strconv.ParseFloat(os.Getenv("VERIF_RANDOM_S"), 64)
		blind, _ := strconv.ParseFloat(os.Getenv("VERIF_BLIND_P"), 64)
		res = Walk(g, h, Options{Seed: seed, Budget: time.Duration(budget * float64(time.Second)), MaxWalkLen: maxLen, RandomFor: time.Duration(rnd * float64(time.Second)), BlindProb: blind})
	}
	out, err := json.Marshal(res)
	if err != nil {
		return err
	}
	return os.WriteFile(os.Getenv("VERIF_OUT"), out, 0o644)
}

// --- small helpers used by harnesses -------------------------------------

// Str fetches a string action argument.
func Str(a map[string]any, k string) string {
	s, _ := a[k].(string)
	return s
}

// Int fetches an integer action argument.
func Int(a map[string]any, k string) int {
	switch x := a[k].(type) {
	case float64:
		return int(x)
	case int:
		return x
	case json.Number:
		n, _ := x.Int64()
		return int(n)
	}
	return 0
}

// Bool fetches a boolean action argument.
func Bool(a map[string]any, k string) bool {
	b, _ := a[k].(bool)
	return b
}
