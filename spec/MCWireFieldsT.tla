--------------------------- MODULE MCWireFieldsT ---------------------------
(* C20 decision pipeline, thorough bound: as quick, plus the Payload.UnmarshalMsgpack ingest path, 6 decoration
   profiles, 6 x 4 field shapes (incl. events with none of the fields the sampler names) *)
EXTENDS MCWireFieldsBase
mc_Spans == {"r", "c"}
mc_Crate == ("r" :> 0) @@ ("c" :> 2)
mc_Shapes == ("r" :> {{"svc", "http", "tags", "dur"}, {"svc", "http.response.status", "dur"}, {"http", "http.response.status", "tags"},
                      {}, {"http"}, {"svc", "http", "http.response.status", "tags", "dur"}})
          @@ ("c" :> {{"svc", "http"}, {"http.response.status", "tags", "dur"}, {"dur"}, {"http", "tags"}})
mc_Samplers == mc_AllSamplers
mc_Profiles == {P(FALSE, FALSE, FALSE, FALSE, FALSE, {}),
                P(FALSE, TRUE, TRUE, FALSE, TRUE, {"env"}),
                P(TRUE, TRUE, FALSE, TRUE, FALSE, {}),
                P(TRUE, FALSE, TRUE, TRUE, FALSE, {"env"}),
                P(FALSE, FALSE, FALSE, TRUE, TRUE, {}),
                P(FALSE, FALSE, TRUE, TRUE, FALSE, {"env"})}
=============================================================================
