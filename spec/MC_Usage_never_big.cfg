SPECIFICATION Spec
CONSTANTS
  Signals = {"traces", "logs"}
  MaxCum = 3
  Steps = {1, 2}
  Overwrite = FALSE
  ZeroReports = "never"
  Attempts = 2
INVARIANTS TypeOK Conservation NonNegative NoDoubleCount InFlightIsPending
PROPERTY DeliveredMonotone OnlyAckDelivers OnlyAckClearsPending PendingTwiceKeeps
ACTION_CONSTRAINT Dump
VIEW View
