SPECIFICATION Spec
CONSTANTS
  Traces = {"a", "b", "c"}
  KeepTraces = {"a", "b", "c"}
  DropTraces = {}
  Rates = {1, 4}
  Reasons = {"ra", ""}
  Coupled = FALSE
  KeptSizes = {1, 2}
  ResizeKept = {0, 1, 2, 3}
  DropSizes = {3}
  MaxQueue = 1
  MaxCount = 1
  MaxTotal = 0
  TrackPromise = FALSE
INVARIANTS TypeOK KeptRemembered RecencyOrder DroppedRemembered RecentRemembered
PROPERTIES ResizeKeepsNewest EvictOnlyOldest RecordDroppedAnswered RecentSticks ObligationEndsOnlyWhenFull NoSpontaneousAnswer
ACTION_CONSTRAINT Dump
VIEW View
