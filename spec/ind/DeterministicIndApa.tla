------------------------- MODULE DeterministicIndApa -------------------------
(* Apalache front end of DeterministicInd.  M0 is a Skolem constant: an    *)
(* obligation proved for the unconstrained integer M0 holds for all M.     *)
EXTENDS DeterministicInd, Apalache

CONSTANT
  \* @type: Int;
  M0

\* H >= 0, ExtremeFrom >= 1, M0: any integers; Kind: either; up to 3 rates (any naturals),
\* 3 instances, 3 profiles of uninterpreted sorts, 3 tables
ConstInit == /\ Kind \in {"det", "stress"} /\ H \in Int /\ ExtremeFrom \in Int /\ M0 \in Int
             /\ Rates = Gen(3) /\ Insts = Gen(3) /\ Tables = Gen(3) /\ Profiles = Gen(3) /\ Rejectable = Gen(3)
             /\ ConstOK

IndInit == /\ table \in Tables /\ h \in Int
           /\ rate \in [Insts -> Int] /\ bound \in [Insts -> Int]
           /\ IndInv

\* ArithNested with the bound quantifier Skolemised
ArithNestedAt ==
  \A i \in Started : (Answer(i).keep /\ 0 <= M0 /\ M0 <= rate[i]) => Keep(h, M0, H)
\* TypeOK's set-valued conjuncts as predicates (0..H with a symbolic H is not a finite set for Apalache)
TypeOKPred == /\ table \in Tables /\ 0 <= h /\ h <= H
              /\ \A i \in Insts : (rate[i] = -1 \/ \E N \in Rates : rate[i] = Stored(N))
              /\ \A i \in Insts : -1 <= bound[i] /\ bound[i] <= H
SafetyBasicPred == TypeOKPred /\ BoundIsThreshold /\ KeepIsThreshold /\ RateLE1KeepsAll /\ InstancesAgree

\* non-vacuity probes (a counterexample is expected): both kinds, a 64-bit hash space, a refusable profile
ProbeDet == ~(Kind = "det" /\ H = 18446744073709551615 /\ \E i \in Started : rate[i] > 1000 /\ Answer(i).keep /\ h > 1000)
ProbeStress == ~(Kind = "stress" /\ H = 18446744073709551615 /\ Rejectable # {} /\ \E i \in Started : rate[i] > 1000 /\ ~Answer(i).keep)
=============================================================================
