"""C15 Stress relief switches with hysteresis on a bounded stress level."""

_ALTS = [("strict-closed", "sc"), ("strict-open", "so"), ("nonstrict-closed", "nc"), ("nonstrict-open", "no")]


def _alts(stage, variants=(("", ""),)):
    # the unchanged code conforms to the first alternative; the others only run when that one diverges
    return [dict(name=vn + n, cfg={"quick": f"MC_StressRelief_{stage}_q_{vs}{s}.cfg", "thorough": f"MC_StressRelief_{stage}_t_{vs}{s}.cfg"})
            for vn, vs in variants for n, s in _ALTS]


PROP = dict(
    level="model_checking",
    technique="TLA+ spec StressRelief.tla model-checked by TLC (level formula, bound, hysteresis and mode pinning as invariants/action properties); "
              "every generated transition replayed into the real collect.StressRelief under a fake clock and Stressed()/stress_level compared (spec->code transition tour)",
    design_ref="DESIGN.md §5 C15",
    level_text="TLC explores every order of reading changes, peer reports (incl. a report from the node itself and expiry at the exact timeout), clock advances, "
               "recalculations and reloads of mode/thresholds/MinimumActivationDuration within the bound and checks on the model: level = max(own, floor RMS of unexpired nonzero reports incl. own) "
               "and 0..100; monitor: off->on iff level >= ActivationLevel, on->off only if level < DeactivationLevel and MinimumActivationDuration elapsed since the level was last at or above it; "
               "never/always pin the flag at every recalculation. Each generated transition is executed on the real StressRelief (Recalc, UpdateFromConfig and the pubsub callback called directly, "
               "metrics readings inverted through the sqrt/sigmoid weightings) and Stressed() plus the stress_level gauge must equal the model's.",
    level_note="Exhaustive only within the bound (1 peer x full state machine with reloads; 2 peers x aggregation in monitor mode; levels from {0,40,75,100}, thresholds 76/40 and 100/76 placed on reachable levels; "
               "timeout 1-2 ticks; MinimumActivationDuration 0-2 ticks). Boundary conventions the statement leaves open (hold ends at now > or >= deadline; a report aged exactly the timeout) "
               "and, for a reload that falls into a hold, whether the stored deadline or the last at-or-above instant with the new duration governs, are alternatives (the code must conform to one combination throughout). Readings adopted: the node's own report takes part in the RMS as in the code; ActivationLevel > DeactivationLevel as the config documents; "
               "never/always are judged after each recalculation (a reload takes effect at the next Recalc). The background goroutine/ticker and the publishing side are not driven. "
               "Known deviation hold-not-rearmed (stale stayOnUntil after always->monitor or after MinimumActivationDuration was raised) is reported as KNOWN-FINDING.",
    assumptions=["clockwork.FakeClock is faithful", "peer levels within 0..100", "ActivationLevel > DeactivationLevel",
                 "bounded: <=2 peers, levels {0,40,75,100}, timeout and hold <=2 ticks"],
    stages=[
        dict(kind="walk", name="hold", module="StressRelief", pkg="collect", test="TestVerifStressRelief",
             harness=["collect/c15_stressrelief_test.go"], alternatives=_alts("hold", (("deadline-", ""), ("instant-", "i"))),
             budget={"quick": 25, "thorough": 150}),
        dict(kind="walk", name="cluster", module="StressRelief", pkg="collect", test="TestVerifStressRelief",
             harness=["collect/c15_stressrelief_test.go"], alternatives=_alts("cluster"),
             budget={"quick": 15, "thorough": 120}),
        dict(kind="tlc", name="ideal", module="StressRelief",
             cfg={"quick": None, "thorough": "MC_StressRelief_ideal_t.cfg"}, workers=8),
    ],
)
