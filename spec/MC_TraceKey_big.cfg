SPECIFICATION Spec
CONSTANTS
  DataFields = {"a", "b"}
  Vals = {"s:x", "f:2.5", "s:p,q"}
  DelimVals = {"s:p,q"}
  MaxSpans = 2
  CfgNames = {"a", "ab", "ra", "a_rb", "a_ra", "ab_ra", "ra_rb"}
  Samplers = {"dynamic", "emadynamic", "emathroughput", "windowedthroughput", "totalthroughput"}
  GhostFields = {"z"}
  ProvValSet = {"s:x", "f:2.5"}
  ProvMaxSpans = 2
  ProvCfgNames = {"ab", "a_rb", "a_ra"}
  ProvUTL = {FALSE}
  ProvMix = "all"
INVARIANTS TypeOK NFSound PermutationInvariant DuplicationInvariant IrrelevantCellsInvariant PairsDistinct PayloadSound ProvenanceInvariant AnyProvenanceInvariant OutConsistent
CHECK_DEADLOCK FALSE
ACTION_CONSTRAINT Dump
VIEW View
